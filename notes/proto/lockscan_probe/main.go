// lockscan probe: entry-lockset inference for the idioms of aperturerobotics/util.
// Design probe only (see DESIGN.md C13 / Appendix C); not the framework.
package main

import (
	"fmt"
	"go/ast"
	"go/token"
	"go/types"
	"os"
	"sort"
	"strings"

	"golang.org/x/tools/go/packages"
)

type set map[string]bool

func (s set) clone() set { r := set{}; for k := range s { r[k] = true }; return r }
func (s set) keys() []string { r := []string{}; for k := range s { r = append(r, k) }; sort.Strings(r); return r }
func inter(a, b set) set { r := set{}; for k := range a { if b[k] { r[k] = true } }; return r }
func union(a, b set) set { r := a.clone(); for k := range b { r[k] = true }; return r }

type access struct {
	loc   string
	write bool
	pos   token.Position
	held  set
	fn    *node
}
type call struct {
	callee *node
	held   set
	pos    token.Position
}
type node struct {
	name   string
	root   bool
	constr bool // runs before the object is published
	assume set  // documented entry lockset for callbacks (checked elsewhere)
	accs   []*access
	calls  []call
	entry  set // nil = top
}

type scanner struct {
	pkg      *packages.Package
	fset     *token.FileSet
	nodes    []*node
	byObj    map[types.Object]*node // funcs, methods, closure variables
	pkgPaths map[string]bool
	shared   map[*types.Var]bool // captured locals
}

func short(p string) string { i := strings.LastIndex(p, "/"); return p[i+1:] }

func isSyncType(t types.Type) bool {
	s := t.String()
	return strings.HasPrefix(s, "sync.") || strings.HasPrefix(s, "sync/atomic.") || strings.HasSuffix(s, "broadcast.Broadcast") || strings.HasPrefix(s, "chan ") || strings.HasPrefix(s, "<-chan")
}
func isLockType(t types.Type) bool {
	s := t.String()
	return s == "sync.Mutex" || s == "sync.RWMutex" || strings.HasSuffix(s, "broadcast.Broadcast")
}

// lockClass names the lock denoted by expr (a selector ending in a lock field, or a local lock variable).
func (sc *scanner) lockClass(e ast.Expr, fn string) string {
	switch x := e.(type) {
	case *ast.SelectorExpr:
		if sel := sc.pkg.TypesInfo.Selections[x]; sel != nil && sel.Kind() == types.FieldVal && isLockType(sel.Obj().Type()) {
			return ownerName(sel.Recv()) + "." + sel.Obj().Name()
		}
	case *ast.Ident:
		if v, ok := sc.pkg.TypesInfo.Uses[x].(*types.Var); ok && isLockType(v.Type()) {
			return fn + "#" + v.Name()
		}
	case *ast.UnaryExpr:
		return sc.lockClass(x.X, fn)
	}
	return ""
}

func ownerName(t types.Type) string {
	for {
		if p, ok := t.(*types.Pointer); ok { t = p.Elem(); continue }
		break
	}
	if n, ok := t.(*types.Named); ok {
		return short(n.Obj().Pkg().Path()) + "." + n.Obj().Name()
	}
	return t.String()
}

type walker struct {
	sc      *scanner
	cur     *node
	outer   string            // name of the enclosing top-level function (for local lock classes / captured vars)
	locals  map[*types.Var]bool // variables declared in the current FuncLit/func (not captured)
	topVars map[*types.Var]bool // variables declared anywhere in the enclosing top-level function
}

func (w *walker) record(loc string, write bool, pos token.Pos, held set) {
	w.cur.accs = append(w.cur.accs, &access{loc: loc, write: write, pos: w.sc.fset.Position(pos), held: held.clone(), fn: w.cur})
}

// expr walks an expression recording accesses; write marks the outermost location as written.
func (w *walker) expr(e ast.Expr, held set, write bool) {
	switch x := e.(type) {
	case nil:
	case *ast.SelectorExpr:
		if sel := w.sc.pkg.TypesInfo.Selections[x]; sel != nil && sel.Kind() == types.FieldVal {
			f := sel.Obj().(*types.Var)
			if f.Pkg() != nil && w.sc.pkgPaths[f.Pkg().Path()] && !isSyncType(f.Type()) {
				w.record(ownerName(sel.Recv())+"."+f.Name(), write, x.Sel.Pos(), held)
			}
		}
		w.expr(x.X, held, false)
	case *ast.Ident:
		if v, ok := w.sc.pkg.TypesInfo.Uses[x].(*types.Var); ok && w.topVars[v] && !isSyncType(v.Type()) && !v.IsField() {
			w.record(w.outer+"#"+v.Name(), write, x.Pos(), held)
		}
	case *ast.IndexExpr:
		w.expr(x.X, held, write) // m[k] = v writes the map held in x.X
		w.expr(x.Index, held, false)
	case *ast.StarExpr:
		w.expr(x.X, held, false)
	case *ast.ParenExpr:
		w.expr(x.X, held, write)
	case *ast.UnaryExpr:
		w.expr(x.X, held, false)
	case *ast.BinaryExpr:
		w.expr(x.X, held, false); w.expr(x.Y, held, false)
	case *ast.KeyValueExpr:
		w.expr(x.Value, held, false)
	case *ast.CompositeLit:
		for _, el := range x.Elts { w.expr(el, held, false) }
	case *ast.SliceExpr:
		w.expr(x.X, held, false); w.expr(x.Low, held, false); w.expr(x.High, held, false)
	case *ast.TypeAssertExpr:
		w.expr(x.X, held, false)
	case *ast.FuncLit:
		w.funcLit(x, held, "lit", false)
	case *ast.CallExpr:
		w.call(x, held)
	}
}

// funcLit creates a node for a literal that is NOT run inline.
func (w *walker) funcLit(fl *ast.FuncLit, held set, why string, root bool) *node {
	n := &node{name: fmt.Sprintf("%s$%s@%d", w.outer, why, w.sc.fset.Position(fl.Pos()).Line), root: root}
	w.sc.nodes = append(w.sc.nodes, n)
	sub := &walker{sc: w.sc, cur: n, outer: w.outer, topVars: w.topVars}
	sub.stmts(fl.Body.List, set{})
	return n
}

var holdLockMethods = map[string]bool{"HoldLock": true, "TryHoldLock": true, "HoldLockMaybeAsync": true, "Wait": true}

func (w *walker) call(c *ast.CallExpr, held set) {
	// X.HoldLock(func...) : run the literal inline under the lock
	if se, ok := c.Fun.(*ast.SelectorExpr); ok && holdLockMethods[se.Sel.Name] {
		if cls := w.sc.lockClass(se.X, w.outer); cls != "" {
			for _, a := range c.Args {
				if fl, ok := a.(*ast.FuncLit); ok {
					h := held.clone(); h[cls] = true
					w.stmts(fl.Body.List, h)
				} else {
					w.expr(a, held, false)
				}
			}
			return
		}
	}
	// builtins that write their first argument
	if id, ok := c.Fun.(*ast.Ident); ok && (id.Name == "delete") && len(c.Args) > 0 {
		w.expr(c.Args[0], held, true)
		for _, a := range c.Args[1:] { w.expr(a, held, false) }
		return
	}
	// call edges
	var obj types.Object
	switch f := c.Fun.(type) {
	case *ast.Ident:
		obj = w.sc.pkg.TypesInfo.Uses[f]
	case *ast.SelectorExpr:
		obj = w.sc.pkg.TypesInfo.Uses[f.Sel]
		w.expr(f.X, held, false)
	case *ast.FuncLit: // func(){...}() : inline
		w.stmts(f.Body.List, held)
	default:
		w.expr(c.Fun, held, false)
	}
	if obj != nil {
		if fn, ok := obj.(*types.Func); ok { if o := fn.Origin(); o != nil { obj = o } }
		if n := w.sc.byObj[obj]; n != nil {
			w.cur.calls = append(w.cur.calls, call{callee: n, held: held.clone(), pos: w.sc.fset.Position(c.Pos())})
		}
	}
	for _, a := range c.Args {
		if fl, ok := a.(*ast.FuncLit); ok {
			// closure handed to someone else: unknown caller => root, unless annotated
			n := w.funcLit(fl, held, "arg", true)
			if se, ok := c.Fun.(*ast.SelectorExpr); ok {
				switch se.Sel.Name {
				case "AddRef": // documented: reference callbacks run under RefCount.mtx (checked at the .cb( call sites)
					n.root, n.assume = false, set{"refcount.RefCount.mtx": true}
				}
			}
			if id, ok := c.Fun.(*ast.Ident); ok && id.Name == "newOption" { n.root, n.constr = false, true }
		} else {
			w.expr(a, held, false)
		}
	}
}

func (w *walker) stmts(list []ast.Stmt, held set) set {
	held = held.clone()
	for _, s := range list { held = w.stmt(s, held) }
	return held
}

func lockCall(sc *scanner, e ast.Expr, outer string) (cls, method string) {
	c, ok := e.(*ast.CallExpr); if !ok { return }
	se, ok := c.Fun.(*ast.SelectorExpr); if !ok { return }
	switch se.Sel.Name { case "Lock", "RLock", "Unlock", "RUnlock", "TryLock": default: return }
	return sc.lockClass(se.X, outer), se.Sel.Name
}

func (w *walker) stmt(s ast.Stmt, held set) set {
	switch x := s.(type) {
	case *ast.ExprStmt:
		if cls, m := lockCall(w.sc, x.X, w.outer); cls != "" {
			if m == "Lock" || m == "RLock" { held = held.clone(); held[cls] = true } else if m == "Unlock" || m == "RUnlock" { held = held.clone(); delete(held, cls) }
			return held
		}
		w.expr(x.X, held, false)
	case *ast.DeferStmt:
		if cls, m := lockCall(w.sc, x.Call, w.outer); cls != "" && (m == "Unlock" || m == "RUnlock") {
			held = held.clone(); held[cls] = true // defer-unlock implies held from here to return
			return held
		}
		if fl, ok := x.Call.Fun.(*ast.FuncLit); ok { w.stmts(fl.Body.List, held) } else { w.call(x.Call, held) }
	case *ast.GoStmt:
		if fl, ok := x.Call.Fun.(*ast.FuncLit); ok {
			w.funcLit(fl, set{}, "go", true)
		} else {
			// go f(args): f runs with no locks
			saved := w.cur
			g := &node{name: fmt.Sprintf("%s$gostmt@%d", w.outer, w.sc.fset.Position(x.Pos()).Line), root: true}
			w.sc.nodes = append(w.sc.nodes, g)
			w.cur = g; w.call(x.Call, set{}); w.cur = saved
		}
	case *ast.AssignStmt:
		for i, l := range x.Lhs {
			// closure bound to a local name: a callable node
			if i < len(x.Rhs) {
				if fl, ok := x.Rhs[i].(*ast.FuncLit); ok {
					if id, ok := l.(*ast.Ident); ok {
						n := w.funcLit(fl, held, "var:"+id.Name, false)
						if o := w.sc.pkg.TypesInfo.Defs[id]; o != nil { w.sc.byObj[o] = n } else if o := w.sc.pkg.TypesInfo.Uses[id]; o != nil { w.sc.byObj[o] = n }
						continue
					}
				}
			}
			if x.Tok == token.DEFINE { if _, ok := l.(*ast.Ident); ok { continue } }
			w.expr(l, held, true)
		}
		for i, r := range x.Rhs {
			if _, ok := r.(*ast.FuncLit); ok && i < len(x.Lhs) { if _, ok := x.Lhs[i].(*ast.Ident); ok { continue } }
			w.expr(r, held, false)
		}
	case *ast.IncDecStmt:
		w.expr(x.X, held, true)
	case *ast.ReturnStmt:
		for _, r := range x.Results {
			if id, ok := r.(*ast.Ident); ok { if n := w.sc.byObj[w.sc.pkg.TypesInfo.Uses[id]]; n != nil { n.root = true } }
			if fl, ok := r.(*ast.FuncLit); ok { w.funcLit(fl, held, "ret", true) } else { w.expr(r, held, false) }
		}
	case *ast.IfStmt:
		if x.Init != nil { held = w.stmt(x.Init, held) }
		if cls, m := lockCall(w.sc, x.Cond, w.outer); cls != "" && m == "TryLock" {
			h := held.clone(); h[cls] = true
			w.stmts(x.Body.List, h)
		} else if u, ok := x.Cond.(*ast.UnaryExpr); ok && u.Op == token.NOT {
			if cls, m := lockCall(w.sc, u.X, w.outer); cls != "" && m == "TryLock" {
				w.stmts(x.Body.List, held) // failed: returns
				held = held.clone(); held[cls] = true
				return held
			}
			w.expr(x.Cond, held, false); w.stmts(x.Body.List, held)
		} else {
			w.expr(x.Cond, held, false); w.stmts(x.Body.List, held)
		}
		if x.Else != nil { w.stmt(x.Else, held) }
	case *ast.BlockStmt:
		w.stmts(x.List, held)
	case *ast.ForStmt:
		if x.Init != nil { w.stmt(x.Init, held) }
		w.expr(x.Cond, held, false); if x.Post != nil { w.stmt(x.Post, held) }
		w.stmts(x.Body.List, held)
	case *ast.RangeStmt:
		w.expr(x.X, held, false); w.stmts(x.Body.List, held)
	case *ast.SelectStmt:
		for _, c := range x.Body.List { cc := c.(*ast.CommClause); if cc.Comm != nil { w.stmt(cc.Comm, held) }; w.stmts(cc.Body, held) }
	case *ast.SwitchStmt:
		if x.Init != nil { w.stmt(x.Init, held) }
		w.expr(x.Tag, held, false)
		for _, c := range x.Body.List { w.stmts(c.(*ast.CaseClause).Body, held) }
	case *ast.DeclStmt:
		if gd, ok := x.Decl.(*ast.GenDecl); ok { for _, sp := range gd.Specs { if vs, ok := sp.(*ast.ValueSpec); ok { for _, v := range vs.Values { w.expr(v, held, false) } } } }
	case *ast.SendStmt:
		w.expr(x.Value, held, false)
	}
	return held
}

func main() {
	dirs := os.Args[1:]
	cfg := &packages.Config{Mode: packages.NeedName | packages.NeedSyntax | packages.NeedTypes | packages.NeedTypesInfo | packages.NeedFiles | packages.NeedImports | packages.NeedDeps, Dir: "/repo"}
	pkgs, err := packages.Load(cfg, dirs...)
	if err != nil { panic(err) }
	paths := map[string]bool{}
	for _, p := range pkgs { paths[p.PkgPath] = true }
	type locinfo struct{ accs []*access }
	for _, p := range pkgs {
		sc := &scanner{pkg: p, fset: p.Fset, byObj: map[types.Object]*node{}, pkgPaths: paths}
		// pass 1: nodes for declared functions
		type job struct{ fd *ast.FuncDecl; n *node }
		var jobs []job
		for _, f := range p.Syntax {
			for _, d := range f.Decls {
				fd, ok := d.(*ast.FuncDecl); if !ok || fd.Body == nil { continue }
				obj := p.TypesInfo.Defs[fd.Name]
				n := &node{name: short(p.PkgPath) + "." + fd.Name.Name, root: fd.Name.IsExported()}
				if strings.HasPrefix(fd.Name.Name, "New") || strings.HasPrefix(fd.Name.Name, "new") { n.constr = true }
				sc.byObj[obj] = n; sc.nodes = append(sc.nodes, n); jobs = append(jobs, job{fd, n})
			}
		}
		// pass 2: walk bodies
		for _, j := range jobs {
			top := map[*types.Var]bool{}
			// captured-variable candidates: variables declared in this function and used inside some FuncLit
			declared := map[*types.Var]bool{}
			ast.Inspect(j.fd, func(nd ast.Node) bool { if id, ok := nd.(*ast.Ident); ok { if v, ok := p.TypesInfo.Defs[id].(*types.Var); ok && !v.IsField() { declared[v] = true } }; return true })
			// literals run inline (argument of HoldLock & co, or called/deferred on the spot) do not escape
			inline := map[*ast.FuncLit]bool{}
			ast.Inspect(j.fd.Body, func(nd ast.Node) bool {
				if c, ok := nd.(*ast.CallExpr); ok {
					if fl, ok := c.Fun.(*ast.FuncLit); ok { inline[fl] = true }
					if se, ok := c.Fun.(*ast.SelectorExpr); ok && holdLockMethods[se.Sel.Name] && sc.lockClass(se.X, j.n.name) != "" {
						for _, a := range c.Args { if fl, ok := a.(*ast.FuncLit); ok { inline[fl] = true } }
					}
				}
				if g, ok := nd.(*ast.GoStmt); ok { if fl, ok := g.Call.Fun.(*ast.FuncLit); ok { delete(inline, fl); _ = fl } }
				return true
			})
			ast.Inspect(j.fd.Body, func(nd ast.Node) bool {
				if g, ok := nd.(*ast.GoStmt); ok { if fl, ok := g.Call.Fun.(*ast.FuncLit); ok { inline[fl] = false } }
				return true
			})
			ast.Inspect(j.fd.Body, func(nd ast.Node) bool {
				if fl, ok := nd.(*ast.FuncLit); ok && !inline[fl] {
					ast.Inspect(fl.Body, func(m ast.Node) bool { if id, ok := m.(*ast.Ident); ok { if v, ok := p.TypesInfo.Uses[id].(*types.Var); ok && declared[v] && !(fl.Pos() <= v.Pos() && v.Pos() <= fl.End()) { top[v] = true } }; return true })
				}
				return true
			})
			w := &walker{sc: sc, cur: j.n, outer: j.n.name, topVars: top}
			w.stmts(j.fd.Body.List, set{})
		}
		// entry locksets: greatest fixpoint
		for _, n := range sc.nodes { if n.root || n.constr { n.entry = set{} } else if n.assume != nil { n.entry = n.assume } }
		for changed := true; changed; {
			changed = false
			for _, n := range sc.nodes {
				if n.entry == nil { continue }
				for _, c := range n.calls {
					if c.callee.root || c.callee.assume != nil { continue }
					in := union(n.entry, c.held)
					if c.callee.constr && !n.constr { continue }
					if c.callee.entry == nil { c.callee.entry = in; changed = true } else if x := inter(c.callee.entry, in); len(x) != len(c.callee.entry) { c.callee.entry = x; changed = true }
				}
			}
		}
		locs := map[string]*locinfo{}
		for _, n := range sc.nodes {
			for _, a := range n.accs {
				li := locs[a.loc]; if li == nil { li = &locinfo{}; locs[a.loc] = li }
				li.accs = append(li.accs, a)
			}
		}
		names := []string{}; for k := range locs { names = append(names, k) }; sort.Strings(names)
		fmt.Printf("== %s: %d functions/closures, %d locations\n", p.PkgPath, len(sc.nodes), len(names))
		for _, name := range names {
			var common set; writes := 0; shared := 0
			for _, a := range locs[name].accs {
				if a.fn.constr { continue }
				if a.fn.entry == nil { continue } // unreachable from any root
				shared++
				eff := union(a.fn.entry, a.held)
				if a.write { writes++ }
				if common == nil { common = eff } else { common = inter(common, eff) }
			}
			status := "guarded by " + strings.Join(common.keys(), ",")
			if shared == 0 { status = "construction-only" } else if writes == 0 { status = "immutable after construction" } else if len(common) == 0 { status = "VIOLATION: no common lock" }
			fmt.Printf("  %-46s %s\n", name, status)
			if strings.HasPrefix(status, "VIOLATION") {
				for _, a := range locs[name].accs {
					if a.fn.constr || a.fn.entry == nil { continue }
					eff := union(a.fn.entry, a.held)
					if len(eff) == 0 { rw := "read"; if a.write { rw = "write" }; fmt.Printf("      unprotected %s at %s:%d in %s\n", rw, short(a.pos.Filename), a.pos.Line, a.fn.name) }
				}
			}
		}
	}
}
