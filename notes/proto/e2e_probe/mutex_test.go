//go:build verif

// e2e probe: implementation-driven random gate-level histories for csync.Mutex. Not the framework.
package probe

import (
	"bufio"
	"context"
	"flag"
	"fmt"
	"math/rand/v2"
	"os"
	"runtime"
	"strconv"
	"strings"
	"sync"
	"testing"
	"testing/synctest"

	"github.com/aperturerobotics/util/broadcast"
	"github.com/aperturerobotics/util/csync"
)

var (
	outFile = flag.String("out", "hist.txt", "history output")
	nHist   = flag.Int("n", 200, "number of histories")
	seed    = flag.Uint64("seed", 1, "seed")
	mutate  = flag.Bool("mutate", false, "harness-side mutation: pretend double release is allowed (sanity)")
)

func gid() int {
	var buf [64]byte
	n := runtime.Stack(buf[:], false)
	f := strings.Fields(string(buf[:n]))
	id, _ := strconv.Atoi(f[1])
	return id
}

const (
	atGate = 1
	blocked = 2
	retOK = 3
	retCanceled = 4
	retFalse = 5
	retDone = 6
)

type actor struct {
	gate    chan struct{}
	parked  bool // at a library gate
	done    bool
	code    int // final code when done
	cancel  context.CancelFunc
	release func()
	kind    byte // 'L','T','R'
}

type ctl struct {
	mu    sync.Mutex
	byGid map[int]*actor
	acts  []*actor
}

func (c *ctl) hook(site int, obj any) {
	if site != 0 {
		return
	}
	c.mu.Lock()
	a := c.byGid[gid()]
	c.mu.Unlock()
	if a == nil {
		return
	}
	a.parked = true
	<-a.gate
	a.parked = false
}

func (c *ctl) spawn(kind byte, f func(a *actor)) *actor {
	a := &actor{gate: make(chan struct{}), kind: kind}
	c.acts = append(c.acts, a)
	go func() {
		c.mu.Lock()
		c.byGid[gid()] = a
		c.mu.Unlock()
		f(a)
		a.done = true
	}()
	synctest.Wait()
	return a
}

func (c *ctl) status() []int {
	out := make([]int, len(c.acts))
	for i, a := range c.acts {
		switch {
		case a.done:
			out[i] = a.code
		case a.parked:
			out[i] = atGate
		default:
			out[i] = blocked
		}
	}
	return out
}

func ints(xs []int) string {
	s := make([]string, len(xs))
	for i, x := range xs {
		s[i] = strconv.Itoa(x)
	}
	return strings.Join(s, " ")
}

func TestMutexHistories(t *testing.T) {
	f, err := os.Create(*outFile)
	if err != nil {
		t.Fatal(err)
	}
	defer f.Close()
	w := bufio.NewWriter(f)
	defer w.Flush()
	kinds := map[string]int{}
	for h := 0; h < *nHist; h++ {
		rng := rand.New(rand.NewPCG(*seed, uint64(h)))
		fmt.Fprintf(w, "H %d\n", h)
		synctest.Test(t, func(t *testing.T) {
			c := &ctl{byGid: map[int]*actor{}}
			broadcast.VerifHook = c.hook
			defer func() { broadcast.VerifHook = nil }()
			var m csync.Mutex
			steps := 10 + rng.IntN(50)
			emit := func(ev []int) {
				fmt.Fprintf(w, "E %s\nO %s\n", ints(ev), ints(c.status()))
			}
			redraws := 0
			for s := 0; s < steps; s++ {
				// candidate events the implementation allows now
				var gates, cancellable, granted []int
				for i, a := range c.acts {
					if !a.done && a.parked {
						gates = append(gates, i)
					}
					if a.kind == 'L' && !a.done && a.cancel != nil {
						cancellable = append(cancellable, i)
					}
					if a.done && a.code == retOK {
						granted = append(granted, i)
					}
				}
				r := rng.IntN(100)
				switch {
				case r < 18 && len(c.acts) < 12:
					ctx, cancel := context.WithCancel(context.Background())
					var me *actor
					me = c.spawn('L', func(a *actor) {
						rel, err := m.Lock(ctx)
						if err != nil {
							a.code = retCanceled
						} else {
							a.code, a.release = retOK, rel
						}
					})
					me.cancel = cancel
					kinds["lock"]++
					emit([]int{1})
				case r < 24 && len(c.acts) < 12:
					c.spawn('T', func(a *actor) {
						rel, ok := m.TryLock()
						if ok {
							a.code, a.release = retOK, rel
						} else {
							a.code = retFalse
						}
					})
					kinds["try"]++
					emit([]int{2})
				case r < 70 && len(gates) > 0:
					i := gates[rng.IntN(len(gates))]
					c.acts[i].gate <- struct{}{}
					synctest.Wait()
					kinds["step"]++
					emit([]int{3, i})
				case r < 80 && len(cancellable) > 0:
					i := cancellable[rng.IntN(len(cancellable))]
					c.acts[i].cancel()
					synctest.Wait()
					kinds["cancel"]++
					emit([]int{4, i})
				case r < 100 && len(granted) > 0 && len(c.acts) < 14:
					i := granted[rng.IntN(len(granted))]
					rel := c.acts[i].release
					c.spawn('R', func(a *actor) { rel(); a.code = retDone })
					kinds["release"]++
					emit([]int{5, i})
				default:
					s-- // nothing applicable; redraw
					redraws++
					if redraws > 200 {
						s = steps
					}
				}
			}
			// teardown: cancel everything, release everything, drain
			for round := 0; round < 100; round++ {
				progress := false
				for _, a := range c.acts {
					if a.cancel != nil {
						a.cancel()
					}
				}
				synctest.Wait()
				for _, a := range c.acts {
					if !a.done && a.parked {
						a.gate <- struct{}{}
						synctest.Wait()
						progress = true
					}
				}
				for _, a := range c.acts {
					if a.done && a.release != nil {
						rel := a.release
						a.release = nil
						c.spawn('R', func(a *actor) { rel(); a.code = retDone })
						progress = true
					}
				}
				if !progress {
					break
				}
			}
		})
	}
	t.Logf("event kinds: %v", kinds)
}
