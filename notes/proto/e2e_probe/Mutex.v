(* e2e probe: gate-level model of csync.Mutex + codec + run_check. Not the framework. *)
From Coq Require Import List Arith NArith Lia Bool PeanoNat.
Import ListNotations.

Fixpoint set_nth {A} (l:list A) (k:nat) (v:A) : list A :=
  match l, k with [], _ => [] | _ :: t, 0 => v :: t | h :: t, S k' => h :: set_nth t k' v end.

Record bc := { cur : option nat; nxt : nat }.
Definition getch (b:bc) : bc * nat := match cur b with Some c => (b,c) | None => ({|cur:=Some (nxt b); nxt:=S (nxt b)|}, nxt b) end.
Definition bcast (b:bc) : bc := {| cur := None; nxt := nxt b |}.
Definition closed (b:bc) (c:nat) : bool := Nat.ltb c (nxt b) && negb (match cur b with Some c' => Nat.eqb c c' | None => false end).

(* actor kinds and program counters *)
Inductive pc :=
| LGate (cancelled:bool)                 (* Lock: parked before a HoldLock section (first or re-check) *)
| LBlocked (ch:nat)                      (* Lock: in select, ctx live *)
| LRetOk (status:nat)                    (* Lock returned release func; status word 1 or 2 *)
| LRetCanceled
| TGate | TRetTrue (unlocked:bool) | TRetFalse
| RGate | RDone.                         (* a release() call: parked before its unlocking section / returned *)

Record st := { b : bc; locked : bool; acts : list pc }.
Inductive ev := CallLock | CallTry | Step (a:nat) | Cancel (a:nat) | Release (a:nat).

Definition init : st := {| b := {| cur := None; nxt := 0 |}; locked := false; acts := [] |}.

(* eager wake-ups: every blocked Lock call whose channel is closed moves to its re-check gate *)
Definition settle (s:st) : st :=
  {| b := b s; locked := locked s;
     acts := map (fun p => match p with LBlocked ch => if closed (b s) ch then LGate false else p | _ => p end) (acts s) |}.

Definition step (s:st) (e:ev) : option st :=
  match e with
  | CallLock => Some {| b := b s; locked := locked s; acts := acts s ++ [LGate false] |}
  | CallTry => Some {| b := b s; locked := locked s; acts := acts s ++ [TGate] |}
  | Step a =>
    match nth_error (acts s) a with
    | Some (LGate cancelled) =>
      if locked s then
        let '(b', ch) := getch (b s) in
        Some {| b := b'; locked := true; acts := set_nth (acts s) a (if cancelled then LRetCanceled else LBlocked ch) |}
      else Some {| b := b s; locked := true; acts := set_nth (acts s) a (LRetOk 1) |}
    | Some TGate =>
      if locked s then Some {| b := b s; locked := true; acts := set_nth (acts s) a TRetFalse |}
      else Some {| b := b s; locked := true; acts := set_nth (acts s) a (TRetTrue false) |}
    | Some RGate => Some (settle {| b := bcast (b s); locked := false; acts := set_nth (acts s) a RDone |})
    | _ => None
    end
  | Cancel a =>
    match nth_error (acts s) a with
    | Some (LGate _) => Some {| b := b s; locked := locked s; acts := set_nth (acts s) a (LGate true) |}
    | Some (LBlocked _) => Some {| b := b s; locked := locked s; acts := set_nth (acts s) a LRetCanceled |}
    | Some _ => Some s
    | None => None
    end
  | Release a =>   (* a new actor calls the release function obtained by actor a *)
    match nth_error (acts s) a with
    | Some (LRetOk status) =>
      Some {| b := b s; locked := locked s; acts := set_nth (acts s) a (LRetOk 2) ++ [if Nat.eqb status 1 then RGate else RDone] |}
    | Some (TRetTrue unlocked) =>
      Some {| b := b s; locked := locked s; acts := set_nth (acts s) a (TRetTrue true) ++ [if unlocked then RDone else RGate] |}
    | _ => None
    end
  end.

(* observation: status code of every actor *)
Definition code (p:pc) : N :=
  match p with
  | LGate _ | TGate | RGate => 1 | LBlocked _ => 2 | LRetOk _ | TRetTrue _ => 3 | LRetCanceled => 4 | TRetFalse => 5 | RDone => 6
  end%N.
Definition obs (s:st) : list N := map code (acts s).

Definition decode (l:list N) : option ev :=
  match l with
  | [1] => Some CallLock | [2] => Some CallTry
  | [3; a] => Some (Step (N.to_nat a)) | [4; a] => Some (Cancel (N.to_nat a)) | [5; a] => Some (Release (N.to_nat a))
  | _ => None
  end%N.

(* ---- property predicates on an observed trace (events + status vectors) ---- *)
(* holders: actors with code 3 whose release has not been entered; tracked from the events *)
Fixpoint count_true (l:list bool) : nat := match l with [] => 0 | x :: t => (if x then 1 else 0) + count_true t end.
Fixpoint list_eqb (a b:list N) : bool := match a, b with [], [] => true | x::a', y::b' => N.eqb x y && list_eqb a' b' | _, _ => false end.

Inductive verdict := Agree | BadEvent (i:nat) | Mismatch (i:nat) (expected got:list N) | PropFalse (pid:nat) (i:nat).

(* released : which actors' grants have had release entered at least once *)
Definition holders (o:list N) (released:list nat) : nat :=
  count_true (map (fun '(i,c) => N.eqb c 3 && negb (existsb (Nat.eqb i) released)) (combine (seq 0 (length o)) o)).
Definition quiescent (o:list N) : bool := negb (existsb (N.eqb 1) o).
Definition blocked_any (o:list N) : bool := existsb (N.eqb 2) o.

Fixpoint check (i:nat) (s:st) (released:list nat) (evs obss:list (list N)) : verdict :=
  match evs, obss with
  | [], _ => Agree
  | e :: evs', o :: obss' =>
    match decode e with
    | None => BadEvent i
    | Some ev =>
      match step s ev with
      | None => BadEvent i
      | Some s' =>
        let released' := match ev with Release a => a :: released | _ => released end in
        if negb (list_eqb (obs s') o) then Mismatch i (obs s') o
        else if Nat.ltb 1 (holders o released') then PropFalse 1 i            (* C01: at most one holder *)
        else if quiescent o && Nat.eqb (holders o released') 0 && blocked_any o then PropFalse 2 i  (* C02 *)
        else check (S i) s' released' evs' obss'
      end
    end
  | _ :: _, [] => BadEvent i
  end.
Definition run_check (evs obss:list (list N)) : verdict := check 0 init [] evs obss.

Require Import Extraction ExtrOcamlBasic.
Extraction "mutex_model.ml" run_check.
