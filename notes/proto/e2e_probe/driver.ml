(* generic integer-trace driver (probe) *)
open Mutex_model
let rec pos_of_int n = if n = 1 then XH else if n land 1 = 0 then XO (pos_of_int (n lsr 1)) else XI (pos_of_int (n lsr 1))
let n_of_int n = if n = 0 then N0 else Npos (pos_of_int n)
let rec int_of_pos = function XH -> 1 | XO p -> 2 * int_of_pos p | XI p -> 2 * int_of_pos p + 1
let int_of_n = function N0 -> 0 | Npos p -> int_of_pos p
let rec int_of_nat = function O -> 0 | S n -> 1 + int_of_nat n
let ints s = List.filter_map (fun x -> if x = "" then None else Some (n_of_int (int_of_string x))) (String.split_on_char ' ' s)
let show l = String.concat " " (List.map (fun x -> string_of_int (int_of_n x)) l)
let () =
  let ic = open_in Sys.argv.(1) in
  let evs = ref [] and obs = ref [] and id = ref "" and n = ref 0 and bad = ref 0 in
  let flush () =
    if !id <> "" then begin
      incr n;
      (match run_check (List.rev !evs) (List.rev !obs) with
       | Agree -> Printf.printf "%s AGREE\n" !id
       | BadEvent i -> incr bad; Printf.printf "%s BADEVENT step=%d\n" !id (int_of_nat i)
       | Mismatch (i, e, g) -> incr bad; Printf.printf "%s MISMATCH step=%d expected=[%s] got=[%s]\n" !id (int_of_nat i) (show e) (show g)
       | PropFalse (p, i) -> incr bad; Printf.printf "%s PROPFALSE prop=%d step=%d\n" !id (int_of_nat p) (int_of_nat i));
      evs := []; obs := []
    end in
  (try while true do
    let l = input_line ic in
    if String.length l > 0 then
      match l.[0] with
      | 'H' -> flush (); id := l
      | 'E' -> evs := ints (String.sub l 1 (String.length l - 1)) :: !evs
      | 'O' -> obs := ints (String.sub l 1 (String.length l - 1)) :: !obs
      | _ -> ()
  done with End_of_file -> flush ());
  Printf.printf "TOTAL %d histories, %d not agreeing\n" !n !bad
