(* Probe: lockset discipline implies happens-before ordering of conflicting accesses. *)
From Coq Require Import List Arith Lia Bool PeanoNat.
Import ListNotations.

Inductive ev := Acq (t l : nat) | Rel (t l : nat) | Acc (t x : nat) (w : bool).
Definition tid (e:ev) : nat := match e with Acq t _ | Rel t _ | Acc t _ _ => t end.

Definition lockst := nat -> option nat.
Definition upd (o:lockst) (e:ev) : lockst :=
  match e with
  | Acq t l => fun k => if Nat.eqb k l then Some t else o k
  | Rel t l => fun k => if Nat.eqb k l then None else o k
  | Acc _ _ _ => o
  end.
Definition ok (o:lockst) (e:ev) : Prop :=
  match e with Acq t l => o l = None | Rel t l => o l = Some t | Acc _ _ _ => True end.

Definition init : lockst := fun _ => None.
Definition state_at (tr:list ev) (i:nat) : lockst := fold_left upd (firstn i tr) init.
(* well-formed: every lock operation is allowed in the state it executes in (mutual exclusion) *)
Definition wf (tr:list ev) : Prop := forall i e, nth_error tr i = Some e -> ok (state_at tr i) e.

Lemma opt_dec (a b : option nat) : {a = b} + {a <> b}.
Proof. decide equality. apply Nat.eq_dec. Qed.

Inductive hb (tr:list ev) : nat -> nat -> Prop :=
| hb_po i j e1 e2 : i < j -> nth_error tr i = Some e1 -> nth_error tr j = Some e2 -> tid e1 = tid e2 -> hb tr i j
| hb_sw i j t1 t2 l : i < j -> nth_error tr i = Some (Rel t1 l) -> nth_error tr j = Some (Acq t2 l) -> hb tr i j
| hb_trans i j k : hb tr i j -> hb tr j k -> hb tr i k.

Lemma firstn_S_nth A (l:list A) i x : nth_error l i = Some x -> firstn (S i) l = firstn i l ++ [x].
Proof. revert i; induction l as [|a l IH]; intros [|i] H; simpl in *; try discriminate.
  - inversion H; reflexivity. - f_equal. apply IH; auto. Qed.
Lemma state_S tr i e : nth_error tr i = Some e -> state_at tr (S i) = upd (state_at tr i) e.
Proof. intros H. unfold state_at. rewrite (firstn_S_nth _ _ _ _ H), fold_left_app. reflexivity. Qed.

(* if t1 owns l at i and no longer owns it at j >= i, t1 released l somewhere in [i, j) *)
Lemma released_between tr l t1 i j : wf tr -> j <= length tr -> i <= j ->
  state_at tr i l = Some t1 -> state_at tr j l <> Some t1 ->
  exists m, i <= m < j /\ nth_error tr m = Some (Rel t1 l).
Proof.
  intros W. induction j as [|j IH]; intros Lj Le Si Sj.
  - assert (i = 0) by lia. subst. congruence.
  - destruct (Nat.eq_dec i (S j)) as [->|N]; [congruence|].
    destruct (nth_error tr j) as [e|] eqn:E; [|apply nth_error_None in E; lia].
    rewrite (state_S _ _ _ E) in Sj.
    destruct (opt_dec (state_at tr j l) (Some t1)) as [Q|Q].
    + (* the event at j took l away from t1 *)
      pose proof (W _ _ E) as OK. destruct e as [t l'|t l'|t x w]; simpl in Sj, OK.
      * destruct (Nat.eqb_spec l l') as [->|]; [congruence|contradiction].
      * destruct (Nat.eqb_spec l l') as [->|]; [|contradiction]. exists j. split; [lia|]. congruence.
      * contradiction.
    + destruct (IH ltac:(lia) ltac:(lia) Si Q) as (m & Hm & Em). exists m. split; [lia|auto].
Qed.

(* if t2 does not own l at i and owns it at j >= i, t2 acquired l somewhere in [i, j) *)
Lemma acquired_between tr l t2 i j : wf tr -> j <= length tr -> i <= j ->
  state_at tr i l <> Some t2 -> state_at tr j l = Some t2 ->
  exists k, i <= k < j /\ nth_error tr k = Some (Acq t2 l).
Proof.
  intros W. induction j as [|j IH]; intros Lj Le Si Sj.
  - assert (i = 0) by lia. subst. congruence.
  - destruct (Nat.eq_dec i (S j)) as [->|N]; [congruence|].
    destruct (nth_error tr j) as [e|] eqn:E; [|apply nth_error_None in E; lia].
    rewrite (state_S _ _ _ E) in Sj.
    destruct (opt_dec (state_at tr j l) (Some t2)) as [Q|Q].
    + destruct (IH ltac:(lia) ltac:(lia) Si Q) as (k & Hk & Ek). exists k. split; [lia|auto].
    + destruct e as [t l'|t l'|t x w]; simpl in Sj.
      * destruct (Nat.eqb_spec l l') as [->|]; [|contradiction]. exists j. split; [lia|]. congruence.
      * destruct (Nat.eqb_spec l l') as [->|]; [discriminate|contradiction].
      * contradiction.
Qed.

(* Lockset soundness: two accesses that both hold lock l are ordered by happens-before *)
Theorem lockset_sound tr l i j t1 t2 x1 x2 w1 w2 :
  wf tr -> i < j ->
  nth_error tr i = Some (Acc t1 x1 w1) -> nth_error tr j = Some (Acc t2 x2 w2) ->
  state_at tr i l = Some t1 -> state_at tr j l = Some t2 ->
  hb tr i j.
Proof.
  intros W Lt Ei Ej Si Sj.
  destruct (Nat.eq_dec t1 t2) as [->|NE]; [eapply hb_po; eauto|].
  assert (Lj: j <= length tr) by (apply Nat.lt_le_incl, nth_error_Some; congruence).
  assert (Sj': state_at tr j l <> Some t1) by congruence.
  destruct (released_between tr l t1 i j W Lj ltac:(lia) Si Sj') as (m & Hm & Em).
  assert (i <> m) by (intros ->; congruence).
  assert (Sm: state_at tr (S m) l <> Some t2).
  { rewrite (state_S _ _ _ Em). simpl. rewrite Nat.eqb_refl. discriminate. }
  destruct (acquired_between tr l t2 (S m) j W Lj ltac:(lia) Sm Sj) as (k & Hk & Ek).
  eapply hb_trans; [eapply (hb_po tr i m); eauto; lia|].
  eapply hb_trans; [eapply (hb_sw tr m k); eauto; lia|].
  eapply (hb_po tr k j); eauto; lia.
Qed.

(* table-level corollary: if every access to x holds g(x), any two accesses to x by any threads are hb-ordered *)
Definition guarded (tr:list ev) (x l:nat) : Prop :=
  forall i t w, nth_error tr i = Some (Acc t x w) -> state_at tr i l = Some t.
Corollary guarded_race_free tr x l : wf tr -> guarded tr x l ->
  forall i j t1 t2 w1 w2, i <> j -> nth_error tr i = Some (Acc t1 x w1) -> nth_error tr j = Some (Acc t2 x w2) -> hb tr i j \/ hb tr j i.
Proof. intros W G i j t1 t2 w1 w2 NE Ei Ej. destruct (Nat.lt_ge_cases i j).
  - left. eapply lockset_sound; eauto.
  - right. eapply lockset_sound; eauto. lia. Qed.
Print Assumptions guarded_race_free.
