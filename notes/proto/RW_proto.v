From Coq Require Import List Arith Lia Bool PeanoNat.
Import ListNotations.
Set Implicit Arguments.

Section ListMap.
Variable A : Type.
Fixpoint set_nth (l:list A) (k:nat) (v:A) : list A :=
  match l, k with
  | [], _ => []
  | _ :: t, 0 => v :: t
  | h :: t, S k' => h :: set_nth t k' v
  end.
Variable P : A -> bool.
Definition cnt (l:list A) : nat := length (filter P l).
Definition b2n (x:bool) : nat := if x then 1 else 0.
Lemma cnt_cons a l : cnt (a::l) = b2n (P a) + cnt l.
Proof. unfold cnt. simpl. destruct (P a); reflexivity. Qed.
Lemma cnt_app l1 l2 : cnt (l1 ++ l2) = cnt l1 + cnt l2.
Proof. unfold cnt. rewrite filter_app, app_length. reflexivity. Qed.
Lemma cnt_set_nth l k v d : k < length l -> cnt (set_nth l k v) + b2n (P (nth k l d)) = cnt l + b2n (P v).
Proof. revert k. induction l as [|h t IH]; intros k Hk; simpl in *; [lia|].
  destruct k; simpl; rewrite !cnt_cons; [lia|]. specialize (IH k ltac:(lia)). lia. Qed.
Lemma nth_set_nth_same l k v d : k < length l -> nth k (set_nth l k v) d = v.
Proof. revert k; induction l; intros [|k] H; simpl in *; try lia; auto. apply IHl; lia. Qed.
Lemma nth_set_nth_other l k v d x : x <> k -> nth x (set_nth l k v) d = nth x l d.
Proof. revert k x; induction l; intros [|k] [|x] H; simpl in *; try lia; auto. Qed.
Lemma length_set_nth l k v : length (set_nth l k v) = length l.
Proof. revert k; induction l; intros [|k]; simpl; auto. Qed.
End ListMap.

Record bc := { cur : option nat; nxt : nat }.
Definition getch (b:bc) : bc * nat := match cur b with Some c => (b,c) | None => ({|cur:=Some (nxt b); nxt:=S (nxt b)|}, nxt b) end.
Definition bcast (b:bc) : bc := {| cur := None; nxt := nxt b |}.
Definition closed (b:bc) (c:nat) : bool := Nat.ltb c (nxt b) && negb (match cur b with Some c' => Nat.eqb c c' | None => false end).

Inductive pc := Start (w:bool) | Wait (w:bool) (ch:nat) | Woken (w:bool) | Held (w:bool) | RelPend (w:bool) (had:bool) | Cancelled | Done.
Record st := { b : bc; nreaders : nat; writing : bool; ww : nat; calls : list pc }.
Inductive ev := Call (w:bool) | StepSect (c:nat) | Wake (c:nat) | CancelWake (c:nat) | Release (c:nat) | RelSect (c:nat).

Definition grantW (s:st) := Nat.eqb (nreaders s) 0 && negb (writing s).
Definition grantR (s:st) := negb (writing s) && Nat.eqb (ww s) 0.
Definition setc (s:st) c p := set_nth (calls s) c p.
Definition getc (s:st) c := nth_error (calls s) c.

Definition step (s:st) (e:ev) : st :=
  match e with
  | Call w => {| b:=b s; nreaders:=nreaders s; writing:=writing s; ww:=ww s; calls:=calls s ++ [Start w] |}
  | StepSect c =>
    match getc s c with
    | Some (Start true) =>
      if grantW s then {| b:=b s; nreaders:=nreaders s; writing:=true; ww:=ww s; calls:=setc s c (Held true) |}
      else let '(b',ch) := getch (b s) in {| b:=b'; nreaders:=nreaders s; writing:=writing s; ww:= S (ww s); calls:=setc s c (Wait true ch) |}
    | Some (Start false) | Some (Woken false) =>
      if grantR s then {| b:=b s; nreaders:=S (nreaders s); writing:=writing s; ww:=ww s; calls:=setc s c (Held false) |}
      else let '(b',ch) := getch (b s) in {| b:=b'; nreaders:=nreaders s; writing:=writing s; ww:= ww s; calls:=setc s c (Wait false ch) |}
    | Some (Woken true) =>
      if grantW s then {| b:=b s; nreaders:=nreaders s; writing:=true; ww:=pred (ww s); calls:=setc s c (Held true) |}
      else let '(b',ch) := getch (b s) in {| b:=b'; nreaders:=nreaders s; writing:=writing s; ww:=ww s; calls:=setc s c (Wait true ch) |}
    | _ => s end
  | Wake c => match getc s c with Some (Wait w ch) => if closed (b s) ch then {| b:=b s; nreaders:=nreaders s; writing:=writing s; ww:=ww s; calls:=setc s c (Woken w) |} else s | _ => s end
  | CancelWake c => match getc s c with Some (Wait w ch) => {| b:=b s; nreaders:=nreaders s; writing:=writing s; ww:=ww s; calls:=setc s c (RelPend w false) |} | _ => s end
  | Release c => match getc s c with Some (Held w) => {| b:=b s; nreaders:=nreaders s; writing:=writing s; ww:=ww s; calls:=setc s c (RelPend w true) |} | _ => s end
  | RelSect c => match getc s c with
     | Some (RelPend w false) => {| b:= (if w then bcast (b s) else b s); nreaders:=nreaders s; writing:=writing s; ww:=if w then pred (ww s) else ww s; calls:=setc s c Cancelled |}
     | Some (RelPend true true) => {| b:= bcast (b s); nreaders:=nreaders s; writing:=false; ww:=ww s; calls:=setc s c Done |}
     | Some (RelPend false true) => {| b:= bcast (b s); nreaders:=pred (nreaders s); writing:=writing s; ww:=ww s; calls:=setc s c Done |}
     | _ => s end
  end.

Definition init : st := {| b := {|cur:=None;nxt:=0|}; nreaders:=0; writing:=false; ww:=0; calls := [] |}.
Definition run (es:list ev) : st := fold_left step es init.

Definition holdsR (p:pc) := match p with Held false | RelPend false true => true | _ => false end.
Definition holdsW (p:pc) := match p with Held true | RelPend true true => true | _ => false end.
Definition waitsW (p:pc) := match p with Wait true _ | Woken true | RelPend true false => true | _ => false end.

Definition Inv (s:st) : Prop :=
  nreaders s = cnt holdsR (calls s) /\ b2n (writing s) = cnt holdsW (calls s) /\ ww s = cnt waitsW (calls s)
  /\ (writing s = true -> nreaders s = 0).

Lemma getc_nth s c p : getc s c = Some p -> c < length (calls s) /\ nth c (calls s) Done = p.
Proof. unfold getc. intros H. split. apply nth_error_Some; congruence. now apply nth_error_nth. Qed.


Ltac facts s c newp Hl Hn :=
  let CR := fresh "CR" in let CW := fresh "CW" in let CWW := fresh "CWW" in
  pose proof (cnt_set_nth holdsR (calls s) newp Done Hl) as CR;
  pose proof (cnt_set_nth holdsW (calls s) newp Done Hl) as CW;
  pose proof (cnt_set_nth waitsW (calls s) newp Done Hl) as CWW;
  rewrite Hn in CR, CW, CWW; cbn in CR, CW, CWW.

Ltac fin := unfold Inv, setc; cbn [nreaders writing ww calls b]; unfold b2n in *; repeat split; intros; try lia; try congruence; auto.

Lemma step_inv s e : Inv s -> Inv (step s e).
Proof.
  intros (HR & HW & HWW & HX). destruct e as [w|c|c|c|c|c]; cbn [step].
  - unfold Inv; cbn [nreaders writing ww calls b]. rewrite !cnt_app. unfold cnt at 2 4 6. destruct w; cbn; repeat split; try lia; auto.
  - destruct (getc s c) as [p|] eqn:G; [|fin].
    destruct (getc_nth _ _ G) as [Hl Hn].
    destruct p as [[|]| | [|] | | | |]; try (fin; fail); unfold grantW, grantR;
    destruct (Nat.eqb_spec (nreaders s) 0), (Nat.eqb_spec (ww s) 0), (writing s) eqn:EW; cbn [andb negb];
    try destruct (getch (b s)) as [b' ch];
    match goal with |- Inv {| calls := setc _ _ ?p |} => facts s c p Hl Hn end; cbn in HW; fin.
  - destruct (getc s c) as [p|] eqn:G; [|fin]. destruct (getc_nth _ _ G) as [Hl Hn].
    destruct p; try (fin; fail). destruct (closed (b s) ch); [|fin].
    match goal with |- Inv {| calls := setc _ _ ?p |} => facts s c p Hl Hn end; destruct w; cbn in *; fin.
  - destruct (getc s c) as [p|] eqn:G; [|fin]. destruct (getc_nth _ _ G) as [Hl Hn].
    destruct p; try (fin; fail).
    match goal with |- Inv {| calls := setc _ _ ?p |} => facts s c p Hl Hn end; destruct w; cbn in *; fin.
  - destruct (getc s c) as [p|] eqn:G; [|fin]. destruct (getc_nth _ _ G) as [Hl Hn].
    destruct p; try (fin; fail).
    match goal with |- Inv {| calls := setc _ _ ?p |} => facts s c p Hl Hn end; destruct w; cbn in *; fin.
  - destruct (getc s c) as [p|] eqn:G; [|fin]. destruct (getc_nth _ _ G) as [Hl Hn].
    destruct p as [| | | |[|] [|]| |]; try (fin; fail);
    match goal with |- Inv {| calls := setc _ _ ?p |} => facts s c p Hl Hn end; destruct (writing s) eqn:EW; cbn in *; fin.
Qed.

Theorem run_inv es : Inv (run es).
Proof. unfold run. assert (H: Inv init) by (unfold Inv, init; cbn; auto).
  revert H. generalize init. induction es; cbn; intros; auto using step_inv. Qed.

(* exclusion at API level: internal holders over-approximate API holders *)
Theorem exclusion es : let s := run es in cnt holdsW (calls s) <= 1 /\ (cnt holdsW (calls s) = 1 -> cnt holdsR (calls s) = 0).
Proof. cbn. destruct (run_inv es) as (HR & HW & HWW & HX). destruct (writing (run es)) eqn:E; cbn in HW; split; try lia; intros; rewrite <- HR; auto; try lia. Qed.
Print Assumptions exclusion.
