From Coq Require Import List Arith Lia Bool PeanoNat.
Import ListNotations.
Set Implicit Arguments.

(* Instances chained by exit channels. Channel of instance i is i itself. *)
Inductive phase := Waiting | InUser | Left | Closed.
Record inst := { waitOn : option nat (* index of the instance whose exit channel we wait on *); ph : phase }.
Definition st := list inst.

Fixpoint set_nth {A} (l:list A) (k:nat) (v:A) : list A :=
  match l, k with [], _ => [] | _ :: t, 0 => v :: t | h :: t, S k' => h :: set_nth t k' v end.
Lemma nth_error_set_nth_same A (l:list A) k v : k < length l -> nth_error (set_nth l k v) k = Some v.
Proof. revert k; induction l; intros [|k] H; simpl in *; try lia; auto. apply IHl; lia. Qed.
Lemma nth_error_set_nth_other A (l:list A) k v x : x <> k -> nth_error (set_nth l k v) x = nth_error l x.
Proof. revert k x; induction l; intros [|k] [|x] H; simpl in *; try lia; auto. Qed.
Lemma length_set_nth A (l:list A) k v : length (set_nth l k v) = length l.
Proof. revert k; induction l; intros [|k]; simpl; auto. Qed.

Definition closedb (s:st) (c:nat) : bool := match nth_error s c with Some i => match ph i with Closed => true | _ => false end | None => false end.
Definition over (p:phase) : bool := match p with Left | Closed => true | _ => false end.

(* events; [fixed] selects the repaired code: a cancelled waiter must still wait before closing *)
Inductive ev :=
| Spawn                      (* new instance waits on the last spawned one (if any) *)
| Enter (i:nat)              (* waitOn closed or none -> user code *)
| Skip (i:nat)               (* cancelled while waiting: never enters user code *)
| Leave (i:nat)              (* user function returns *)
| Close (i:nat).             (* close own exit channel *)

Definition wait_ok (s:st) (i:inst) : bool := match waitOn i with None => true | Some c => closedb s c end.

Definition step (fixed:bool) (s:st) (e:ev) : st :=
  match e with
  | Spawn => s ++ [{| waitOn := match length s with 0 => None | S n => Some n end; ph := Waiting |}]
  | Enter i => match nth_error s i with Some x => match ph x with Waiting => if wait_ok s x then set_nth s i {| waitOn := waitOn x; ph := InUser |} else s | _ => s end | None => s end
  | Skip i => match nth_error s i with Some x => match ph x with Waiting => set_nth s i {| waitOn := waitOn x; ph := Left |} | _ => s end | None => s end
  | Leave i => match nth_error s i with Some x => match ph x with InUser => set_nth s i {| waitOn := waitOn x; ph := Left |} | _ => s end | None => s end
  | Close i => match nth_error s i with Some x => match ph x with Left => if (negb fixed || wait_ok s x) then set_nth s i {| waitOn := waitOn x; ph := Closed |} else s | _ => s end | None => s end
  end.

Definition run fixed es := fold_left (step fixed) es [].

(* invariant for the repaired code *)
Definition Inv (s:st) : Prop :=
  (forall i x, nth_error s i = Some x -> waitOn x = match i with 0 => None | S n => Some n end) /\
  (forall i x, nth_error s i = Some x -> ph x = Closed -> forall j y, j <= i -> nth_error s j = Some y -> over (ph y) = true) /\
  (forall i x, nth_error s i = Some x -> ph x = InUser -> forall j y, j < i -> nth_error s j = Some y -> over (ph y) = true).

Lemma closedb_spec s c : closedb s c = true <-> exists x, nth_error s c = Some x /\ ph x = Closed.
Proof. unfold closedb. destruct (nth_error s c) as [x|]; [destruct (ph x) eqn:E|]; split; intros H; try discriminate; eauto;
  try (destruct H as (y & Hy & Hp); inversion Hy; subst; congruence). Qed.

Ltac nth_cases s i j := destruct (Nat.eq_dec j i) as [->|?];
  [rewrite nth_error_set_nth_same by (apply nth_error_Some; congruence) | rewrite nth_error_set_nth_other by auto].

Lemma step_inv s e : Inv s -> Inv (step true s e).
Proof.
  intros (H1 & H2 & H3). destruct e as [|i|i|i|i]; cbn [step].
  - (* Spawn *) repeat split.
    + intros i x Hn. destruct (Nat.lt_ge_cases i (length s)).
      * rewrite nth_error_app1 in Hn by auto. eauto.
      * rewrite nth_error_app2 in Hn by auto. destruct (i - length s) eqn:E; simpl in Hn; [|destruct n; discriminate].
        inversion Hn; subst; simpl. assert (i = length s) by lia. subst. destruct (length s); reflexivity.
    + intros i x Hn Hc j y Hj Hy. destruct (Nat.lt_ge_cases i (length s)).
      * rewrite nth_error_app1 in Hn by auto. rewrite nth_error_app1 in Hy by lia. eauto.
      * rewrite nth_error_app2 in Hn by auto. destruct (i - length s) eqn:E; simpl in Hn; [|destruct n; discriminate]. inversion Hn; subst; discriminate.
    + intros i x Hn Hc j y Hj Hy. destruct (Nat.lt_ge_cases i (length s)).
      * rewrite nth_error_app1 in Hn by auto. rewrite nth_error_app1 in Hy by lia. eauto.
      * rewrite nth_error_app2 in Hn by auto. destruct (i - length s) eqn:E; simpl in Hn; [|destruct n; discriminate]. inversion Hn; subst; discriminate.
  - (* Enter *) destruct (nth_error s i) as [x|] eqn:G; [|repeat split; auto]. destruct (ph x) eqn:P; try (repeat split; auto; fail).
    destruct (wait_ok s x) eqn:W; [|repeat split; auto].
    assert (Hprev: forall j y, j < i -> nth_error s j = Some y -> over (ph y) = true).
    { intros j y Hj Hy. unfold wait_ok in W. rewrite (H1 _ _ G) in W. destruct i; [lia|].
      apply closedb_spec in W. destruct W as (z & Hz & Pz). eapply (H2 _ _ Hz Pz j y); auto; lia. }
    repeat split.
    + intros j y. nth_cases s i j; intros Hy; [inversion Hy; subst; simpl; eauto | eauto].
    + intros j y. nth_cases s i j; intros Hy Hc; [inversion Hy; subst; discriminate|].
      intros k z Hk. nth_cases s i k; intros Hz.
      * inversion Hz; subst. exfalso. specialize (H2 _ _ Hy Hc i x ltac:(lia) G). rewrite P in H2. discriminate.
      * eauto.
    + intros j y. nth_cases s i j; intros Hy Hc.
      * intros k z Hk. rewrite nth_error_set_nth_other by lia. eauto.
      * intros k z Hk. nth_cases s i k; intros Hz.
        -- inversion Hz; subst. exfalso. specialize (H3 _ _ Hy Hc i x ltac:(lia) G). rewrite P in H3. discriminate.
        -- eauto.
  - (* Skip *) destruct (nth_error s i) as [x|] eqn:G; [|repeat split; auto]. destruct (ph x) eqn:P; try (repeat split; auto; fail).
    repeat split.
    + intros j y. nth_cases s i j; intros Hy; [inversion Hy; subst; simpl; eauto | eauto].
    + intros j y. nth_cases s i j; intros Hy Hc; [inversion Hy; subst; discriminate|].
      intros k z Hk. nth_cases s i k; intros Hz; [inversion Hz; subst; reflexivity | eauto].
    + intros j y. nth_cases s i j; intros Hy Hc; [inversion Hy; subst; discriminate|].
      intros k z Hk. nth_cases s i k; intros Hz; [inversion Hz; subst; reflexivity | eauto].
  - (* Leave *) destruct (nth_error s i) as [x|] eqn:G; [|repeat split; auto]. destruct (ph x) eqn:P; try (repeat split; auto; fail).
    repeat split.
    + intros j y. nth_cases s i j; intros Hy; [inversion Hy; subst; simpl; eauto | eauto].
    + intros j y. nth_cases s i j; intros Hy Hc; [inversion Hy; subst; discriminate|].
      intros k z Hk. nth_cases s i k; intros Hz; [inversion Hz; subst; reflexivity | eauto].
    + intros j y. nth_cases s i j; intros Hy Hc; [inversion Hy; subst; discriminate|].
      intros k z Hk. nth_cases s i k; intros Hz; [inversion Hz; subst; reflexivity | eauto].
  - (* Close *) destruct (nth_error s i) as [x|] eqn:G; [|repeat split; auto]. destruct (ph x) eqn:P; try (repeat split; auto; fail).
    cbn [negb orb]. destruct (wait_ok s x) eqn:W; [|repeat split; auto].
    assert (Hprev: forall j y, j < i -> nth_error s j = Some y -> over (ph y) = true).
    { intros j y Hj Hy. unfold wait_ok in W. rewrite (H1 _ _ G) in W. destruct i; [lia|].
      apply closedb_spec in W. destruct W as (z & Hz & Pz). eapply (H2 _ _ Hz Pz j y); auto; lia. }
    repeat split.
    + intros j y. nth_cases s i j; intros Hy; [inversion Hy; subst; simpl; eauto | eauto].
    + intros j y. nth_cases s i j; intros Hy Hc.
      * intros k z Hk. nth_cases s i k; intros Hz; [inversion Hz; subst; reflexivity | eapply Hprev; eauto; lia].
      * intros k z Hk. nth_cases s i k; intros Hz; [inversion Hz; subst; reflexivity | eauto].
    + intros j y. nth_cases s i j; intros Hy Hc; [inversion Hy; subst; discriminate|].
      intros k z Hk. nth_cases s i k; intros Hz; [inversion Hz; subst; reflexivity | eauto].
Qed.

Lemma run_inv es : Inv (run true es).
Proof. unfold run. assert (H: Inv []) by (repeat split; intros [|?] ? H; discriminate).
  revert H. generalize (@nil inst). induction es; cbn; intros; auto using step_inv. Qed.

(* at most one instance in user code, for every schedule, any number of instances *)
Theorem at_most_one_in_user es i j x y :
  nth_error (run true es) i = Some x -> nth_error (run true es) j = Some y -> ph x = InUser -> ph y = InUser -> i = j.
Proof. intros Hx Hy Px Py. destruct (run_inv es) as (_ & _ & H3).
  destruct (Nat.lt_trichotomy i j) as [L|[E|L]]; auto; exfalso.
  - specialize (H3 _ _ Hy Py _ _ L Hx). rewrite Px in H3. discriminate.
  - specialize (H3 _ _ Hx Px _ _ L Hy). rewrite Py in H3. discriminate. Qed.

(* the pinned code (a cancelled waiter closes at once) is refuted *)
Definition two_in_user (s:st) : bool := Nat.leb 2 (length (filter (fun x => match ph x with InUser => true | _ => false end) s)).
Theorem unfixed_refuted : exists es, two_in_user (run false es) = true.
Proof. exists [Spawn; Enter 0; Spawn; Skip 1; Close 1; Spawn; Enter 2]. vm_compute. reflexivity. Qed.
Print Assumptions at_most_one_in_user.
