// Free-running correspondence for ccontainer.CContainer (C15): writers and waiters run truly in parallel on the real
// scheduler; the oracles are what the model is proved to satisfy for every schedule (Props_C15: the cell is linearizable,
// no update of a SwapValue callback is lost, a waiter returns a value the cell held and never stays blocked while the
// cell satisfies its condition).  Exit status 5 on a violation; -out receives a one-line description.
//
// The element type is four machine words wide and every value ever stored has four equal fields, so a value that was
// read while a writer was half-way (a read outside the critical section) shows as a value the cell never held.
package ccontainerx

import (
	"context"
	"flag"
	"fmt"
	"os"
	"runtime"
	"sync"
	"sync/atomic"
	"testing"
	"time"

	"github.com/aperturerobotics/util/ccontainer"
	"verif/harness/hist"
)

var freeMS = flag.Int("free_ms", 4000, "duration of the free-running run in milliseconds")

type wide struct{ a, b, c, d int64 }

func (w wide) ok() bool { return w.a == w.b && w.b == w.c && w.c == w.d }

func TestCContainerFree(t *testing.T) {
	dur := time.Duration(*freeMS) * time.Millisecond
	start := time.Now()
	var bad atomic.Value
	fail := func(msg string) { bad.CompareAndSwap(nil, msg) }
	rounds, swaps, waits := 0, 0, 0
	for time.Since(start) < dur && bad.Load() == nil {
		rounds++
		c := ccontainer.NewCContainer(wide{})
		const nw, per, nwait = 4, 200, 4
		total := int64(nw * per)
		ctx, cancel := context.WithCancel(context.Background())
		var wg, wwg sync.WaitGroup
		// waiters: each waits for the counter to reach a threshold
		for i := 0; i < nwait; i++ {
			thr := total * int64(i+1) / nwait
			wwg.Add(1)
			go func() {
				defer wwg.Done()
				v, err := c.WaitValueWithValidator(ctx, func(v wide) (bool, error) {
					if !v.ok() {
						fail(fmt.Sprintf("a validator was handed %v, a value the cell never held", v))
					}
					return v.a >= thr, nil
				}, nil)
				if err != nil {
					fail(fmt.Sprintf("a waiter for counter >= %d returned %v although its context was not cancelled while the condition came true", thr, err))
					return
				}
				if !v.ok() || v.a < thr || v.a > total {
					fail(fmt.Sprintf("a waiter for counter >= %d returned %v (the cell only ever held four equal fields between 0 and %d)", thr, v, total))
				}
			}()
		}
		// readers
		stopR := make(chan struct{})
		for i := 0; i < 2; i++ {
			wg.Add(1)
			go func() {
				defer wg.Done()
				last := int64(0)
				for {
					select {
					case <-stopR:
						return
					default:
					}
					v := c.GetValue()
					if !v.ok() || v.a < last {
						fail(fmt.Sprintf("GetValue returned %v after %d (values are four equal fields and only grow)", v, last))
						return
					}
					last = v.a
					runtime.Gosched()
				}
			}()
		}
		// writers: increments through SwapValue; none may be lost
		var wr sync.WaitGroup
		for i := 0; i < nw; i++ {
			wr.Add(1)
			go func() {
				defer wr.Done()
				for k := 0; k < per; k++ {
					c.SwapValue(func(v wide) wide {
						if !v.ok() {
							fail(fmt.Sprintf("a SwapValue callback was handed %v", v))
						}
						return wide{v.a + 1, v.b + 1, v.c + 1, v.d + 1}
					})
				}
			}()
		}
		wr.Wait()
		close(stopR)
		wg.Wait()
		if v := c.GetValue(); v != (wide{total, total, total, total}) {
			fail(fmt.Sprintf("after %d increments through SwapValue the cell holds %v: an update was lost", total, v))
		}
		// every waiter's condition holds now: they return
		done := make(chan struct{})
		go func() { wwg.Wait(); close(done) }()
		select {
		case <-done:
		case <-time.After(5 * time.Second):
			fail("a waiter stays blocked although the cell satisfies its condition")
		}
		cancel()
		swaps += int(total)
		waits += nwait
	}
	w, err := hist.Open("ccontainer")
	if err == nil {
		w.Count("free.rounds", rounds)
		w.Count("free.swapvalue_increments", swaps)
		w.Count("free.waiters", waits)
		if bad.Load() != nil {
			w.Count("free.violation", 1)
		}
		w.Close()
	}
	if bad.Load() == nil {
		return
	}
	msg := bad.Load().(string)
	if fo, err := os.OpenFile(*hist.OutFile, os.O_WRONLY|os.O_TRUNC|os.O_CREATE, 0o644); err == nil {
		fmt.Fprintf(fo, "# free-running run on ccontainer (real scheduler, seed %d): %s\n", *hist.Seed, msg)
		fo.Close()
	}
	fmt.Fprintf(os.Stderr, "FREE-VIOLATION %s\n", msg)
	os.Exit(5)
}
