// Scheduled correspondence harness for ccontainer.CContainer (C15).
//
// Config:  [eqcode v0]   eqcode 0 no custom equality, 1 equal mod 2, 2 always equal, 3 a <= b, 4 equal div 4,
//
//	5 never equal and 6 a < b (comparators that are NOT REFLEXIVE: the library's compare still
//	treats identical values as equal), 7 a container built with ccontainer.NewCContainerVT over
//	*msg (EqualVT compares an id; the numbers of the history are the ids, 0 = nil; every value
//	handed to the container is freshly allocated, so equal but not identical pointers occur).
//	Both element types are driven through the same adapter (cell), so the event interpreter
//	below is the same for both.
//
// Events:  [1] GetValue (every third event 1 is instead a SwapValue whose callback panics and whose caller recovers: the
//
//	    cell must be unchanged and unlocked afterwards, and the value handed to the callback is the value read)
//	[2 v] SetValue(v)   [3 f k] SwapValue(cb) cb: 0 nil, 1 +k, 2 const k, 3 identity
//	[4 kind x y hc] waiter: kind 0 WaitValue, 1 WaitValueChange(old=x), 2 WaitValueEmpty,
//	                3 WaitValueWithValidator(family x, parameter y; every second validator also calls
//	                  GetValue on the same container, which a callback run outside the lock may do);
//	                hc = e + 2*f + 6*p: e=1 with an error channel; f the flavour of its context (hctx): 0 plain
//	                WithCancel, 1 ends like a deadline (Err() == context.DeadlineExceeded), 2 cancelled with a
//	                cause (Err() == context.Canceled, Cause == hctx.ErrCause); p=1 the context has already
//	                ended when the call is made
//	(each of the above runs in a new actor, which parks at the HoldLock entry gate)
//	[5 i] actor i continues from the gate it is parked at
//	[6 i] the context of waiter i ends (as its flavour says)      [7 i m] error channel of waiter i: 0 send nil, 1 send error, 2 close
//	[8 init hc] ccontainer.WatchChanges(ctx, init, ccontainer.ToWatchable(ctr), cb, errCh) in a new actor ("watcher";
//	                events 5, 6, 7 apply to it as to a waiter, 6 and 7 also while it is inside its callback; hc
//	                as in event 4).  The
//	                callback is harness-owned: it parks and returns what event 9 prescribes.
//	[9 i r] the callback of watcher i returns: 0 nil, 1 an error
//
// Observation after every event: one number per actor, status + 16*value
//
//	1 at a HoldLock entry gate, 7 at the exit gate of the sampling section (waiters only), 2 blocked in select,
//	3 returned ok, 4 returned context.Canceled, 5 returned the error channel's error, 6 returned the validator's
//	error, 8 returned some other error, 9 panicked, 10 inside the WatchChanges callback (value = its argument),
//	11 WatchChanges returned the callback's error, 12 WatchChanges returned nil,
//	13 returned context.DeadlineExceeded, 14 returned hctx.ErrCause (the cancellation cause)
//
// Go's select picks at random among ready cases, so the harness never lets two cases of one waiter be ready:
// a waiter parks at the exit gate only if neither its context is cancelled nor its error channel has something
// pending, cancel / error-channel events are refused for a waiter parked at the exit gate, and a waiter never has
// a cancelled context and a pending error-channel item at the same time.
package ccontainerx

import (
	"context"
	"errors"
	"fmt"
	"math/rand/v2"
	"testing"
	"testing/synctest"

	"github.com/aperturerobotics/util/broadcast"
	"github.com/aperturerobotics/util/ccontainer"
	"verif/harness/ctl"
	"verif/harness/hctx"
	"verif/harness/hist"
)

const (
	kGet   = 1
	kSet   = 2
	kSwap  = 3
	kWait  = 4
	kWatch = 8

	errCap = 8
)

var (
	errSent  = errors.New("verif: error channel error")
	errValid = errors.New("verif: validator error")
	errCb    = errors.New("verif: callback error")
)

// msg is the element type of the NewCContainerVT container (cfg eqcode 7): a pointer type with an EqualVT method
// (proto.EqualVT[*msg]); nil is the empty value.
type msg struct{ id uint64 }

func (m *msg) EqualVT(o *msg) bool {
	if m == nil || o == nil {
		return m == o
	}
	return m.id == o.id
}

// cell is what the event interpreter drives: a container of numbers.  gcell adapts a CContainer[T].
type cell interface {
	GetValue() uint64
	SetValue(v uint64)
	SwapValue(cb func(uint64) uint64) uint64
	WaitValue(ctx context.Context, errCh <-chan error) (uint64, error)
	WaitValueChange(ctx context.Context, old uint64, errCh <-chan error) (uint64, error)
	WaitValueEmpty(ctx context.Context, errCh <-chan error) error
	WaitValueWithValidator(ctx context.Context, valid func(uint64) (bool, error), errCh <-chan error) (uint64, error)
	WatchChanges(ctx context.Context, initial uint64, cb func(uint64) error, errCh <-chan error) error
}

type gcell[T comparable] struct {
	ctr   *ccontainer.CContainer[T]
	to    func(uint64) T // a value of T for the number (freshly allocated for pointer types)
	from  func(T) uint64
	nswap int // SwapValue calls so far
}

func (g *gcell[T]) GetValue() uint64  { return g.from(g.ctr.GetValue()) }
func (g *gcell[T]) SetValue(v uint64) { g.ctr.SetValue(g.to(v)) }
func (g *gcell[T]) SwapValue(cb func(uint64) uint64) uint64 {
	if cb == nil {
		return g.from(g.ctr.SwapValue(nil))
	}
	g.nswap++
	same := g.nswap%2 == 0
	return g.from(g.ctr.SwapValue(func(p T) T {
		v := g.from(p)
		r := cb(v)
		if r == v && same {
			// every other call: a callback whose result is the number it got returns the IDENTICAL value
			return p
		}
		return g.to(r)
	}))
}
func (g *gcell[T]) WaitValue(ctx context.Context, errCh <-chan error) (uint64, error) {
	v, err := g.ctr.WaitValue(ctx, errCh)
	return g.from(v), err
}
func (g *gcell[T]) WaitValueChange(ctx context.Context, old uint64, errCh <-chan error) (uint64, error) {
	v, err := g.ctr.WaitValueChange(ctx, g.to(old), errCh)
	return g.from(v), err
}
func (g *gcell[T]) WaitValueEmpty(ctx context.Context, errCh <-chan error) error {
	return g.ctr.WaitValueEmpty(ctx, errCh)
}
func (g *gcell[T]) WaitValueWithValidator(ctx context.Context, valid func(uint64) (bool, error), errCh <-chan error) (uint64, error) {
	var vf func(T) (bool, error)
	if valid != nil {
		vf = func(p T) (bool, error) { return valid(g.from(p)) }
	}
	v, err := g.ctr.WaitValueWithValidator(ctx, vf, errCh)
	return g.from(v), err
}
func (g *gcell[T]) WatchChanges(ctx context.Context, initial uint64, cb func(uint64) error, errCh <-chan error) error {
	return ccontainer.WatchChanges(ctx, g.to(initial), ccontainer.ToWatchable(g.ctr), func(p T) error { return cb(g.from(p)) }, errCh)
}

func toMsg(v uint64) *msg {
	if v == 0 {
		return nil
	}
	return &msg{id: v}
}

func fromMsg(p *msg) uint64 {
	if p == nil {
		return 0
	}
	return p.id
}

func ident(v uint64) uint64 { return v }

type adata struct {
	cancel    func() // ends the context in the way of its flavour
	flav      int    // 0 plain, 1 deadline-like, 2 cancelled with a cause
	cancelled bool
	errCh     chan error
	closed    bool
	val       uint64
	cbErr     bool // what the parked callback returns when released
	cbN       int  // number of callback invocations
}

type sys struct {
	c    *ctl.Ctl
	ctr  cell
	w    *hist.W
	cfg  []uint64
	prof int  // generation profile: 0 mixed, 1 waiter-heavy, 2 writer-heavy
	down bool // teardown: callbacks return an error so that every watcher ends
	nget int  // event-1 calls so far: every third one is a SwapValue whose callback panics (an atomic read)
	nval int  // validator waiters so far: every second validator calls GetValue on the same container
}

// cumulative weights (out of 100) of: get, set, swap, wait, step, cancel; the rest is error-channel events
var profiles = [3][6]int{
	{5, 13, 21, 33, 82, 89},
	{3, 13, 19, 41, 86, 90},
	{8, 16, 36, 42, 92, 95},
}

func eqOf(code uint64) func(a, b uint64) bool {
	switch code {
	case 0:
		return nil
	case 1:
		return func(a, b uint64) bool { return a%2 == b%2 }
	case 2:
		return func(a, b uint64) bool { return true }
	case 3:
		return func(a, b uint64) bool { return a <= b }
	case 5:
		return func(a, b uint64) bool { return false }
	case 6:
		return func(a, b uint64) bool { return a < b }
	default:
		return func(a, b uint64) bool { return a/4 == b/4 }
	}
}

func swapOf(f, k uint64) (func(uint64) uint64, bool) {
	switch f {
	case 0:
		return nil, true
	case 1:
		return func(v uint64) uint64 { return v + k }, true
	case 2:
		return func(v uint64) uint64 { return k }, true
	case 3:
		return func(v uint64) uint64 { return v }, true
	}
	return nil, false
}

func validatorOf(p, k uint64) func(uint64) (bool, error) {
	switch p {
	case 0:
		return nil
	case 1:
		return func(v uint64) (bool, error) { return v >= k, nil }
	case 2:
		return func(v uint64) (bool, error) { return v%2 == 1, nil }
	case 3:
		return func(v uint64) (bool, error) {
			if v == k {
				return false, errValid
			}
			return v > k, nil
		}
	default:
		return func(v uint64) (bool, error) {
			if v == k {
				return true, errValid
			}
			return true, nil
		}
	}
}

func newSys(w *hist.W, cfg []uint64) *sys {
	for len(cfg) < 2 {
		cfg = append(cfg, 0)
	}
	s := &sys{c: ctl.New(), w: w, cfg: cfg}
	if cfg[0] == 7 {
		s.ctr = &gcell[*msg]{ctr: ccontainer.NewCContainerVT(toMsg(cfg[1])), to: toMsg, from: fromMsg}
	} else if eq := eqOf(cfg[0]); eq != nil {
		s.ctr = &gcell[uint64]{ctr: ccontainer.NewCContainerWithEqual(cfg[1], eq), to: ident, from: ident}
	} else {
		s.ctr = &gcell[uint64]{ctr: ccontainer.NewCContainer(cfg[1]), to: ident, from: ident}
	}
	s.c.ShouldPark = func(a *ctl.Actor, pkg string, site int, obj any) bool {
		switch site {
		case 0:
			return true
		case 1:
			if a.Kind != kWait && a.Kind != kWatch {
				return false
			}
			d := a.Data.(*adata)
			return !d.cancelled && !d.closed && len(d.errCh) == 0
		}
		return false
	}
	broadcast.VerifHook = s.c.HookFor("broadcast", []int{0, 2}, []int{1, 3})
	return s
}

func (s *sys) status() []uint64 {
	out := make([]uint64, len(s.c.Acts))
	for i, a := range s.c.Acts {
		switch {
		case a.Panicked() != nil:
			out[i] = 9
		case a.Done():
			out[i] = uint64(a.Res) + 16*a.Data.(*adata).val
		case a.InUser() != 0:
			out[i] = 10 + 16*a.Data.(*adata).val
		case a.Parked():
			if a.Site() == 1 {
				out[i] = 7
			} else {
				out[i] = 1
			}
		default:
			out[i] = 2
		}
	}
	return out
}

func classify(err error) int {
	switch {
	case err == nil:
		return 3
	case err == context.Canceled:
		return 4
	case err == context.DeadlineExceeded:
		return 13
	case err == hctx.ErrCause:
		return 14
	case err == errSent:
		return 5
	case err == errValid:
		return 6
	case err == errCb:
		return 11
	}
	return 8
}

func (s *sys) waiter(i int) (*ctl.Actor, *adata, bool) {
	if i >= len(s.c.Acts) || (s.c.Acts[i].Kind != kWait && s.c.Acts[i].Kind != kWatch) {
		return nil, nil, false
	}
	a := s.c.Acts[i]
	return a, a.Data.(*adata), true
}

// atExit reports whether the actor is parked at the exit gate of its sampling section.
func atExit(a *ctl.Actor) bool { return a.Parked() && a.Site() == 1 }

func (s *sys) canCancel(i int) bool {
	a, d, ok := s.waiter(i)
	return ok && !a.Done() && !atExit(a) && !d.cancelled && !d.closed && len(d.errCh) == 0
}

func (s *sys) canErr(i int) bool {
	a, d, ok := s.waiter(i)
	return ok && d.errCh != nil && !a.Done() && !atExit(a) && !d.cancelled && !d.closed && len(d.errCh) < errCap
}

// newCtx builds the context and error channel of a waiter / watcher call from the hc field of its event:
// hc = e + 2*f + 6*p (e: error channel, f: context flavour, p: the context has already ended).
func newCtx(hc uint64) (context.Context, *adata, <-chan error) {
	fl := int(hc/2) % 3
	ctx, end, _ := hctx.Flavour(context.Background(), [3]int{0, 1, 3}[fl])
	d := &adata{cancel: end, flav: fl}
	var errCh <-chan error
	if hc%2 == 1 {
		d.errCh = make(chan error, errCap)
		errCh = d.errCh
	}
	if hc >= 6 {
		d.cancelled = true
		end()
	}
	return ctx, d, errCh
}

// exec applies one event to the real container; ok=false if the event is not applicable now.
func (s *sys) exec(ev []uint64) (obs []uint64, ok bool) {
	if len(ev) == 0 {
		return nil, false
	}
	switch ev[0] {
	case 1:
		if len(ev) != 1 {
			return nil, false
		}
		a := s.c.NewActor(kGet)
		d := &adata{}
		a.Data = d
		s.nget++
		panicking := s.nget%3 == 0
		s.c.Go(a, func(a *ctl.Actor) {
			if panicking {
				// SwapValue whose callback panics, recovered by the caller: the cell is unchanged and the call is an
				// atomic read of the value handed to the callback; later operations must not find the cell locked.
				func() {
					defer func() { _ = recover() }()
					s.ctr.SwapValue(func(p uint64) uint64 { d.val = p; panic("harness: SwapValue callback panics") })
				}()
			} else {
				d.val = s.ctr.GetValue()
			}
			a.Res = 3
		})
		synctest.Wait()
	case 2:
		if len(ev) != 2 {
			return nil, false
		}
		v := ev[1]
		a := s.c.NewActor(kSet)
		a.Data = &adata{}
		s.c.Go(a, func(a *ctl.Actor) {
			s.ctr.SetValue(v)
			a.Res = 3
		})
		synctest.Wait()
	case 3:
		if len(ev) != 3 {
			return nil, false
		}
		cb, ok := swapOf(ev[1], ev[2])
		if !ok {
			return nil, false
		}
		a := s.c.NewActor(kSwap)
		d := &adata{}
		a.Data = d
		s.c.Go(a, func(a *ctl.Actor) {
			d.val = s.ctr.SwapValue(cb)
			a.Res = 3
		})
		synctest.Wait()
	case 4:
		if len(ev) != 5 || ev[1] > 3 || ev[4] > 11 {
			return nil, false
		}
		kind, x, y := ev[1], ev[2], ev[3]
		ctx, d, errCh := newCtx(ev[4])
		if kind == 3 {
			s.nval++
		}
		reentrant := s.nval%2 == 0
		a := s.c.NewActor(kWait)
		a.Data = d
		s.c.Go(a, func(a *ctl.Actor) {
			var v uint64
			var err error
			switch kind {
			case 0:
				v, err = s.ctr.WaitValue(ctx, errCh)
			case 1:
				v, err = s.ctr.WaitValueChange(ctx, x, errCh)
			case 2:
				err = s.ctr.WaitValueEmpty(ctx, errCh)
			default:
				vf := validatorOf(x, y)
				if vf != nil && reentrant {
					// the validator is a user callback run outside the lock: it may use the same container
					inner := vf
					vf = func(v uint64) (bool, error) {
						s.c.EnterNoPark()
						_ = s.ctr.GetValue()
						s.c.LeaveNoPark()
						return inner(v)
					}
				}
				v, err = s.ctr.WaitValueWithValidator(ctx, vf, errCh)
			}
			d.val = v
			a.Res = classify(err)
		})
		synctest.Wait()
	case 5:
		if len(ev) != 2 || ev[1] >= uint64(len(s.c.Acts)) || !s.c.Acts[ev[1]].Parked() {
			return nil, false
		}
		s.c.Step(s.c.Acts[ev[1]])
	case 6:
		if len(ev) != 2 || !s.canCancel(int(ev[1])) {
			return nil, false
		}
		_, d, _ := s.waiter(int(ev[1]))
		d.cancelled = true
		d.cancel()
		synctest.Wait()
	case 7:
		if len(ev) != 3 || ev[2] > 2 || !s.canErr(int(ev[1])) {
			return nil, false
		}
		_, d, _ := s.waiter(int(ev[1]))
		switch ev[2] {
		case 0:
			d.errCh <- nil
		case 1:
			d.errCh <- errSent
		case 2:
			d.closed = true
			close(d.errCh)
		}
		synctest.Wait()
	case 8:
		if len(ev) != 3 || ev[2] > 11 {
			return nil, false
		}
		initial := ev[1]
		ctx, d, errCh := newCtx(ev[2])
		a := s.c.NewActor(kWatch)
		a.Data = d
		s.c.Go(a, func(a *ctl.Actor) {
			cb := func(v uint64) error {
				d.val = v
				d.cbN++
				if d.cbN%2 == 0 {
					// user code run outside the lock may use the same container
					s.c.EnterNoPark()
					_ = s.ctr.GetValue()
					s.c.LeaveNoPark()
				}
				s.c.ParkUser(a, 1)
				if d.cbErr || s.down {
					return errCb
				}
				return nil
			}
			err := s.ctr.WatchChanges(ctx, initial, cb, errCh)
			d.val = 0
			if err == nil {
				a.Res = 12
			} else {
				a.Res = classify(err)
			}
		})
		synctest.Wait()
	case 9:
		if len(ev) != 3 || ev[2] > 1 || ev[1] >= uint64(len(s.c.Acts)) {
			return nil, false
		}
		a := s.c.Acts[ev[1]]
		if a.Kind != kWatch || a.Done() || a.InUser() == 0 {
			return nil, false
		}
		a.Data.(*adata).cbErr = ev[2] == 1
		s.c.StepUser(a)
	default:
		return nil, false
	}
	return s.status(), true
}

func smallVal(r *rand.Rand) uint64 {
	if r.IntN(10) == 0 {
		return uint64(r.IntN(12))
	}
	return uint64(r.IntN(5))
}

// genHc draws the context / error-channel options of a waiter or watcher call (they are part of the event, so a
// replay reproduces them): two thirds with an error channel; flavour plain 1/2, deadline-like 1/3, with cause 1/6;
// one call in twelve is made with a context that has already ended.
func genHc(r *rand.Rand) uint64 {
	hc := uint64(0)
	if r.IntN(3) > 0 {
		hc = 1
	}
	switch r.IntN(6) {
	case 0, 1:
		hc += 2
	case 2:
		hc += 4
	}
	if r.IntN(12) == 0 {
		hc += 6
	}
	return hc
}

// gen picks the next event among those the implementation allows now.
func (s *sys) gen(r *rand.Rand, maxActs int) []uint64 {
	var gates, cancellable, errable []int
	incb := map[int]bool{}
	for i, a := range s.c.Acts {
		if !a.Done() && a.Parked() {
			gates = append(gates, i)
		}
		if !a.Done() && a.Kind == kWatch && a.InUser() != 0 {
			// a watcher parked inside its callback is stepped like a gate (event 9 instead of 5)
			gates = append(gates, i)
			incb[i] = true
		}
		if s.canCancel(i) {
			cancellable = append(cancellable, i)
		}
		if s.canErr(i) {
			errable = append(errable, i)
		}
	}
	room := len(s.c.Acts) < maxActs
	pw := profiles[s.prof]
	for tries := 0; tries < 200; tries++ {
		x := r.IntN(100)
		switch {
		case x < pw[0] && room:
			return []uint64{1}
		case x < pw[1] && room:
			return []uint64{2, smallVal(r)}
		case x < pw[2] && room:
			f := uint64(r.IntN(4))
			if r.IntN(2) == 0 {
				f = 1
			}
			k := smallVal(r)
			if f == 1 && r.IntN(3) > 0 {
				k = 1
			}
			if f == 0 || f == 3 {
				k = 0
			}
			return []uint64{3, f, k}
		case x < pw[3] && room && r.IntN(3) == 0:
			// WatchChanges: initial value empty / small (often equal to the content, often not)
			initial := uint64(0)
			if r.IntN(5) >= 2 {
				initial = smallVal(r)
			}
			hc := genHc(r)
			return []uint64{8, initial, hc}
		case x < pw[3] && room:
			kind := uint64(r.IntN(4))
			var a, b uint64
			switch kind {
			case 1:
				a = smallVal(r)
			case 3:
				a = uint64(r.IntN(5))
				if a == 1 || a >= 3 {
					b = smallVal(r)
				}
			}
			hc := genHc(r)
			return []uint64{4, kind, a, b, hc}
		case x < pw[4] && len(gates) > 0:
			g := gates[r.IntN(len(gates))]
			if incb[g] {
				ret := uint64(0)
				if r.IntN(7) == 0 {
					ret = 1
				}
				return []uint64{9, uint64(g), ret}
			}
			return []uint64{5, uint64(g)}
		case x < pw[5] && len(cancellable) > 0:
			return []uint64{6, uint64(cancellable[r.IntN(len(cancellable))])}
		case x >= pw[5] && len(errable) > 0:
			m := uint64(r.IntN(3))
			if r.IntN(3) == 0 {
				m = 0
			}
			return []uint64{7, uint64(errable[r.IntN(len(errable))]), m}
		}
	}
	return nil
}

func (s *sys) teardown() {
	s.down = true
	for _, a := range s.c.Acts {
		if d, ok := a.Data.(*adata); ok && d != nil && d.cancel != nil {
			d.cancel()
		}
	}
	s.c.Free()
	synctest.Wait()
	broadcast.VerifHook = nil
}

func (s *sys) count(ev []uint64, prev, obs []uint64) {
	names := map[uint64]string{1: "get", 2: "set", 3: "swap", 4: "wait", 5: "step", 6: "cancel", 7: "errch", 8: "watch", 9: "cbret"}
	s.w.Count("ev."+names[ev[0]], 1)
	switch ev[0] {
	case 3:
		s.w.Count(fmt.Sprintf("ev.swap.f%d", ev[1]), 1)
	case 2:
		if cur := s.ctr.GetValue(); true {
			// (GetValue from the controller goroutine: not an actor, passes the gates; nobody is inside a section now)
			switch {
			case s.cfg[0] == 7 && ev[1] == cur && cur != 0:
				s.w.Count("sit.vt.set_of_equal_not_identical_pointer_called", 1)
			case s.cfg[0] == 7 && ev[1] == 0 && cur == 0:
				s.w.Count("sit.vt.set_nil_on_nil_called", 1)
			case (s.cfg[0] == 5 || s.cfg[0] == 6) && ev[1] == cur:
				s.w.Count("sit.nonreflexive_eq.set_of_identical_value_called", 1)
			}
		}
	case 4:
		s.w.Count(fmt.Sprintf("ev.wait.kind%d", ev[1]), 1)
		s.w.Count(fmt.Sprintf("ev.wait.ctx_flavour%d", (ev[4]/2)%3), 1)
		if ev[4] >= 6 {
			s.w.Count("ev.wait.ctx_already_ended_at_call", 1)
		}
		if s.cfg[0] == 7 {
			s.w.Count(fmt.Sprintf("sit.vt.wait.kind%d", ev[1]), 1)
		}
		if s.cfg[0] == 5 || s.cfg[0] == 6 {
			s.w.Count(fmt.Sprintf("sit.nonreflexive_eq.wait.kind%d", ev[1]), 1)
		}
	case 7:
		s.w.Count(fmt.Sprintf("ev.errch.m%d", ev[2]), 1)
		if i := int(ev[1]); i < len(prev) && prev[i]%16 == 10 {
			s.w.Count("sit.watch.errch_event_inside_callback", 1)
		}
	case 6:
		if i := int(ev[1]); i < len(prev) && prev[i]%16 == 10 {
			s.w.Count("sit.watch.cancel_inside_callback", 1)
		}
	case 8:
		s.w.Count(fmt.Sprintf("ev.watch.ctx_flavour%d", (ev[2]/2)%3), 1)
		if ev[2] >= 6 {
			s.w.Count("ev.watch.ctx_already_ended_at_call", 1)
		}
		if ev[1] == 0 {
			s.w.Count("ev.watch.initial_empty", 1)
		} else {
			s.w.Count("ev.watch.initial_nonempty", 1)
		}
	case 9:
		s.w.Count(fmt.Sprintf("ev.cbret.r%d", ev[2]), 1)
	case 5:
		i := int(ev[1])
		if i < len(prev) && i < len(obs) {
			switch {
			case prev[i] == 7 && obs[i] == 1:
				s.w.Count("sit.write_between_sample_and_select", 1)
			case prev[i] == 7 && obs[i] == 2:
				s.w.Count("sit.sample_then_block", 1)
			case prev[i] == 7 && obs[i]%16 == 3:
				s.w.Count("sit.sample_then_return", 1)
			}
		}
	}
	nb, quiet, woken := 0, true, 0
	for i, c := range obs {
		if c == 2 {
			nb++
		}
		if c == 1 || c == 7 {
			quiet = false
		}
		if i < len(prev) && prev[i] == 2 && c != 2 {
			switch c % 16 {
			case 1:
				if ev[0] == 5 {
					woken++
				} else {
					s.w.Count("sit.nil_error_consumed_while_blocked", 1)
				}
			case 4, 13:
				s.w.Count("sit.canceled_while_blocked", 1)
			case 5:
				s.w.Count("sit.errch_error_while_blocked", 1)
			}
		}
		if s.c.Acts[i].Kind == kWatch && i < len(prev) && prev[i]%16 != c%16 {
			d := s.c.Acts[i].Data.(*adata)
			switch c % 16 {
			case 10:
				s.w.Count("sit.watch.callback_entered", 1)
				if d.cbN == 1 && prev[i] == 7 {
					s.w.Count("sit.watch.first_sample_differs_from_initial", 1)
				}
				if d.cbN >= 2 {
					s.w.Count("sit.watch.callback_entered_in_a_later_round", 1)
				}
				if prev[i] == 1 {
					s.w.Count("sit.watch.delivery_with_cancel_or_error_pending", 1)
				}
			case 2:
				if d.cbN == 0 && prev[i] == 7 {
					s.w.Count("sit.watch.first_sample_equals_initial", 1)
				}
				if d.cbN >= 1 {
					s.w.Count("sit.watch.blocked_in_a_later_round", 1)
				}
			case 4, 5, 11, 12, 3, 6, 8, 13, 14:
				s.w.Count(fmt.Sprintf("ret.watch.%d", c%16), 1)
			}
		}
		if d, ok := s.c.Acts[i].Data.(*adata); ok && d.cancel != nil && i < len(prev) && prev[i]%16 != c%16 {
			// the error identity by context flavour
			switch {
			case c%16 == 13:
				s.w.Count(fmt.Sprintf("sit.ctxerr.flavour%d_returned_DeadlineExceeded", d.flav), 1)
			case c%16 == 14:
				s.w.Count(fmt.Sprintf("sit.ctxerr.flavour%d_returned_the_cause", d.flav), 1)
			case c%16 == 4 && d.closed:
				s.w.Count(fmt.Sprintf("sit.ctxerr.flavour%d_errch_closed_returned_Canceled", d.flav), 1)
			case c%16 == 4:
				s.w.Count(fmt.Sprintf("sit.ctxerr.flavour%d_ctx_ended_returned_Canceled", d.flav), 1)
			}
			if d.cancelled && d.flav != 0 && (c%16 == 3 || c%16 == 10) {
				s.w.Count("sit.ctxerr.ended_nonplain_ctx_but_value_delivered", 1)
			}
		}
		if i < len(prev) && (prev[i]%16 < 3 || prev[i] == 7) && (c%16 >= 3 && c%16 <= 6 || c%16 == 8 || c%16 >= 13) && s.c.Acts[i].Kind == kWait {
			s.w.Count(fmt.Sprintf("ret.wait.%d", c%16), 1)
		}
	}
	if woken >= 1 {
		s.w.Count("sit.broadcast_woke_waiters", 1)
	}
	if woken >= 2 {
		s.w.Count("sit.broadcast_woke_two_or_more", 1)
	}
	if nb >= 2 {
		s.w.Count("obs.two_or_more_blocked", 1)
	}
	if quiet {
		s.w.Count("obs.quiescent_points", 1)
		if nb > 0 {
			s.w.Count("obs.quiescent_with_blocked", 1)
		}
	}
}

func genCfg(r *rand.Rand) []uint64 {
	eq := uint64(0)
	if r.IntN(2) == 0 {
		eq = uint64(r.IntN(8))
	}
	v0 := uint64(0)
	if r.IntN(3) == 0 {
		v0 = uint64(1 + r.IntN(4))
	}
	return []uint64{eq, v0}
}

// corpusMotifs: the corpus histories, used as PREFIXES of a share of the random histories (a random cut of a random
// corpus history is replayed first, then generation continues at random from the situation it reached): the corner
// cases that were worth writing down are then also explored in their neighbourhood, not only replayed verbatim.
var corpusMotifs []hist.H

func runRandom(t *testing.T, w *hist.W, h int) {
	r := hist.Rng(h)
	synctest.Test(t, func(t *testing.T) {
		cfg := genCfg(r)
		var prefix [][]uint64
		if len(corpusMotifs) > 0 && r.IntN(6) == 0 {
			m := corpusMotifs[r.IntN(len(corpusMotifs))]
			if len(m.Evs) > 0 {
				cfg = append([]uint64{}, m.Cfg...)
				prefix = m.Evs[:1+r.IntN(len(m.Evs))]
			}
		}
		s := newSys(w, cfg)
		cfg = s.cfg // padded to its two fields, as in runFixed
		defer s.teardown()
		s.prof = r.IntN(3)
		w.Begin(fmt.Sprintf("r%d", h), cfg)
		w.Count(fmt.Sprintf("cfg.eq%d", cfg[0]), 1)
		w.Count(fmt.Sprintf("profile.%d", s.prof), 1)
		var prev []uint64
		for _, ev := range prefix {
			ev = append([]uint64{}, ev...)
			obs, ok := s.exec(ev)
			if !ok {
				break
			}
			s.count(ev, prev, obs)
			w.Step(ev, obs)
			prev = obs
		}
		if prefix != nil {
			w.Count("random_with_corpus_prefix", 1)
		}
		steps := 10 + r.IntN(60)
		maxActs := 4 + r.IntN(9)
		if prefix != nil {
			maxActs += len(s.c.Acts)
		}
		for k := 0; k < steps; k++ {
			ev := s.gen(r, maxActs)
			if ev == nil {
				break
			}
			obs, ok := s.exec(ev)
			if !ok {
				break
			}
			s.count(ev, prev, obs)
			w.Step(ev, obs)
			prev = obs
		}
		w.Count(fmt.Sprintf("len.%02d", min(steps/10, 6)*10), 1)
	})
}

func runFixed(t *testing.T, w *hist.W, id string, cfg []uint64, evs [][]uint64) {
	synctest.Test(t, func(t *testing.T) {
		s := newSys(w, cfg)
		defer s.teardown()
		w.Begin(id, s.cfg)
		var prev []uint64
		for _, ev := range evs {
			obs, ok := s.exec(ev)
			if !ok {
				// the event is not applicable on the implementation (the history has diverged earlier)
				w.Count("fixed.truncated", 1)
				break
			}
			s.count(ev, prev, obs)
			w.Step(ev, obs)
			prev = obs
		}
	})
}

func TestCContainer(t *testing.T) {
	w, err := hist.Open("ccontainer")
	if err != nil {
		t.Fatal(err)
	}
	defer w.Close()
	if *hist.Replay != "" {
		hs, err := hist.Load(*hist.Replay)
		if err != nil {
			t.Fatal(err)
		}
		for _, h := range hs {
			runFixed(t, w, h.ID, h.Cfg, h.Evs)
		}
		return
	}
	corpusMotifs = hist.LoadCorpus(*hist.Corpus)
	for _, h := range corpusMotifs {
		runFixed(t, w, h.ID, h.Cfg, h.Evs)
		w.Count("corpus", 1)
	}
	for h := 0; h < *hist.NHist; h++ {
		w.Flush()
		runRandom(t, w, h)
	}
}
