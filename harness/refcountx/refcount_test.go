// Scheduled correspondence harness for refcount.RefCount (C08, C09, C10).
// Event and observation encoding: see /verif/coq/theories/RefCount/Spec.v.
//
// Contexts: the n-th consumer of a history (event 10, n from 1) gets a context of the flavour hctx.Flavour(n): n%4 == 1 ends like a
// deadline (Err() == context.DeadlineExceeded), n%4 == 3 is cancelled with a cause, otherwise plain WithCancel; root contexts: 1
// plain, 2 deadline-like, 3 with cause.  The code under test returns the literal context.Canceled whatever the flavour; codeOf
// distinguishes context.Canceled (1), context.DeadlineExceeded (97), the cause (98) and anything else (99).
//
// Consumer kind 1 calls WaitWithReleased and then replicates the six lines of ResolveWithReleased (await the
// promise; on error release the reference) so that the harness knows the *Ref and can attribute the goroutine
// spawned by the callback to its consumer.  Kind 3 calls RefCount.Resolve and kind 4 calls RefCount.ResolveWithReleased
// themselves: the caller only gets the release function (ref.Release), which event 3 later calls; the *Ref of a kind-4
// consumer is learnt when the wrapper releases it itself (error path: hook site 3 on the consumer's own goroutine) or
// when the goroutine spawned by its callback reaches site 3 (no other consumer owns that reference; exec admits one
// kind-4 consumer with an unknown reference at a time, so the attribution is unambiguous).
package refcountx

import (
	"context"
	"errors"
	"fmt"
	"math"
	"math/rand/v2"
	"os"
	"testing"
	"testing/synctest"

	"github.com/aperturerobotics/util/ccontainer"
	"github.com/aperturerobotics/util/refcount"
	"verif/harness/ctl"
	"verif/harness/hctx"
	"verif/harness/hist"
)

const (
	kAPI   = 1
	kGor   = 2
	kAsync = 3
	kRel   = 4
	kCons  = 5
	kFire  = 6
	kWatch = 7
)

type gdata struct {
	released func()
	hasrel   bool
	errc     uint64
	empty    bool // the resolver returns the empty value (with an error: `return zero, rel, err`, or without: handle 0 / nil pointer)
	nonce    uint32
	hasNonce bool
	passed   bool // left the first gate
	stored   bool // its store section was stepped
	exiting  bool // resolve is returning (site 4)
	entered  bool
}

type refdata struct {
	ref     *refcount.Ref[uint64]
	rel     func() // consumers of kind 3 / 4: the release function Resolve / ResolveWithReleased returned
	kind    uint64
	last    [3]uint64
	removed bool // its removeRef section ran
}

type cdata struct {
	kind    uint64
	cancel  func() // ends the caller's context (a context flavour of hctx: plain / deadline-like / cancelled with a cause)
	flavour int    // 0 plain, 1 deadline-like, 2 cancelled with a cause
	canc    bool
	ref     *refcount.Ref[uint64]
	refIdx  int
	ret     bool
	v, e    uint64
	held    bool
	fired   int
	fire    *ctl.Actor
	relSeen bool // its own release (error path) was already listed as a release actor
	// Access (kind 2): the context and value its callback was invoked with (valid while the actor is inside the callback), and
	// the result the callback is to return: 0 nil, 1 its ctx.Err(), otherwise an error code
	cbctx context.Context
	cbval uint64
	cbres uint64
	// the watcher goroutines of this Access call that are parked at hook site 5 (woken by a change, before their cbCancel()), oldest
	// first; curWatch: the one of the running invocation.  virt: the code under test has no site 5 (the watcher ran straight through):
	// the harness reports the watcher as parked for one step and its step (event 15) right after
	watchers  []*ctl.Actor
	curWatch  *ctl.Actor
	virt      bool
	cancKnown bool // the cancellation of the running invocation's context was already accounted for
}

type sys struct {
	started bool   // the first event has been executed (the generation counter is preset just before it)
	nclear  int    // clearing calls so far: they alternate between SetContext(nil) and ClearContext()
	nctx    int    // context-taking consumer calls so far (event 10): the n-th one gets the context flavour hctx.Flavour(n)
	curCtx  uint64 // the root last installed (0 none)
	c       *ctl.Ctl
	w       *hist.W
	rc      *refcount.RefCount[uint64]
	target  *ccontainer.CContainer[uint64]
	terr    *ccontainer.CContainer[*error]
	roots   []context.Context
	cancels []func()
	rootc   [4]bool // root contexts cancelled by their owner (event 14)
	gors    []*ctl.Actor
	asyncs  []*ctl.Actor
	refs    []*refdata
	relacts []*ctl.Actor
	relrefs []uint64
	cons    []*ctl.Actor
	rellog  [][3]uint64
	relseen int
	// constVal: the resolver returns the constant value 7 for every generation (config flag 2)
	constVal bool
	// wantAcc: this history uses Access consumers
	wantAcc bool
	// wantRootCancel: the owner of a root context may cancel it in this history
	wantRootCancel bool
	// poisoned: a library call panicked while holding the RefCount mutex; nothing can be driven any further
	poisoned bool
	// coverage bookkeeping: after the previous event an error with the empty value was stored and some reference in the set
	// had it as last notification; a kind 1 / 4 consumer was inside its own Release then; consumers already counted
	prevErrEmpty, prevErrEmptyConsRel bool
	counted                           map[int]bool
}

func errOf(code uint64) error {
	switch code {
	case 0:
		return nil
	case 1:
		return context.Canceled
	default:
		return fmt.Errorf("e%d", code)
	}
}

// Error codes of what the library returned / stored.  The IDENTITY counts (a consumer whose context ended must get the
// literal context.Canceled whatever the flavour of its context: deadline-like, cancelled with a cause):
// 1 context.Canceled itself, 97 context.DeadlineExceeded, 98 hctx.ErrCause (the cause of a context cancelled with a cause),
// n the harness's own error "e<n>" (resolver errors 2, 3; callback errors 10, 11), 99 anything else (also a wrapped Canceled).
const (
	codeDeadline = 97
	codeCause    = 98
	codeOther    = 99
)

func codeOf(err error) uint64 {
	if err == nil {
		return 0
	}
	switch err {
	case context.Canceled:
		return 1
	case context.DeadlineExceeded:
		return codeDeadline
	case hctx.ErrCause:
		return codeCause
	}
	if errors.Is(err, context.Canceled) || errors.Is(err, context.DeadlineExceeded) || errors.Is(err, hctx.ErrCause) {
		return codeOther
	}
	var n uint64
	if _, e := fmt.Sscanf(err.Error(), "e%d", &n); e == nil {
		return n
	}
	return codeOther
}

func newSys(w *hist.W, cfg []uint64) *sys {
	s := &sys{c: ctl.New(), w: w, constVal: len(cfg) > 1 && cfg[1] == 1}
	s.target = ccontainer.NewCContainer[uint64](0)
	s.terr = ccontainer.NewCContainer[*error](nil)
	s.roots = []context.Context{nil}
	s.cancels = []func(){nil}
	for i := 1; i <= 3; i++ {
		// root 1 is a plain WithCancel context, root 2 ends like a deadline (Err() == DeadlineExceeded), root 3 is cancelled
		// with a cause: the library never hands the root's error to anybody, whatever its flavour
		ctx, end, _ := hctx.Flavour(context.Background(), []int{0, 0, 1, 3}[i])
		s.roots = append(s.roots, ctx)
		s.cancels = append(s.cancels, end)
	}
	s.rc = refcount.NewRefCount[uint64](nil, cfg[0] == 1, s.target, s.terr, s.resolver)
	s.c.ShouldPark = func(a *ctl.Actor, pkg string, site int, obj any) bool {
		if pkg != "refcount" {
			return false
		}
		switch a.Kind {
		case kGor:
			if site == 4 {
				a.Data.(*gdata).exiting = true
				return false
			}
			return site == 0 || site == 1
		case kAsync:
			return site == 2
		case kWatch:
			return site == 5
		case kRel, kCons, kFire:
			if a.Kind == kCons && site == 3 {
				if d := a.Data.(*cdata); d.kind == 4 && d.ref == nil {
					d.ref, _ = obj.(*refcount.Ref[uint64])
				}
			}
			return site == 3
		}
		return false
	}
	s.c.Adopt = func(pkg string, site int, obj any) *ctl.Actor {
		if pkg != "refcount" {
			return nil
		}
		switch site {
		case 0:
			a := s.c.NewActor(kGor)
			d := &gdata{}
			d.nonce, d.hasNonce = obj.(uint32)
			a.Data = d
			s.gors = append(s.gors, a)
			return a
		case 2:
			a := s.c.NewActor(kAsync)
			// the generation whose released() this is: the goroutine of that nonce
			a.Data = -1
			if n, ok := obj.(uint32); ok {
				for i, g := range s.gors {
					if d := g.Data.(*gdata); d.hasNonce && d.nonce == n {
						a.Data = i
					}
				}
			}
			s.asyncs = append(s.asyncs, a)
			return a
		case 5:
			// the watcher goroutine of the running callback invocation of one Access call: obj is the callback's context
			cctx, _ := obj.(context.Context)
			for _, ca := range s.cons {
				d := ca.Data.(*cdata)
				if d.kind == 2 && cctx != nil && d.cbctx == cctx && ca.InUser() == 2 {
					a := s.c.NewActor(kWatch)
					d.watchers = append(d.watchers, a)
					d.curWatch = a
					s.w.Count("hook.site5_watcher_parked", 1)
					return a
				}
			}
		case 3:
			ref, _ := obj.(*refcount.Ref[uint64])
			for _, ca := range s.cons {
				d := ca.Data.(*cdata)
				if d.ref != nil && d.ref == ref && d.fire == nil {
					a := s.c.NewActor(kFire)
					d.fire = a
					return a
				}
			}
			// the goroutine spawned by the callback of a real ResolveWithReleased call: its reference is the only unknown one
			for _, ca := range s.cons {
				d := ca.Data.(*cdata)
				if d.kind == 4 && d.ref == nil && d.fire == nil && ref != nil {
					a := s.c.NewActor(kFire)
					d.fire, d.ref = a, ref
					return a
				}
			}
		}
		return nil
	}
	refcount.VerifHook = s.c.HookFor("refcount", nil, nil)
	return s
}

// resolver is the RefCountResolver under test's user function.
func (s *sys) resolver(ctx context.Context, released func()) (uint64, func(), error) {
	a := s.c.Current()
	if a == nil || a.Kind != kGor {
		return 0, nil, errors.New("harness: resolver on an unknown goroutine")
	}
	d := a.Data.(*gdata)
	d.released, d.entered = released, true
	g := uint64(0)
	for i, x := range s.gors {
		if x == a {
			g = uint64(i)
		}
	}
	s.c.ParkUser(a, 1)
	val := s.valOf(g)
	if d.empty {
		// what a realistic resolver does on failure: return zero, rel, err
		val = 0
	}
	var rel func()
	if d.hasrel {
		errc := d.errc
		rel = func() {
			stale := uint64(0)
			for _, r := range s.refs {
				if r.kind != 0 && r.kind != 9 && s.inSet(r) && r.last == [3]uint64{2, val, errc} {
					stale++
				}
			}
			s.rellog = append(s.rellog, [3]uint64{g, s.target.GetValue(), stale})
		}
	}
	return val, rel, errOf(d.errc)
}

// valOf is the value the resolver call on goroutine g returns.
func (s *sys) valOf(g uint64) uint64 {
	if s.constVal {
		return 7
	}
	return g + 1
}

// genOf is the goroutine whose result a reference callback is being told (resolved = true): with generation-unique
// values it is read off the value; otherwise it is the goroutine whose store section ran last (stores happen in
// goroutine order, and a stored result is only current while no later goroutine exists that stored).
func (s *sys) genOf(val uint64) int {
	if !s.constVal && val != 0 {
		if int(val-1) < len(s.gors) {
			return int(val - 1)
		}
		return -1
	}
	// constant value, or the empty value that came with an error
	for i := len(s.gors) - 1; i >= 0; i-- {
		if s.gors[i].Data.(*gdata).stored {
			return i
		}
	}
	return -1
}

// inSet is the harness's own view of which logging references were not yet removed (their removeRef section ran).
func (s *sys) inSet(r *refdata) bool { return !r.removed }

func (s *sys) mkCallback(rd *refdata) func(bool, uint64, error) {
	return func(resolved bool, val uint64, err error) {
		if resolved {
			rd.last = [3]uint64{2, val, codeOf(err)}
		} else {
			rd.last = [3]uint64{1, 0, 0}
		}
		if rd.kind == 2 && resolved {
			if g := s.genOf(val); g >= 0 {
				if d := s.gors[g].Data.(*gdata); d.released != nil {
					d.released()
				}
			}
		}
	}
}

func (s *sys) api(f func()) (panicked bool) {
	a := s.c.Spawn(kAPI, func(a *ctl.Actor) { f() })
	return a.Panicked() != nil
}

func (s *sys) parkedAsyncs() []*ctl.Actor {
	var out []*ctl.Actor
	for _, a := range s.asyncs {
		if a.Parked() {
			out = append(out, a)
		}
	}
	return out
}

func b2u(b bool) uint64 {
	if b {
		return 1
	}
	return 0
}

func (s *sys) obs(rets []uint64) []uint64 {
	// consumers that are now parked before removeRef (their own release on the error path) become release actors
	for _, ca := range s.cons {
		d := ca.Data.(*cdata)
		if !d.relSeen && ca.Parked() {
			d.relSeen = true
			s.relacts = append(s.relacts, ca)
			s.relrefs = append(s.relrefs, uint64(d.refIdx))
		}
	}
	o := append([]uint64{}, rets...)
	o = append(o, uint64(len(s.gors)))
	for _, a := range s.gors {
		d := a.Data.(*gdata)
		switch {
		case d.exiting || (d.stored && !a.Parked()):
			o = append(o, 5)
		case a.InUser() != 0:
			o = append(o, 3)
		case a.Parked() && !d.passed:
			o = append(o, 1)
		case a.Parked():
			o = append(o, 4)
		default:
			o = append(o, 2)
		}
	}
	te := uint64(0)
	if p := s.terr.GetValue(); p != nil {
		te = codeOf(*p)
	}
	o = append(o, s.target.GetValue(), te)
	o = append(o, uint64(len(s.refs)))
	for _, r := range s.refs {
		if r.kind == 1 || r.kind == 2 {
			o = append(o, r.last[0], r.last[1], r.last[2])
		} else {
			o = append(o, 0, 0, 0)
		}
	}
	delta := s.rellog[s.relseen:]
	s.relseen = len(s.rellog)
	o = append(o, uint64(len(delta)))
	for _, x := range delta {
		o = append(o, x[0], x[1], x[2])
	}
	o = append(o, uint64(len(s.parkedAsyncs())))
	o = append(o, uint64(len(s.relacts)))
	for i, a := range s.relacts {
		if a.Parked() {
			o = append(o, 1, s.relrefs[i])
		} else {
			o = append(o, 5, s.relrefs[i])
		}
	}
	o = append(o, uint64(len(s.cons)))
	for _, ca := range s.cons {
		d := ca.Data.(*cdata)
		// Access: a context cancelled although no watcher passed hook site 5: the code has no such site; report the watcher as parked
		// for this one observation (its step, event 15, is reported next)
		incb := d.kind == 2 && !d.ret && ca.InUser() == 2
		if incb && !d.cancKnown && d.cbctx.Err() != nil {
			d.cancKnown = true
			if !d.canc {
				d.virt = true
				s.w.Count("hook.site5_missing_watcher_reported_virtually", 1)
			}
		}
		nw, cur := uint64(0), false
		for _, wa := range d.watchers {
			if wa.Parked() {
				nw++
				if wa == d.curWatch && incb {
					cur = true
				}
			}
		}
		if d.virt {
			nw, cur = nw+1, true
		}
		if d.ret {
			e := d.e
			if d.kind == 2 {
				e = nw
			}
			st := uint64(3)
			if d.kind != 2 && (d.e == codeDeadline || d.e == codeCause || d.e == codeOther) {
				// a Wait / Resolve / ResolveWithReleased call returned an error that is neither a resolver error nor
				// context.Canceled itself: status 7 (no model state has it; monitor clause 10.8)
				st = 7
			}
			o = append(o, st, d.v, e, b2u(d.held))
		} else if incb {
			o = append(o, 6, d.cbval, nw, b2u(d.cbctx.Err() != nil && !d.virt))
		} else {
			o = append(o, 2, 0, nw, 0)
		}
		fp := uint64(0)
		if d.fire != nil && d.fire.Parked() {
			fp = 1
		} else if d.fire != nil || d.fired > 0 {
			fp = 5
		}
		if d.kind == 2 {
			fp = b2u(cur)
		}
		o = append(o, uint64(d.fired), fp)
	}
	return o
}

// pendingVirt is the Access consumer whose (virtual) watcher step must be reported next: the code under test has no hook site 5.
func (s *sys) pendingVirt() int {
	for i, ca := range s.cons {
		if ca.Data.(*cdata).virt {
			return i
		}
	}
	return -1
}

func (s *sys) exec(ev []uint64) (obs []uint64, ok bool) {
	var rets []uint64
	if !s.started {
		// The resolver generation counter is a uint32 that wraps around; which generation is current is decided by
		// comparing it.  Three histories in four start 1, 2 or 4 increments below the wrap-around (chosen from the first
		// event, so that a replay reproduces it); the model's generations are unbounded, and a correct implementation
		// cannot tell the difference.
		s.started = true
		var sum uint64
		for _, x := range ev {
			sum += x
		}
		if off := [4]uint32{0, 0, 1, 3}[sum%4]; sum%4 != 0 {
			s.rc.VerifSetNonce(math.MaxUint32 - off)
			s.w.Count("cfg.nonce_starts_below_wraparound", 1)
		}
	}
	if pv := s.pendingVirt(); pv >= 0 && !(ev[0] == 15 && int(ev[1]) < len(s.cons) && s.cons[ev[1]].Data.(*cdata).virt) {
		// this history needs the schedule point the code does not have
		s.w.Count("hook.site5_missing_history_cut", 1)
		return nil, false
	}
	switch ev[0] {
	case 1:
		if ev[1] > 3 {
			return nil, false
		}
		var u bool
		s.api(func() {
			var ctx context.Context
			if ev[1] != 0 {
				ctx = s.roots[ev[1]]
			}
			if ev[1] == 0 {
				s.nclear++
			}
			if ev[1] == 0 && s.nclear%2 == 0 {
				// every second clearing goes through the wrapper ClearContext() (it returns nothing: "updated" is what
				// SetContext(nil) documents, i.e. whether a context was installed)
				s.rc.ClearContext()
				u = s.curCtx != 0
				s.w.Count("api.clearcontext_wrapper", 1)
			} else {
				u = s.rc.SetContext(ctx)
			}
			s.curCtx = ev[1]
		})
		rets = []uint64{b2u(u)}
	case 2:
		if ev[1] > 2 {
			return nil, false
		}
		rd := &refdata{kind: ev[1]}
		s.refs = append(s.refs, rd)
		p := s.api(func() {
			if rd.kind == 0 {
				rd.ref = s.rc.AddRef(nil)
			} else {
				rd.ref = s.rc.AddRef(s.mkCallback(rd))
			}
		})
		rets = []uint64{b2u(p)}
		if p {
			s.poisoned = true
		}
	case 3:
		i := int(ev[1])
		if i >= len(s.refs) || (s.refs[i].ref == nil && s.refs[i].rel == nil) {
			return nil, false
		}
		release := s.refs[i].rel
		if ref := s.refs[i].ref; ref != nil {
			release = ref.Release
		}
		a := s.c.NewActor(kRel)
		s.c.Go(a, func(a *ctl.Actor) { release() })
		synctest.Wait()
		if a.Parked() {
			s.relacts = append(s.relacts, a)
			s.relrefs = append(s.relrefs, ev[1])
		}
	case 4:
		i := int(ev[1])
		if i >= len(s.relacts) || !s.relacts[i].Parked() {
			return nil, false
		}
		s.refs[s.relrefs[i]].removed = true
		s.c.Step(s.relacts[i])
	case 5:
		g := int(ev[1])
		if g >= len(s.gors) {
			return nil, false
		}
		d := s.gors[g].Data.(*gdata)
		if d.released == nil {
			return nil, false
		}
		s.api(func() { d.released() })
	case 6:
		ps := s.parkedAsyncs()
		if int(ev[1]) >= len(ps) || len(ev) != 3 {
			return nil, false
		}
		g, _ := ps[ev[1]].Data.(int)
		if g < 0 {
			return nil, false
		}
		ev[2] = uint64(g)
		s.c.Step(ps[ev[1]])
	case 7:
		g := int(ev[1])
		if g >= len(s.gors) {
			return nil, false
		}
		a := s.gors[g]
		d := a.Data.(*gdata)
		if !a.Parked() || d.passed {
			return nil, false
		}
		d.passed = true
		s.c.Step(a)
		ev[2] = b2u(a.InUser() != 0)
	case 8:
		g := int(ev[1])
		if g >= len(s.gors) || s.gors[g].InUser() == 0 || ev[3] == 1 {
			return nil, false
		}
		empty := len(ev) > 4 && ev[4] != 0
		if empty && ev[4] != 1 {
			return nil, false
		}
		d := s.gors[g].Data.(*gdata)
		d.hasrel, d.errc, d.empty = ev[2] == 1, ev[3], empty
		s.c.StepUser(s.gors[g])
	case 9:
		g := int(ev[1])
		if g >= len(s.gors) {
			return nil, false
		}
		a := s.gors[g]
		d := a.Data.(*gdata)
		if !a.Parked() || !d.passed || !d.entered {
			return nil, false
		}
		d.stored = true
		s.c.Step(a)
	case 10:
		if ev[1] > 4 {
			return nil, false
		}
		if ev[1] == 4 {
			// one ResolveWithReleased call with a still unknown reference at a time (attribution of its callback's goroutine)
			for _, ca := range s.cons {
				if d := ca.Data.(*cdata); d.kind == 4 && d.ref == nil && d.fire == nil {
					return nil, false
				}
			}
		}
		// the n-th context-taking call of the history (n from 1) gets the flavour n%4: 1 deadline-like, 3 cancelled with a
		// cause, 0 / 2 plain (a replay reproduces it: the counter is per history)
		s.nctx++
		ctx, cancel, flavour := hctx.Flavour(context.Background(), s.nctx)
		a := s.c.NewActor(kCons)
		d := &cdata{kind: ev[1], cancel: cancel, flavour: flavour, refIdx: len(s.refs)}
		a.Data = d
		s.cons = append(s.cons, a)
		rd := &refdata{kind: 9}
		s.refs = append(s.refs, rd)
		s.c.Go(a, func(a *ctl.Actor) {
			if d.kind == 2 {
				err := s.rc.Access(ctx, func(cbCtx context.Context, val uint64) error {
					d.cbctx, d.cbval = cbCtx, val
					d.curWatch, d.cancKnown = nil, false
					s.c.ParkUser(a, 2)
					switch d.cbres {
					case 0:
						return nil
					case 1:
						return cbCtx.Err()
					default:
						return errOf(d.cbres)
					}
				})
				d.v, d.e, d.held = codeOf(err), 0, false
				d.ret = true
				return
			}
			if d.kind == 3 {
				val, rel, err := s.rc.Resolve(ctx)
				d.v, d.e, d.held = val, codeOf(err), rel != nil
				rd.rel = rel
				if err != nil {
					d.v = 0
				}
				d.ret = true
				return
			}
			if d.kind == 4 {
				val, rel, err := s.rc.ResolveWithReleased(ctx, func() { d.fired++ })
				d.v, d.e, d.held = val, codeOf(err), rel != nil
				rd.rel = rel
				if err != nil {
					d.v = 0
				}
				d.ret = true
				return
			}
			if d.kind == 0 {
				val, ref, err := s.rc.Wait(ctx)
				d.v, d.e, d.held, d.ref = val, codeOf(err), ref != nil, ref
				rd.ref = ref
				if err != nil {
					d.v = 0
				}
				d.ret = true
				return
			}
			prom, ref := s.rc.WaitWithReleased(ctx, func() { d.fired++ })
			d.ref = ref
			val, err := prom.Await(ctx)
			if err != nil {
				ref.Release()
				d.v, d.e, d.held = 0, codeOf(err), false
				d.ret = true
				return
			}
			rd.ref = ref
			d.v, d.e, d.held = val, 0, true
			d.ret = true
		})
		synctest.Wait()
	case 11:
		i := int(ev[1])
		if i >= len(s.cons) {
			return nil, false
		}
		d := s.cons[i].Data.(*cdata)
		if d.canc {
			return nil, false
		}
		d.canc = true
		d.cancel()
		synctest.Wait()
		d.cancKnown = true
	case 12:
		i := int(ev[1])
		if i >= len(s.cons) {
			return nil, false
		}
		d := s.cons[i].Data.(*cdata)
		if d.fire == nil || !d.fire.Parked() {
			return nil, false
		}
		s.c.Step(d.fire)
	case 15:
		i := int(ev[1])
		if i >= len(s.cons) {
			return nil, false
		}
		d := s.cons[i].Data.(*cdata)
		if d.kind != 2 {
			return nil, false
		}
		var wa *ctl.Actor
		for _, x := range d.watchers {
			if x.Parked() {
				wa = x
				break
			}
		}
		switch {
		case wa != nil:
			if wa == d.curWatch && s.cons[i].InUser() == 2 {
				d.cancKnown = true
			}
			s.c.Step(wa)
		case d.virt:
			d.virt = false
		default:
			return nil, false
		}
	case 14:
		if ev[1] < 1 || ev[1] > 3 {
			return nil, false
		}
		s.rootc[ev[1]] = true
		s.cancels[ev[1]]()
		synctest.Wait()
	case 13:
		i := int(ev[1])
		if i >= len(s.cons) || (ev[2] != 0 && ev[2] != 1 && ev[2] != 10 && ev[2] != 11) {
			return nil, false
		}
		d := s.cons[i].Data.(*cdata)
		if d.kind != 2 || s.cons[i].InUser() != 2 {
			return nil, false
		}
		d.cbres = ev[2]
		if d.curWatch != nil && d.curWatch.Parked() {
			s.w.Count("obs.access_callback_returns_while_its_watcher_is_parked", 1)
		}
		s.c.StepUser(s.cons[i])
	default:
		return nil, false
	}
	return s.obs(rets), true
}

func (s *sys) teardown() {
	for _, ca := range s.cons {
		if d := ca.Data.(*cdata); !d.canc {
			d.canc = true
			d.cancel()
		}
	}
	s.c.Free()
	for i := 0; i < 6; i++ {
		s.rc.ClearContext()
		for _, c := range s.cancels {
			if c != nil {
				c()
			}
		}
		synctest.Wait()
		s.c.Free()
	}
	refcount.VerifHook = nil
}

func pick(r *rand.Rand, xs []int) int { return xs[r.IntN(len(xs))] }

func (s *sys) gen(r *rand.Rand, maxG int) []uint64 {
	var gate0, inres, store, entered, relparked, relrefs, firep, conslive, incb, accwait, watchp, watchcur []int
	if pv := s.pendingVirt(); pv >= 0 {
		return []uint64{15, uint64(pv)}
	}
	na := len(s.parkedAsyncs())
	room := len(s.gors) < maxG
	// a resolver return: an error one time in oneInErr; a failing resolver returns the empty value three times out of four
	// (`return zero, rel, err`), otherwise its usual value; a successful one returns the empty value (handle 0, a nil pointer
	// with a cleanup) one time in five; with or without a release function either way
	ret8 := func(g int, oneInErr int) []uint64 {
		e, z := uint64(0), uint64(0)
		if r.IntN(oneInErr) == 0 {
			e = 2 + uint64(r.IntN(2))
			if r.IntN(4) != 0 {
				z = 1
			}
		} else if r.IntN(5) == 0 {
			z = 1
		}
		return []uint64{8, uint64(g), uint64(b2u(r.IntN(4) > 0)), e, z}
	}
	for i, a := range s.gors {
		d := a.Data.(*gdata)
		switch {
		case d.exiting || d.stored:
		case a.InUser() != 0:
			inres = append(inres, i)
		case a.Parked() && !d.passed:
			gate0 = append(gate0, i)
		case a.Parked():
			store = append(store, i)
		}
		if d.released != nil {
			entered = append(entered, i)
		}
	}
	for i, a := range s.relacts {
		if a.Parked() {
			relparked = append(relparked, i)
		}
	}
	for i, rd := range s.refs {
		if rd.ref != nil || rd.rel != nil {
			relrefs = append(relrefs, i)
		}
	}
	for i, ca := range s.cons {
		d := ca.Data.(*cdata)
		if d.fire != nil && d.fire.Parked() {
			firep = append(firep, i)
		}
		if !d.ret && !d.canc {
			conslive = append(conslive, i)
		}
		if d.kind == 2 && ca.InUser() == 2 {
			incb = append(incb, i)
		} else if d.kind == 2 && !d.ret && !d.canc && !ca.Parked() {
			accwait = append(accwait, i)
		}
		for _, wa := range d.watchers {
			if wa.Parked() {
				if len(watchp) == 0 || watchp[len(watchp)-1] != i {
					watchp = append(watchp, i)
				}
				if wa == d.curWatch && ca.InUser() == 2 {
					watchcur = append(watchcur, i)
				}
			}
		}
	}
	// the watcher of a running callback is parked before its cbCancel(): the callback returns first, or the watcher runs first
	if len(watchcur) > 0 && r.IntN(5) != 0 {
		c := pick(r, watchcur)
		if r.IntN(2) == 0 {
			return []uint64{13, uint64(c), []uint64{0, 0, 1, 1, 10, 11}[r.IntN(6)]}
		}
		return []uint64{15, uint64(c)}
	}
	if len(watchp) > 0 && r.IntN(4) == 0 {
		return []uint64{15, uint64(pick(r, watchp))}
	}
	// an Access call is waiting for a value: let the resolution make progress
	if len(accwait) > 0 && r.IntN(3) != 0 {
		for tries := 0; tries < 20; tries++ {
			x := r.IntN(100)
			switch {
			case x < 10 && room && len(gate0)+len(inres)+len(store) == 0:
				return []uint64{1, uint64(1 + r.IntN(2))}
			case x < 40 && len(gate0) > 0:
				return []uint64{7, uint64(pick(r, gate0)), 0}
			case x < 70 && len(inres) > 0:
				return ret8(pick(r, inres), 8)
			case x < 100 && len(store) > 0:
				return []uint64{9, uint64(pick(r, store))}
			}
		}
	}
	cbres := func() uint64 { return []uint64{0, 0, 1, 1, 10, 11}[r.IntN(6)] }
	// while an Access callback runs: invalidate its value, let the replacement be resolved, return before and after
	if len(incb) > 0 && r.IntN(4) != 0 {
		newest := len(s.gors) - 1
		for tries := 0; tries < 40; tries++ {
			x := r.IntN(100)
			switch {
			case x < 14:
				return []uint64{13, uint64(pick(r, incb)), cbres()}
			case x < 30 && newest >= 0 && s.gors[newest].Data.(*gdata).released != nil && room:
				return []uint64{5, uint64(newest)}
			case x < 38 && room:
				return []uint64{1, uint64(1 + r.IntN(2))}
			case x < 58 && len(gate0) > 0:
				return []uint64{7, uint64(pick(r, gate0)), 0}
			case x < 78 && len(inres) > 0:
				return ret8(pick(r, inres), 6)
			case x < 96 && len(store) > 0:
				return []uint64{9, uint64(pick(r, store))}
			case x < 100 && len(conslive) > 0:
				return []uint64{11, uint64(pick(r, conslive))}
			}
		}
	}
	for tries := 0; tries < 300; tries++ {
		x := r.IntN(100)
		switch {
		case x < 8 && room:
			c := uint64(1 + r.IntN(3))
			if r.IntN(5) == 0 {
				c = 0
			}
			return []uint64{1, c}
		case x < 18 && len(s.refs) < 8 && room:
			return []uint64{2, uint64(r.IntN(3))}
		case x < 28 && len(relrefs) > 0:
			return []uint64{3, uint64(pick(r, relrefs))}
		case x < 40 && len(relparked) > 0:
			return []uint64{4, uint64(pick(r, relparked))}
		case x < 46 && len(entered) > 0 && room:
			return []uint64{5, uint64(pick(r, entered))}
		case x < 52 && na > 0:
			return []uint64{6, uint64(r.IntN(na)), 0}
		case x < 66 && len(gate0) > 0:
			return []uint64{7, uint64(pick(r, gate0)), 0}
		case x < 78 && len(inres) > 0:
			// leave slow resolvers in place some of the time
			if r.IntN(4) == 0 {
				continue
			}
			return ret8(pick(r, inres), 4)
		case x < 88 && len(store) > 0:
			return []uint64{9, uint64(pick(r, store))}
		case x < 92 && len(s.cons) < 3 && len(s.refs) < 8 && room:
			if s.wantAcc && r.IntN(2) == 0 {
				return []uint64{10, 2}
			}
			// Wait, WaitWithReleased (+ replica), Resolve, ResolveWithReleased
			k := []uint64{0, 1, 3, 4}[r.IntN(4)]
			if k == 4 {
				for _, ca := range s.cons {
					if d := ca.Data.(*cdata); d.kind == 4 && d.ref == nil && d.fire == nil {
						k = 1
					}
				}
			}
			return []uint64{10, k}
		case x < 93 && len(incb) > 0:
			return []uint64{13, uint64(pick(r, incb)), cbres()}
		case x == 93 && s.wantRootCancel && len(s.gors) > 0:
			return []uint64{14, uint64(1 + r.IntN(3))}
		case x < 94 && len(conslive) > 0 && (!s.wantAcc || r.IntN(4) == 0):
			return []uint64{11, uint64(pick(r, conslive))}
		case x < 100 && len(firep) > 0:
			return []uint64{12, uint64(pick(r, firep))}
		}
	}
	return nil
}

func (s *sys) count(ev, obs []uint64) {
	names := map[uint64]string{1: "setcontext", 2: "addref", 3: "release", 4: "removeref_section", 5: "released_sync", 6: "released_async_section",
		7: "proceed", 8: "resolver_return", 9: "store", 10: "consumer", 11: "consumer_cancel", 12: "wwr_fire_section", 13: "access_callback_return", 14: "root_context_cancelled",
		15: "access_watcher_step"}
	s.w.Count("ev."+names[ev[0]], 1)
	inres, blocked := 0, 0
	for _, a := range s.gors {
		d := a.Data.(*gdata)
		if a.InUser() != 0 {
			inres++
		} else if !a.Parked() && !d.exiting && !d.stored {
			blocked++
		}
	}
	if blocked > 0 && inres > 0 {
		s.w.Count("obs.goroutine_blocked_behind_resolver", 1)
	}
	if len(s.rellog) > 0 && ev[0] == 9 {
		s.w.Count("obs.store_sections_after_some_release", 1)
	}
	if len(s.parkedAsyncs()) > 0 {
		s.w.Count("obs.async_released_parked", 1)
	}
	if ev[0] == 5 && (s.rootc[1] || s.rootc[2] || s.rootc[3]) {
		s.w.Count("obs.released_after_root_cancel", 1)
	}
	if ev[0] == 10 {
		s.w.Count("ev.consumer_"+[]string{"wait", "wait_with_released", "access", "resolve", "resolve_with_released"}[ev[1]], 1)
		s.w.Count("ctx.consumer_context_"+[]string{"plain", "deadline_like", "with_cause"}[s.cons[len(s.cons)-1].Data.(*cdata).flavour], 1)
	}
	if ev[0] == 11 {
		s.w.Count("ctx.consumer_context_ended_"+[]string{"plain", "deadline_like", "with_cause"}[s.cons[ev[1]].Data.(*cdata).flavour], 1)
	}
	if ev[0] == 14 {
		s.w.Count("ctx.root_context_ended_"+[]string{"", "plain", "deadline_like", "with_cause"}[ev[1]], 1)
	}
	if ev[0] == 1 && ev[1] != 0 {
		s.w.Count("ctx.setcontext_"+[]string{"", "plain", "deadline_like", "with_cause"}[ev[1]], 1)
	}
	if ev[0] == 8 && len(ev) > 4 && ev[4] == 1 && ev[3] != 0 {
		s.w.Count("ev.resolver_return_error_with_empty_value", 1)
		if ev[2] == 1 {
			s.w.Count("ev.resolver_return_error_with_empty_value_and_release_func", 1)
		}
	}
	if ev[0] == 8 && len(ev) > 4 && ev[4] == 1 && ev[3] == 0 {
		s.w.Count("ev.resolver_return_empty_value_nil_error", 1)
		if ev[2] == 1 {
			s.w.Count("ev.resolver_return_empty_value_nil_error_and_release_func", 1)
		}
	}
	if ev[0] == 3 && int(ev[1]) < len(s.refs) && s.refs[ev[1]].rel != nil {
		s.w.Count("ev.release_via_func_returned_by_resolve", 1)
	}
	// an error with the empty value is the stored result and a reference in the set was told so; what invalidates it next
	te := uint64(0)
	if p := s.terr.GetValue(); p != nil {
		te = codeOf(*p)
	}
	if s.prevErrEmpty && te == 0 {
		s.w.Count("obs.error_empty_invalidated_by."+names[ev[0]], 1)
		if ev[0] == 1 && ev[1] == 0 {
			s.w.Count("obs.error_empty_invalidated_by.clearcontext", 1)
		}
		if s.prevErrEmptyConsRel {
			s.w.Count("obs.error_empty_invalidated_while_consumer_inside_its_release", 1)
		}
	}
	s.prevErrEmpty, s.prevErrEmptyConsRel = false, false
	if te != 0 {
		for _, rd := range s.refs {
			if (rd.kind == 1 || rd.kind == 2) && s.inSet(rd) && rd.last == [3]uint64{2, 0, te} {
				s.prevErrEmpty = true
			}
		}
		if s.prevErrEmpty {
			s.w.Count("obs.error_empty_stored_while_referenced", 1)
			for _, ca := range s.cons {
				if d := ca.Data.(*cdata); (d.kind == 1 || d.kind == 4) && !d.ret && ca.Parked() {
					s.prevErrEmptyConsRel = true
				}
			}
		}
	}
	if s.counted == nil {
		s.counted = map[int]bool{}
	}
	for i, ca := range s.cons {
		d := ca.Data.(*cdata)
		if (d.kind == 3 || d.kind == 4) && d.ret && !s.counted[i] {
			s.counted[i] = true
			what := "value_and_release_func"
			if !d.held {
				what = "error_and_nil_release_func"
			}
			s.w.Count(fmt.Sprintf("obs.%s_returned_%s", []string{3: "resolve", 4: "resolve_with_released"}[d.kind], what), 1)
		}
		// what a consumer whose (flavoured) context was ended got back
		if d.ret && !s.counted[2000+i] {
			s.counted[2000+i] = true
			api := []string{"wait", "wait_with_released", "access", "resolve", "resolve_with_released"}[d.kind]
			fl := []string{"plain", "deadline_like", "with_cause"}[d.flavour]
			code := d.e
			if d.kind == 2 {
				code = d.v
			}
			if d.canc && code != 0 {
				what := fmt.Sprintf("error_%d", code)
				switch code {
				case 1:
					what = "context_canceled"
				case codeDeadline:
					what = "deadline_exceeded"
				case codeCause:
					what = "the_cause"
				}
				s.w.Count(fmt.Sprintf("ctx.%s_with_%s_context_ended_returned_%s", api, fl, what), 1)
				if d.flavour != 0 && code == 1 {
					s.w.Count("ctx.flavoured_context_ended_returned_context_canceled", 1)
				}
			} else if d.canc {
				s.w.Count(fmt.Sprintf("ctx.%s_with_%s_context_ended_returned_nil", api, fl), 1)
			}
		}
		if d.kind == 4 && d.fired > 0 && !s.counted[1000+i] {
			s.counted[1000+i] = true
			s.w.Count("obs.resolve_with_released_callback_fired", 1)
		}
	}
	for _, ca := range s.cons {
		d := ca.Data.(*cdata)
		if d.kind == 2 {
			for _, wa := range d.watchers {
				if wa.Parked() {
					if wa == d.curWatch && ca.InUser() == 2 {
						s.w.Count("obs.access_watcher_of_running_callback_parked", 1)
					} else {
						s.w.Count("obs.access_stale_watcher_parked", 1)
					}
				}
			}
		}
		if d.kind == 2 && ca.InUser() == 2 {
			s.w.Count("obs.access_in_callback", 1)
			if d.canc && d.cbctx.Err() != nil {
				s.w.Count(fmt.Sprintf("ctx.access_callback_ctx_err_after_%s_caller_context_ended_code_%d", []string{"plain", "deadline_like", "with_cause"}[d.flavour], codeOf(d.cbctx.Err())), 1)
			}
			if d.cbctx.Err() != nil && !d.canc {
				s.w.Count("obs.access_callback_ctx_cancelled_by_invalidation", 1)
				if s.target.GetValue() == d.cbval && d.cbval != 0 {
					s.w.Count("obs.access_aba_value_equal_again", 1)
				}
			}
		}
		if d.kind == 2 && d.ret && ev[0] == 4 {
			s.w.Count("obs.access_returned", 1)
		}
	}
}

func runRandom(t *testing.T, w *hist.W, h int) {
	r := hist.Rng(h)
	synctest.Test(t, func(t *testing.T) {
		cfg := []uint64{uint64(r.IntN(2)), uint64(b2u(r.IntN(4) == 0))}
		s := newSys(w, cfg)
		s.wantAcc = r.IntN(3) == 0 || cfg[1] == 1
		s.wantRootCancel = r.IntN(3) == 0
		defer s.teardown()
		w.Begin(fmt.Sprintf("r%d", h), cfg)
		steps := 10 + r.IntN(60)
		maxG := 3 + r.IntN(9)
		for k := 0; k < steps; k++ {
			ev := s.gen(r, maxG)
			if ev == nil {
				break
			}
			obs, ok := s.exec(ev)
			if !ok {
				break
			}
			s.count(ev, obs)
			w.Step(ev, obs)
			if s.poisoned {
				s.abort()
			}
		}
		w.Count(fmt.Sprintf("len.%02d", min(steps/10, 6)*10), 1)
		w.Count(fmt.Sprintf("cfg.keep%d", cfg[0]), 1)
		w.Count(fmt.Sprintf("cfg.const%d", cfg[1]), 1)
		w.Count("release_calls", len(s.rellog))
	})
}

func runFixed(t *testing.T, w *hist.W, id string, cfg []uint64, evs [][]uint64) {
	synctest.Test(t, func(t *testing.T) {
		if len(cfg) < 1 {
			return
		}
		s := newSys(w, cfg)
		defer s.teardown()
		w.Begin(id, cfg)
		for _, ev := range evs {
			ev = append([]uint64{}, ev...)
			obs, ok := s.exec(ev)
			if !ok {
				w.Count("fixed.truncated", 1)
				break
			}
			s.count(ev, obs)
			w.Step(ev, obs)
			if s.poisoned {
				s.abort()
			}
		}
	})
}

// abort ends the whole run: the mutex of the object under test is held by a goroutine that panicked, so the
// bubble can never become idle again.  The history written so far (with the panic observation) is on disk.
func (s *sys) abort() {
	s.w.Count("aborted_after_panic_under_mutex", 1)
	_ = s.w.Close()
	os.Exit(3)
}

func TestRefCount(t *testing.T) {
	w, err := hist.Open("refcount")
	if err != nil {
		t.Fatal(err)
	}
	defer w.Close()
	if *hist.Replay != "" {
		hs, err := hist.Load(*hist.Replay)
		if err != nil {
			t.Fatal(err)
		}
		for _, h := range hs {
			runFixed(t, w, h.ID, h.Cfg, h.Evs)
		}
		return
	}
	for _, h := range hist.LoadCorpus(*hist.Corpus) {
		runFixed(t, w, h.ID, h.Cfg, h.Evs)
		w.Count("corpus", 1)
	}
	for h := 0; h < *hist.NHist; h++ {
		w.Flush()
		runRandom(t, w, h)
	}
}
