// Free-running correspondence for refcount.RefCount (C08, C09): goroutines add and release references truly in parallel
// on the real scheduler, with an oracle the model is proved to satisfy.  The scheduled harness runs every critical
// section of RefCount as one step, so a change that splits one section in two (a check-then-act spread over two lock
// acquisitions) leaves the scheduled correspondence intact; here it does not.
//
// Oracle (both are theorems about the model for every schedule: Props_C08 / Props_C09):
//
//	C08  when the release function of value v runs, no reference that is still held has v as the last thing it was told
//	     (every reference callback has been told v is gone); and v is released at most once            -> exit status 5
//	C09  a held reference of a RefCount that has a context is told a value within 5 s of real time (the resolver
//	     returns at once), and when every reference is gone every value is released (keepUnref = false)  -> exit status 6
//
// Output (-out): one line per event of the failing round:  R <seq> <goroutine> <what> <value id>
package refcountx

import (
	"context"
	"flag"
	"fmt"
	"math/rand/v2"
	"os"
	"runtime"
	"sync"
	"sync/atomic"
	"testing"
	"time"

	"github.com/aperturerobotics/util/ccontainer"
	"github.com/aperturerobotics/util/refcount"
	"verif/harness/hist"
)

var freeMS = flag.Int("free_ms", 4000, "duration of the free-running run in milliseconds")

type fval struct {
	id       int64
	released atomic.Int32
}

type fref struct {
	held  atomic.Bool
	last  atomic.Int64 // id of the value it was last told (0: none / told it is gone)
	given atomic.Int64 // id of the last value it was given (not cleared when it is told the value is gone)
}

type fev struct {
	seq  uint64
	g    int
	what string
	id   int64
}

type fround struct {
	mu   sync.Mutex
	evs  []fev
	seq  atomic.Uint64
	bad  atomic.Bool
	what atomic.Value
	refs sync.Map // *fref -> struct{}
}

func (r *fround) log(g int, what string, id int64) {
	s := r.seq.Add(1)
	r.mu.Lock()
	r.evs = append(r.evs, fev{s, g, what, id})
	r.mu.Unlock()
}

func (r *fround) fail(code *atomic.Int32, c int32, msg string) {
	if r.bad.CompareAndSwap(false, true) {
		r.what.Store(msg)
		code.Store(c)
	}
}

func TestRefCountFree(t *testing.T) {
	dur := time.Duration(*freeMS) * time.Millisecond
	start := time.Now()
	rounds, adds, otherKind := 0, 0, 0
	stallWait := 5 * time.Second
	if *hist.FreeWant != 0 && *hist.FreeWant != 6 {
		// stalls are not what this run is asked about (they are skipped): do not spend the run waiting for them
		stallWait = 30 * time.Millisecond
	}
	var code atomic.Int32
	var failed *fround
	for h := 0; time.Since(start) < dur && failed == nil; h++ {
		rounds++
		rd := &fround{}
		rng := rand.New(rand.NewPCG(*hist.Seed, uint64(h)))
		switching := h%2 == 1
		var nextID atomic.Int64
		var vals sync.Map
		ctx, cancel := context.WithCancel(context.Background())
		target := ccontainer.NewCContainer[*fval](nil)
		resolver := func(ctx context.Context, released func()) (*fval, func(), error) {
			v := &fval{id: nextID.Add(1)}
			vals.Store(v.id, v)
			rd.log(-1, "resolved", v.id)
			return v, func() {
				rd.log(-1, "release", v.id)
				if v.released.Add(1) > 1 {
					rd.fail(&code, 5, fmt.Sprintf("value %d released twice", v.id))
				}
				rd.refs.Range(func(k, _ any) bool {
					f := k.(*fref)
					if f.held.Load() && f.last.Load() == v.id {
						rd.fail(&code, 5, fmt.Sprintf("value %d is released while a held reference has it as the last value it was told", v.id))
					}
					if !switching && f.held.Load() && f.given.Load() == v.id {
						// nothing in this run invalidates a value (no released() callback, no context change)
						rd.fail(&code, 5, fmt.Sprintf("value %d is released while a reference that was given it is still held, and nothing invalidated it", v.id))
					}
					return true
				})
			}, nil
		}
		rc := refcount.NewRefCount(ctx, false, target, nil, resolver)
		ng := 2 + rng.IntN(4)
		seeds := make([]uint64, ng)
		for i := range seeds {
			seeds[i] = rng.Uint64()
		}
		var wg sync.WaitGroup
		startCh := make(chan struct{})
		for g := 0; g < ng; g++ {
			wg.Add(1)
			go func(g int) {
				defer wg.Done()
				r := rand.New(rand.NewPCG(seeds[g], 1))
				<-startCh
				for i := 0; i < 12 && !rd.bad.Load(); i++ {
					f := &fref{}
					f.held.Store(true)
					rd.refs.Store(f, struct{}{})
					ref := rc.AddRef(func(resolved bool, val *fval, err error) {
						if resolved && val != nil {
							f.given.Store(val.id)
							f.last.Store(val.id)
						} else {
							f.last.Store(0)
						}
					})
					rd.log(g, "added", f.last.Load())
					// a held reference is told a value soon (the resolver returns at once)
					deadline := time.Now().Add(stallWait)
					for f.last.Load() == 0 && !rd.bad.Load() {
						if time.Now().After(deadline) {
							rd.fail(&code, 6, "a held reference was not told any value for 5 s although the RefCount has a context and the resolver returns at once")
							break
						}
						runtime.Gosched()
					}
					for k := r.IntN(6); k > 0; k-- {
						runtime.Gosched()
					}
					f.held.Store(false)
					rd.log(g, "releasing", f.last.Load())
					ref.Release()
				}
			}(g)
		}
		// in every second round the context of the RefCount is replaced again and again while the references come and go
		// (each replacement restarts the resolver; nothing else invalidates a value)
		stopSw := make(chan struct{})
		var swWg sync.WaitGroup
		if switching {
			swWg.Add(1)
			go func() {
				defer swWg.Done()
				prev := cancel
				for {
					select {
					case <-stopSw:
						prev()
						return
					default:
					}
					nctx, ncancel := context.WithCancel(context.Background())
					rc.SetContext(nctx)
					rd.log(-2, "setcontext", 0)
					prev()
					prev = ncancel
					for k := 0; k < 20; k++ {
						runtime.Gosched()
					}
				}
			}()
		}
		close(startCh)
		wg.Wait()
		close(stopSw)
		swWg.Wait()
		adds += ng * 12
		if !rd.bad.Load() {
			// every reference is gone: every value is released (exactly once) shortly afterwards
			deadline := time.Now().Add(stallWait)
			for {
				pending := int64(0)
				vals.Range(func(_, v any) bool {
					if v.(*fval).released.Load() == 0 {
						pending = v.(*fval).id
					}
					return true
				})
				if pending == 0 || rd.bad.Load() {
					break
				}
				if time.Now().After(deadline) {
					rd.fail(&code, 6, fmt.Sprintf("value %d was never released although every reference is gone (keepUnref = false)", pending))
					break
				}
				time.Sleep(time.Millisecond)
			}
		}
		cancel()
		if rd.bad.Load() {
			if *hist.FreeWant != 0 && int(code.Load()) != *hist.FreeWant {
				// not the kind of failure this run was asked about: count it and go on
				otherKind++
				code.Store(0)
				continue
			}
			failed = rd
		}
	}
	w, err := hist.Open("refcount")
	if err != nil {
		t.Fatal(err)
	}
	w.Count("free.rounds", rounds)
	w.Count("free.failures_of_the_other_kind_skipped", otherKind)
	w.Count("free.addref_release_pairs", adds)
	if failed == nil {
		w.Close()
		return
	}
	w.Count("free.violation", 1)
	w.Close()
	f, err := os.OpenFile(*hist.OutFile, os.O_WRONLY|os.O_TRUNC|os.O_CREATE, 0o644)
	if err != nil {
		t.Fatal(err)
	}
	fmt.Fprintf(f, "# free-running run on refcount.RefCount (real scheduler, seed %d): %s\n", *hist.Seed, failed.what.Load())
	fmt.Fprintf(f, "# events of the failing round; lines: R seq goroutine(-1: library callback) what value-id\n")
	failed.mu.Lock()
	evs := failed.evs
	if len(evs) > 400 {
		evs = evs[len(evs)-400:]
	}
	for _, e := range evs {
		fmt.Fprintf(f, "R %d %d %s %d\n", e.seq, e.g, e.what, e.id)
	}
	failed.mu.Unlock()
	f.Close()
	fmt.Fprintf(os.Stderr, "FREE-VIOLATION %s\n", failed.what.Load())
	os.Exit(int(code.Load()))
}
