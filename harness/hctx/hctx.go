// Package hctx provides the context flavours the harnesses hand to the library besides plain context.WithCancel:
// a context that ENDS LIKE A DEADLINE (Err() == context.DeadlineExceeded, Cause == context.DeadlineExceeded) and a
// context cancelled WITH A CAUSE (Err() == context.Canceled, context.Cause(ctx) == the cause).  Both are ended by
// calling the returned function, so that the controller decides when; no real or fake clock is involved.
// Why: several properties name the error a cancelled caller must get (context.Canceled, or "the context's error");
// code that returns ctx.Err() or context.Cause(ctx) where it must return context.Canceled (or the other way round) is
// indistinguishable with plain WithCancel contexts.
package hctx

import (
	"context"
	"errors"
	"time"
)

// ErrCause is the cause used by WithCause contexts.
var ErrCause = errors.New("harness: shutting down")

type deadlineCtx struct {
	context.Context
	dl time.Time
}

// Deadline reports a deadline that HAS ALREADY BEEN REACHED (the instant the context was made) although the context
// has not ended: the state every real deadline context is in between its deadline instant and the moment its timer
// is serviced.  Code that gives up because "the deadline has passed" instead of because Done() is closed returns an
// error from a source that has not fired.
func (c deadlineCtx) Deadline() (time.Time, bool) { return c.dl, true }

func (c deadlineCtx) Err() error {
	if c.Context.Err() != nil {
		return context.DeadlineExceeded
	}
	return nil
}

// DeadlineLike returns a context that, once end() is called, is done with Err() == context.DeadlineExceeded and
// context.Cause(ctx) == context.DeadlineExceeded, exactly as a context whose deadline passed.
func DeadlineLike(parent context.Context) (ctx context.Context, end func()) {
	inner, cancel := context.WithCancelCause(parent)
	return deadlineCtx{inner, time.Now()}, func() { cancel(context.DeadlineExceeded) }
}

// WithCause returns a context that, once end() is called, is done with Err() == context.Canceled and
// context.Cause(ctx) == ErrCause.
func WithCause(parent context.Context) (ctx context.Context, end func()) {
	inner, cancel := context.WithCancelCause(parent)
	return inner, func() { cancel(ErrCause) }
}

// Flavour picks a flavour deterministically from a counter: 0 plain, 1 deadline-like, 2 with cause.
func Flavour(parent context.Context, n int) (ctx context.Context, end func(), kind int) {
	switch n % 4 {
	case 1:
		c, e := DeadlineLike(parent)
		return c, e, 1
	case 3:
		c, e := WithCause(parent)
		return c, e, 2
	}
	c, cancel := context.WithCancel(parent)
	return c, func() { cancel() }, 0
}
