module verif/harness

go 1.26

require (
	github.com/aperturerobotics/util v0.0.0
	github.com/cenkalti/backoff/v4 v4.3.0
	github.com/sirupsen/logrus v1.9.3
)

require (
	github.com/aperturerobotics/json-iterator-lite v1.0.0 // indirect
	github.com/aperturerobotics/protobuf-go-lite v0.8.0 // indirect
	github.com/pkg/errors v0.9.1 // indirect
	golang.org/x/exp v0.0.0-20241108190413-2d47ceb2692f // indirect
	golang.org/x/sys v0.13.0 // indirect
)

replace github.com/aperturerobotics/util => /repo
