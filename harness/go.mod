module verif/harness

go 1.26

require github.com/aperturerobotics/util v0.0.0

require github.com/pkg/errors v0.9.1 // indirect

replace github.com/aperturerobotics/util => /repo
