// Package racex: free-running workloads for property C13, run under the Go race detector.
//
// One TestRace_<Type> per concurrency-safe type of the property: N goroutines call randomly chosen methods with
// harness-owned (race-free) callbacks for a bounded wall time (VERIF_RACE_SECONDS, default 1) and a bounded number
// of operations.  There is no model and no history here: the only verdict is the race detector's.  ./check C13 runs
// these in the thorough tier, and in the quick tier only for the types whose table entries were rejected; a report
// "WARNING: DATA RACE" is appended to the replay file and is what makes a rejected table a VIOLATION with a failing input.
//
// Coverage rule: every exported function / method of the 21 files of the property is called concurrently by some
// workload, including the rarely used variants (nil callbacks, nil / open / loaded / closed error channels, TryHoldLock,
// HoldLockMaybeAsync, RLocker, the ...WithLogger and ...VT constructors, WithRetry / WithExitLogger options, conds of
// Reset/Restart(All)Routine(s), ResolveWithReleased, Access with a failing callback, keepUnref, pre-resolved promises).
// Workloads that start late on purpose (a goroutine that first touches an object after another one finished an
// operation on it, with no synchronisation of the harness in between) are what demonstrates "fast path without the
// lock" races: the detector needs an access that is not ordered, not a lucky interleaving.
package racex

import (
	"bytes"
	"context"
	"errors"
	"io"
	"math/rand"
	"os"
	"strconv"
	"sync"
	"sync/atomic"
	"testing"
	"time"

	ubackoff "github.com/aperturerobotics/util/backoff"
	"github.com/aperturerobotics/util/broadcast"
	"github.com/aperturerobotics/util/ccall"
	"github.com/aperturerobotics/util/ccontainer"
	"github.com/aperturerobotics/util/conc"
	"github.com/aperturerobotics/util/cqueue"
	"github.com/aperturerobotics/util/csync"
	"github.com/aperturerobotics/util/iocloser"
	"github.com/aperturerobotics/util/iosizer"
	"github.com/aperturerobotics/util/keyed"
	"github.com/aperturerobotics/util/linkedlist"
	"github.com/aperturerobotics/util/memo"
	"github.com/aperturerobotics/util/promise"
	"github.com/aperturerobotics/util/refcount"
	"github.com/aperturerobotics/util/routine"
	cbackoff "github.com/cenkalti/backoff/v4"
	"github.com/sirupsen/logrus"
)

const workers = 8

func seconds() time.Duration {
	if s := os.Getenv("VERIF_RACE_SECONDS"); s != "" {
		if f, err := strconv.ParseFloat(s, 64); err == nil && f > 0 {
			return time.Duration(f * float64(time.Second))
		}
	}
	return time.Second
}

func seed() int64 {
	if s := os.Getenv("VERIF_SEED"); s != "" {
		if n, err := strconv.ParseInt(s, 10, 64); err == nil {
			return n
		}
	}
	return 1
}

// run starts n goroutines that call body until the deadline (or maxOps operations each).
func run(t *testing.T, n, maxOps int, body func(id int, rng *rand.Rand, i int)) {
	t.Helper()
	runFor(t, seconds(), n, maxOps, body)
}

func runFor(t *testing.T, d time.Duration, n, maxOps int, body func(id int, rng *rand.Rand, i int)) {
	t.Helper()
	deadline := time.Now().Add(d)
	var wg sync.WaitGroup
	for g := 0; g < n; g++ {
		wg.Add(1)
		go func(id int) {
			defer wg.Done()
			rng := rand.New(rand.NewSource(seed()*1000 + int64(id)))
			for i := 0; i < maxOps && time.Now().Before(deadline); i++ {
				body(id, rng, i)
				if rng.Intn(4) == 0 {
					time.Sleep(time.Duration(rng.Intn(200)) * time.Microsecond)
				}
			}
		}(g)
	}
	wg.Wait()
}

func shortCtx(rng *rand.Rand) (context.Context, context.CancelFunc) {
	return context.WithTimeout(context.Background(), time.Duration(1+rng.Intn(3))*time.Millisecond)
}

// errChan: the optional error channel of the Wait* / Await* functions in its four states
func errChan(rng *rand.Rand) <-chan error {
	switch rng.Intn(4) {
	case 0:
		return nil
	case 1:
		return make(chan error) // open, never written
	case 2:
		ch := make(chan error, 1)
		ch <- errors.New("from errCh")
		return ch
	}
	ch := make(chan error)
	close(ch)
	return ch
}

// quietLogger: a logger that formats its entries (so the arguments are read) and writes them nowhere
func quietLogger() *logrus.Entry {
	l := logrus.New()
	l.SetOutput(io.Discard)
	l.SetLevel(logrus.DebugLevel)
	return logrus.NewEntry(l)
}

// rounds: how many short rounds a workload that needs many fresh objects runs within the time budget
func rounds(each time.Duration) int {
	n := int(seconds() / each)
	if n < 8 {
		n = 8
	}
	return n
}

func TestRace_Broadcast(t *testing.T) {
	var b broadcast.Broadcast
	var n atomic.Int64
	shared := 0 // guarded by b
	run(t, workers, 1<<20, func(id int, rng *rand.Rand, i int) {
		switch rng.Intn(5) {
		case 0:
			b.HoldLock(func(bc func(), gw func() <-chan struct{}) { shared++; bc() })
		case 1:
			b.TryHoldLock(func(bc func(), gw func() <-chan struct{}) { shared--; _ = gw() })
		case 2:
			b.HoldLockMaybeAsync(func(bc func(), gw func() <-chan struct{}) { shared++; bc(); n.Add(1) })
		case 3:
			ctx, cancel := shortCtx(rng)
			_ = b.Wait(ctx, func(bc func(), gw func() <-chan struct{}) (bool, error) { return shared%3 == 0, nil })
			cancel()
		case 4:
			var ch <-chan struct{}
			b.HoldLock(func(bc func(), gw func() <-chan struct{}) { ch = gw() })
			select {
			case <-ch:
			case <-time.After(200 * time.Microsecond):
			}
		}
	})
	time.Sleep(5 * time.Millisecond)
}

func TestRace_CsyncMutex(t *testing.T) {
	var m csync.Mutex
	shared := 0
	lk := m.Locker()
	run(t, workers, 1<<20, func(id int, rng *rand.Rand, i int) {
		switch rng.Intn(4) {
		case 0:
			ctx, cancel := shortCtx(rng)
			if rel, err := m.Lock(ctx); err == nil {
				shared++
				rel()
				rel()
			}
			cancel()
		case 1:
			if rel, ok := m.TryLock(); ok {
				shared--
				rel()
			}
		case 2:
			lk.Lock()
			shared++
			lk.Unlock()
		case 3:
			ctx, cancel := context.WithCancel(context.Background())
			cancel()
			if rel, err := m.Lock(ctx); err == nil {
				rel()
			}
		}
	})
}

func TestRace_CsyncRWMutex(t *testing.T) {
	var m csync.RWMutex
	shared := 0
	wl, rl := m.Locker(), m.RLocker()
	run(t, workers, 1<<20, func(id int, rng *rand.Rand, i int) {
		switch rng.Intn(6) {
		case 0:
			ctx, cancel := shortCtx(rng)
			if rel, err := m.Lock(ctx, true); err == nil {
				shared++
				rel()
			}
			cancel()
		case 1:
			ctx, cancel := shortCtx(rng)
			if rel, err := m.Lock(ctx, false); err == nil {
				_ = shared
				rel()
				rel()
			}
			cancel()
		case 2:
			if rel, ok := m.TryLock(true); ok {
				shared--
				rel()
			}
		case 3:
			if rel, ok := m.TryLock(false); ok {
				_ = shared
				rel()
			}
		case 4:
			wl.Lock()
			shared++
			wl.Unlock()
		case 5:
			rl.Lock()
			_ = shared
			rl.Unlock()
		}
	})
}

func TestRace_CContainer(t *testing.T) {
	c := ccontainer.NewCContainerWithEqual(0, func(a, b int) bool { return a == b })
	run(t, workers, 1<<20, func(id int, rng *rand.Rand, i int) {
		switch rng.Intn(8) {
		case 6:
			_ = c.SwapValue(nil) // documented: a nil callback only reads the value
		case 7:
			ctx, cancel := shortCtx(rng)
			_, _ = c.WaitValueWithValidator(ctx, func(v int) (bool, error) { return v == 3, nil }, nil)
			cancel()
		case 0:
			c.SetValue(rng.Intn(4))
		case 1:
			_ = c.GetValue()
		case 2:
			_ = c.SwapValue(func(v int) int { return (v + 1) % 4 })
		case 3:
			ctx, cancel := shortCtx(rng)
			_, _ = c.WaitValue(ctx, errChan(rng))
			cancel()
		case 4:
			ctx, cancel := shortCtx(rng)
			_, _ = c.WaitValueChange(ctx, rng.Intn(4), errChan(rng))
			cancel()
		case 5:
			ctx, cancel := shortCtx(rng)
			_ = c.WaitValueEmpty(ctx, errChan(rng))
			cancel()
		}
	})
}

type vtMsg struct{ n int }

func (m *vtMsg) EqualVT(o *vtMsg) bool { return (m == nil) == (o == nil) && (m == nil || m.n == o.n) }

// the other constructors (default comparison, EqualVT), late readers of a value set by a finished writer
func TestRace_CContainerVariants(t *testing.T) {
	msgs := []*vtMsg{nil, {1}, {2}, {2}}
	n := rounds(20 * time.Millisecond)
	for round := 0; round < n; round++ {
		c := ccontainer.NewCContainer(0)
		v := ccontainer.NewCContainerVT[*vtMsg](nil)
		runFor(t, seconds()/time.Duration(n), workers, 48, func(id int, rng *rand.Rand, i int) {
			if i == 0 && id > 0 {
				time.Sleep(time.Duration(rng.Intn(300)) * time.Microsecond) // late: after worker 0's first writes
			}
			switch rng.Intn(10) {
			case 0:
				c.SetValue(rng.Intn(3))
			case 1:
				v.SetValue(msgs[rng.Intn(len(msgs))])
			case 2:
				_ = c.GetValue()
				_ = v.GetValue()
			case 3:
				_ = c.SwapValue(nil)
				_ = v.SwapValue(nil)
			case 4:
				_ = c.SwapValue(func(x int) int { return (x + 1) % 3 })
			case 5:
				_ = v.SwapValue(func(m *vtMsg) *vtMsg { return msgs[rng.Intn(len(msgs))] })
			case 6:
				ctx, cancel := shortCtx(rng)
				_, _ = v.WaitValue(ctx, errChan(rng))
				cancel()
			case 7:
				ctx, cancel := shortCtx(rng)
				_, _ = v.WaitValueChange(ctx, msgs[rng.Intn(len(msgs))], nil)
				cancel()
			case 8:
				ctx, cancel := shortCtx(rng)
				_, _ = c.WaitValueWithValidator(ctx, func(x int) (bool, error) {
					if x == 2 {
						return false, errors.New("invalid")
					}
					return x == 1, nil
				}, errChan(rng))
				cancel()
			case 9:
				ctx, cancel := shortCtx(rng)
				_ = v.WaitValueEmpty(ctx, nil)
				cancel()
			}
		})
	}
}

func TestRace_CallConcurrently(t *testing.T) {
	var calls atomic.Int64
	run(t, 4, 1<<16, func(id int, rng *rand.Rand, i int) {
		n := rng.Intn(5)
		fns := make([]ccall.CallConcurrentlyFunc, n)
		for k := range fns {
			fail := rng.Intn(4) == 0
			d := time.Duration(rng.Intn(100)) * time.Microsecond
			if rng.Intn(8) == 0 {
				continue // nil function
			}
			fns[k] = func(ctx context.Context) error {
				calls.Add(1)
				time.Sleep(d)
				if fail {
					return errors.New("x")
				}
				return nil
			}
		}
		ctx, cancel := shortCtx(rng)
		_ = ccall.CallConcurrently(ctx, fns...)
		cancel()
	})
	time.Sleep(5 * time.Millisecond)
}

func TestRace_ConcurrentQueue(t *testing.T) {
	var done atomic.Int64
	job := func() { done.Add(1) }
	q := conc.NewConcurrentQueue(3, job, job)
	u := conc.NewConcurrentQueue(0) // no concurrency limit
	run(t, workers, 1<<18, func(id int, rng *rand.Rand, i int) {
		qq := q
		if rng.Intn(4) == 0 {
			qq = u
		}
		switch rng.Intn(7) {
		case 6:
			// the constructor with initial jobs starts their goroutines itself: construct, enqueue, wait (fresh queue)
			if i%64 == 0 {
				lim := []int{0, -1, 2, 50}[rng.Intn(4)]
				jobs := make([]func(), 2+rng.Intn(40))
				for k := range jobs {
					jobs[k] = job
				}
				fresh := conc.NewConcurrentQueue(lim, jobs...)
				fresh.Enqueue(job)
				ctx, cancel := context.WithTimeout(context.Background(), time.Second)
				_ = fresh.WaitIdle(ctx, nil)
				cancel()
			}
		case 0, 1:
			qq.Enqueue(job, job)
		case 2:
			ctx, cancel := shortCtx(rng)
			_ = qq.WaitIdle(ctx, errChan(rng))
			cancel()
		case 3:
			ctx, cancel := shortCtx(rng)
			_ = qq.WatchState(ctx, errChan(rng), func(queued, running int) (bool, error) { return queued+running > 0, nil })
			cancel()
		case 4:
			_ = qq.WatchState(context.Background(), nil, nil)
			qq.Enqueue()
		case 5:
			ctx, cancel := shortCtx(rng)
			_ = qq.WatchState(ctx, nil, func(queued, running int) (bool, error) {
				if queued > 2 {
					return false, errors.New("long queue")
				}
				return true, nil
			})
			cancel()
		}
	})
	for _, qq := range []*conc.ConcurrentQueue{q, u} {
		ctx, cancel := context.WithTimeout(context.Background(), 5*time.Second)
		_ = qq.WaitIdle(ctx, nil)
		cancel()
	}
}

func TestRace_AtomicLIFO(t *testing.T) {
	var q cqueue.AtomicLIFO[*int]
	run(t, workers, 1<<20, func(id int, rng *rand.Rand, i int) {
		if rng.Intn(2) == 0 {
			v := i
			q.Push(&v)
		} else if p := q.Pop(); p != nil {
			_ = *p
		}
	})
}

func TestRace_LinkedList(t *testing.T) {
	l := linkedlist.NewLinkedList(1, 2, 3)
	run(t, workers, 1<<20, func(id int, rng *rand.Rand, i int) {
		switch rng.Intn(8) {
		case 0:
			l.Push(i)
		case 1:
			l.PushFront(i)
		case 2:
			l.Pop()
		case 3:
			l.Peek()
		case 4:
			l.PeekTail()
		case 5:
			l.IsEmpty()
		case 6:
			if rng.Intn(16) == 0 {
				l.Reset()
			}
		case 7:
			l.Pop()
		}
	})
}

type scriptBO struct{ n atomic.Int64 }

func (b *scriptBO) NextBackOff() time.Duration {
	if b.n.Add(1)%5 == 0 {
		return cbackoff.Stop
	}
	return 200 * time.Microsecond
}
func (b *scriptBO) Reset() {}

func keyedRoutine(data *atomic.Int64) keyed.Routine {
	return func(ctx context.Context) error {
		k := data.Add(1)
		switch k % 3 {
		case 0:
			return nil
		case 1:
			return errors.New("fail")
		}
		select {
		case <-ctx.Done():
			return context.Canceled
		case <-time.After(300 * time.Microsecond):
			return nil
		}
	}
}

func TestRace_Keyed(t *testing.T) {
	var exits atomic.Int64
	k := keyed.NewKeyed(
		func(key int) (keyed.Routine, *atomic.Int64) { d := &atomic.Int64{}; return keyedRoutine(d), d },
		keyed.WithReleaseDelay[int, *atomic.Int64](300*time.Microsecond),
		keyed.WithBackoff[int, *atomic.Int64](func(int) cbackoff.BackOff { return &scriptBO{} }),
		keyed.WithExitCb[int, *atomic.Int64](func(key int, r keyed.Routine, d *atomic.Int64, err error) { exits.Add(1) }),
	)
	ctx, cancel := context.WithCancel(context.Background())
	defer cancel()
	k.SetContext(ctx, true)
	cond := func(key int, d *atomic.Int64) bool { return d.Load()%2 == 0 }
	run(t, workers, 1<<18, func(id int, rng *rand.Rand, i int) {
		key := rng.Intn(4)
		switch rng.Intn(12) {
		case 0, 1:
			k.SetKey(key, rng.Intn(2) == 0)
		case 2:
			k.RemoveKey(key)
		case 3:
			k.SyncKeys([]int{rng.Intn(4), rng.Intn(4)}, rng.Intn(2) == 0)
		case 4:
			k.GetKey(key)
		case 5:
			k.GetKeys()
			k.GetKeysWithData()
		case 6:
			if rng.Intn(2) == 0 {
				k.ResetRoutine(key, cond)
			} else {
				k.ResetRoutine(key)
			}
		case 7:
			if rng.Intn(2) == 0 {
				k.RestartRoutine(key)
			} else {
				k.RestartRoutine(key, cond, cond)
			}
		case 8:
			if rng.Intn(2) == 0 {
				k.ResetAllRoutines(cond)
			} else {
				k.ResetAllRoutines()
			}
		case 9:
			if rng.Intn(2) == 0 {
				k.RestartAllRoutines()
			} else {
				k.RestartAllRoutines(cond)
			}
		case 10:
			if rng.Intn(8) == 0 {
				k.ClearContext()
			} else {
				k.SetContext(ctx, rng.Intn(2) == 0)
			}
		case 11:
			c2, cancel2 := context.WithCancel(ctx)
			k.SetContext(c2, false)
			cancel2()
		}
	})
	k.ClearContext()
	time.Sleep(10 * time.Millisecond)
}

// the logger constructor with the exit logger (reads the arguments of the exit callback), the library-built retry
// back-off, two exit callbacks, no release delay
func TestRace_KeyedOptions(t *testing.T) {
	var exits atomic.Int64
	le := quietLogger()
	k := keyed.NewKeyedWithLogger(
		func(key string) (keyed.Routine, *atomic.Int64) { d := &atomic.Int64{}; return keyedRoutine(d), d },
		le,
		keyed.WithRetry[string, *atomic.Int64](&ubackoff.Backoff{BackoffKind: ubackoff.BackoffKind_BackoffKind_CONSTANT, Constant: &ubackoff.Constant{Interval: 1}}),
		keyed.WithExitCb[string, *atomic.Int64](func(key string, r keyed.Routine, d *atomic.Int64, err error) { exits.Add(d.Load()) }),
		keyed.WithExitLogger[string, *atomic.Int64](le),
	)
	keys := []string{"a", "b", "c"}
	ctx, cancel := context.WithCancel(context.Background())
	defer cancel()
	cond := func(key string, d *atomic.Int64) bool { return d.Load()%2 == 1 }
	run(t, workers, 1<<18, func(id int, rng *rand.Rand, i int) {
		key := keys[rng.Intn(len(keys))]
		switch rng.Intn(9) {
		case 0, 1:
			k.SetKey(key, rng.Intn(2) == 0)
		case 2:
			k.RemoveKey(key)
		case 3:
			k.SyncKeys([]string{keys[rng.Intn(3)]}, rng.Intn(2) == 0)
		case 4:
			k.GetKey(key)
			k.GetKeysWithData()
		case 5:
			k.RestartRoutine(key, cond)
			k.ResetRoutine(key)
		case 6:
			k.RestartAllRoutines(cond)
			k.ResetAllRoutines(cond)
		case 7:
			k.SetContext(ctx, rng.Intn(2) == 0)
		case 8:
			if rng.Intn(8) == 0 {
				k.ClearContext()
			}
		}
	})
	k.ClearContext()
	time.Sleep(10 * time.Millisecond)
}

func TestRace_KeyedRefCount(t *testing.T) {
	var exits atomic.Int64
	k := keyed.NewKeyedRefCount(
		func(key int) (keyed.Routine, *atomic.Int64) { d := &atomic.Int64{}; return keyedRoutine(d), d },
		keyed.WithReleaseDelay[int, *atomic.Int64](200*time.Microsecond),
		keyed.WithBackoff[int, *atomic.Int64](func(int) cbackoff.BackOff { return &scriptBO{} }),
		keyed.WithExitCb[int, *atomic.Int64](func(key int, r keyed.Routine, d *atomic.Int64, err error) { exits.Add(1) }),
	)
	// the logger constructor, no release delay: the last Release removes the key at once
	k2 := keyed.NewKeyedRefCountWithLogger(
		func(key int) (keyed.Routine, *atomic.Int64) { d := &atomic.Int64{}; return keyedRoutine(d), d },
		quietLogger(),
	)
	ctx, cancel := context.WithCancel(context.Background())
	defer cancel()
	k.SetContext(ctx, true)
	k2.SetContext(ctx, false)
	cond := func(key int, d *atomic.Int64) bool { return d.Load()%2 == 0 }
	run(t, workers, 1<<18, func(id int, rng *rand.Rand, i int) {
		key := rng.Intn(3)
		if rng.Intn(4) == 0 {
			// the second container: references held across other operations
			ref, _, _ := k2.AddKeyRef(key)
			k2.GetKey(key)
			k2.RestartRoutine(key, cond)
			if rng.Intn(2) == 0 {
				k2.RemoveKey(key)
			}
			k2.ResetAllRoutines(cond)
			ref.Release()
			k2.GetKeys()
			return
		}
		switch rng.Intn(8) {
		case 0, 1, 2:
			ref, _, _ := k.AddKeyRef(key)
			if rng.Intn(2) == 0 {
				time.Sleep(50 * time.Microsecond)
			}
			ref.Release()
			ref.Release()
		case 3:
			k.RemoveKey(key)
		case 4:
			k.GetKey(key)
			k.GetKeys()
			k.GetKeysWithData()
		case 5:
			k.RestartRoutine(key)
			k.ResetRoutine(key, cond)
		case 6:
			k.RestartAllRoutines(cond)
			k.ResetAllRoutines()
		case 7:
			if rng.Intn(6) == 0 {
				k.ClearContext()
			} else {
				k.SetContext(ctx, rng.Intn(2) == 0)
			}
		}
	})
	k.ClearContext()
	k2.ClearContext()
	time.Sleep(10 * time.Millisecond)
}

func plainRoutine(cnt *atomic.Int64) routine.Routine {
	return func(ctx context.Context) error {
		switch cnt.Add(1) % 3 {
		case 0:
			return nil
		case 1:
			return errors.New("fail")
		}
		select {
		case <-ctx.Done():
			return context.Canceled
		case <-time.After(300 * time.Microsecond):
			return nil
		}
	}
}

func TestRace_RoutineContainer(t *testing.T) {
	var exits, cnt atomic.Int64
	c := routine.NewRoutineContainer(routine.WithExitCb(func(err error) { exits.Add(1) }), routine.WithBackoff(&scriptBO{}))
	ctx, cancel := context.WithCancel(context.Background())
	defer cancel()
	run(t, workers, 1<<18, func(id int, rng *rand.Rand, i int) {
		switch rng.Intn(7) {
		case 0, 1:
			if rng.Intn(6) == 0 {
				c.SetRoutine(nil)
			} else {
				c.SetRoutine(plainRoutine(&cnt))
			}
		case 2:
			c.SetContext(ctx, rng.Intn(2) == 0)
		case 3:
			c.RestartRoutine()
		case 4:
			wctx, wcancel := shortCtx(rng)
			_ = c.WaitExited(wctx, rng.Intn(2) == 0, errChan(rng))
			wcancel()
		case 5:
			if rng.Intn(6) == 0 {
				c.ClearContext()
			}
		case 6:
			c2, cancel2 := context.WithCancel(ctx)
			c.SetContext(c2, false)
			cancel2()
		}
	})
	c.ClearContext()
	time.Sleep(10 * time.Millisecond)
}

// the logger constructor with the exit logger, the library-built retry back-off (constant, 1 ms), two exit callbacks
func TestRace_RoutineContainerOptions(t *testing.T) {
	var exits, cnt atomic.Int64
	le := quietLogger()
	c := routine.NewRoutineContainerWithLogger(le,
		routine.WithExitCb(func(err error) { exits.Add(1) }),
		routine.WithExitLogger(le),
		routine.WithRetry(&ubackoff.Backoff{BackoffKind: ubackoff.BackoffKind_BackoffKind_CONSTANT, Constant: &ubackoff.Constant{Interval: 1}}),
	)
	ctx, cancel := context.WithCancel(context.Background())
	defer cancel()
	run(t, workers, 1<<18, func(id int, rng *rand.Rand, i int) {
		switch rng.Intn(6) {
		case 0:
			_, _ = c.SetRoutine(plainRoutine(&cnt))
		case 1:
			c.SetContext(ctx, rng.Intn(2) == 0)
		case 2:
			c.RestartRoutine()
		case 3:
			wctx, wcancel := shortCtx(rng)
			_ = c.WaitExited(wctx, rng.Intn(2) == 0, errChan(rng))
			wcancel()
		case 4:
			if rng.Intn(8) == 0 {
				c.ClearContext()
			}
		case 5:
			if rng.Intn(8) == 0 {
				c.SetRoutine(nil)
			}
		}
	})
	c.ClearContext()
	time.Sleep(10 * time.Millisecond)
}

func TestRace_StateRoutineContainer(t *testing.T) {
	var cnt atomic.Int64
	c := routine.NewStateRoutineContainer(func(a, b int) bool { return a == b }, routine.WithBackoff(&scriptBO{}))
	ctx, cancel := context.WithCancel(context.Background())
	defer cancel()
	sr := func(ctx context.Context, st int) error { return plainRoutine(&cnt)(ctx) }
	run(t, workers, 1<<18, func(id int, rng *rand.Rand, i int) {
		switch rng.Intn(8) {
		case 0, 1:
			c.SetState(rng.Intn(3))
		case 2:
			_ = c.GetState()
		case 3:
			if rng.Intn(3) == 0 {
				_, _, _, _, _ = c.SwapValue(nil)
			} else {
				_, _, _, _, _ = c.SwapValue(func(v int) int { return (v + 1) % 3 })
			}
		case 4:
			if rng.Intn(6) == 0 {
				c.SetStateRoutine(nil)
			} else {
				c.SetStateRoutine(sr)
			}
		case 5:
			c.SetContext(ctx, rng.Intn(2) == 0)
		case 6:
			c.RestartRoutine()
			if rng.Intn(8) == 0 {
				c.ClearContext()
			}
		case 7:
			wctx, wcancel := shortCtx(rng)
			_ = c.WaitExited(wctx, rng.Intn(2) == 0, errChan(rng))
			wcancel()
		}
	})
	c.ClearContext()
	time.Sleep(10 * time.Millisecond)
}

// the VT and logger constructors; late GetState / SwapValue(nil) readers after a finished SetState
func TestRace_StateRoutineContainerVariants(t *testing.T) {
	var cnt atomic.Int64
	msgs := []*vtMsg{nil, {1}, {2}, {2}}
	le := quietLogger()
	ctx, cancel := context.WithCancel(context.Background())
	defer cancel()
	n := rounds(25 * time.Millisecond)
	for round := 0; round < n; round++ {
		var v *routine.StateRoutineContainer[*vtMsg]
		if round%2 == 0 {
			v = routine.NewStateRoutineContainerVT[*vtMsg](routine.WithBackoff(&scriptBO{}))
		} else {
			v = routine.NewStateRoutineContainerWithLoggerVT[*vtMsg](le, routine.WithExitLogger(le))
		}
		w := routine.NewStateRoutineContainerWithLogger(func(a, b int) bool { return a == b }, le)
		sr := func(ctx context.Context, st *vtMsg) error { return plainRoutine(&cnt)(ctx) }
		wr := func(ctx context.Context, st int) error { return plainRoutine(&cnt)(ctx) }
		runFor(t, seconds()/time.Duration(n), workers, 48, func(id int, rng *rand.Rand, i int) {
			if i == 0 && id > 0 {
				time.Sleep(time.Duration(rng.Intn(300)) * time.Microsecond)
			}
			switch rng.Intn(9) {
			case 0:
				v.SetState(msgs[rng.Intn(len(msgs))])
				w.SetState(rng.Intn(3))
			case 1:
				_ = v.GetState()
				_ = w.GetState()
			case 2:
				_, _, _, _, _ = v.SwapValue(nil)
				_, _, _, _, _ = w.SwapValue(nil)
			case 3:
				_, _, _, _, _ = v.SwapValue(func(m *vtMsg) *vtMsg { return msgs[rng.Intn(len(msgs))] })
			case 4:
				v.SetStateRoutine(sr)
				w.SetStateRoutine(wr)
			case 5:
				v.SetContext(ctx, rng.Intn(2) == 0)
				w.SetContext(ctx, rng.Intn(2) == 0)
			case 6:
				v.RestartRoutine()
				w.RestartRoutine()
			case 7:
				wctx, wcancel := shortCtx(rng)
				_ = v.WaitExited(wctx, true, errChan(rng))
				wcancel()
			case 8:
				if rng.Intn(4) == 0 {
					v.ClearContext()
					w.SetStateRoutine(nil)
				}
			}
		})
		v.ClearContext()
		w.ClearContext()
	}
	time.Sleep(10 * time.Millisecond)
}

func TestRace_RefCount(t *testing.T) {
	var resolves, rels, released atomic.Int64
	var invalidate atomic.Pointer[func()]
	target := ccontainer.NewCContainer[*int](nil)
	targetErr := ccontainer.NewCContainer[*error](nil)
	resolver := func(ctx context.Context, rel func()) (*int, func(), error) {
		k := resolves.Add(1)
		invalidate.Store(&rel)
		select {
		case <-ctx.Done():
			return nil, nil, context.Canceled
		case <-time.After(time.Duration(k%3) * 100 * time.Microsecond):
		}
		if k%5 == 0 {
			return nil, nil, errors.New("resolve failed")
		}
		v := int(k)
		return &v, func() { rels.Add(1) }, nil
	}
	rc := refcount.NewRefCount(nil, false, target, targetErr, resolver)
	ctx, cancel := context.WithCancel(context.Background())
	defer cancel()
	rc.SetContext(ctx)
	run(t, workers, 1<<18, func(id int, rng *rand.Rand, i int) {
		switch rng.Intn(10) {
		case 0:
			var ref *refcount.Ref[*int]
			if rng.Intn(3) == 0 {
				ref = rc.AddRef(nil)
			} else {
				ref = rc.AddRef(func(resolved bool, val *int, err error) {
					if resolved && val != nil {
						_ = *val
					}
				})
			}
			time.Sleep(time.Duration(rng.Intn(200)) * time.Microsecond)
			ref.Release()
			ref.Release()
		case 1:
			_, ref := rc.AddRefPromise()
			ref.Release()
		case 2:
			wctx, wcancel := shortCtx(rng)
			if _, ref, err := rc.Wait(wctx); err == nil {
				ref.Release()
			}
			wcancel()
		case 3:
			wctx, wcancel := shortCtx(rng)
			prom, ref := rc.WaitWithReleased(wctx, func() { released.Add(1) })
			_, _ = prom.Await(wctx)
			time.Sleep(time.Duration(rng.Intn(200)) * time.Microsecond)
			ref.Release()
			wcancel()
		case 4:
			wctx, wcancel := shortCtx(rng)
			if _, rel, err := rc.Resolve(wctx); err == nil {
				rel()
			}
			wcancel()
		case 5:
			wctx, wcancel := shortCtx(rng)
			if _, rel, err := rc.ResolveWithReleased(wctx, func() { released.Add(1) }); err == nil {
				rel()
			}
			wcancel()
		case 6:
			wctx, wcancel := shortCtx(rng)
			_ = rc.Access(wctx, func(ctx context.Context, v *int) error {
				if v != nil && *v%2 == 0 {
					return errors.New("access failed")
				}
				return nil
			})
			wcancel()
		case 7:
			if f := invalidate.Load(); f != nil {
				(*f)()
			}
		case 8:
			if rng.Intn(6) == 0 {
				rc.ClearContext()
			} else {
				rc.SetContext(ctx)
			}
		case 9:
			wctx, wcancel := shortCtx(rng)
			_, _ = refcount.WaitRefCountContainer(wctx, target, targetErr)
			wcancel()
		}
	})
	rc.ClearContext()
	time.Sleep(10 * time.Millisecond)
}

// keepUnref = true, a context given to the constructor, no target containers, a resolver without a release function,
// released callbacks; a new container per round, with readers that start late
func TestRace_RefCountVariants(t *testing.T) {
	n := rounds(25 * time.Millisecond)
	for round := 0; round < n; round++ {
		var resolves, released atomic.Int64
		var invalidate atomic.Pointer[func()]
		resolver := func(ctx context.Context, rel func()) (int, func(), error) {
			k := resolves.Add(1)
			invalidate.Store(&rel)
			if k%4 == 0 {
				return 0, nil, errors.New("resolve failed")
			}
			return int(k), nil, nil
		}
		ctx, cancel := context.WithCancel(context.Background())
		var target *ccontainer.CContainer[int]
		if round%2 == 0 {
			target = ccontainer.NewCContainer(0)
		}
		rc := refcount.NewRefCount(ctx, round%4 < 2, target, nil, resolver)
		runFor(t, seconds()/time.Duration(n), workers, 48, func(id int, rng *rand.Rand, i int) {
			if i == 0 && id > 0 {
				time.Sleep(time.Duration(rng.Intn(300)) * time.Microsecond)
			}
			switch rng.Intn(9) {
			case 0:
				ref := rc.AddRef(nil)
				ref.Release()
			case 1:
				prom, ref := rc.AddRefPromise()
				wctx, wcancel := shortCtx(rng)
				_, _ = prom.Await(wctx)
				wcancel()
				ref.Release()
			case 2:
				wctx, wcancel := shortCtx(rng)
				if _, ref, err := rc.Wait(wctx); err == nil {
					ref.Release()
				}
				wcancel()
			case 3:
				wctx, wcancel := shortCtx(rng)
				prom, ref := rc.WaitWithReleased(wctx, func() { released.Add(1) })
				_, _ = prom.AwaitWithErrCh(wctx, errChan(rng))
				ref.Release()
				wcancel()
			case 4:
				wctx, wcancel := shortCtx(rng)
				if _, rel, err := rc.ResolveWithReleased(wctx, func() { released.Add(1) }); err == nil {
					rel()
					rel()
				}
				wcancel()
			case 5:
				wctx, wcancel := shortCtx(rng)
				_ = rc.Access(wctx, func(ctx context.Context, v int) error { return nil })
				wcancel()
			case 6:
				if f := invalidate.Load(); f != nil {
					(*f)()
				}
			case 7:
				if rng.Intn(4) == 0 {
					rc.ClearContext()
				} else {
					rc.SetContext(ctx)
				}
			case 8:
				if target != nil {
					wctx, wcancel := shortCtx(rng)
					_, _ = refcount.WaitRefCountContainer(wctx, target, nil)
					wcancel()
				}
			}
		})
		rc.ClearContext()
		cancel()
	}
	time.Sleep(10 * time.Millisecond)
}

func TestRace_Promise(t *testing.T) {
	// Many short rounds, one promise each.  Worker 0 resolves early; the others start up to 300 us later, so some of
	// them call Await for the first time AFTER SetResult has returned, without having waited on the promise and with no
	// harness synchronisation in between: a fast path that reads result / err without going through the done channel
	// is then an unordered access for the detector, not a matter of hitting a window.
	n := rounds(12 * time.Millisecond)
	for round := 0; round < n; round++ {
		p := promise.NewPromise[int]()
		var pre atomic.Pointer[promise.Promise[int]]
		var trues atomic.Int64
		runFor(t, seconds()/time.Duration(n), workers, 40, func(id int, rng *rand.Rand, i int) {
			if i == 0 && id > 0 {
				time.Sleep(time.Duration(rng.Intn(300)) * time.Microsecond)
			}
			switch rng.Intn(7) {
			case 0:
				if (id == 0 || i > 4) && p.SetResult(id, nil) {
					trues.Add(1)
				}
			case 1:
				ctx, cancel := shortCtx(rng)
				_, _ = p.Await(ctx)
				cancel()
			case 2:
				ctx, cancel := shortCtx(rng)
				_, _ = p.AwaitWithErrCh(ctx, errChan(rng))
				cancel()
			case 3:
				ctx, cancel := shortCtx(rng)
				var cch <-chan struct{}
				if rng.Intn(2) == 0 {
					cch = ctx.Done()
				}
				_, _ = p.AwaitWithCancelCh(ctx, cch)
				cancel()
			case 4:
				// pre-resolved promises, published through an atomic pointer
				if rng.Intn(2) == 0 {
					pre.Store(promise.NewPromiseWithResult(i, nil))
				} else {
					pre.Store(promise.NewPromiseWithErr[int](errors.New("pre")))
				}
			case 5:
				if q := pre.Load(); q != nil {
					ctx, cancel := shortCtx(rng)
					_, _ = q.Await(ctx)
					_, _ = q.AwaitWithErrCh(ctx, nil)
					cancel()
					_ = q.SetResult(1, nil)
				}
			case 6:
				if i > 8 && p.SetResult(0, errors.New("failed")) {
					trues.Add(1)
				}
			}
		})
		if trues.Load() > 1 {
			t.Fatalf("SetResult returned true %d times", trues.Load())
		}
	}
}

func TestRace_PromiseContainer(t *testing.T) {
	c := promise.NewPromiseContainer[int]()
	run(t, workers, 1<<18, func(id int, rng *rand.Rand, i int) {
		switch rng.Intn(7) {
		case 0:
			c.SetResult(i, nil)
		case 1:
			switch rng.Intn(4) {
			case 0:
				c.SetPromise(nil)
			case 1:
				c.SetPromise(promise.NewPromiseWithResult(i, nil))
			default:
				c.SetPromise(promise.NewPromise[int]())
			}
		case 2:
			if p, _ := c.GetPromise(); p != nil {
				p.SetResult(i, nil)
			}
		case 3:
			ctx, cancel := shortCtx(rng)
			_, _ = c.Await(ctx)
			cancel()
		case 4:
			ctx, cancel := shortCtx(rng)
			_, _ = c.AwaitWithErrCh(ctx, errChan(rng))
			cancel()
		case 5:
			ctx, cancel := shortCtx(rng)
			_, _ = c.AwaitWithCancelCh(ctx, ctx.Done())
			cancel()
		case 6:
			c.SetResult(0, errors.New("e"))
		}
	})
}

func TestRace_Once(t *testing.T) {
	n := rounds(25 * time.Millisecond)
	for round := 0; round < n; round++ {
		var calls atomic.Int64
		o := promise.NewOnce(func(ctx context.Context) (int, error) {
			k := calls.Add(1)
			select {
			case <-ctx.Done():
				return 0, context.Canceled
			case <-time.After(100 * time.Microsecond):
			}
			if k < 3 {
				return 0, errors.New("not yet")
			}
			return int(k), nil
		})
		runFor(t, seconds()/time.Duration(n), workers, 64, func(id int, rng *rand.Rand, i int) {
			if i == 0 && id > 0 {
				time.Sleep(time.Duration(rng.Intn(600)) * time.Microsecond)
			}
			ctx, cancel := shortCtx(rng)
			if rng.Intn(8) == 0 {
				cancel() // an already cancelled caller
			}
			_, _ = o.Resolve(ctx)
			cancel()
		})
	}
	time.Sleep(5 * time.Millisecond)
}

func TestRace_MemoizeFunc(t *testing.T) {
	for round := 0; round < 50; round++ {
		var calls atomic.Int64
		fail := round%3 == 2
		f := memo.MemoizeFunc(func() (int, error) {
			calls.Add(1)
			time.Sleep(50 * time.Microsecond)
			if fail {
				return 7, errors.New("memo failed")
			}
			return 7, nil
		})
		var wg sync.WaitGroup
		for g := 0; g < workers; g++ {
			wg.Add(1)
			go func(g int) {
				defer wg.Done()
				if g >= workers/2 {
					time.Sleep(time.Duration(g*40) * time.Microsecond) // late: after the first call has returned
				}
				if v, err := f(); v != 7 || (err != nil) != fail {
					t.Errorf("memo returned %d %v", v, err)
				}
				_, _ = f()
			}(g)
		}
		wg.Wait()
		if calls.Load() != 1 {
			t.Fatalf("memoized function called %d times", calls.Load())
		}
	}
}

type lockedBuf struct {
	mu sync.Mutex
	b  bytes.Buffer
}

func (l *lockedBuf) Write(p []byte) (int, error) {
	l.mu.Lock()
	defer l.mu.Unlock()
	return l.b.Write(p)
}
func (l *lockedBuf) Read(p []byte) (int, error) { l.mu.Lock(); defer l.mu.Unlock(); return l.b.Read(p) }

func TestRace_IOCloser(t *testing.T) {
	for round := 0; round < 4; round++ {
		var closes atomic.Int64
		buf := &lockedBuf{}
		buf.Write(bytes.Repeat([]byte("x"), 1<<16))
		rc := iocloser.NewReadCloser(buf, func() error { closes.Add(1); return nil })
		wc := iocloser.NewWriteCloser(buf, func() error { closes.Add(1); return errors.New("close failed") })
		if round%2 == 1 {
			rc, wc = iocloser.NewReadCloser(buf, nil), iocloser.NewWriteCloser(buf, nil)
		}
		runFor(t, seconds()/4, workers, 1<<12, func(id int, rng *rand.Rand, i int) {
			p := make([]byte, 8)
			switch rng.Intn(8) {
			case 0, 1, 2:
				_, _ = rc.Read(p)
			case 3, 4, 5:
				_, _ = wc.Write(p)
			case 6:
				if i > 50 {
					_ = rc.Close()
				}
			case 7:
				if i > 50 {
					_ = wc.Close()
				}
			}
		})
		if closes.Load() > 2 {
			t.Fatalf("close callbacks ran %d times", closes.Load())
		}
	}
}

func TestRace_SizeReadWriter(t *testing.T) {
	buf := &lockedBuf{}
	s := iosizer.NewSizeReadWriter(buf, buf)
	var want atomic.Uint64
	run(t, workers, 1<<16, func(id int, rng *rand.Rand, i int) {
		p := make([]byte, 1+rng.Intn(16))
		switch rng.Intn(3) {
		case 0:
			n, _ := s.Write(p)
			want.Add(uint64(n))
		case 1:
			n, err := s.Read(p)
			if err == nil || err == io.EOF {
				want.Add(uint64(n))
			}
		case 2:
			_ = s.TotalSize()
		}
	})
	if s.TotalSize() != want.Load() {
		t.Fatalf("TotalSize %d, transferred %d", s.TotalSize(), want.Load())
	}
}
