// Package racex: free-running workloads for property C13, run under the Go race detector.
//
// One TestRace_<Type> per concurrency-safe type of the property: N goroutines call randomly chosen methods with
// harness-owned (race-free) callbacks for a bounded wall time (VERIF_RACE_SECONDS, default 1) and a bounded number
// of operations.  There is no model and no history here: the only verdict is the race detector's.  ./check C13 runs
// these in the thorough tier, and in the quick tier only for the types whose table entries were rejected; a report
// "WARNING: DATA RACE" is appended to the replay file.
package racex

import (
	"bytes"
	"context"
	"errors"
	"io"
	"math/rand"
	"os"
	"strconv"
	"sync"
	"sync/atomic"
	"testing"
	"time"

	"github.com/aperturerobotics/util/broadcast"
	"github.com/aperturerobotics/util/ccall"
	"github.com/aperturerobotics/util/ccontainer"
	"github.com/aperturerobotics/util/conc"
	"github.com/aperturerobotics/util/cqueue"
	"github.com/aperturerobotics/util/csync"
	"github.com/aperturerobotics/util/iocloser"
	"github.com/aperturerobotics/util/iosizer"
	"github.com/aperturerobotics/util/keyed"
	"github.com/aperturerobotics/util/linkedlist"
	"github.com/aperturerobotics/util/memo"
	"github.com/aperturerobotics/util/promise"
	"github.com/aperturerobotics/util/refcount"
	"github.com/aperturerobotics/util/routine"
	cbackoff "github.com/cenkalti/backoff/v4"
)

const workers = 8

func seconds() time.Duration {
	if s := os.Getenv("VERIF_RACE_SECONDS"); s != "" {
		if f, err := strconv.ParseFloat(s, 64); err == nil && f > 0 {
			return time.Duration(f * float64(time.Second))
		}
	}
	return time.Second
}

func seed() int64 {
	if s := os.Getenv("VERIF_SEED"); s != "" {
		if n, err := strconv.ParseInt(s, 10, 64); err == nil {
			return n
		}
	}
	return 1
}

// run starts n goroutines that call body until the deadline (or maxOps operations each).
func run(t *testing.T, n, maxOps int, body func(id int, rng *rand.Rand, i int)) {
	t.Helper()
	runFor(t, seconds(), n, maxOps, body)
}

func runFor(t *testing.T, d time.Duration, n, maxOps int, body func(id int, rng *rand.Rand, i int)) {
	t.Helper()
	deadline := time.Now().Add(d)
	var wg sync.WaitGroup
	for g := 0; g < n; g++ {
		wg.Add(1)
		go func(id int) {
			defer wg.Done()
			rng := rand.New(rand.NewSource(seed()*1000 + int64(id)))
			for i := 0; i < maxOps && time.Now().Before(deadline); i++ {
				body(id, rng, i)
				if rng.Intn(4) == 0 {
					time.Sleep(time.Duration(rng.Intn(200)) * time.Microsecond)
				}
			}
		}(g)
	}
	wg.Wait()
}

func shortCtx(rng *rand.Rand) (context.Context, context.CancelFunc) {
	return context.WithTimeout(context.Background(), time.Duration(1+rng.Intn(3))*time.Millisecond)
}

func TestRace_Broadcast(t *testing.T) {
	var b broadcast.Broadcast
	var n atomic.Int64
	shared := 0 // guarded by b
	run(t, workers, 1<<20, func(id int, rng *rand.Rand, i int) {
		switch rng.Intn(5) {
		case 0:
			b.HoldLock(func(bc func(), gw func() <-chan struct{}) { shared++; bc() })
		case 1:
			b.TryHoldLock(func(bc func(), gw func() <-chan struct{}) { shared--; _ = gw() })
		case 2:
			b.HoldLockMaybeAsync(func(bc func(), gw func() <-chan struct{}) { shared++; bc(); n.Add(1) })
		case 3:
			ctx, cancel := shortCtx(rng)
			_ = b.Wait(ctx, func(bc func(), gw func() <-chan struct{}) (bool, error) { return shared%3 == 0, nil })
			cancel()
		case 4:
			var ch <-chan struct{}
			b.HoldLock(func(bc func(), gw func() <-chan struct{}) { ch = gw() })
			select {
			case <-ch:
			case <-time.After(200 * time.Microsecond):
			}
		}
	})
	time.Sleep(5 * time.Millisecond)
}

func TestRace_CsyncMutex(t *testing.T) {
	var m csync.Mutex
	shared := 0
	lk := m.Locker()
	run(t, workers, 1<<20, func(id int, rng *rand.Rand, i int) {
		switch rng.Intn(4) {
		case 0:
			ctx, cancel := shortCtx(rng)
			if rel, err := m.Lock(ctx); err == nil {
				shared++
				rel()
				rel()
			}
			cancel()
		case 1:
			if rel, ok := m.TryLock(); ok {
				shared--
				rel()
			}
		case 2:
			lk.Lock()
			shared++
			lk.Unlock()
		case 3:
			ctx, cancel := context.WithCancel(context.Background())
			cancel()
			if rel, err := m.Lock(ctx); err == nil {
				rel()
			}
		}
	})
}

func TestRace_CsyncRWMutex(t *testing.T) {
	var m csync.RWMutex
	shared := 0
	wl, rl := m.Locker(), m.RLocker()
	run(t, workers, 1<<20, func(id int, rng *rand.Rand, i int) {
		switch rng.Intn(6) {
		case 0:
			ctx, cancel := shortCtx(rng)
			if rel, err := m.Lock(ctx, true); err == nil {
				shared++
				rel()
			}
			cancel()
		case 1:
			ctx, cancel := shortCtx(rng)
			if rel, err := m.Lock(ctx, false); err == nil {
				_ = shared
				rel()
				rel()
			}
			cancel()
		case 2:
			if rel, ok := m.TryLock(true); ok {
				shared--
				rel()
			}
		case 3:
			if rel, ok := m.TryLock(false); ok {
				_ = shared
				rel()
			}
		case 4:
			wl.Lock()
			shared++
			wl.Unlock()
		case 5:
			rl.Lock()
			_ = shared
			rl.Unlock()
		}
	})
}

func TestRace_CContainer(t *testing.T) {
	c := ccontainer.NewCContainerWithEqual(0, func(a, b int) bool { return a == b })
	run(t, workers, 1<<20, func(id int, rng *rand.Rand, i int) {
		switch rng.Intn(8) {
		case 6:
			_ = c.SwapValue(nil) // documented: a nil callback only reads the value
		case 7:
			ctx, cancel := shortCtx(rng)
			_, _ = c.WaitValueWithValidator(ctx, func(v int) (bool, error) { return v == 3, nil }, nil)
			cancel()
		case 0:
			c.SetValue(rng.Intn(4))
		case 1:
			_ = c.GetValue()
		case 2:
			_ = c.SwapValue(func(v int) int { return (v + 1) % 4 })
		case 3:
			ctx, cancel := shortCtx(rng)
			_, _ = c.WaitValue(ctx, nil)
			cancel()
		case 4:
			ctx, cancel := shortCtx(rng)
			_, _ = c.WaitValueChange(ctx, rng.Intn(4), nil)
			cancel()
		case 5:
			ctx, cancel := shortCtx(rng)
			_ = c.WaitValueEmpty(ctx, nil)
			cancel()
		}
	})
}

func TestRace_CallConcurrently(t *testing.T) {
	var calls atomic.Int64
	run(t, 4, 1<<16, func(id int, rng *rand.Rand, i int) {
		n := rng.Intn(5)
		fns := make([]ccall.CallConcurrentlyFunc, n)
		for k := range fns {
			fail := rng.Intn(4) == 0
			d := time.Duration(rng.Intn(100)) * time.Microsecond
			if rng.Intn(8) == 0 {
				continue // nil function
			}
			fns[k] = func(ctx context.Context) error {
				calls.Add(1)
				time.Sleep(d)
				if fail {
					return errors.New("x")
				}
				return nil
			}
		}
		ctx, cancel := shortCtx(rng)
		_ = ccall.CallConcurrently(ctx, fns...)
		cancel()
	})
	time.Sleep(5 * time.Millisecond)
}

func TestRace_ConcurrentQueue(t *testing.T) {
	var done atomic.Int64
	job := func() { done.Add(1) }
	q := conc.NewConcurrentQueue(3, job, job)
	run(t, workers, 1<<18, func(id int, rng *rand.Rand, i int) {
		switch rng.Intn(4) {
		case 0, 1:
			q.Enqueue(job, job)
		case 2:
			ctx, cancel := shortCtx(rng)
			_ = q.WaitIdle(ctx, nil)
			cancel()
		case 3:
			ctx, cancel := shortCtx(rng)
			_ = q.WatchState(ctx, nil, func(queued, running int) (bool, error) { return queued+running > 0, nil })
			cancel()
		}
	})
	ctx, cancel := context.WithTimeout(context.Background(), 5*time.Second)
	_ = q.WaitIdle(ctx, nil)
	cancel()
}

func TestRace_AtomicLIFO(t *testing.T) {
	var q cqueue.AtomicLIFO[*int]
	run(t, workers, 1<<20, func(id int, rng *rand.Rand, i int) {
		if rng.Intn(2) == 0 {
			v := i
			q.Push(&v)
		} else if p := q.Pop(); p != nil {
			_ = *p
		}
	})
}

func TestRace_LinkedList(t *testing.T) {
	l := linkedlist.NewLinkedList(1, 2, 3)
	run(t, workers, 1<<20, func(id int, rng *rand.Rand, i int) {
		switch rng.Intn(8) {
		case 0:
			l.Push(i)
		case 1:
			l.PushFront(i)
		case 2:
			l.Pop()
		case 3:
			l.Peek()
		case 4:
			l.PeekTail()
		case 5:
			l.IsEmpty()
		case 6:
			if rng.Intn(16) == 0 {
				l.Reset()
			}
		case 7:
			l.Pop()
		}
	})
}

type scriptBO struct{ n atomic.Int64 }

func (b *scriptBO) NextBackOff() time.Duration {
	if b.n.Add(1)%5 == 0 {
		return cbackoff.Stop
	}
	return 200 * time.Microsecond
}
func (b *scriptBO) Reset() {}

func keyedRoutine(data *atomic.Int64) keyed.Routine {
	return func(ctx context.Context) error {
		k := data.Add(1)
		switch k % 3 {
		case 0:
			return nil
		case 1:
			return errors.New("fail")
		}
		select {
		case <-ctx.Done():
			return context.Canceled
		case <-time.After(300 * time.Microsecond):
			return nil
		}
	}
}

func TestRace_Keyed(t *testing.T) {
	var exits atomic.Int64
	k := keyed.NewKeyed(
		func(key int) (keyed.Routine, *atomic.Int64) { d := &atomic.Int64{}; return keyedRoutine(d), d },
		keyed.WithReleaseDelay[int, *atomic.Int64](300*time.Microsecond),
		keyed.WithBackoff[int, *atomic.Int64](func(int) cbackoff.BackOff { return &scriptBO{} }),
		keyed.WithExitCb[int, *atomic.Int64](func(key int, r keyed.Routine, d *atomic.Int64, err error) { exits.Add(1) }),
	)
	ctx, cancel := context.WithCancel(context.Background())
	defer cancel()
	k.SetContext(ctx, true)
	cond := func(key int, d *atomic.Int64) bool { return d.Load()%2 == 0 }
	run(t, workers, 1<<18, func(id int, rng *rand.Rand, i int) {
		key := rng.Intn(4)
		switch rng.Intn(12) {
		case 0, 1:
			k.SetKey(key, rng.Intn(2) == 0)
		case 2:
			k.RemoveKey(key)
		case 3:
			k.SyncKeys([]int{rng.Intn(4), rng.Intn(4)}, rng.Intn(2) == 0)
		case 4:
			k.GetKey(key)
		case 5:
			k.GetKeys()
			k.GetKeysWithData()
		case 6:
			k.ResetRoutine(key, cond)
		case 7:
			k.RestartRoutine(key)
		case 8:
			k.ResetAllRoutines(cond)
		case 9:
			k.RestartAllRoutines()
		case 10:
			if rng.Intn(8) == 0 {
				k.ClearContext()
			} else {
				k.SetContext(ctx, rng.Intn(2) == 0)
			}
		case 11:
			c2, cancel2 := context.WithCancel(ctx)
			k.SetContext(c2, false)
			cancel2()
		}
	})
	k.ClearContext()
	time.Sleep(10 * time.Millisecond)
}

func TestRace_KeyedRefCount(t *testing.T) {
	k := keyed.NewKeyedRefCount(
		func(key int) (keyed.Routine, *atomic.Int64) { d := &atomic.Int64{}; return keyedRoutine(d), d },
		keyed.WithReleaseDelay[int, *atomic.Int64](200*time.Microsecond),
	)
	ctx, cancel := context.WithCancel(context.Background())
	defer cancel()
	k.SetContext(ctx, true)
	run(t, workers, 1<<18, func(id int, rng *rand.Rand, i int) {
		key := rng.Intn(3)
		switch rng.Intn(8) {
		case 0, 1, 2:
			ref, _, _ := k.AddKeyRef(key)
			if rng.Intn(2) == 0 {
				time.Sleep(50 * time.Microsecond)
			}
			ref.Release()
			ref.Release()
		case 3:
			k.RemoveKey(key)
		case 4:
			k.GetKey(key)
			k.GetKeys()
			k.GetKeysWithData()
		case 5:
			k.RestartRoutine(key)
			k.ResetRoutine(key)
		case 6:
			k.RestartAllRoutines()
			k.ResetAllRoutines()
		case 7:
			if rng.Intn(6) == 0 {
				k.ClearContext()
			} else {
				k.SetContext(ctx, true)
			}
		}
	})
	k.ClearContext()
	time.Sleep(10 * time.Millisecond)
}

func plainRoutine(cnt *atomic.Int64) routine.Routine {
	return func(ctx context.Context) error {
		switch cnt.Add(1) % 3 {
		case 0:
			return nil
		case 1:
			return errors.New("fail")
		}
		select {
		case <-ctx.Done():
			return context.Canceled
		case <-time.After(300 * time.Microsecond):
			return nil
		}
	}
}

func TestRace_RoutineContainer(t *testing.T) {
	var exits, cnt atomic.Int64
	c := routine.NewRoutineContainer(routine.WithExitCb(func(err error) { exits.Add(1) }), routine.WithBackoff(&scriptBO{}))
	ctx, cancel := context.WithCancel(context.Background())
	defer cancel()
	run(t, workers, 1<<18, func(id int, rng *rand.Rand, i int) {
		switch rng.Intn(7) {
		case 0, 1:
			if rng.Intn(6) == 0 {
				c.SetRoutine(nil)
			} else {
				c.SetRoutine(plainRoutine(&cnt))
			}
		case 2:
			c.SetContext(ctx, rng.Intn(2) == 0)
		case 3:
			c.RestartRoutine()
		case 4:
			wctx, wcancel := shortCtx(rng)
			_ = c.WaitExited(wctx, rng.Intn(2) == 0, nil)
			wcancel()
		case 5:
			if rng.Intn(6) == 0 {
				c.ClearContext()
			}
		case 6:
			c2, cancel2 := context.WithCancel(ctx)
			c.SetContext(c2, false)
			cancel2()
		}
	})
	c.ClearContext()
	time.Sleep(10 * time.Millisecond)
}

func TestRace_StateRoutineContainer(t *testing.T) {
	var cnt atomic.Int64
	c := routine.NewStateRoutineContainer(func(a, b int) bool { return a == b }, routine.WithBackoff(&scriptBO{}))
	ctx, cancel := context.WithCancel(context.Background())
	defer cancel()
	sr := func(ctx context.Context, st int) error { return plainRoutine(&cnt)(ctx) }
	run(t, workers, 1<<18, func(id int, rng *rand.Rand, i int) {
		switch rng.Intn(8) {
		case 0, 1:
			c.SetState(rng.Intn(3))
		case 2:
			_ = c.GetState()
		case 3:
			c.SwapValue(func(v int) int { return (v + 1) % 3 })
		case 4:
			if rng.Intn(6) == 0 {
				c.SetStateRoutine(nil)
			} else {
				c.SetStateRoutine(sr)
			}
		case 5:
			c.SetContext(ctx, rng.Intn(2) == 0)
		case 6:
			c.RestartRoutine()
			if rng.Intn(8) == 0 {
				c.ClearContext()
			}
		case 7:
			wctx, wcancel := shortCtx(rng)
			_ = c.WaitExited(wctx, rng.Intn(2) == 0, nil)
			wcancel()
		}
	})
	c.ClearContext()
	time.Sleep(10 * time.Millisecond)
}

func TestRace_RefCount(t *testing.T) {
	var resolves, rels, released atomic.Int64
	var invalidate atomic.Pointer[func()]
	target := ccontainer.NewCContainer[*int](nil)
	targetErr := ccontainer.NewCContainer[*error](nil)
	resolver := func(ctx context.Context, rel func()) (*int, func(), error) {
		k := resolves.Add(1)
		invalidate.Store(&rel)
		select {
		case <-ctx.Done():
			return nil, nil, context.Canceled
		case <-time.After(time.Duration(k%3) * 100 * time.Microsecond):
		}
		if k%5 == 0 {
			return nil, nil, errors.New("resolve failed")
		}
		v := int(k)
		return &v, func() { rels.Add(1) }, nil
	}
	rc := refcount.NewRefCount(nil, false, target, targetErr, resolver)
	ctx, cancel := context.WithCancel(context.Background())
	defer cancel()
	rc.SetContext(ctx)
	run(t, workers, 1<<18, func(id int, rng *rand.Rand, i int) {
		switch rng.Intn(10) {
		case 0:
			ref := rc.AddRef(func(resolved bool, val *int, err error) {})
			time.Sleep(time.Duration(rng.Intn(200)) * time.Microsecond)
			ref.Release()
			ref.Release()
		case 1:
			_, ref := rc.AddRefPromise()
			ref.Release()
		case 2:
			wctx, wcancel := shortCtx(rng)
			if _, ref, err := rc.Wait(wctx); err == nil {
				ref.Release()
			}
			wcancel()
		case 3:
			wctx, wcancel := shortCtx(rng)
			prom, ref := rc.WaitWithReleased(wctx, func() { released.Add(1) })
			_, _ = prom.Await(wctx)
			time.Sleep(time.Duration(rng.Intn(200)) * time.Microsecond)
			ref.Release()
			wcancel()
		case 4:
			wctx, wcancel := shortCtx(rng)
			if _, rel, err := rc.Resolve(wctx); err == nil {
				rel()
			}
			wcancel()
		case 5:
			wctx, wcancel := shortCtx(rng)
			if _, rel, err := rc.ResolveWithReleased(wctx, func() { released.Add(1) }); err == nil {
				rel()
			}
			wcancel()
		case 6:
			wctx, wcancel := shortCtx(rng)
			_ = rc.Access(wctx, func(ctx context.Context, v *int) error { return nil })
			wcancel()
		case 7:
			if f := invalidate.Load(); f != nil {
				(*f)()
			}
		case 8:
			if rng.Intn(6) == 0 {
				rc.ClearContext()
			} else {
				rc.SetContext(ctx)
			}
		case 9:
			wctx, wcancel := shortCtx(rng)
			_, _ = refcount.WaitRefCountContainer(wctx, target, targetErr)
			wcancel()
		}
	})
	rc.ClearContext()
	time.Sleep(10 * time.Millisecond)
}

func TestRace_Promise(t *testing.T) {
	for round := 0; round < 4; round++ {
		p := promise.NewPromise[int]()
		var trues atomic.Int64
		runFor(t, seconds()/4, workers, 1<<12, func(id int, rng *rand.Rand, i int) {
			switch rng.Intn(4) {
			case 0:
				if i > 2 && p.SetResult(id, nil) {
					trues.Add(1)
				}
			case 1:
				ctx, cancel := shortCtx(rng)
				_, _ = p.Await(ctx)
				cancel()
			case 2:
				ctx, cancel := shortCtx(rng)
				_, _ = p.AwaitWithErrCh(ctx, nil)
				cancel()
			case 3:
				ctx, cancel := shortCtx(rng)
				_, _ = p.AwaitWithCancelCh(ctx, nil)
				cancel()
			}
		})
		if trues.Load() > 1 {
			t.Fatalf("SetResult returned true %d times", trues.Load())
		}
	}
}

func TestRace_PromiseContainer(t *testing.T) {
	c := promise.NewPromiseContainer[int]()
	run(t, workers, 1<<18, func(id int, rng *rand.Rand, i int) {
		switch rng.Intn(7) {
		case 0:
			c.SetResult(i, nil)
		case 1:
			if rng.Intn(3) == 0 {
				c.SetPromise(nil)
			} else {
				c.SetPromise(promise.NewPromise[int]())
			}
		case 2:
			if p, _ := c.GetPromise(); p != nil {
				p.SetResult(i, nil)
			}
		case 3:
			ctx, cancel := shortCtx(rng)
			_, _ = c.Await(ctx)
			cancel()
		case 4:
			ctx, cancel := shortCtx(rng)
			_, _ = c.AwaitWithErrCh(ctx, nil)
			cancel()
		case 5:
			ctx, cancel := shortCtx(rng)
			_, _ = c.AwaitWithCancelCh(ctx, ctx.Done())
			cancel()
		case 6:
			c.SetResult(0, errors.New("e"))
		}
	})
}

func TestRace_Once(t *testing.T) {
	var calls atomic.Int64
	o := promise.NewOnce(func(ctx context.Context) (int, error) {
		k := calls.Add(1)
		select {
		case <-ctx.Done():
			return 0, context.Canceled
		case <-time.After(100 * time.Microsecond):
		}
		if k < 4 {
			return 0, errors.New("not yet")
		}
		return int(k), nil
	})
	run(t, workers, 1<<16, func(id int, rng *rand.Rand, i int) {
		ctx, cancel := shortCtx(rng)
		_, _ = o.Resolve(ctx)
		cancel()
	})
	time.Sleep(5 * time.Millisecond)
}

func TestRace_MemoizeFunc(t *testing.T) {
	for round := 0; round < 50; round++ {
		var calls atomic.Int64
		f := memo.MemoizeFunc(func() (int, error) {
			calls.Add(1)
			time.Sleep(50 * time.Microsecond)
			return 7, nil
		})
		var wg sync.WaitGroup
		for g := 0; g < workers; g++ {
			wg.Add(1)
			go func() {
				defer wg.Done()
				if v, err := f(); v != 7 || err != nil {
					t.Errorf("memo returned %d %v", v, err)
				}
			}()
		}
		wg.Wait()
		if calls.Load() != 1 {
			t.Fatalf("memoized function called %d times", calls.Load())
		}
	}
}

type lockedBuf struct {
	mu sync.Mutex
	b  bytes.Buffer
}

func (l *lockedBuf) Write(p []byte) (int, error) {
	l.mu.Lock()
	defer l.mu.Unlock()
	return l.b.Write(p)
}
func (l *lockedBuf) Read(p []byte) (int, error) { l.mu.Lock(); defer l.mu.Unlock(); return l.b.Read(p) }

func TestRace_IOCloser(t *testing.T) {
	for round := 0; round < 4; round++ {
		var closes atomic.Int64
		buf := &lockedBuf{}
		buf.Write(bytes.Repeat([]byte("x"), 1<<16))
		rc := iocloser.NewReadCloser(buf, func() error { closes.Add(1); return nil })
		wc := iocloser.NewWriteCloser(buf, func() error { closes.Add(1); return nil })
		runFor(t, seconds()/4, workers, 1<<12, func(id int, rng *rand.Rand, i int) {
			p := make([]byte, 8)
			switch rng.Intn(8) {
			case 0, 1, 2:
				_, _ = rc.Read(p)
			case 3, 4, 5:
				_, _ = wc.Write(p)
			case 6:
				if i > 50 {
					_ = rc.Close()
				}
			case 7:
				if i > 50 {
					_ = wc.Close()
				}
			}
		})
		if closes.Load() > 2 {
			t.Fatalf("close callbacks ran %d times", closes.Load())
		}
	}
}

func TestRace_SizeReadWriter(t *testing.T) {
	buf := &lockedBuf{}
	s := iosizer.NewSizeReadWriter(buf, buf)
	var want atomic.Uint64
	run(t, workers, 1<<16, func(id int, rng *rand.Rand, i int) {
		p := make([]byte, 1+rng.Intn(16))
		switch rng.Intn(3) {
		case 0:
			n, _ := s.Write(p)
			want.Add(uint64(n))
		case 1:
			n, err := s.Read(p)
			if err == nil || err == io.EOF {
				want.Add(uint64(n))
			}
		case 2:
			_ = s.TotalSize()
		}
	})
	if s.TotalSize() != want.Load() {
		t.Fatalf("TotalSize %d, transferred %d", s.TotalSize(), want.Load())
	}
}
