// Differential harness for C20 (unique part): unique.KeyedList[uint64, V] and
// unique.KeyedMap[uint64, V] with V = struct{K, P uint64}.
//
// Encoding of config, events and observations: header comment of
// /verif/coq/theories/Unique/Spec.v.  The notification log of a call is reported in call order
// except for the parts whose order is Go map iteration order, which are sorted by key: the trailing
// run of removed-notifications of SetValues (both types) and the added/changed notifications of
// KeyedMap.SetValues / AppendValues.  GetKeys / GetValues results are sorted by key.
package uniquex

import (
	"fmt"
	"math/rand/v2"
	"sort"
	"testing"

	"github.com/aperturerobotics/util/unique"
	"verif/harness/hist"
)

// V is the value type: K is its key, P its payload.
type V struct{ K, P uint64 }

type note struct {
	k     uint64
	v     V
	flags uint64 // added + 2*removed
}

func cmpOf(mode uint64) func(k uint64, a, b V) bool {
	return func(_ uint64, a, b V) bool {
		switch mode {
		case 0:
			return a.P == b.P
		case 1:
			return false
		case 2:
			return a.P%2 == b.P%2
		}
		return true
	}
}

type sys struct {
	isMap bool
	l     *unique.KeyedList[uint64, V]
	m     *unique.KeyedMap[uint64, V]
	log   []note
}

func pairs(l []uint64) ([]V, bool) {
	if len(l)%2 != 0 {
		return nil, false
	}
	out := make([]V, 0, len(l)/2)
	for i := 0; i < len(l); i += 2 {
		out = append(out, V{l[i], l[i+1]})
	}
	return out, true
}

func toMap(vs []V) map[uint64]V {
	m := make(map[uint64]V, len(vs))
	for _, v := range vs {
		m[v.K] = v // later pair wins
	}
	return m
}

func newSys(cfg []uint64) *sys {
	if len(cfg) < 2 || cfg[0] > 1 || cfg[1] > 3 {
		return nil
	}
	init, ok := pairs(cfg[2:])
	if !ok {
		return nil
	}
	s := &sys{isMap: cfg[0] == 1}
	changed := func(k uint64, v V, added, removed bool) {
		var f uint64
		if added {
			f |= 1
		}
		if removed {
			f |= 2
		}
		s.log = append(s.log, note{k, v, f})
	}
	if s.isMap {
		s.m = unique.NewKeyedMap[uint64, V](cmpOf(cfg[1]), changed, toMap(init))
	} else {
		s.l = unique.NewKeyedList[uint64, V](func(v V) uint64 { return v.K }, cmpOf(cfg[1]), changed, init)
	}
	return s
}

func (s *sys) keys() []uint64 {
	var ks []uint64
	if s.isMap {
		ks = s.m.GetKeys()
	} else {
		ks = s.l.GetKeys()
	}
	sort.Slice(ks, func(i, j int) bool { return ks[i] < ks[j] })
	return ks
}

func (s *sys) values() []V {
	var vs []V
	if s.isMap {
		vs = s.m.GetValues()
	} else {
		vs = s.l.GetValues()
	}
	sort.Slice(vs, func(i, j int) bool {
		if vs[i].K != vs[j].K {
			return vs[i].K < vs[j].K
		}
		return vs[i].P < vs[j].P
	})
	return vs
}

func encKeys(ks []uint64) []uint64 { return append([]uint64{uint64(len(ks))}, ks...) }
func encVals(vs []V) []uint64 {
	out := []uint64{uint64(len(vs))}
	for _, v := range vs {
		out = append(out, v.K, v.P)
	}
	return out
}

func byKey(ns []note) {
	sort.SliceStable(ns, func(i, j int) bool { return ns[i].k < ns[j].k })
}

// normLog applies the sorting rule of the Spec.v header.
func (s *sys) normLog(kind uint64) []note {
	log := append([]note(nil), s.log...)
	cut := len(log)
	if kind == 1 { // SetValues: the trailing run of removed-notifications comes from ranging over a map
		for cut > 0 && log[cut-1].flags&2 != 0 {
			cut--
		}
		byKey(log[cut:])
	}
	if s.isMap && (kind == 1 || kind == 2) { // the argument map is ranged over
		byKey(log[:cut])
	}
	return log
}

func (s *sys) step(ev []uint64) []uint64 {
	if len(ev) == 0 {
		return []uint64{99}
	}
	s.log = nil
	switch ev[0] {
	case 1, 2, 3:
		vs, ok := pairs(ev[1:])
		if !ok || (ev[0] == 3 && s.isMap) {
			return []uint64{99}
		}
		switch {
		case ev[0] == 1 && s.isMap:
			s.m.SetValues(toMap(vs))
		case ev[0] == 1:
			s.l.SetValues(vs...)
		case ev[0] == 2 && s.isMap:
			s.m.AppendValues(toMap(vs))
		case ev[0] == 2:
			s.l.AppendValues(vs...)
		default:
			s.l.RemoveValues(vs...)
		}
	case 4:
		if s.isMap {
			s.m.RemoveKeys(ev[1:]...)
		} else {
			s.l.RemoveKeys(ev[1:]...)
		}
	case 5:
		if len(ev) != 1 {
			return []uint64{99}
		}
		return encKeys(s.keys())
	case 6:
		if len(ev) != 1 {
			return []uint64{99}
		}
		return encVals(s.values())
	default:
		return []uint64{99}
	}
	log := s.normLog(ev[0])
	obs := []uint64{uint64(len(log))}
	for _, n := range log {
		obs = append(obs, n.k, n.v.K, n.v.P, n.flags)
	}
	obs = append(obs, encKeys(s.keys())...)
	return append(obs, encVals(s.values())...)
}

func runFixed(w *hist.W, id string, cfg []uint64, evs [][]uint64) {
	s := newSys(cfg)
	w.Begin(id, cfg)
	if s == nil {
		return
	}
	for _, ev := range evs {
		w.Step(ev, s.step(ev))
	}
}

// ---------------------------------------------------------------- generator
func genPairs(r *rand.Rand, nk, np int, maxn int) []uint64 {
	n := r.IntN(maxn + 1)
	if r.IntN(10) == 0 {
		n = 0 // empty call
	}
	var out []uint64
	for i := 0; i < n; i++ {
		k := uint64(r.IntN(nk))
		if i > 0 && r.IntN(4) == 0 { // duplicate key inside one call
			k = out[2*r.IntN(i)]
		}
		out = append(out, k, uint64(r.IntN(np)))
	}
	return out
}

func dupKeys(ps []uint64) bool {
	seen := map[uint64]bool{}
	for i := 0; i < len(ps); i += 2 {
		if seen[ps[i]] {
			return true
		}
		seen[ps[i]] = true
	}
	return false
}

func genHistory(w *hist.W, r *rand.Rand, id string) {
	kind := uint64(r.IntN(2))
	mode := uint64(r.IntN(4))
	if r.IntN(3) == 0 {
		mode = pickU(r, 0, 2)
	}
	nk := 2 + r.IntN(7) // small key domain: collisions, absent keys
	np := 1 + r.IntN(5) // small payload domain: equal and equal-per-cmp-but-different values
	if r.IntN(12) == 0 {
		nk = 1 << 62 // sparse huge keys
	}
	cfg := append([]uint64{kind, mode}, genPairs(r, nk, np, 5)...)
	s := newSys(cfg)
	w.Begin(id, cfg)
	steps := 1 + r.IntN(12)
	for k := 0; k < steps; k++ {
		var ev []uint64
		switch c := r.IntN(20); {
		case c < 7:
			ev = append([]uint64{1}, genPairs(r, nk, np, 6)...)
		case c < 12:
			ev = append([]uint64{2}, genPairs(r, nk, np, 5)...)
		case c < 14 && kind == 0:
			ev = append([]uint64{3}, genPairs(r, nk, np, 4)...)
		case c < 18:
			ev = []uint64{4}
			cur := s.keys()
			n := r.IntN(5)
			for i := 0; i < n; i++ {
				switch {
				case len(cur) > 0 && r.IntN(2) == 0:
					ev = append(ev, cur[r.IntN(len(cur))]) // present (possibly twice in one call)
				default:
					ev = append(ev, uint64(r.IntN(nk))) // possibly absent
				}
			}
		case c < 19:
			ev = []uint64{5}
		default:
			ev = []uint64{6}
		}
		before := len(s.keys())
		obs := s.step(ev)
		w.Step(ev, obs)
		w.Count(fmt.Sprintf("ev_%d.kind_%d", ev[0], kind), 1)
		if ev[0] <= 3 {
			if len(ev) == 1 {
				w.Count("empty_call", 1)
			}
			if dupKeys(ev[1:]) {
				w.Count(fmt.Sprintf("dup_in_call.ev_%d", ev[0]), 1)
			}
		}
		if ev[0] <= 4 {
			w.Count("notifications", int(obs[0]))
			for i := 0; i < int(obs[0]); i++ {
				w.Count(fmt.Sprintf("note_flags_%d", obs[1+4*i+3]), 1)
			}
			if ev[0] == 1 && before > 0 && len(s.keys()) == 0 {
				w.Count("set_clears_all", 1)
			}
			if obs[0] == 0 && len(ev) > 1 {
				w.Count("call_without_effect", 1)
			}
		}
	}
}

func pickU(r *rand.Rand, xs ...uint64) uint64 { return xs[r.IntN(len(xs))] }

func runBoundary(w *hist.W) {
	for kind := uint64(0); kind < 2; kind++ {
		for mode := uint64(0); mode < 4; mode++ {
			evs := [][]uint64{
				{1, 1, 10, 4, 40, 4, 41},      // same key twice in one Set, second differs from first
				{2, 4, 41, 5, 50, 5, 51, 5, 50}, // Append: equal, add, change, change back
				{1},                            // empty Set removes everything
				{1},                            // again: nothing to do
				{2, 7, 1, 7, 3, 7, 2},          // parity-equal values in one call
				{4, 7, 7, 9},                   // remove the same key twice and an absent one
				{2},
				{4},
				{1, 2, 0, 3, 0, 2, 1, 3, 1},
				{1, 3, 1},
				{5}, {6},
			}
			if kind == 0 {
				evs = append(evs, []uint64{3, 3, 99, 3, 1, 8, 8}, []uint64{3})
			}
			runFixed(w, fmt.Sprintf("fixed-%d-%d", kind, mode), []uint64{kind, mode, 1, 10, 2, 20, 3, 30, 2, 21}, evs)
		}
	}
}

func TestUnique(t *testing.T) {
	w, err := hist.Open("unique")
	if err != nil {
		t.Fatal(err)
	}
	defer w.Close()
	if *hist.Replay != "" {
		hs, err := hist.Load(*hist.Replay)
		if err != nil {
			t.Fatal(err)
		}
		for _, h := range hs {
			runFixed(w, h.ID, h.Cfg, h.Evs)
		}
		return
	}
	for _, h := range hist.LoadCorpus(*hist.Corpus) {
		runFixed(w, h.ID, h.Cfg, h.Evs)
		w.Count("corpus", 1)
	}
	runBoundary(w)
	for h := 0; h < *hist.NHist; h++ {
		genHistory(w, hist.Rng(h), fmt.Sprintf("r%d", h))
	}
}
