// Scheduled correspondence harness for ccall.CallConcurrently (C17).  One history = one call.
//
// Config:  [k] (optional)  the caller's context is hctx.Flavour(k): k%4 == 1 a context that ends like a deadline (Err() ==
//
//	context.DeadlineExceeded), k%4 == 3 one cancelled with a cause (Err() == context.Canceled, Cause == hctx.ErrCause),
//	otherwise a plain WithCancel context.  CallConcurrently returns the literal context.Canceled for all of them, so
//	the model does not look at the configuration; code that returns ctx.Err() / context.Cause(ctx) shows as 96 / 97.
//
// Events:  [1 f1 .. fn]  CallConcurrently(ctx, fns...) in the caller actor; fi = 1 a harness-owned function, 0 a nil entry
//
//	[2 a c]       actor a (0 = the caller, i+1 = the goroutine of function i) runs from its gate to its next stop;
//	              c (caller only): the select case taken if both are ready, 1 = ctx.Done, 2 = waitCh
//	[3 i oc]      function i returns oc (1 nil, 2 context.Canceled, 3+e error number e)
//	[4]           the caller's context is cancelled
//
// Observation after every event:  [cstat cret] ++ for every entry i [wstat_i entries_i ctxc_i]
//
//	cstat  0 not called, 1 at a HoldLock entry gate, 6 at a HoldLock exit gate, 2 blocked, 5 returned, 9 panicked
//	cret   0 not returned, 1 nil, 2 context.Canceled, 3+e error e; errors no function returned: 96
//	       context.DeadlineExceeded, 97 the cause of the caller's context (hctx.ErrCause), 99 any other error;
//	       98 the call returned having overwritten entries of the caller's list of functions (a second call with
//	       the same list would not run them)
//	wstat  0 nil entry / not entered, 3 inside the function, 1 at the gate of its record section,
//	       4 finished (left its record section; or returned in the one-function path), 2 blocked elsewhere
//	entries  how often function i was entered;  ctxc  1 if entered and the context it received is cancelled
//
// The caller is ALWAYS parked at the exit gates of its own sections (defect D12 lived between the spawn section and
// the check that follows it).  Which case Go's select takes when both are ready cannot be forced: the event carries
// the wanted case, and an attempt in which the runtime chose the other one is cut at that step (with the case that
// was really taken written into the event, so the cut history is still a faithful one) and the history is re-executed.
package ccallx

import (
	"context"
	"errors"
	"fmt"
	"math/rand/v2"
	"sync"
	"sync/atomic"
	"testing"
	"testing/synctest"

	"github.com/aperturerobotics/util/broadcast"
	"github.com/aperturerobotics/util/ccall"
	"verif/harness/ctl"
	"verif/harness/hctx"
	"verif/harness/hist"
)

const (
	kCaller = 1
	kWorker = 2
)

var errs = []error{errors.New("e0"), errors.New("e1"), errors.New("e2"), errors.New("e3"),
	errors.New("e4"), errors.New("e5"), errors.New("e6"), errors.New("e7")}

func outErr(oc uint64) error {
	switch {
	case oc <= 1:
		return nil
	case oc == 2:
		return context.Canceled
	case int(oc-3) < len(errs):
		return errs[oc-3]
	}
	return errs[len(errs)-1]
}

func errCode(err error) int {
	if err == nil {
		return 1
	}
	if err == context.Canceled {
		return 2
	}
	for i, e := range errs {
		if err == e {
			return 3 + i
		}
	}
	if err == context.DeadlineExceeded {
		return 96
	}
	if err == hctx.ErrCause {
		return 97
	}
	return 99
}

type wdata struct {
	idx      int
	entries  atomic.Int64
	ctx      context.Context // the context the function received (written before it parks)
	outcome  uint64          // prescribed by the history before the function is released
	returned atomic.Bool
	exited   atomic.Bool // its goroutine has left a HoldLock section
	inline   bool        // entered on the caller's own goroutine (one-function path)
}

type sys struct {
	c          *ctl.Ctl
	w          *hist.W
	ctx        context.Context
	cancel     func() // ends the caller's context in the way of its flavour
	flavour    int    // 0 plain, 1 deadline-like, 2 cancelled with a cause
	cancelled  bool
	caller     *ctl.Actor
	fns        []bool
	workers    []*ctl.Actor // nil for nil entries
	wd         []*wdata
	mu         sync.Mutex
	gid2w      map[int]int
	bcastSince bool // a record section ran since the caller last fetched its wait channel
}

var flavourNames = [3]string{"plain", "deadline_like", "with_cause"}

func newSys(w *hist.W, cfg []uint64) *sys {
	s := &sys{c: ctl.New(), w: w, gid2w: map[int]int{}}
	k := 0
	if len(cfg) > 0 {
		k = int(cfg[0] % 4)
	}
	s.ctx, s.cancel, s.flavour = hctx.Flavour(context.Background(), k)
	w.Count("cfg.ctx_flavour."+flavourNames[s.flavour], 1)
	s.c.Adopt = func(pkg string, site int, obj any) *ctl.Actor {
		s.mu.Lock()
		i, ok := s.gid2w[ctl.Gid()]
		s.mu.Unlock()
		if !ok {
			return nil
		}
		return s.workers[i]
	}
	s.c.ShouldPark = func(a *ctl.Actor, pkg string, site int, obj any) bool {
		if a.Kind == kCaller {
			return site == 0 || site == 1
		}
		if site == 1 {
			a.Data.(*wdata).exited.Store(true)
			return false
		}
		return site == 0
	}
	broadcast.VerifHook = s.c.HookFor("broadcast", []int{0, 2}, []int{1, 3})
	return s
}

// fn is the harness-owned function number i.
func (s *sys) fn(i int) ccall.CallConcurrentlyFunc {
	return func(ctx context.Context) error {
		d := s.wd[i]
		if d.entries.Add(1) > 1 {
			return nil // entered twice: reported through the entry count
		}
		d.ctx = ctx
		s.mu.Lock()
		s.gid2w[ctl.Gid()] = i
		s.mu.Unlock()
		if s.c.Current() == s.caller {
			d.inline = true
		}
		s.c.ParkUser(s.workers[i], i+1)
		err := outErr(d.outcome)
		d.returned.Store(true)
		return err
	}
}

func (s *sys) status() []uint64 {
	out := make([]uint64, 0, 2+3*len(s.fns))
	switch a := s.caller; {
	case a == nil:
		out = append(out, 0, 0)
	case a.Panicked() != nil:
		out = append(out, 9, 0)
	case a.Done():
		out = append(out, 5, uint64(a.Res))
	case a.Parked() && a.Site() == 1:
		out = append(out, 6, 0)
	case a.Parked():
		out = append(out, 1, 0)
	default:
		out = append(out, 2, 0)
	}
	for i, f := range s.fns {
		if !f {
			out = append(out, 0, 0, 0)
			continue
		}
		a, d := s.workers[i], s.wd[i]
		var st uint64
		switch {
		case a.Parked():
			st = 1
		case a.InUser() != 0:
			st = 3
		case d.returned.Load() && (d.exited.Load() || d.inline):
			st = 4
		case d.entries.Load() == 0:
			st = 0
		default:
			st = 2
		}
		cx := uint64(0)
		if d.entries.Load() > 0 && d.ctx != nil && d.ctx.Err() != nil {
			cx = 1
		}
		out = append(out, st, uint64(d.entries.Load()), cx)
	}
	return out
}

// exec applies one event to the real code.  ok=false: not applicable now.  actual != nil: the select took the other
// case than the event asked for; actual is the event describing what really happened.
func (s *sys) exec(ev []uint64) (obs []uint64, ok bool, actual []uint64) {
	switch {
	case ev[0] == 1:
		if s.caller != nil {
			return nil, false, nil
		}
		s.fns = make([]bool, len(ev)-1)
		s.workers = make([]*ctl.Actor, len(ev)-1)
		s.wd = make([]*wdata, len(ev)-1)
		a := s.c.NewActor(kCaller)
		fns := make([]ccall.CallConcurrentlyFunc, len(ev)-1)
		for i, f := range ev[1:] {
			if f == 1 {
				s.fns[i] = true
				s.wd[i] = &wdata{idx: i, outcome: 1}
				s.workers[i] = s.c.NewActor(kWorker)
				s.workers[i].Data = s.wd[i]
				fns[i] = s.fn(i)
			}
		}
		s.caller = a
		ctx := s.ctx
		s.c.Go(a, func(a *ctl.Actor) {
			res := errCode(ccall.CallConcurrently(ctx, fns...))
			// fns... hands the callee the caller's own slice: the list belongs to the caller, who may pass it again
			for i, f := range s.fns {
				if f && fns[i] == nil {
					res = 98
				}
			}
			a.Res = res
		})
		synctest.Wait()
	case ev[0] == 2 && len(ev) == 3 && ev[1] == 0:
		a := s.caller
		if a == nil || !a.Parked() {
			return nil, false, nil
		}
		site := a.Site()
		both := site == 1 && s.cancelled && s.bcastSince
		if site == 0 {
			s.bcastSince = false
		}
		s.c.Step(a)
		if site == 1 && s.cancelled {
			took := uint64(0)
			switch {
			case a.Parked() && a.Site() == 0:
				took = 2 // went on to its read section although ctx.Done was ready
			case a.Done() && a.Res == 2 && both:
				took = 1
			}
			if took != 0 {
				s.w.Count("sit.select_both_ready", 1)
				if took != ev[2] {
					actual = []uint64{2, 0, took}
				}
			}
		}
	case ev[0] == 2 && len(ev) == 3:
		i := int(ev[1]) - 1
		if i >= len(s.fns) || !s.fns[i] || !s.workers[i].Parked() {
			return nil, false, nil
		}
		if s.caller.Parked() && s.caller.Site() == 1 {
			s.w.Count("sit.record_while_caller_at_exit_gate", 1)
		}
		s.bcastSince = true
		s.c.Step(s.workers[i])
	case ev[0] == 3 && len(ev) == 3:
		i := int(ev[1])
		if i >= len(s.fns) || !s.fns[i] || s.workers[i].InUser() == 0 || ev[2] == 0 {
			return nil, false, nil
		}
		s.wd[i].outcome = ev[2]
		s.c.StepUser(s.workers[i])
	case ev[0] == 4 && len(ev) == 1:
		if s.cancelled {
			return nil, false, nil
		}
		if s.caller != nil && !s.caller.Done() && !s.caller.Parked() && len(s.fns) >= 2 {
			s.w.Count("sit.cancel_while_blocked_in_select", 1)
			s.w.Count("sit.cancel_while_blocked_in_select.ctx_"+flavourNames[s.flavour], 1)
		}
		s.cancelled = true
		s.cancel()
		synctest.Wait()
	default:
		return nil, false, nil
	}
	return s.status(), true, actual
}

type params struct {
	wCaller, wCancel, pNil, pCanc, precancel int
}

func genParams(r *rand.Rand) *params {
	return &params{
		wCaller:   []int{1, 1, 1, 4, 12}[r.IntN(5)], // a lazy caller lets the workers finish inside its windows
		wCancel:   []int{0, 1, 1, 3}[r.IntN(4)],
		pNil:      []int{20, 35, 60, 85, 100}[r.IntN(5)],
		pCanc:     []int{0, 10, 25, 50, 70}[r.IntN(5)],
		precancel: []int{0, 0, 0, 25}[r.IntN(4)],
	}
}

// gen picks the next event among those the implementation allows now.
func (s *sys) gen(r *rand.Rand, p *params) []uint64 {
	if s.caller == nil {
		if !s.cancelled && r.IntN(100) < p.precancel {
			return []uint64{4}
		}
		n := []int{0, 1, 1, 2, 2, 2, 2, 3, 3, 3, 3, 4, 4, 5}[r.IntN(14)]
		pnilEntry := []int{0, 0, 0, 15, 15, 40, 40, 100}[r.IntN(8)]
		ev := []uint64{1}
		for i := 0; i < n; i++ {
			if r.IntN(100) < pnilEntry {
				ev = append(ev, 0)
			} else {
				ev = append(ev, 1)
			}
		}
		return ev
	}
	type cand struct {
		w  int
		ev []uint64
	}
	var cs []cand
	if s.caller.Parked() {
		cs = append(cs, cand{p.wCaller, []uint64{2, 0, uint64(1 + r.IntN(2))}})
	}
	for i, f := range s.fns {
		if !f {
			continue
		}
		if s.workers[i].Parked() {
			cs = append(cs, cand{4, []uint64{2, uint64(i + 1), 0}})
		}
		if s.workers[i].InUser() != 0 {
			oc := uint64(1)
			if x := r.IntN(100); x >= p.pNil {
				if r.IntN(100) < p.pCanc {
					oc = 2
				} else {
					oc = uint64(3 + r.IntN(3))
				}
			}
			cs = append(cs, cand{3, []uint64{3, uint64(i), oc}})
		}
	}
	if !s.cancelled && !s.caller.Done() && p.wCancel > 0 {
		cs = append(cs, cand{p.wCancel, []uint64{4}})
	}
	tot := 0
	for _, c := range cs {
		tot += c.w
	}
	if tot == 0 {
		return nil
	}
	x := r.IntN(tot)
	for _, c := range cs {
		if x < c.w {
			return c.ev
		}
		x -= c.w
	}
	return nil
}

func (s *sys) teardown() {
	s.cancel()
	s.c.Free()
	synctest.Wait()
	broadcast.VerifHook = nil
}

func (s *sys) count(ev, obs []uint64) {
	names := map[uint64]string{1: "call", 2: "step", 3: "fnreturn", 4: "cancel"}
	s.w.Count("ev."+names[ev[0]], 1)
	switch ev[0] {
	case 1:
		s.w.Count(fmt.Sprintf("call.n=%d", len(ev)-1), 1)
		nn := 0
		for _, f := range ev[1:] {
			if f == 0 {
				nn++
			}
		}
		if nn > 0 {
			s.w.Count("call.with_nil_entries", 1)
		}
		if nn == len(ev)-1 && nn > 0 {
			s.w.Count("call.only_nil_entries", 1)
		}
		if s.cancelled {
			s.w.Count("call.ctx_already_cancelled", 1)
		}
	case 2:
		if ev[1] == 0 {
			s.w.Count("ev.step.caller", 1)
		} else {
			s.w.Count("ev.step.worker", 1)
		}
	case 3:
		switch ev[2] {
		case 1:
			s.w.Count("fnreturn.nil", 1)
		case 2:
			s.w.Count("fnreturn.canceled", 1)
		default:
			s.w.Count("fnreturn.error", 1)
		}
		if s.caller.Done() && len(s.fns) >= 2 {
			s.w.Count("fnreturn.after_call_returned", 1)
		}
	}
	quiet := obs[0] != 1 && obs[0] != 6
	for i := 2; i+2 < len(obs); i += 3 {
		if obs[i] == 1 {
			quiet = false
		}
	}
	if quiet {
		s.w.Count("obs.quiescent_points", 1)
		if obs[0] == 2 {
			s.w.Count("obs.quiescent_caller_blocked", 1)
		}
	}
}

func (s *sys) countEnd(last []uint64) {
	if last == nil {
		return
	}
	switch {
	case last[0] == 9:
		s.w.Count("end.panicked", 1)
	case last[0] != 5:
		s.w.Count("end.not_returned", 1)
	case last[1] == 1:
		s.w.Count("end.ret_nil", 1)
	case last[1] == 2:
		s.w.Count("end.ret_canceled", 1)
		if s.cancelled {
			s.w.Count("end.ret_canceled.ctx_ended_"+flavourNames[s.flavour], 1)
		}
	case last[1] == 96 || last[1] == 97 || last[1] == 99:
		s.w.Count(fmt.Sprintf("end.ret_foreign_error_%d.ctx_%s", last[1], flavourNames[s.flavour]), 1)
	default:
		s.w.Count("end.ret_error", 1)
	}
}

// attempt runs one history; next yields the events.  It returns false if the history was cut because a select took
// the other case than the event asked for.
// soft (optional): asked when an event is not applicable; true = drop that event and go on with the next one (the end of a
// corpus prefix in a random history) instead of ending the history.
func attempt(t *testing.T, w *hist.W, id string, cfg []uint64, next func(s *sys, k int) []uint64, onEnd func(s *sys), soft func() bool) (complete bool) {
	complete = true
	synctest.Test(t, func(t *testing.T) {
		s := newSys(w, cfg)
		defer s.teardown()
		w.Begin(id, cfg)
		var last []uint64
		for k := 0; ; k++ {
			ev := next(s, k)
			if ev == nil {
				break
			}
			w.Flush()
			obs, ok, actual := s.exec(ev)
			if !ok {
				if soft != nil && soft() {
					continue
				}
				// the event is not applicable on the implementation (the history has diverged earlier)
				w.Count("fixed.truncated", 1)
				break
			}
			if actual != nil {
				s.count(actual, obs)
				w.Step(actual, obs)
				w.Count("select.other_case_taken_history_cut", 1)
				complete = false
				return
			}
			s.count(ev, obs)
			w.Step(ev, obs)
			last = obs
		}
		s.countEnd(last)
		if onEnd != nil {
			onEnd(s)
		}
	})
	return complete
}

const maxAttempts = 24

// corpusMotifs: the corpus histories, used as PREFIXES of a share of the random histories (a random cut of a random
// corpus history is replayed first, then generation continues at random from the situation it reached): the corner
// cases that were worth writing down are then also explored in their neighbourhood, not only replayed verbatim.
var corpusMotifs []hist.H

func runRandom(t *testing.T, w *hist.W, h int) {
	for att := 0; att < maxAttempts; att++ {
		r := hist.Rng(h)
		p := genParams(r)
		steps := 8 + r.IntN(50)
		// every attempt draws the same prefix (same PRNG): a retry repeats the same history
		var prefix [][]uint64
		if len(corpusMotifs) > 0 && r.IntN(6) == 0 {
			m := corpusMotifs[r.IntN(len(corpusMotifs))]
			if len(m.Evs) > 0 {
				prefix = m.Evs[:1+r.IntN(len(m.Evs))]
			}
		}
		if prefix != nil && att == 0 {
			w.Count("random_with_corpus_prefix", 1)
		}
		id := fmt.Sprintf("r%d", h)
		if att > 0 {
			id = fmt.Sprintf("r%d.retry%d", h, att)
		}
		pi, inPrefix, generated := 0, prefix != nil, 0
		// the flavour of the caller's context: a function of the history number (every attempt repeats it)
		cfg := []uint64{uint64(h % 4)}
		if attempt(t, w, id, cfg, func(s *sys, k int) []uint64 {
			if inPrefix {
				if pi < len(prefix) && len(prefix[pi]) > 0 {
					pi++
					return append([]uint64{}, prefix[pi-1]...)
				}
				inPrefix = false
			}
			if generated >= steps {
				return nil
			}
			generated++
			return s.gen(r, p)
		}, nil, func() bool {
			// a prefix event that is not applicable ends the prefix; generation goes on from the situation reached
			if inPrefix {
				inPrefix = false
				return true
			}
			return false
		}) {
			return
		}
	}
	w.Count("select.gave_up", 1)
}

func runFixed(t *testing.T, w *hist.W, id string, cfg []uint64, evs [][]uint64) {
	for att := 0; att < maxAttempts; att++ {
		aid := id
		if att > 0 {
			aid = fmt.Sprintf("%s.retry%d", id, att)
		}
		if attempt(t, w, aid, cfg, func(s *sys, k int) []uint64 {
			if k >= len(evs) || len(evs[k]) == 0 {
				return nil
			}
			return evs[k]
		}, nil, nil) {
			return
		}
	}
	w.Count("select.gave_up", 1)
}

func TestCCall(t *testing.T) {
	w, err := hist.Open("ccall")
	if err != nil {
		t.Fatal(err)
	}
	defer w.Close()
	if *hist.Replay != "" {
		hs, err := hist.Load(*hist.Replay)
		if err != nil {
			t.Fatal(err)
		}
		for _, h := range hs {
			runFixed(t, w, h.ID, h.Cfg, h.Evs)
		}
		return
	}
	corpusMotifs = hist.LoadCorpus(*hist.Corpus)
	for _, h := range corpusMotifs {
		runFixed(t, w, h.ID, h.Cfg, h.Evs)
		w.Count("corpus", 1)
	}
	for h := 0; h < *hist.NHist; h++ {
		w.Flush()
		runRandom(t, w, h)
	}
}
