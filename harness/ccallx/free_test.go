// Free-running correspondence for ccall.CallConcurrently (C17): the functions run truly in parallel on the real
// scheduler; oracles (theorems about the model for every schedule, Props_C17): every non-nil function runs exactly once;
// nil is returned only after all of them returned nil; if some function returned an error other than context.Canceled
// the call returns such an error that some function returned; once the call has returned, the context given to the
// functions is cancelled.  Exit status 5 on a violation.
package ccallx

import (
	"context"
	"errors"
	"flag"
	"fmt"
	"math/rand/v2"
	"os"
	"runtime"
	"sync/atomic"
	"testing"
	"time"

	"github.com/aperturerobotics/util/ccall"
	"verif/harness/hist"
)

var freeMS = flag.Int("free_ms", 4000, "duration of the free-running run in milliseconds")

func TestCCallFree(t *testing.T) {
	dur := time.Duration(*freeMS) * time.Millisecond
	start := time.Now()
	var bad atomic.Value
	fail := func(msg string) { bad.CompareAndSwap(nil, msg) }
	rounds := 0
	for h := 0; time.Since(start) < dur && bad.Load() == nil; h++ {
		rounds++
		rng := rand.New(rand.NewPCG(*hist.Seed, uint64(h)))
		n := rng.IntN(6)
		fns := make([]ccall.CallConcurrentlyFunc, n)
		errs := make([]error, n)
		ran := make([]atomic.Int32, n)
		var returned atomic.Int32
		ctxs := make([]context.Context, n)
		nonNil, anyErr := 0, false
		for i := range fns {
			if rng.IntN(5) == 0 {
				continue // a nil entry
			}
			nonNil++
			i := i
			switch rng.IntN(4) {
			case 0:
				errs[i] = fmt.Errorf("error of function %d", i)
				anyErr = true
			case 1:
				errs[i] = context.Canceled
			}
			spins := rng.IntN(20)
			fns[i] = func(ctx context.Context) error {
				ran[i].Add(1)
				ctxs[i] = ctx
				for k := spins; k > 0; k-- {
					runtime.Gosched()
				}
				returned.Add(1)
				return errs[i]
			}
		}
		keep := append([]ccall.CallConcurrentlyFunc(nil), fns...)
		err := ccall.CallConcurrently(context.Background(), fns...)
		done := returned.Load()
		switch {
		case err == nil:
			if int(done) != nonNil {
				fail(fmt.Sprintf("returned nil although only %d of %d functions had returned", done, nonNil))
			}
			for i := range errs {
				if keep[i] != nil && errs[i] != nil && !errors.Is(errs[i], context.Canceled) {
					fail(fmt.Sprintf("returned nil although function %d returned %v", i, errs[i]))
				}
			}
		default:
			found := false
			for i := range errs {
				if keep[i] != nil && errs[i] == err {
					found = true
				}
			}
			if !found {
				fail(fmt.Sprintf("returned %v, which no function returned", err))
			}
			if anyErr && errors.Is(err, context.Canceled) {
				// allowed only if no non-Canceled error had been returned by then; with everything finished it is not
				if int(done) == nonNil {
					fail("every function had returned, one of them an error other than context.Canceled, but the call returned context.Canceled")
				}
			}
		}
		for i := range fns {
			if keep[i] != nil && fns[i] == nil {
				fail("the call overwrote an entry of the caller's list of functions")
			}
		}
		// stragglers finish; everyone ran exactly once; their context is cancelled
		deadline := time.Now().Add(5 * time.Second)
		for int(returned.Load()) != nonNil && err == nil && time.Now().Before(deadline) {
			runtime.Gosched()
		}
		for i := range keep {
			if keep[i] == nil {
				continue
			}
			if c := ran[i].Load(); c > 1 || (c == 0 && err == nil) {
				fail(fmt.Sprintf("function %d ran %d times", i, c))
			}
			if ran[i].Load() == 1 && err == nil && ctxs[i] != nil && ctxs[i].Err() == nil {
				fail(fmt.Sprintf("the call has returned but the context it gave function %d is not cancelled", i))
			}
		}
	}
	w, err := hist.Open("ccall")
	if err == nil {
		w.Count("free.rounds", rounds)
		if bad.Load() != nil {
			w.Count("free.violation", 1)
		}
		w.Close()
	}
	if bad.Load() == nil {
		return
	}
	msg := bad.Load().(string)
	if fo, err := os.OpenFile(*hist.OutFile, os.O_WRONLY|os.O_TRUNC|os.O_CREATE, 0o644); err == nil {
		fmt.Fprintf(fo, "# free-running run on ccall (real scheduler, seed %d): %s\n", *hist.Seed, msg)
		fo.Close()
	}
	fmt.Fprintf(os.Stderr, "FREE-VIOLATION %s\n", msg)
	os.Exit(5)
}
