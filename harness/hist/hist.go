// Package hist writes integer-trace history files for the extracted Coq checker and
// collects distribution statistics for the evidence file.
package hist

import (
	"bufio"
	"encoding/json"
	"flag"
	"fmt"
	"math/rand/v2"
	"os"
	"sort"
	"strconv"
	"strings"
	"sync"
	"sync/atomic"
	"time"
)

var (
	OutFile   = flag.String("out", "hist.txt", "history output file")
	StatsFile = flag.String("stats", "", "statistics output file (json)")
	NHist     = flag.Int("n", 200, "number of random histories / cases")
	Seed      = flag.Uint64("seed", 1, "seed")
	Corpus    = flag.String("corpus", "", "corpus directory to replay first (optional)")
	Replay    = flag.String("replay", "", "replay a single history file (events only are used)")
	FreeWant  = flag.Int("free_want", 0, "free-running runs: stop only at a failure with this exit status (0: at the first failure of any kind)")
	Hang      = flag.Int("hang", 90, "exit with status 4 when no history step completes for this many (real) seconds: the code under test hangs or livelocks; 0 disables")
)

// W writes histories.
type W struct {
	f     *os.File
	w     *bufio.Writer
	Stats map[string]int
	n     int
	model string
	curID string
	mu    sync.Mutex
	prog  atomic.Int64
}

// Open creates the output file.
func Open(model string) (*W, error) {
	f, err := os.Create(*OutFile)
	if err != nil {
		return nil, err
	}
	w := &W{f: f, w: bufio.NewWriterSize(f, 1<<20), Stats: map[string]int{}, model: model}
	if *Hang > 0 {
		go w.watchdog(time.Duration(*Hang) * time.Second)
	}
	return w, nil
}

// watchdog runs outside every synctest bubble (Open is called from the test function itself), on real time.  When no
// Begin/Step has completed for d, the code under test is hanging or spinning inside the current step: the histories
// written so far (the last one is the prefix that leads to the hang) are flushed and the process exits with status 4.
func (w *W) watchdog(d time.Duration) {
	last, since := w.prog.Load(), time.Now()
	for {
		time.Sleep(time.Second)
		if p := w.prog.Load(); p != last {
			last, since = p, time.Now()
			continue
		}
		if time.Since(since) < d {
			continue
		}
		w.mu.Lock()
		w.Stats["hang_no_progress_seconds"] = int(d / time.Second)
		fmt.Fprintf(os.Stderr, "hist: no history step completed for %v in history %s: the code under test hangs or livelocks; exiting 4\n", d, w.curID)
		w.w.Flush()
		w.f.Sync()
		os.Exit(4)
	}
}

// Begin starts a history.
func (w *W) Begin(id string, cfg []uint64) {
	w.mu.Lock()
	defer w.mu.Unlock()
	w.prog.Add(1)
	w.n++
	w.curID = id
	fmt.Fprintf(w.w, "H %s %s\n", id, w.model)
	if cfg != nil {
		fmt.Fprintf(w.w, "C %s\n", Ints(cfg))
	}
}

// Step writes one event with its observation.
func (w *W) Step(ev, obs []uint64) {
	w.mu.Lock()
	defer w.mu.Unlock()
	w.prog.Add(1)
	fmt.Fprintf(w.w, "E %s\nO %s\n", Ints(ev), Ints(obs))
}

// Alive tells the watchdog that the current step is making progress (for steps that are long by design).
func (w *W) Alive() { w.prog.Add(1) }

// Flush flushes buffered output (call before risky steps so a crash leaves the history on disk).
func (w *W) Flush() { w.mu.Lock(); w.w.Flush(); w.mu.Unlock() }

// Count adds to a statistics counter.
func (w *W) Count(k string, d int) { w.Stats[k] += d }

// Close flushes and writes the statistics.
func (w *W) Close() error {
	w.w.Flush()
	if *StatsFile != "" {
		w.Stats["histories"] = w.n
		keys := make([]string, 0, len(w.Stats))
		for k := range w.Stats {
			keys = append(keys, k)
		}
		sort.Strings(keys)
		b, _ := json.MarshalIndent(w.Stats, "", " ")
		_ = os.WriteFile(*StatsFile, b, 0o644)
	}
	return w.f.Close()
}

// Ints renders integers.
func Ints(xs []uint64) string {
	s := make([]string, len(xs))
	for i, x := range xs {
		s[i] = strconv.FormatUint(x, 10)
	}
	return strings.Join(s, " ")
}

// Rng returns the PRNG of history h for the current seed.
func Rng(h int) *rand.Rand { return rand.New(rand.NewPCG(*Seed, uint64(h)+0x9e3779b97f4a7c15)) }

// ReadHistories parses a history file into (id, cfg, events, obs).
type H struct {
	ID, Model string
	Cfg       []uint64
	Evs, Obs  [][]uint64
}

func parseInts(s string) []uint64 {
	var out []uint64
	for _, f := range strings.Fields(s) {
		v, err := strconv.ParseUint(f, 10, 64)
		if err != nil {
			panic(err)
		}
		out = append(out, v)
	}
	return out
}

// Load reads all histories of a file.
func Load(path string) ([]H, error) {
	b, err := os.ReadFile(path)
	if err != nil {
		return nil, err
	}
	var hs []H
	for _, l := range strings.Split(string(b), "\n") {
		if len(l) == 0 {
			continue
		}
		switch l[0] {
		case 'H':
			f := strings.Fields(l[1:])
			h := H{ID: f[0]}
			if len(f) > 1 {
				h.Model = f[1]
			}
			hs = append(hs, h)
		case 'C':
			hs[len(hs)-1].Cfg = parseInts(l[1:])
		case 'E':
			hs[len(hs)-1].Evs = append(hs[len(hs)-1].Evs, parseInts(l[1:]))
		case 'O':
			hs[len(hs)-1].Obs = append(hs[len(hs)-1].Obs, parseInts(l[1:]))
		}
	}
	return hs, nil
}

// LoadCorpus loads every *.hist file of a directory (sorted).
func LoadCorpus(dir string) []H {
	if dir == "" {
		return nil
	}
	ents, err := os.ReadDir(dir)
	if err != nil {
		return nil
	}
	var out []H
	for _, e := range ents {
		if strings.HasSuffix(e.Name(), ".hist") {
			hs, err := Load(dir + "/" + e.Name())
			if err == nil {
				for i := range hs {
					hs[i].ID = "corpus:" + strings.TrimSuffix(e.Name(), ".hist") + ":" + hs[i].ID
				}
				out = append(out, hs...)
			}
		}
	}
	return out
}
