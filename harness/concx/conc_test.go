// Scheduled correspondence harness for conc.ConcurrentQueue (C18).
//
// Config   [neg abs ninit]  NewConcurrentQueue(maxConcurrency = neg==1 ? -abs : abs, ninit initial jobs)
// Events   [1 n]    Enqueue(n jobs) in a new actor (parks at the HoldLock entry); every fifth job the Enqueue events of
//
//	         a history create is a NIL entry (see the job type: to the model it is a job that returns at once)
//
//	[2 k]    WaitIdle(ctx, errCh) in a new actor; k=1: errCh is a buffered channel, k=0: nil
//	[3 k]    WatchState(ctx, nil, cb) in a new actor; k=1: cb non-nil, k=0: nil (every second invocation of cb calls
//	         Enqueue() with no jobs on the same queue before it parks: a re-entrant use the API allows)
//	[4 a]    API actor a (parked at a gate) runs its critical section
//	[5 w]    worker w (the executeJob goroutine whose first job was job w, parked at its gate) runs its section
//	[6 w]    the job function worker w is in returns
//	[7 a o]  the WatchState callback of actor a returns: 0 (true,nil) 1 (false,nil) 2 (false,err) 3 (true,err)
//	[8 a]    cancel the context of actor a
//	[9 a v]  send v (0 nil, 1 an error) on a's errCh         [10 a]  close a's errCh
//
// Observation after every event:
//
//	[na nj] ++ per API actor [code x y] ++ per job [entered returned worker]
//	code 1 at a gate, 2 blocked, 3 inside the WatchState callback with arguments (x,y), 4 returned nil,
//	     5 returned context.Canceled, 6 returned the error it was given (errCh value / callback error),
//	     7 Enqueue returned (x,y), 9 panicked, 11 returned context.DeadlineExceeded, 12 returned the cause of
//	     its context (hctx.ErrCause), 13 returned any other error
//
// Contexts: the n-th context-taking call of a history (WaitIdle and WatchState, counted together from 1) receives
// hctx.Flavour(n): n%4 == 1 a context that ends like a deadline (Err() == DeadlineExceeded), n%4 == 3 one cancelled
// with a cause, otherwise a plain WithCancel context.  The library returns the literal context.Canceled for all of
// them (so the flavour is not part of the event); code that returns ctx.Err() / context.Cause(ctx) instead shows as
// 11 / 12.
//
//	worker (goroutine spawned for this job): 0 none, 1 at its gate, 8 returned, 10+j inside the function of job j
//
// Job ids are positions in the global enqueue order: the jobs of an Enqueue call receive their ids when the
// controller lets its critical section run (initial elements first).
package concx

import (
	"context"
	"errors"
	"fmt"
	"math/rand/v2"
	"sync"
	"sync/atomic"
	"testing"
	"testing/synctest"

	"github.com/aperturerobotics/util/broadcast"
	"github.com/aperturerobotics/util/conc"
	"verif/harness/ctl"
	"verif/harness/hctx"
	"verif/harness/hist"
)

const (
	kEnq    = 1
	kIdle   = 2
	kWatch  = 3
	kWorker = 4
)

var errUser = errors.New("user error")

type job struct {
	id      int // -1 until enqueued
	entries atomic.Int64
	returns atomic.Int64
	wa      *ctl.Actor  // pre-allocated actor for the goroutine spawned for this job (used only if one is)
	started atomic.Bool // some goroutine entered this job first (it is then named after this job)

	// a NIL job (Enqueue accepts nil entries: the worker skips them).  To the model it is a job whose function returns
	// at once: the harness presents it as an ordinary job that is "inside its function" from the moment a worker takes
	// it until the event [6 w] that lets it return, during which the real goroutine is already waiting at the gate of its
	// next section.  Which nil job a worker took is inferred from the FIFO order (the lowest enqueued one not yet taken).
	isNil            bool
	taken            bool
	fakeEnt, fakeRet uint64
}

type wdata struct {
	cur  atomic.Pointer[job]
	virt *job // the nil job this worker is presented as being inside of
}

type adata struct {
	cancel     func() // ends the context (in the way of its flavour)
	flavour    int    // 0 plain, 1 deadline-like, 2 cancelled with a cause
	cancelled  bool
	retCounted bool
	errCh      chan error
	eclosed    bool
	batch      []*job
	q, r       int // Enqueue result / callback arguments
	outcome    uint64
	sectAtCb   int
	ncb        int
}

type sys struct {
	c       *ctl.Ctl
	w       *hist.W
	q       *conc.ConcurrentQueue
	api     []*ctl.Actor
	jobs    []*job
	mu      sync.Mutex
	gid2w   map[int]*ctl.Actor
	tearing atomic.Bool
	nsect   int
	limit   int
	nctx    int // context-taking calls so far
	nenq    int // jobs created by Enqueue events so far: every fifth one is a nil job
}

var flavourNames = [3]string{"plain", "deadline_like", "with_cause"}

// newCtx returns the context of the next context-taking call: the flavour is a function of the number of such calls
// made so far in this history (replays reproduce it).
func (s *sys) newCtx(d *adata) context.Context {
	s.nctx++
	ctx, end, kind := hctx.Flavour(context.Background(), s.nctx)
	d.cancel, d.flavour = end, kind
	s.w.Count("sit.ctx_flavour."+flavourNames[kind], 1)
	return ctx
}

func (s *sys) newJob() *job {
	j := &job{id: -1}
	j.wa = s.c.NewActor(kWorker)
	j.wa.Data = &wdata{}
	return j
}

// fn is the harness-owned function of job j.
func (s *sys) fn(j *job) func() {
	return func() {
		g := ctl.Gid()
		s.mu.Lock()
		wa := s.gid2w[g]
		if wa == nil {
			// first job of a freshly spawned executeJob goroutine: it is named after this job
			wa = j.wa
			if j.started.Swap(true) {
				// the same job was handed to two fresh goroutines: use a scratch actor for the second
				wa = s.c.NewActor(kWorker)
				wa.Data = &wdata{}
			}
			s.gid2w[g] = wa
		}
		s.mu.Unlock()
		j.entries.Add(1)
		wa.Data.(*wdata).cur.Store(j)
		s.parkUser(wa)
		j.returns.Add(1)
	}
}

func (s *sys) parkUser(a *ctl.Actor) {
	if s.tearing.Load() {
		return
	}
	s.c.ParkUser(a, 1)
}

func newSys(w *hist.W, cfg []uint64) *sys {
	s := &sys{c: ctl.New(), w: w, gid2w: map[int]*ctl.Actor{}}
	s.c.Adopt = func(pkg string, site int, obj any) *ctl.Actor {
		s.mu.Lock()
		defer s.mu.Unlock()
		a := s.gid2w[ctl.Gid()]
		if a == nil && site == 0 && !s.tearing.Load() {
			// an unknown goroutine at a HoldLock entry: a fresh executeJob goroutine that was handed a nil job
			if j := s.nextNil(); j != nil {
				j.taken, j.fakeEnt = true, 1
				j.started.Store(true)
				j.wa.Data.(*wdata).virt = j
				a = j.wa
				s.gid2w[ctl.Gid()] = a
			}
		}
		return a
	}
	s.c.ShouldPark = func(a *ctl.Actor, pkg string, site int, obj any) bool { return site == 0 }
	broadcast.VerifHook = s.c.HookFor("broadcast", []int{0, 2}, []int{1, 3})
	lim := int(cfg[1])
	if cfg[0] == 1 {
		lim = -lim
	}
	s.limit = lim
	fns := make([]func(), cfg[2])
	for i := range fns {
		j := s.newJob()
		j.id = len(s.jobs)
		s.jobs = append(s.jobs, j)
		fns[i] = s.fn(j)
	}
	s.q = conc.NewConcurrentQueue(lim, fns...)
	synctest.Wait()
	return s
}

// nextNil returns the first enqueued nil job no worker has taken yet.
func (s *sys) nextNil() *job {
	for _, j := range s.jobs {
		if j.isNil && !j.taken {
			return j
		}
	}
	return nil
}

func resCode(err error) int {
	switch {
	case err == nil:
		return 4
	case err == context.Canceled:
		return 5
	case err == errUser:
		return 6
	case err == context.DeadlineExceeded:
		return 11
	case err == hctx.ErrCause:
		return 12
	default:
		return 13
	}
}

func (s *sys) status() []uint64 {
	out := make([]uint64, 0, 2+3*(len(s.api)+len(s.jobs)))
	out = append(out, uint64(len(s.api)), uint64(len(s.jobs)))
	for _, a := range s.api {
		d := a.Data.(*adata)
		switch {
		case a.Panicked() != nil:
			out = append(out, 9, 0, 0)
		case a.Done():
			if a.Res == 7 {
				out = append(out, 7, uint64(d.q), uint64(d.r))
			} else {
				out = append(out, uint64(a.Res), 0, 0)
			}
		case a.Parked():
			out = append(out, 1, 0, 0)
		case a.InUser() != 0:
			out = append(out, 3, uint64(d.q), uint64(d.r))
		default:
			out = append(out, 2, 0, 0)
		}
	}
	for _, j := range s.jobs {
		var wc uint64
		switch {
		case !j.started.Load():
			wc = 0
		case j.wa.Data.(*wdata).virt != nil:
			wc = 10 + uint64(j.wa.Data.(*wdata).virt.id)
		case j.wa.Parked():
			wc = 1
		case j.wa.InUser() != 0:
			wc = 10 + uint64(j.wa.Data.(*wdata).cur.Load().id)
		default:
			wc = 8
		}
		out = append(out, uint64(j.entries.Load())+j.fakeEnt, uint64(j.returns.Load())+j.fakeRet, wc)
	}
	return out
}

// exec applies one event to the real queue; ok=false if the event is not applicable now.
func (s *sys) exec(ev []uint64) (obs []uint64, ok bool) {
	apiAt := func(i uint64) *ctl.Actor {
		if i >= uint64(len(s.api)) {
			return nil
		}
		return s.api[i]
	}
	switch {
	case ev[0] == 1 && len(ev) == 2:
		n := int(ev[1])
		if n > 64 {
			return nil, false
		}
		d := &adata{}
		fns := make([]func(), n)
		for i := 0; i < n; i++ {
			j := s.newJob()
			d.batch = append(d.batch, j)
			s.nenq++
			if s.nenq%5 == 3 {
				j.isNil = true // fns[i] stays nil
				s.w.Count("ev.enqueue.nil_job", 1)
			} else {
				fns[i] = s.fn(j)
			}
		}
		a := s.c.NewActor(kEnq)
		a.Data = d
		s.api = append(s.api, a)
		s.c.Go(a, func(a *ctl.Actor) {
			d.q, d.r = s.q.Enqueue(fns...)
			a.Res = 7
		})
		synctest.Wait()
	case ev[0] == 2 && len(ev) == 2:
		d := &adata{}
		ctx := s.newCtx(d)
		var errCh <-chan error
		if ev[1] == 1 {
			d.errCh = make(chan error, 16)
			errCh = d.errCh
		}
		a := s.c.NewActor(kIdle)
		a.Data = d
		s.api = append(s.api, a)
		s.c.Go(a, func(a *ctl.Actor) {
			a.Res = resCode(s.q.WaitIdle(ctx, errCh))
		})
		synctest.Wait()
	case ev[0] == 3 && len(ev) == 2:
		d := &adata{}
		ctx := s.newCtx(d)
		a := s.c.NewActor(kWatch)
		a.Data = d
		s.api = append(s.api, a)
		var cb func(queued, running int) (bool, error)
		if ev[1] == 1 {
			cb = func(queued, running int) (bool, error) {
				d.q, d.r = queued, running
				d.ncb++
				if d.ncb%2 == 0 {
					// the callback is user code run outside the queue's lock: it may use the same queue (a feeder would
					// Enqueue from here); Enqueue() with no jobs only reads the counts
					s.c.EnterNoPark()
					_, _ = s.q.Enqueue()
					s.c.LeaveNoPark()
				}
				if s.tearing.Load() {
					return false, nil
				}
				s.c.ParkUser(a, 1)
				if s.tearing.Load() {
					return false, nil
				}
				switch d.outcome {
				case 0:
					return true, nil
				case 1:
					return false, nil
				case 2:
					return false, errUser
				default:
					return true, errUser
				}
			}
		}
		s.c.Go(a, func(a *ctl.Actor) {
			a.Res = resCode(s.q.WatchState(ctx, nil, cb))
		})
		synctest.Wait()
	case ev[0] == 4 && len(ev) == 2:
		a := apiAt(ev[1])
		if a == nil || a.Done() || !a.Parked() {
			return nil, false
		}
		d := a.Data.(*adata)
		if a.Kind == kEnq {
			// the section about to run enqueues this batch: ids are positions in the enqueue order
			for _, j := range d.batch {
				j.id = len(s.jobs)
				s.jobs = append(s.jobs, j)
			}
		}
		if a.Kind == kWatch {
			d.sectAtCb = s.nsect + 1
		}
		s.nsect++
		s.c.Step(a)
	case ev[0] == 5 && len(ev) == 2:
		if ev[1] >= uint64(len(s.jobs)) {
			return nil, false
		}
		j := s.jobs[ev[1]]
		wd := j.wa.Data.(*wdata)
		if !j.started.Load() || !j.wa.Parked() || wd.virt != nil {
			return nil, false
		}
		s.nsect++
		before := wd.cur.Load()
		nent := int64(0)
		if before != nil {
			nent = before.entries.Load()
		}
		s.c.Step(j.wa)
		if j.wa.Parked() && wd.cur.Load() == before && (before == nil || before.entries.Load() == nent) {
			// the worker is back at a gate without having entered a function: it popped a nil job
			s.mu.Lock()
			if nj := s.nextNil(); nj != nil {
				nj.taken, nj.fakeEnt = true, 1
				wd.virt = nj
				s.w.Count("sit.worker_popped_nil_job", 1)
			}
			s.mu.Unlock()
		}
	case ev[0] == 6 && len(ev) == 2:
		if ev[1] >= uint64(len(s.jobs)) {
			return nil, false
		}
		j := s.jobs[ev[1]]
		if wd := j.wa.Data.(*wdata); j.started.Load() && wd.virt != nil {
			// the nil job "returns": the real goroutine is already at the gate of its next section
			wd.virt.fakeRet = 1
			wd.virt = nil
			break
		}
		if !j.started.Load() || j.wa.InUser() == 0 {
			return nil, false
		}
		s.c.StepUser(j.wa)
	case ev[0] == 7 && len(ev) == 3:
		a := apiAt(ev[1])
		if a == nil || a.Kind != kWatch || a.InUser() == 0 || ev[2] > 3 {
			return nil, false
		}
		a.Data.(*adata).outcome = ev[2]
		s.c.StepUser(a)
	case ev[0] == 8 && len(ev) == 2:
		a := apiAt(ev[1])
		if a == nil || a.Kind == kEnq {
			return nil, false
		}
		d := a.Data.(*adata)
		d.cancelled = true
		blocked := !a.Done() && !a.Parked() && a.InUser() == 0
		d.cancel()
		synctest.Wait()
		if blocked && a.Done() {
			// the call was blocked in its select and left it because its context ended: what did it return
			s.w.Count(fmt.Sprintf("sit.ctx_ended_while_blocked.%s.returned_code_%d", flavourNames[d.flavour], a.Res), 1)
		}
	case ev[0] == 9 && len(ev) == 3:
		a := apiAt(ev[1])
		if a == nil || a.Kind != kIdle || ev[2] > 1 {
			return nil, false
		}
		d := a.Data.(*adata)
		if d.errCh == nil || d.eclosed || len(d.errCh) >= cap(d.errCh)-1 {
			return nil, false
		}
		if ev[2] == 1 {
			d.errCh <- errUser
		} else {
			d.errCh <- nil
		}
		synctest.Wait()
	case ev[0] == 10 && len(ev) == 2:
		a := apiAt(ev[1])
		if a == nil || a.Kind != kIdle {
			return nil, false
		}
		d := a.Data.(*adata)
		if d.errCh == nil || d.eclosed {
			return nil, false
		}
		d.eclosed = true
		close(d.errCh)
		synctest.Wait()
	default:
		return nil, false
	}
	return s.status(), true
}

// gen picks the next event among those the implementation allows now.
func (s *sys) gen(r *rand.Rand, maxActs, maxJobs int) []uint64 {
	var gates, wgates, inJob, inCb, cancellable, errable []int
	njobs := len(s.jobs)
	for i, a := range s.api {
		d := a.Data.(*adata)
		if !a.Done() && a.Parked() {
			gates = append(gates, i)
		}
		if a.Kind == kEnq && !a.Done() {
			njobs += len(d.batch)
		}
		if a.Kind == kWatch && a.InUser() != 0 {
			inCb = append(inCb, i)
		}
		if a.Kind != kEnq && !a.Done() && !d.cancelled {
			// never make ctx.Done and errCh ready together (the select would choose at random)
			if d.errCh == nil || (len(d.errCh) == 0 && !d.eclosed) {
				cancellable = append(cancellable, i)
			}
		}
		if a.Kind == kIdle && !a.Done() && !d.cancelled && d.errCh != nil && !d.eclosed && len(d.errCh) < 8 {
			errable = append(errable, i)
		}
	}
	for i, j := range s.jobs {
		virt := j.wa.Data.(*wdata).virt != nil
		if j.started.Load() && j.wa.Parked() && !virt {
			wgates = append(wgates, i)
		}
		if j.started.Load() && (j.wa.InUser() != 0 || virt) {
			inJob = append(inJob, i)
		}
	}
	for tries := 0; tries < 200; tries++ {
		x := r.IntN(100)
		switch {
		case x < 14 && len(s.api) < maxActs && njobs < maxJobs:
			n := []uint64{0, 1, 1, 1, 1, 2, 2, 2, 3, 3, 4}[r.IntN(11)]
			return []uint64{1, n}
		case x < 20 && len(s.api) < maxActs:
			k := uint64(1)
			if r.IntN(4) == 0 {
				k = 0
			}
			return []uint64{2, k}
		case x < 25 && len(s.api) < maxActs:
			k := uint64(1)
			if r.IntN(10) == 0 {
				k = 0
			}
			return []uint64{3, k}
		case x < 45 && len(gates) > 0:
			return []uint64{4, uint64(gates[r.IntN(len(gates))])}
		case x < 60 && len(wgates) > 0:
			return []uint64{5, uint64(wgates[r.IntN(len(wgates))])}
		case x < 78 && len(inJob) > 0:
			return []uint64{6, uint64(inJob[r.IntN(len(inJob))])}
		case x < 88 && len(inCb) > 0:
			i := inCb[r.IntN(len(inCb))]
			d := s.api[i].Data.(*adata)
			o := []uint64{0, 0, 0, 0, 0, 1, 2, 3}[r.IntN(8)]
			if o == 0 && d.cancelled && s.nsect != d.sectAtCb {
				// cancelled, and a broadcast may have closed its wait channel meanwhile: both select cases could be ready
				o = 1 + uint64(r.IntN(3))
			}
			return []uint64{7, uint64(i), o}
		case x < 91 && len(cancellable) > 0:
			if r.IntN(3) != 0 {
				continue
			}
			return []uint64{8, uint64(cancellable[r.IntN(len(cancellable))])}
		case x < 99 && len(errable) > 0:
			i := errable[r.IntN(len(errable))]
			v := uint64(0)
			if r.IntN(3) == 0 {
				v = 1
			}
			return []uint64{9, uint64(i), v}
		case x >= 99 && len(errable) > 0:
			return []uint64{10, uint64(errable[r.IntN(len(errable))])}
		}
	}
	return nil
}

func (s *sys) teardown() {
	s.tearing.Store(true)
	for _, a := range s.api {
		if d := a.Data.(*adata); d.cancel != nil {
			d.cancel()
		}
	}
	s.c.Free()
	synctest.Wait()
	broadcast.VerifHook = nil
}

func (s *sys) count(ev []uint64, obs []uint64) {
	names := map[uint64]string{1: "enqueue", 2: "waitidle", 3: "watchstate", 4: "section", 5: "worker_section", 6: "job_done",
		7: "cb_return", 8: "cancel", 9: "errch_send", 10: "errch_close"}
	s.w.Count("ev."+names[ev[0]], 1)
	if ev[0] == 1 {
		s.w.Count(fmt.Sprintf("ev.enqueue.n%d", ev[1]), 1)
	}
	na, nj := int(obs[0]), int(obs[1])
	for i := 0; i < na && i < len(s.api); i++ {
		// every return of a context-taking call whose context has ended, by flavour and returned code (counted once)
		a := s.api[i]
		if d := a.Data.(*adata); a.Kind != kEnq && d.cancelled && !d.retCounted && a.Done() {
			d.retCounted = true
			s.w.Count(fmt.Sprintf("obs.returned_after_ctx_end.%s.code_%d", flavourNames[d.flavour], obs[2+3*i]), 1)
		}
	}
	quiet := true
	exec, blockedIdle, gatesN, queuedPos, allFin := 0, 0, 0, 0, true
	for i := 0; i < na; i++ {
		c := obs[2+3*i]
		if c == 1 {
			quiet = false
			gatesN++
		}
		if c == 2 && s.api[i].Kind == kIdle {
			blockedIdle++
		}
		if (c == 7 || c == 3) && obs[2+3*i+1] > 0 {
			queuedPos++
		}
	}
	for j := 0; j < nj; j++ {
		o := obs[2+3*na+3*j:]
		exec += int(o[0]) - int(o[1])
		if o[2] == 1 {
			quiet = false
		}
		if o[1] == 0 {
			allFin = false
		}
	}
	if gatesN >= 2 {
		s.w.Count("obs.two_or_more_api_actors_at_gates", 1)
	}
	if blockedIdle >= 1 {
		s.w.Count("obs.waitidle_blocked", 1)
	}
	if queuedPos > 0 {
		s.w.Count("obs.pairs_with_queued_pos", 1)
	}
	if s.limit > 0 && exec == s.limit {
		s.w.Count("obs.executing_eq_limit", 1)
	}
	if exec >= 2 {
		s.w.Count("obs.two_or_more_executing", 1)
	}
	if quiet {
		s.w.Count("obs.quiescent_points", 1)
		if exec == 0 {
			s.w.Count("obs.quiescent_nothing_executing", 1)
		}
		if allFin && nj > 0 {
			s.w.Count("obs.quiescent_all_finished", 1)
		}
	}
}

func cfgOf(r *rand.Rand) []uint64 {
	lims := []int{-1, 0, 1, 1, 1, 2, 2, 2, 3, 4}
	l := lims[r.IntN(len(lims))]
	ninit := []uint64{0, 0, 0, 1, 2, 3}[r.IntN(6)]
	if l < 0 {
		return []uint64{1, uint64(-l), ninit}
	}
	return []uint64{0, uint64(l), ninit}
}

// corpusMotifs: the corpus histories, used as PREFIXES of a share of the random histories (a random cut of a random
// corpus history is replayed first, then generation continues at random from the situation it reached): the corner
// cases that were worth writing down are then also explored in their neighbourhood, not only replayed verbatim.
var corpusMotifs []hist.H

func runRandom(t *testing.T, w *hist.W, h int) {
	r := hist.Rng(h)
	synctest.Test(t, func(t *testing.T) {
		cfg := cfgOf(r)
		var prefix [][]uint64
		if len(corpusMotifs) > 0 && r.IntN(6) == 0 {
			m := corpusMotifs[r.IntN(len(corpusMotifs))]
			if len(m.Cfg) >= 3 && len(m.Evs) > 0 {
				cfg = append([]uint64{}, m.Cfg...)
				prefix = m.Evs[:1+r.IntN(len(m.Evs))]
			}
		}
		w.Begin(fmt.Sprintf("r%d", h), cfg)
		s := newSys(w, cfg)
		defer s.teardown()
		for _, ev := range prefix {
			if len(ev) == 0 {
				break
			}
			ev = append([]uint64{}, ev...)
			obs, ok := s.exec(ev)
			if !ok {
				break
			}
			s.count(ev, obs)
			w.Step(ev, obs)
		}
		if prefix != nil {
			w.Count("random_with_corpus_prefix", 1)
		}
		steps := 10 + r.IntN(60)
		maxActs := 3 + r.IntN(8)
		maxJobs := 3 + r.IntN(12)
		if prefix != nil {
			maxActs += len(s.api)
			maxJobs += len(s.jobs)
			for _, a := range s.api {
				if a.Kind == kEnq && !a.Done() {
					maxJobs += len(a.Data.(*adata).batch) // enqueued by the section this call has not run yet
				}
			}
		}
		for k := 0; k < steps; k++ {
			ev := s.gen(r, maxActs, maxJobs)
			if ev == nil {
				break
			}
			obs, ok := s.exec(ev)
			if !ok {
				break
			}
			s.count(ev, obs)
			w.Step(ev, obs)
		}
		w.Count(fmt.Sprintf("len.%02d", min(steps/10, 6)*10), 1)
		w.Count(fmt.Sprintf("cfg.limit.%d", s.limit), 1)
	})
}

func runFixed(t *testing.T, w *hist.W, id string, cfg []uint64, evs [][]uint64) {
	synctest.Test(t, func(t *testing.T) {
		if len(cfg) < 3 {
			cfg = []uint64{0, 0, 0}
		}
		w.Begin(id, cfg)
		s := newSys(w, cfg)
		defer s.teardown()
		for _, ev := range evs {
			if len(ev) == 0 {
				break
			}
			obs, ok := s.exec(ev)
			if !ok {
				// the event is not applicable on the implementation (the history has diverged earlier)
				w.Count("fixed.truncated", 1)
				break
			}
			s.count(ev, obs)
			w.Step(ev, obs)
		}
	})
}

func TestConc(t *testing.T) {
	w, err := hist.Open("conc")
	if err != nil {
		t.Fatal(err)
	}
	defer w.Close()
	if *hist.Replay != "" {
		hs, err := hist.Load(*hist.Replay)
		if err != nil {
			t.Fatal(err)
		}
		for _, h := range hs {
			runFixed(t, w, h.ID, h.Cfg, h.Evs)
		}
		return
	}
	corpusMotifs = hist.LoadCorpus(*hist.Corpus)
	for _, h := range corpusMotifs {
		runFixed(t, w, h.ID, h.Cfg, h.Evs)
		w.Count("corpus", 1)
	}
	for h := 0; h < *hist.NHist; h++ {
		w.Flush()
		runRandom(t, w, h)
	}
}
