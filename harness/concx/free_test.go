// Free-running correspondence for conc.ConcurrentQueue (C18): producers, jobs and watchers run truly in parallel on the
// real scheduler; the oracles are what the model is proved to satisfy for every schedule (Props_C18).  Exit status 5 on a
// violation; -out receives a one-line description.
//
//   - never more than `limit` jobs inside their function at once (limit > 0)
//   - every enqueued job runs exactly once; with limit 1 and one producer, in enqueue order
//   - the counts returned by Enqueue satisfy: queued > 0 only if running == limit
//   - WaitIdle returns nil only when every job enqueued before the call (by the caller) has finished
package concx

import (
	"context"
	"flag"
	"fmt"
	"math/rand/v2"
	"os"
	"runtime"
	"sync"
	"sync/atomic"
	"testing"
	"time"

	"github.com/aperturerobotics/util/conc"
	"verif/harness/hist"
)

var freeMS = flag.Int("free_ms", 4000, "duration of the free-running run in milliseconds")

func TestConcFree(t *testing.T) {
	dur := time.Duration(*freeMS) * time.Millisecond
	start := time.Now()
	var bad atomic.Value
	fail := func(msg string) { bad.CompareAndSwap(nil, msg) }
	rounds, jobsTotal := 0, 0
	for h := 0; time.Since(start) < dur && bad.Load() == nil; h++ {
		rounds++
		rng := rand.New(rand.NewPCG(*hist.Seed, uint64(h)))
		limit := []int{1, 1, 2, 3, 0, -1}[rng.IntN(6)]
		producers := 1 + rng.IntN(3)
		if limit == 1 && rng.IntN(2) == 0 {
			producers = 1
		}
		const per = 40
		q := conc.NewConcurrentQueue(limit)
		var inside atomic.Int32
		ran := make([]atomic.Int32, producers*per)
		var order []int
		var omu sync.Mutex
		mk := func(id int) func() {
			return func() {
				if n := inside.Add(1); limit > 0 && int(n) > limit {
					fail(fmt.Sprintf("limit %d: %d jobs are executing at once", limit, n))
				}
				if ran[id].Add(1) > 1 {
					fail(fmt.Sprintf("job %d ran twice", id))
				}
				omu.Lock()
				order = append(order, id)
				omu.Unlock()
				runtime.Gosched()
				inside.Add(-1)
			}
		}
		var wg sync.WaitGroup
		for p := 0; p < producers; p++ {
			wg.Add(1)
			go func(p int) {
				defer wg.Done()
				r := rand.New(rand.NewPCG(*hist.Seed+uint64(h), uint64(p)))
				next := p * per
				end := next + per
				for next < end && bad.Load() == nil {
					n := 1 + r.IntN(3)
					if next+n > end {
						n = end - next
					}
					batch := make([]func(), 0, n+1)
					for i := 0; i < n; i++ {
						batch = append(batch, mk(next+i))
					}
					if r.IntN(6) == 0 {
						batch = append(batch, nil) // a nil entry is skipped
					}
					queued, running := q.Enqueue(batch...)
					if limit > 0 && queued > 0 && running != limit {
						fail(fmt.Sprintf("Enqueue returned queued=%d running=%d with limit %d: jobs wait although a slot is free", queued, running, limit))
					}
					if limit <= 0 && queued > 0 {
						fail(fmt.Sprintf("Enqueue returned queued=%d on an unlimited queue", queued))
					}
					next += n
					if r.IntN(4) == 0 {
						// WaitIdle: nil only when everything this producer enqueued so far has finished
						ctx, cancel := context.WithTimeout(context.Background(), 5*time.Second)
						err := q.WaitIdle(ctx, nil)
						cancel()
						if err != nil {
							fail(fmt.Sprintf("WaitIdle returned %v: the queue did not become idle within 5 s", err))
						} else {
							for id := p * per; id < next; id++ {
								if ran[id].Load() == 0 {
									fail(fmt.Sprintf("WaitIdle returned nil although job %d, enqueued before the call, has not run", id))
								}
							}
						}
					}
				}
			}(p)
		}
		wg.Wait()
		if bad.Load() == nil {
			ctx, cancel := context.WithTimeout(context.Background(), 5*time.Second)
			if err := q.WaitIdle(ctx, nil); err != nil {
				fail(fmt.Sprintf("after the last Enqueue the queue never became idle (WaitIdle: %v): a job or a slot was lost", err))
			}
			cancel()
		}
		if bad.Load() == nil {
			for id := range ran {
				if ran[id].Load() != 1 {
					fail(fmt.Sprintf("job %d ran %d times", id, ran[id].Load()))
				}
			}
			if limit == 1 && producers == 1 {
				for i, id := range order {
					if id != i {
						fail(fmt.Sprintf("limit 1, one producer: job %d ran at position %d", id, i))
						break
					}
				}
			}
		}
		jobsTotal += producers * per
	}
	w, err := hist.Open("conc")
	if err == nil {
		w.Count("free.rounds", rounds)
		w.Count("free.jobs", jobsTotal)
		if bad.Load() != nil {
			w.Count("free.violation", 1)
		}
		w.Close()
	}
	if bad.Load() == nil {
		return
	}
	msg := bad.Load().(string)
	if fo, err := os.OpenFile(*hist.OutFile, os.O_WRONLY|os.O_TRUNC|os.O_CREATE, 0o644); err == nil {
		fmt.Fprintf(fo, "# free-running run on conc (real scheduler, seed %d): %s\n", *hist.Seed, msg)
		fo.Close()
	}
	fmt.Fprintf(os.Stderr, "FREE-VIOLATION %s\n", msg)
	os.Exit(5)
}
