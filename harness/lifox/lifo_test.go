// Correspondence harness for C12: cqueue.AtomicLIFO (scheduled at the level of its atomic operations) and
// linkedlist.LinkedList (whole-method steps), plus free-running multi-goroutine streams for conservation.
//
// AtomicLIFO ("lifo") events:
//
//	[1 v]  Push(v) in a new actor (v != 0)          [2]  Pop() in a new actor
//	[3 i]  step actor i from its gate to the next gate / its return
//	[4]    drain: the controller pops until Pop returns 0 (bounded)
//	[9 v]  free stream (config 1): v is one of the values of the stream
//	[10]   the stream ran: unparked goroutines pushed those values and popped concurrently, then the controller drained
//
// observations: after 1/2/3 one code per actor: 1+site when parked at cqueue site 0..3, 5 Push returned,
// 10+v Pop returned v;  after 4: z d1..dk (z=1: the last Pop returned 0);  after 9: nothing;  after 10: sorted non-zero values popped+drained.
//
// LinkedList ("linkedlist") events: [1 v] Push [2 v] PushFront [3] Pop [4] Peek [5] PeekTail [6] IsEmpty [7] Reset
// [8] drain [9 v] / [10] free stream; config: f elems... (f=1 free; elems = NewLinkedList arguments);
// observations: [val flag] per call, z d1..dk for the drain, sorted popped+drained for the stream.
package lifox

import (
	"fmt"
	"math/rand/v2"
	"runtime"
	"sort"
	"sync"
	"sync/atomic"
	"testing"
	"testing/synctest"

	"github.com/aperturerobotics/util/cqueue"
	"github.com/aperturerobotics/util/linkedlist"
	"verif/harness/ctl"
	"verif/harness/hist"
)

const (
	kPush = 1
	kPop  = 2
)

// ---------------------------------------------------------------- AtomicLIFO, scheduled

type sys struct {
	c      *ctl.Ctl
	q      *cqueue.AtomicLIFO[uint64]
	w      *hist.W
	pushes int
}

func newSys(w *hist.W) *sys {
	s := &sys{c: ctl.New(), q: &cqueue.AtomicLIFO[uint64]{}, w: w}
	s.c.ShouldPark = func(a *ctl.Actor, pkg string, site int, obj any) bool { return obj == any(s.q) }
	cqueue.VerifHook = s.c.HookFor("cqueue", nil, nil)
	return s
}

func (s *sys) teardown() {
	s.c.Free()
	cqueue.VerifHook = nil
}

func (s *sys) status() []uint64 {
	out := make([]uint64, len(s.c.Acts))
	for i, a := range s.c.Acts {
		switch {
		case a.Panicked() != nil:
			out[i] = 9
		case a.Done():
			out[i] = uint64(a.Res)
		case a.Parked():
			out[i] = uint64(a.Site()) + 1
		default:
			out[i] = 8 // running or blocked outside a gate: cannot happen for a lock-free structure
		}
	}
	return out
}

func (s *sys) parked() []int {
	var out []int
	for i, a := range s.c.Acts {
		if !a.Done() && a.Parked() {
			out = append(out, i)
		}
	}
	return out
}

// exec applies one event to the real stack; ok=false if the event is not applicable now.
func (s *sys) exec(ev []uint64) (obs []uint64, ok bool) {
	switch {
	case ev[0] == 1 && len(ev) == 2 && ev[1] != 0:
		v := ev[1]
		a := s.c.NewActor(kPush)
		s.pushes++
		s.c.Go(a, func(a *ctl.Actor) {
			s.q.Push(v)
			a.Res = 5
		})
		synctest.Wait()
	case ev[0] == 2 && len(ev) == 1:
		a := s.c.NewActor(kPop)
		s.c.Go(a, func(a *ctl.Actor) {
			v := s.q.Pop()
			a.Res = int(10 + v)
		})
		synctest.Wait()
	case ev[0] == 3 && len(ev) == 2:
		i := int(ev[1])
		if i >= len(s.c.Acts) || s.c.Acts[i].Done() || !s.c.Acts[i].Parked() {
			return nil, false
		}
		s.c.Step(s.c.Acts[i])
	case ev[0] == 4 && len(ev) == 1:
		obs = []uint64{0}
		for k := 0; k < s.pushes+2; k++ {
			v := s.q.Pop() // the controller is not an actor: the hook lets it pass
			if v == 0 {
				obs[0] = 1
				break
			}
			obs = append(obs, v)
		}
		return obs, true
	default:
		return nil, false
	}
	return s.status(), true
}

func (s *sys) count(ev, before, obs []uint64) {
	names := map[uint64]string{1: "push", 2: "pop", 3: "step", 4: "drain"}
	s.w.Count("lifo.ev."+names[ev[0]], 1)
	if ev[0] == 3 {
		i := int(ev[1])
		switch {
		case before[i] == 1 && obs[i] == 4:
			s.w.Count("lifo.cas_fail.push", 1)
		case before[i] == 2 && obs[i] == 3:
			s.w.Count("lifo.cas_fail.pop", 1)
		case before[i] == 1 && obs[i] == 5:
			s.w.Count("lifo.cas_ok.push", 1)
		case before[i] == 2 && obs[i] >= 10:
			s.w.Count("lifo.cas_ok.pop", 1)
		case before[i] == 3 && obs[i] == 10:
			s.w.Count("lifo.pop_saw_nil", 1)
		}
	}
	if ev[0] == 4 {
		if len(obs) > 1 {
			s.w.Count("lifo.drain_nonempty", 1)
		}
		if len(s.parked()) > 0 {
			s.w.Count("lifo.drain_with_pending", 1)
		}
	}
}

type lifoGen struct {
	r      *rand.Rand
	nextV  uint64
	used   []uint64
	calls  int
	nOps   int
	maxPen int
	last   int
	script [][]uint64
}

func (g *lifoGen) value(w *hist.W) uint64 {
	if len(g.used) > 0 && g.r.IntN(100) < 15 {
		w.Count("lifo.duplicate_value", 1)
		return g.used[g.r.IntN(len(g.used))]
	}
	g.nextV++
	g.used = append(g.used, g.nextV)
	return g.nextV
}

func (g *lifoGen) call(w *hist.W) []uint64 {
	g.calls++
	if g.r.IntN(100) < 55 {
		return []uint64{1, g.value(w)}
	}
	return []uint64{2}
}

// next picks the next event among those the implementation allows now (nil = stop).
func (g *lifoGen) next(s *sys) []uint64 {
	if len(g.script) > 0 {
		ev := g.script[0]
		g.script = g.script[1:]
		if ev[0] == 1 || ev[0] == 2 {
			g.calls++
		}
		if ev[0] == 3 && (int(ev[1]) >= len(s.c.Acts) || !s.c.Acts[ev[1]].Parked() || s.c.Acts[ev[1]].Done()) {
			return g.next(s) // the actor has already returned (e.g. Pop on the empty stack): skip
		}
		return ev
	}
	pk := s.parked()
	canCall := g.calls < g.nOps && len(pk) < g.maxPen
	if len(pk) == 0 && !canCall {
		return nil
	}
	if canCall && (len(pk) == 0 || g.r.IntN(100) < 35) {
		return g.call(s.w)
	}
	if len(pk) == 0 {
		return nil
	}
	if g.calls < g.nOps && g.r.IntN(100) < 3 {
		return []uint64{4}
	}
	// half of the time keep running the same actor, so that operations also complete undisturbed
	if g.r.IntN(2) == 0 {
		for _, i := range pk {
			if i == g.last {
				return []uint64{3, uint64(i)}
			}
		}
	}
	g.last = pk[g.r.IntN(len(pk))]
	return []uint64{3, uint64(g.last)}
}

// forcedScript: park A between its load and its CAS, let B complete an operation, then step A.
// base: number of actors that exist already (created by a corpus prefix).
func (g *lifoGen) forcedScript(w *hist.W, base int) {
	var evs [][]uint64
	n := base
	// optional pre-population by complete pushes
	for k := g.r.IntN(3); k > 0; k-- {
		evs = append(evs, []uint64{1, g.value(w)}, []uint64{3, uint64(n)}, []uint64{3, uint64(n)})
		n++
	}
	a := n
	if g.r.IntN(2) == 0 {
		evs = append(evs, []uint64{1, g.value(w)})
	} else {
		evs = append(evs, []uint64{2})
	}
	n++
	evs = append(evs, []uint64{3, uint64(a)}) // A: load
	for k := 1 + g.r.IntN(2); k > 0; k-- {    // B (and C): complete operations
		if g.r.IntN(2) == 0 {
			evs = append(evs, []uint64{1, g.value(w)})
		} else {
			evs = append(evs, []uint64{2})
		}
		evs = append(evs, []uint64{3, uint64(n)}, []uint64{3, uint64(n)})
		n++
	}
	evs = append(evs, []uint64{3, uint64(a)}) // A: CAS (fails if top changed)
	g.script = evs
}

// corpusMotifs: the scheduled corpus histories (not the free-running ones) of the model being run (lifo or linkedlist),
// used as PREFIXES of a share of the random histories (a random cut of a random corpus history is replayed first, then
// generation continues at random from the situation it reached): the corner cases that were worth writing down are then
// also explored in their neighbourhood, not only replayed verbatim.
var corpusMotifs []hist.H

// loadMotifs loads the corpus and keeps its scheduled histories (config not [1 …]) as motifs.
func loadMotifs() []hist.H {
	all := hist.LoadCorpus(*hist.Corpus)
	corpusMotifs = nil
	for _, h := range all {
		if !(len(h.Cfg) > 0 && h.Cfg[0] == 1) && len(h.Evs) > 0 {
			corpusMotifs = append(corpusMotifs, h)
		}
	}
	return all
}

// motifOf draws (from the history's own PRNG) whether this random history starts with a corpus prefix, and which.
func motifOf(r *rand.Rand) (cfg []uint64, prefix [][]uint64) {
	if len(corpusMotifs) > 0 && r.IntN(6) == 0 {
		m := corpusMotifs[r.IntN(len(corpusMotifs))]
		return m.Cfg, m.Evs[:1+r.IntN(len(m.Evs))]
	}
	return nil, nil
}

func runLifoRandom(t *testing.T, w *hist.W, h int) {
	r := hist.Rng(h)
	synctest.Test(t, func(t *testing.T) {
		_, prefix := motifOf(r)
		s := newSys(w)
		defer s.teardown()
		w.Begin(fmt.Sprintf("r%d", h), []uint64{0})
		g := &lifoGen{r: r, nOps: 2 + r.IntN(9), maxPen: 2 + r.IntN(3), last: -1}
		obs := s.status()
		for _, ev0 := range prefix {
			ev := append([]uint64{}, ev0...)
			if len(ev) == 0 {
				break
			}
			before := obs
			o, ok := s.exec(ev)
			if !ok {
				break
			}
			if ev[0] != 4 {
				obs = o
			}
			s.count(ev, before, o)
			w.Step(ev, o)
			// the generator's own bookkeeping: calls made, values in use (fresh values stay fresh)
			switch ev[0] {
			case 1:
				g.calls++
				g.used = append(g.used, ev[1])
				g.nextV = max(g.nextV, ev[1])
			case 2:
				g.calls++
			}
		}
		if prefix != nil {
			w.Count("random_with_corpus_prefix", 1)
			g.nOps += g.calls
		}
		if r.IntN(10) < 3 {
			g.forcedScript(w, len(s.c.Acts))
			w.Count("lifo.forced_script", 1)
		}
		leavePending := r.IntN(100) < 15
		for k := 0; k < 120; k++ {
			if leavePending && g.calls >= g.nOps && len(g.script) == 0 && r.IntN(4) == 0 {
				break
			}
			ev := g.next(s)
			if ev == nil {
				break
			}
			before := obs
			o, ok := s.exec(ev)
			if !ok {
				break
			}
			if ev[0] != 4 {
				obs = o
			}
			s.count(ev, before, o)
			w.Step(ev, o)
		}
		ev := []uint64{4}
		o, _ := s.exec(ev)
		s.count(ev, obs, o)
		w.Step(ev, o)
		w.Count(fmt.Sprintf("lifo.ops.%02d", g.calls), 1)
	})
}

func runLifoFixed(t *testing.T, w *hist.W, id string, cfg []uint64, evs [][]uint64) {
	if len(cfg) > 0 && cfg[0] == 1 {
		runLifoFree(w, id, freeVals(evs), 4, 7)
		return
	}
	synctest.Test(t, func(t *testing.T) {
		s := newSys(w)
		defer s.teardown()
		w.Begin(id, []uint64{0})
		obs := s.status()
		for _, ev := range evs {
			before := obs
			o, ok := s.exec(ev)
			if !ok {
				w.Count("fixed.truncated", 1)
				break
			}
			if ev[0] != 4 {
				obs = o
			}
			s.count(ev, before, o)
			w.Step(ev, o)
		}
	})
}

// ---------------------------------------------------------------- free-running streams

func sorted(xs []uint64) []uint64 {
	out := append([]uint64{}, xs...)
	sort.Slice(out, func(i, j int) bool { return out[i] < out[j] })
	return out
}

// splitmix64 step: a deterministic per-goroutine stream without shared state
func mix(x *uint64) uint64 {
	*x += 0x9e3779b97f4a7c15
	z := *x
	z = (z ^ (z >> 30)) * 0xbf58476d1ce4e5b9
	z = (z ^ (z >> 27)) * 0x94d049bb133111eb
	return z ^ (z >> 31)
}

// runLifoFree: goroutines push the given values (split round-robin) and pop, unparked; the hook yields the
// processor with probability 1/yield at every schedule point.  Only conservation is observed.
func runLifoFree(w *hist.W, id string, vals []uint64, ngo int, yield uint64) {
	q := &cqueue.AtomicLIFO[uint64]{}
	var hookState atomic.Uint64
	cqueue.VerifHook = func(site int, obj any) {
		x := hookState.Add(0x9e3779b97f4a7c15)
		if mix(&x)%yield == 0 {
			runtime.Gosched()
		}
	}
	defer func() { cqueue.VerifHook = nil }()
	popped := make([][]uint64, ngo)
	var wg sync.WaitGroup
	start := make(chan struct{})
	for g := 0; g < ngo; g++ {
		wg.Add(1)
		go func(g int) {
			defer wg.Done()
			st := uint64(g)*7919 + uint64(len(vals))
			<-start
			for i := g; i < len(vals); i += ngo {
				q.Push(vals[i])
				// pop about as often as push, in bursts
				for mix(&st)%2 == 0 {
					if v := q.Pop(); v != 0 {
						popped[g] = append(popped[g], v)
					}
				}
			}
		}(g)
	}
	close(start)
	wg.Wait()
	var all []uint64
	npop := 0
	for _, p := range popped {
		all = append(all, p...)
		npop += len(p)
	}
	for k := 0; k < len(vals)+2; k++ {
		v := q.Pop()
		if v == 0 {
			break
		}
		all = append(all, v)
	}
	w.Begin(id, []uint64{1})
	for _, v := range sorted(vals) {
		w.Step([]uint64{9, v}, nil)
	}
	w.Step([]uint64{10}, sorted(all))
	w.Count("lifo.free.histories", 1)
	w.Count("lifo.free.pushes", len(vals))
	w.Count("lifo.free.concurrent_pops", npop)
}

// freeVals collects the values of the [9 v] events of a free-stream history.
func freeVals(evs [][]uint64) []uint64 {
	var vals []uint64
	for _, ev := range evs {
		if ev[0] == 9 && len(ev) == 2 {
			vals = append(vals, ev[1])
		}
	}
	return vals
}

func freeValues(r *rand.Rand, n int) []uint64 {
	vals := make([]uint64, n)
	for i := range vals {
		if i > 0 && r.IntN(100) < 5 {
			vals[i] = vals[r.IntN(i)]
		} else {
			vals[i] = uint64(i + 1)
		}
	}
	return vals
}

func runLifo(t *testing.T) {
	w, err := hist.Open("lifo")
	if err != nil {
		t.Fatal(err)
	}
	defer w.Close()
	if *hist.Replay != "" {
		hs, err := hist.Load(*hist.Replay)
		if err != nil {
			t.Fatal(err)
		}
		for _, h := range hs {
			runLifoFixed(t, w, h.ID, h.Cfg, h.Evs)
		}
		return
	}
	for _, h := range loadMotifs() {
		runLifoFixed(t, w, h.ID, h.Cfg, h.Evs)
		w.Count("corpus", 1)
	}
	for h := 0; h < *hist.NHist; h++ {
		w.Flush()
		if h%10 == 9 {
			r := hist.Rng(h)
			runLifoFree(w, fmt.Sprintf("f%d", h), freeValues(r, 50+r.IntN(400)), 4+r.IntN(5), uint64(2+r.IntN(6)))
			continue
		}
		runLifoRandom(t, w, h)
	}
}

func TestLifo(t *testing.T) { runLifo(t) }

// ---------------------------------------------------------------- LinkedList

type llsys struct {
	l      *linkedlist.LinkedList[uint64]
	w      *hist.W
	pushes int
	size   int // harness-side estimate used by the generator only
}

func b2u(b bool) uint64 {
	if b {
		return 1
	}
	return 0
}

func (s *llsys) exec(ev []uint64) (obs []uint64, ok bool) {
	switch {
	case ev[0] == 1 && len(ev) == 2:
		s.l.Push(ev[1])
		s.pushes++
		s.size++
		return []uint64{0, 0}, true
	case ev[0] == 2 && len(ev) == 2:
		s.l.PushFront(ev[1])
		s.pushes++
		s.size++
		return []uint64{0, 0}, true
	case ev[0] == 3 && len(ev) == 1:
		v, ex := s.l.Pop()
		if ex && s.size > 0 {
			s.size--
		}
		return []uint64{v, b2u(ex)}, true
	case ev[0] == 4 && len(ev) == 1:
		v, ex := s.l.Peek()
		return []uint64{v, b2u(ex)}, true
	case ev[0] == 5 && len(ev) == 1:
		v, ex := s.l.PeekTail()
		return []uint64{v, b2u(ex)}, true
	case ev[0] == 6 && len(ev) == 1:
		return []uint64{0, b2u(s.l.IsEmpty())}, true
	case ev[0] == 7 && len(ev) == 1:
		s.l.Reset()
		s.size = 0
		return []uint64{0, 0}, true
	case ev[0] == 8 && len(ev) == 1:
		obs = []uint64{0}
		for k := 0; k < s.pushes+2; k++ {
			v, ex := s.l.Pop()
			if !ex {
				obs[0] = 1
				break
			}
			obs = append(obs, v)
		}
		s.size = 0
		return obs, true
	}
	return nil, false
}

var llNames = map[uint64]string{1: "push", 2: "pushfront", 3: "pop", 4: "peek", 5: "peektail", 6: "isempty", 7: "reset", 8: "drain"}

func (s *llsys) count(ev, obs []uint64, sizeBefore int) {
	s.w.Count("ll.ev."+llNames[ev[0]], 1)
	if sizeBefore == 0 {
		s.w.Count("ll.on_empty."+llNames[ev[0]], 1)
	}
	if ev[0] == 3 && sizeBefore == 1 {
		s.w.Count("ll.pop_to_empty", 1)
	}
}

func newLL(w *hist.W, cfg []uint64) *llsys {
	var elems []uint64
	if len(cfg) > 1 {
		elems = cfg[1:]
	}
	return &llsys{l: linkedlist.NewLinkedList(elems...), w: w, pushes: len(elems), size: len(elems)}
}

func runLLRandom(w *hist.W, h int) {
	r := hist.Rng(h)
	cfg := []uint64{0}
	for k := r.IntN(4) - 1; k > 0; k-- { // 0,0,1,2 initial elements
		cfg = append(cfg, uint64(100+r.IntN(50)))
	}
	mcfg, prefix := motifOf(r)
	if prefix != nil {
		cfg = append([]uint64{}, mcfg...)
		if len(cfg) == 0 {
			cfg = []uint64{0}
		}
	}
	s := newLL(w, cfg)
	w.Begin(fmt.Sprintf("r%d", h), cfg)
	for _, ev0 := range prefix {
		ev := append([]uint64{}, ev0...)
		if len(ev) == 0 {
			break
		}
		sz := s.size
		obs, ok := s.exec(ev)
		if !ok {
			break
		}
		s.count(ev, obs, sz)
		w.Step(ev, obs)
	}
	if prefix != nil {
		w.Count("random_with_corpus_prefix", 1)
	}
	steps := 5 + r.IntN(36)
	nextV := uint64(0)
	for k := 0; k < steps; k++ {
		var ev []uint64
		x := r.IntN(100)
		// keep the list short: the interesting transitions are around the empty and the one-element list
		if s.size > 2 && r.IntN(3) > 0 {
			x = 40 + r.IntN(25)
		}
		val := func() uint64 {
			if nextV > 0 && r.IntN(100) < 10 {
				return 1 + uint64(r.IntN(int(nextV)))
			}
			if r.IntN(100) < 3 {
				return 0 // the zero value is an ordinary element of a LinkedList
			}
			nextV++
			return nextV
		}
		switch {
		case x < 25:
			ev = []uint64{1, val()}
		case x < 40:
			ev = []uint64{2, val()}
		case x < 65:
			ev = []uint64{3}
		case x < 73:
			ev = []uint64{4}
		case x < 85:
			ev = []uint64{5}
		case x < 91:
			ev = []uint64{6}
		case x < 96:
			ev = []uint64{7}
		default:
			ev = []uint64{8}
		}
		sz := s.size
		obs, _ := s.exec(ev)
		s.count(ev, obs, sz)
		w.Step(ev, obs)
	}
	ev := []uint64{8}
	sz := s.size
	obs, _ := s.exec(ev)
	s.count(ev, obs, sz)
	w.Step(ev, obs)
	w.Count(fmt.Sprintf("ll.len.%02d", (steps/10)*10), 1)
}

func runLLFixed(w *hist.W, id string, cfg []uint64, evs [][]uint64) {
	if len(cfg) > 0 && cfg[0] == 1 {
		runLLFree(w, id, cfg, freeVals(evs), 4)
		return
	}
	if len(cfg) == 0 {
		cfg = []uint64{0}
	}
	s := newLL(w, cfg)
	w.Begin(id, cfg)
	for _, ev := range evs {
		sz := s.size
		obs, ok := s.exec(ev)
		if !ok {
			w.Count("fixed.truncated", 1)
			break
		}
		s.count(ev, obs, sz)
		w.Step(ev, obs)
	}
}

// runLLFree: goroutines Push/PushFront the given values and Pop concurrently (Peek/PeekTail/IsEmpty mixed in);
// only conservation is observed.
func runLLFree(w *hist.W, id string, cfg, vals []uint64, ngo int) {
	var elems []uint64
	if len(cfg) > 1 {
		elems = cfg[1:]
	}
	l := linkedlist.NewLinkedList(elems...)
	known := map[uint64]bool{}
	for _, v := range vals {
		known[v] = true
	}
	for _, v := range elems {
		known[v] = true
	}
	var phantom atomic.Int64
	popped := make([][]uint64, ngo)
	var wg sync.WaitGroup
	start := make(chan struct{})
	for g := 0; g < ngo; g++ {
		wg.Add(1)
		go func(g int) {
			defer wg.Done()
			st := uint64(g)*104729 + uint64(len(vals))
			<-start
			for i := g; i < len(vals); i += ngo {
				if mix(&st)%3 == 0 {
					l.PushFront(vals[i])
				} else {
					l.Push(vals[i])
				}
				// a peeked value must be one that was pushed (all of them are non-zero and known): a value that was never in
				// the list is recorded like a popped one, so that the conservation clause sees it
				for k := mix(&st) % 6; k > 0; k-- {
					var v uint64
					var ok bool
					switch mix(&st) % 3 {
					case 0:
						v, ok = l.Peek()
					case 1:
						v, ok = l.PeekTail()
					case 2:
						l.IsEmpty()
					}
					if ok && !known[v] {
						popped[g] = append(popped[g], v)
						phantom.Add(1)
					}
				}
				for mix(&st)%2 == 0 {
					if v, ok := l.Pop(); ok {
						popped[g] = append(popped[g], v)
					}
					if mix(&st)%4 == 0 {
						runtime.Gosched()
					}
				}
			}
		}(g)
	}
	close(start)
	wg.Wait()
	var all []uint64
	npop := 0
	for _, p := range popped {
		all = append(all, p...)
		npop += len(p)
	}
	for k := 0; k < len(vals)+len(elems)+2; k++ {
		v, ok := l.Pop()
		if !ok {
			break
		}
		all = append(all, v)
	}
	w.Begin(id, append([]uint64{1}, elems...))
	for _, v := range sorted(vals) {
		w.Step([]uint64{9, v}, nil)
	}
	w.Step([]uint64{10}, sorted(all))
	w.Count("ll.free.histories", 1)
	w.Count("ll.free.pushes", len(vals))
	w.Count("ll.free.concurrent_pops", npop)
	w.Count("ll.free.peeked_values_never_pushed", int(phantom.Load()))
}

func runLL(t *testing.T) {
	w, err := hist.Open("linkedlist")
	if err != nil {
		t.Fatal(err)
	}
	defer w.Close()
	if *hist.Replay != "" {
		hs, err := hist.Load(*hist.Replay)
		if err != nil {
			t.Fatal(err)
		}
		for _, h := range hs {
			runLLFixed(w, h.ID, h.Cfg, h.Evs)
		}
		return
	}
	for _, h := range loadMotifs() {
		runLLFixed(w, h.ID, h.Cfg, h.Evs)
		w.Count("corpus", 1)
	}
	for h := 0; h < *hist.NHist; h++ {
		if h%10 == 9 {
			r := hist.Rng(h)
			cfg := []uint64{1}
			for k := r.IntN(3); k > 0; k-- {
				cfg = append(cfg, uint64(1000+k))
			}
			runLLFree(w, fmt.Sprintf("f%d", h), cfg, freeValues(r, 50+r.IntN(400)), 4+r.IntN(5))
			continue
		}
		runLLRandom(w, h)
	}
}

func TestLinkedList(t *testing.T) { runLL(t) }
