// Scheduled correspondence harness for broadcast.Broadcast (C03).
//
// One Broadcast guards a harness-owned integer g.  Events:
//
//	[1 mode hold block ops...]  client call in a new actor: mode 0 HoldLock, 1 TryHoldLock, 2 HoldLockMaybeAsync; the
//	                            callback runs ops (0 broadcast(), 1 getWaitCh(), 2 g++, 3+v g = v), then, if hold, stays
//	                            inside the callback (holding the mutex) until event 5; if block, the caller afterwards
//	                            blocks on the last channel it took.  op 99: the callback PANICS at this point (after
//	                            having stayed inside until event 5, if hold); the calling goroutine recovers the panic
//	                            (status 13).  Not applicable: mode 2 with a panicking callback while the mutex is held
//	                            (the panic would be raised on the library's own goroutine and kill the process)
//	[2 pk k pre slow]           Wait(ctx, pred) in a new actor; pred kind pk with parameter k (see pred); pk 4 nil callback,
//	                            pk 5 nil context; pre: ctx already cancelled; slow: also stop at the HoldLock exit gate
//	[3 i] actor i (parked at a HoldLock gate) runs its critical section      [4 i] cancel the context of Wait actor i
//	[5 i] actor i returns from its callback                                    [6 i] Wait actor i leaves the exit gate
//
// Observation after every event:  g, number of actors, one status per actor, one closed flag per channel handed out:
//
//	1 at a gate, 2 blocked, 3 returned nil / done, 4 returned context.Canceled, 5 TryHoldLock returned false,
//	6 inside its callback, 7 at the exit gate, 8 "cb and ctx must be set", 9 anomaly / Wait returned some other error,
//	10+e predicate error e, 13 the client's callback panicked (recovered by the caller), 14 Wait returned
//	context.DeadlineExceeded, 15 Wait returned the cause of its context (hctx.ErrCause)
//
// Contexts: the n-th Wait call of a history (counted from 1) receives hctx.Flavour(n): n%4 == 1 a context that ends like a
// deadline (Err() == DeadlineExceeded), n%4 == 3 one cancelled with a cause, otherwise a plain WithCancel context.  Wait
// returns the literal context.Canceled for all of them (so the flavour is not part of the event); code that returns
// ctx.Err() / context.Cause(ctx) instead shows as 14 / 15.
//
// A mutex that stays locked although no callback is inside (a panicking callback whose entry point does not unlock by
// defer): the harness looks at the Broadcast's sync.Mutex before it lets an actor run into its section (event 3).  If the
// mutex is taken the actor is NOT released from its gate - it would block on a sync.Mutex, which is not a durable block,
// and synctest.Wait would hang - and is reported as blocked (2) from then on, which is what it would be.
package bcastx

import (
	"context"
	"errors"
	"fmt"
	"math/rand/v2"
	"reflect"
	"sync"
	"sync/atomic"
	"testing"
	"testing/synctest"
	"unsafe"

	"github.com/aperturerobotics/util/broadcast"
	"verif/harness/ctl"
	"verif/harness/hctx"
	"verif/harness/hist"
)

const (
	kClient = 1
	kWait   = 2
	kHelper = 3
)

// opPanic is the callback operation "panic here"; errPanic is the value the callbacks panic with.
const opPanic = 99

var errPanic = errors.New("harness: client callback panics")

var flavourNames = [3]string{"plain", "deadline_like", "with_cause"}

// mutexOf returns the sync.Mutex field of the Broadcast (nil if it has none): the harness only TryLocks it, at
// quiescent points, to see whether it is taken.
func mutexOf(b *broadcast.Broadcast) *sync.Mutex {
	t := reflect.TypeOf(b).Elem()
	for i := 0; i < t.NumField(); i++ {
		if t.Field(i).Type == reflect.TypeOf(sync.Mutex{}) {
			return (*sync.Mutex)(unsafe.Add(unsafe.Pointer(b), t.Field(i).Offset))
		}
	}
	return nil
}

// recovered runs f and reports whether it ended in the callbacks' panic (any other panic is passed on).
func recovered(f func()) (panicked bool) {
	defer func() {
		if r := recover(); r != nil {
			if r != any(errPanic) {
				panic(r)
			}
			panicked = true
		}
	}()
	f()
	return false
}

var predErrs = [3]error{errors.New("pred error 0"), fmt.Errorf("pred error 1: %w", context.DeadlineExceeded), errors.New("pred error 2")}

// lact is one logical actor of the history (one API call).
type lact struct {
	kind              int
	mode              uint64
	hold, block, slow bool
	ops               []uint64
	pk, k             uint64
	a                 *ctl.Actor // goroutine making the call
	helper            *ctl.Actor // HoldLockMaybeAsync slow-path goroutine
	cbDone            atomic.Bool
	parkExit          bool
	last              <-chan struct{}
	cancel            func() // ends the context in the way of its flavour
	flavour           int    // 0 plain, 1 deadline-like, 2 cancelled with a cause
	cancelled         bool
	panics            bool        // the callback program contains opPanic
	stuck             bool        // not released into its section because the mutex is taken although no callback is inside
	anomaly           atomic.Bool // a panicking callback was called on the library's own goroutine (it did not panic)
	evals             int         // predicate evaluations so far (Wait actors)
	stepEvals         int         // predicate evaluations during the last [3 i] event of this actor
	lastRes           int         // result of the last evaluation: 0 false, 1 true, 2 error
}

type sys struct {
	c       *ctl.Ctl
	w       *hist.W
	bc      broadcast.Broadcast
	g       atomic.Uint64
	las     []*lact
	chans   []<-chan struct{}
	pending *lact
	quit    chan struct{}
	nwait   int         // Wait calls so far
	mp      *sync.Mutex // the Broadcast's mutex (nil if not found)
	tearing atomic.Bool
}

// leaked reports whether the mutex is taken although no callback is inside.
func (s *sys) leaked() bool {
	if s.mp == nil || s.held() {
		return false
	}
	if s.mp.TryLock() {
		s.mp.Unlock()
		return false
	}
	return true
}

func newSys(w *hist.W) *sys {
	s := &sys{c: ctl.New(), w: w, quit: make(chan struct{})}
	s.c.ShouldPark = func(a *ctl.Actor, pkg string, site int, obj any) bool {
		switch site {
		case 0, 2:
			return true
		case 1:
			if l, ok := a.Data.(*lact); ok && l != nil && l.parkExit {
				l.parkExit = false
				return true
			}
		}
		return false
	}
	s.c.Adopt = func(pkg string, site int, obj any) *ctl.Actor {
		if site != 2 || s.pending == nil {
			return nil
		}
		h := s.c.NewActor(kHelper)
		h.Data = s.pending
		s.pending.helper = h
		return h
	}
	broadcast.VerifHook = s.c.HookFor("broadcast", []int{0, 2}, []int{1, 3})
	s.mp = mutexOf(&s.bc)
	if s.mp == nil {
		w.Count("sit.no_mutex_field_found", 1)
	}
	return s
}

// clientCb is the harness-owned callback of a client call.
func (s *sys) clientCb(l *lact) func(broadcast func(), getWaitCh func() <-chan struct{}) {
	return func(bcast func(), getWaitCh func() <-chan struct{}) {
		for _, op := range l.ops {
			switch op {
			case 0:
				bcast()
			case 1:
				ch := getWaitCh()
				s.chans = append(s.chans, ch)
				l.last = ch
			case 2:
				s.g.Add(1)
			case opPanic:
				if l.hold {
					if a := s.c.Current(); a != nil {
						s.c.ParkUser(a, 1)
					}
				}
				if s.tearing.Load() {
					return
				}
				if l.helper != nil && s.c.Current() == l.helper {
					// never panic on a goroutine of the library: nobody could recover it
					l.anomaly.Store(true)
					return
				}
				panic(errPanic)
			default:
				s.g.Store(op - 3)
			}
		}
		if l.hold {
			if a := s.c.Current(); a != nil {
				s.c.ParkUser(a, 1)
			}
		}
		l.cbDone.Store(true)
	}
}

// pred is the harness-owned predicate family of the Wait calls.
func (s *sys) pred(l *lact) func(broadcast func(), getWaitCh func() <-chan struct{}) (bool, error) {
	return func(func(), func() <-chan struct{}) (done bool, err error) {
		g := s.g.Load()
		switch l.pk {
		case 0:
			done = g >= l.k
		case 1:
			done = g == l.k
		case 2:
			if g == l.k {
				err = predErrs[l.k%3]
			} else {
				done = g > l.k
			}
		default:
			if g == l.k {
				done, err = true, predErrs[l.k%3]
			}
		}
		l.parkExit = l.slow && !done && err == nil
		l.evals++
		switch {
		case err != nil:
			l.lastRes = 2
		case done:
			l.lastRes = 1
		default:
			l.lastRes = 0
		}
		return done, err
	}
}

func (s *sys) statusOf(l *lact) uint64 {
	if l.anomaly.Load() {
		return 9
	}
	if l.stuck {
		return 2
	}
	act := l.a
	if l.helper != nil {
		if !l.a.Done() || l.a.Panicked() != nil {
			return 9 // HoldLockMaybeAsync must return at once on the slow path
		}
		act = l.helper
		if l.cbDone.Load() {
			return 3
		}
	}
	switch {
	case act.Panicked() != nil:
		return 9
	case act.Done():
		return uint64(act.Res)
	case act.InUser() != 0:
		return 6
	case act.Parked():
		if act.Site() == 1 {
			return 7
		}
		return 1
	default:
		return 2
	}
}

func (s *sys) observe() []uint64 {
	out := []uint64{s.g.Load(), uint64(len(s.las))}
	for _, l := range s.las {
		out = append(out, s.statusOf(l))
	}
	for _, ch := range s.chans {
		select {
		case <-ch:
			out = append(out, 1)
		default:
			out = append(out, 0)
		}
	}
	return out
}

func (s *sys) held() bool {
	for _, l := range s.las {
		if s.statusOf(l) == 6 {
			return true
		}
	}
	return false
}

func (s *sys) stepActor(l *lact) *ctl.Actor {
	if l.helper != nil {
		return l.helper
	}
	return l.a
}

// exec applies one event to the real Broadcast; ok=false if the event is not applicable now.
func (s *sys) exec(ev []uint64) (obs []uint64, ok bool) {
	if len(ev) < 2 {
		return nil, false
	}
	switch ev[0] {
	case 1:
		if len(ev) < 4 || ev[1] > 2 || ev[2] > 1 || ev[3] > 1 || (ev[1] == 2 && ev[3] == 1) {
			return nil, false
		}
		l := &lact{kind: kClient, mode: ev[1], hold: ev[2] == 1, block: ev[3] == 1, ops: append([]uint64(nil), ev[4:]...)}
		for _, op := range l.ops {
			l.panics = l.panics || op == opPanic
		}
		if l.panics && l.mode == 2 && s.held() {
			return nil, false
		}
		a := s.c.NewActor(kClient)
		a.Data = l
		l.a = a
		s.las = append(s.las, l)
		s.pending = l
		s.c.Go(a, func(a *ctl.Actor) {
			cb := s.clientCb(l)
			// a panic of the callback is recovered here, in the calling goroutine
			var refused bool
			if recovered(func() {
				switch l.mode {
				case 0:
					s.bc.HoldLock(cb)
				case 1:
					refused = !s.bc.TryHoldLock(cb)
				default:
					s.bc.HoldLockMaybeAsync(cb)
				}
			}) {
				a.Res = 13
				return
			}
			if refused {
				a.Res = 5
				return
			}
			if l.mode == 2 {
				a.Res = 3
				return
			}
			if l.block && l.last != nil {
				select {
				case <-l.last:
				case <-s.quit:
					return
				}
			}
			a.Res = 3
		})
		synctest.Wait()
		s.pending = nil
	case 2:
		if len(ev) != 5 || ev[1] > 5 || ev[3] > 1 || ev[4] > 1 {
			return nil, false
		}
		l := &lact{kind: kWait, pk: ev[1], k: ev[2], slow: ev[4] == 1}
		// the flavour of the context is a function of the number of Wait calls so far (replays reproduce it)
		s.nwait++
		var ctx context.Context
		ctx, l.cancel, l.flavour = hctx.Flavour(context.Background(), s.nwait)
		s.w.Count("sit.wait_ctx_flavour."+flavourNames[l.flavour], 1)
		if ev[3] == 1 {
			l.cancel()
			l.cancelled = true
		}
		a := s.c.NewActor(kWait)
		a.Data = l
		l.a = a
		s.las = append(s.las, l)
		s.c.Go(a, func(a *ctl.Actor) {
			var err error
			switch l.pk {
			case 4:
				err = s.bc.Wait(ctx, nil)
			case 5:
				var nilCtx context.Context
				err = s.bc.Wait(nilCtx, s.pred(l))
			default:
				err = s.bc.Wait(ctx, s.pred(l))
			}
			switch {
			case err == nil:
				a.Res = 3
			case err == context.Canceled:
				a.Res = 4
			case err == context.DeadlineExceeded:
				a.Res = 14
			case err == hctx.ErrCause:
				a.Res = 15
			case err == predErrs[0]:
				a.Res = 10
			case err == predErrs[1]:
				a.Res = 11
			case err == predErrs[2]:
				a.Res = 12
			case err.Error() == "cb and ctx must be set":
				a.Res = 8
			default:
				a.Res = 9
			}
		})
		synctest.Wait()
	case 3:
		i := int(ev[1])
		if len(ev) != 2 || i >= len(s.las) || s.statusOf(s.las[i]) != 1 || s.held() {
			return nil, false
		}
		if s.leaked() {
			// the actor would block on the mutex for ever (see the package comment)
			s.las[i].stuck = true
			s.las[i].stepEvals = 0
			s.w.Count("sit.section_attempt_on_leaked_mutex", 1)
			break
		}
		before := s.las[i].evals
		s.c.Step(s.stepActor(s.las[i]))
		s.las[i].stepEvals = s.las[i].evals - before
	case 4:
		i := int(ev[1])
		if len(ev) != 2 || i >= len(s.las) || s.las[i].kind != kWait || s.las[i].pk > 3 {
			return nil, false
		}
		s.las[i].cancelled = true
		s.las[i].cancel()
		synctest.Wait()
	case 5:
		i := int(ev[1])
		if len(ev) != 2 || i >= len(s.las) || s.statusOf(s.las[i]) != 6 {
			return nil, false
		}
		s.c.StepUser(s.stepActor(s.las[i]))
	case 6:
		i := int(ev[1])
		if len(ev) != 2 || i >= len(s.las) || s.statusOf(s.las[i]) != 7 {
			return nil, false
		}
		s.c.Step(s.las[i].a)
	default:
		return nil, false
	}
	return s.observe(), true
}

type genCfg struct {
	maxActs int
	disc    bool // every generated callback program broadcasts after its last write
	pPanic  int  // per cent of the client callbacks that panic
}

func genOps(r *rand.Rand, disc bool) []uint64 {
	n := r.IntN(5)
	ops := make([]uint64, 0, n+1)
	dirty := false
	for j := 0; j < n; j++ {
		switch x := r.IntN(10); {
		case x < 3:
			ops = append(ops, 0)
			dirty = false
		case x < 6:
			ops = append(ops, 1)
		case x < 8:
			ops = append(ops, 2)
			dirty = true
		default:
			ops = append(ops, 3+uint64(r.IntN(5)))
			dirty = true
		}
	}
	if dirty && (disc || r.IntN(3) > 0) {
		ops = append(ops, 0)
		if r.IntN(4) == 0 {
			ops = append(ops, 1)
		}
	}
	return ops
}

// withPanic inserts the "panic here" operation at a random place of a callback program (what follows it is never
// executed).  In a disciplined history only at places where every write so far has been followed by a broadcast.
func withPanic(r *rand.Rand, ops []uint64, disc bool) []uint64 {
	var places []int
	dirty := false
	for j := 0; j <= len(ops); j++ {
		if !disc || !dirty {
			places = append(places, j)
		}
		if j < len(ops) {
			switch ops[j] {
			case 0:
				dirty = false
			case 1:
			default:
				dirty = true
			}
		}
	}
	p := places[r.IntN(len(places))]
	out := append([]uint64{}, ops[:p]...)
	out = append(out, opPanic)
	return append(out, ops[p:]...)
}

func b2u(b bool) uint64 {
	if b {
		return 1
	}
	return 0
}

// gen picks the next event among those the implementation allows now.
func (s *sys) gen(r *rand.Rand, cfg genCfg) []uint64 {
	// cgates / ugates: Wait calls parked at their HoldLock gate (before a predicate evaluation) whose context is /
	// is not yet cancelled: "cancelled while queueing for the lock, then the section runs" in all three predicate outcomes
	var gates, exits, holders, cancellable, cgates, ugates []int
	for i, l := range s.las {
		switch s.statusOf(l) {
		case 1:
			gates = append(gates, i)
			if l.kind == kWait && l.pk <= 3 {
				if l.cancelled {
					cgates = append(cgates, i)
				} else {
					ugates = append(ugates, i)
				}
			}
		case 6:
			holders = append(holders, i)
		case 7:
			exits = append(exits, i)
		}
		if l.kind == kWait && l.pk <= 3 && !l.a.Done() && !l.cancelled {
			cancellable = append(cancellable, i)
		}
	}
	room := len(s.las) < cfg.maxActs
	client := func(mode uint64) []uint64 {
		hold := r.IntN(5) == 0
		block := mode != 2 && r.IntN(3) == 0
		ops := genOps(r, cfg.disc)
		// a share of the callbacks panic (never a HoldLockMaybeAsync callback that would run on the library's goroutine)
		if r.IntN(100) < cfg.pPanic && !(mode == 2 && len(holders) > 0) {
			ops = withPanic(r, ops, cfg.disc)
		}
		return append([]uint64{1, mode, b2u(hold), b2u(block)}, ops...)
	}
	wait := func() []uint64 {
		pk := uint64(r.IntN(4))
		if r.IntN(25) == 0 {
			pk = 4 + uint64(r.IntN(2))
		}
		k := uint64(r.IntN(5))
		if pk >= 2 && pk <= 3 && r.IntN(3) == 0 {
			k = s.g.Load() // the predicate returns its error on the current value
		}
		return []uint64{2, pk, k, b2u(r.IntN(12) == 0), b2u(r.IntN(4) == 0)}
	}
	for tries := 0; tries < 200; tries++ {
		x := r.IntN(100)
		if len(holders) > 0 {
			switch {
			case x < 40:
				return []uint64{5, uint64(holders[0])}
			case x < 55 && room:
				return client(1)
			case x < 72 && room:
				return client(2)
			case x < 80 && room:
				return client(0)
			case x < 90 && room:
				return wait()
			case x >= 90 && len(cancellable) > 0:
				if len(ugates) > 0 && r.IntN(2) == 0 {
					return []uint64{4, uint64(ugates[r.IntN(len(ugates))])} // cancelled while queueing behind the holder
				}
				return []uint64{4, uint64(cancellable[r.IntN(len(cancellable))])}
			}
			continue
		}
		if len(cgates) > 0 && r.IntN(3) == 0 {
			return []uint64{3, uint64(cgates[r.IntN(len(cgates))])}
		}
		if len(ugates) > 0 && r.IntN(20) == 0 {
			return []uint64{4, uint64(ugates[r.IntN(len(ugates))])}
		}
		switch {
		case x < 20 && room:
			m := uint64(0)
			if y := r.IntN(10); y >= 8 {
				m = 2
			} else if y >= 6 {
				m = 1
			}
			return client(m)
		case x < 38 && room:
			return wait()
		case x < 78 && len(gates) > 0:
			return []uint64{3, uint64(gates[r.IntN(len(gates))])}
		case x < 86 && len(cancellable) > 0:
			return []uint64{4, uint64(cancellable[r.IntN(len(cancellable))])}
		case x >= 86 && len(exits) > 0:
			return []uint64{6, uint64(exits[r.IntN(len(exits))])}
		}
	}
	return nil
}

func (s *sys) teardown() {
	s.tearing.Store(true)
	for _, l := range s.las {
		if l.cancel != nil {
			l.cancel()
		}
	}
	close(s.quit)
	if s.leaked() {
		// release the leaked mutex so that the parked actors can run out
		s.mp.Unlock()
		s.w.Count("teardown.leaked_mutex_released", 1)
	}
	s.c.Free()
	// wake anything still blocked on the current wait channel
	func() {
		defer func() {
			if r := recover(); r != nil {
				s.w.Count("teardown.panic", 1)
			}
		}()
		s.bc.HoldLock(func(b func(), _ func() <-chan struct{}) { b() })
	}()
	synctest.Wait()
	broadcast.VerifHook = nil
}

func (s *sys) count(ev, obs, prev []uint64) {
	names := map[uint64]string{1: "client", 2: "wait", 3: "section", 4: "cancel", 5: "resume", 6: "exitgate"}
	s.w.Count("ev."+names[ev[0]], 1)
	if ev[0] == 1 {
		s.w.Count(fmt.Sprintf("ev.client.mode%d", ev[1]), 1)
		for j, op := range ev[4:] {
			if op == opPanic {
				// a panicking callback: entry point, does it stay inside first, is anything cut off, who is queueing
				s.w.Count("ev.client.panics", 1)
				s.w.Count(fmt.Sprintf("ev.client.panics.mode%d", ev[1]), 1)
				if ev[2] == 1 {
					s.w.Count("ev.client.panics.after_holding", 1)
				}
				if j > 0 {
					s.w.Count("ev.client.panics.after_some_ops", 1)
				}
				if j < len(ev[4:])-1 {
					s.w.Count("ev.client.panics.ops_cut_off", 1)
				}
				break
			}
		}
		for _, op := range ev[4:] {
			if op == 0 {
				s.w.Count("ev.client.with_broadcast", 1)
				break
			}
		}
	}
	if ev[0] == 3 && int(ev[1]) < len(s.las) {
		if l := s.las[ev[1]]; l.kind == kWait && l.pk <= 3 {
			// the critical section of a Wait call ran: what did the predicate return, was the context already cancelled
			// (the call was parked at the gate when the cancellation came), and what did Wait do with it
			if l.stepEvals != 1 {
				s.w.Count("sit.wait_section.evaluations_not_one", 1)
			} else {
				where := "sit.wait_section.not_cancelled"
				if l.cancelled {
					where = "sit.wait_section.cancelled_at_gate"
				}
				s.w.Count(where+[3]string{".pred_false", ".pred_true", ".pred_error"}[l.lastRes], 1)
				if l.cancelled && int(ev[1]) < int(obs[1]) {
					switch c := obs[2+ev[1]]; {
					case l.lastRes == 2 && c >= 10:
						s.w.Count("obs.wait_pred_error_returned_although_cancelled", 1)
					case l.lastRes == 1 && c == 3:
						s.w.Count("obs.wait_nil_although_cancelled", 1)
					case l.lastRes == 0 && c == 4:
						s.w.Count("obs.wait_canceled_after_false_section", 1)
					case l.lastRes == 0 && c == 7:
						s.w.Count("obs.wait_cancelled_false_section_at_exit_gate", 1)
					default:
						s.w.Count("obs.wait_cancelled_section_other_outcome", 1)
					}
				}
			}
		}
	}
	n := int(obs[1])
	sts := obs[2 : 2+n]
	nbw := 0
	for i, c := range sts {
		l := s.las[i]
		if c == 2 && l.kind == kWait {
			nbw++
		}
		was := uint64(0)
		if prev != nil && i < int(prev[1]) {
			was = prev[2+i]
		}
		if c != was {
			switch {
			case c == 13:
				s.w.Count("obs.client_panicked_and_recovered", 1)
				if was == 6 {
					s.w.Count("obs.client_panicked_after_holding", 1)
				}
				if nAtGate(s, sts) > 0 {
					s.w.Count("obs.client_panicked_while_others_queue_at_gates", 1)
				}
			case l.kind == kWait && (c == 14 || c == 15):
				s.w.Count(fmt.Sprintf("obs.wait_returned_ctx_error_%d.ctx_%s", c, flavourNames[l.flavour]), 1)
			case c == 5:
				s.w.Count("obs.tryholdlock_false", 1)
			case c == 1 && l.helper != nil && was == 0:
				s.w.Count("obs.maybeasync_slow_path", 1)
			case l.kind == kWait && c == 3:
				s.w.Count("obs.wait_nil", 1)
			case l.kind == kWait && c == 4:
				s.w.Count("obs.wait_canceled", 1)
				s.w.Count("obs.wait_canceled.ctx_"+flavourNames[l.flavour], 1)
				if was == 2 {
					s.w.Count("obs.wait_canceled_while_blocked", 1)
				}
				if was == 7 {
					s.w.Count("obs.wait_canceled_at_select_after_exit_gate", 1)
				}
			case l.kind == kWait && c >= 10:
				s.w.Count("obs.wait_pred_error", 1)
			case l.kind == kWait && c == 8:
				s.w.Count("obs.wait_arg_error", 1)
			case l.kind == kWait && c == 1 && was == 2:
				s.w.Count("obs.waiter_woken_by_broadcast", 1)
			case l.kind == kWait && c == 1 && was == 7:
				s.w.Count("obs.broadcast_between_check_and_select", 1)
			case c == 9:
				s.w.Count("obs.anomaly", 1)
			}
		}
	}
	if nbw >= 2 {
		s.w.Count("obs.two_or_more_waiters_blocked", 1)
	}
	if nbw >= 1 {
		s.w.Count("obs.some_waiter_blocked", 1)
	}
	if len(obs) > 2+n {
		s.w.Count("obs.channel_polls", len(obs)-2-n)
	}
}

func nAtGate(s *sys, sts []uint64) int {
	n := 0
	for i, c := range sts {
		if c == 1 && i < len(s.las) {
			n++
		}
	}
	return n
}

// corpusMotifs: the corpus histories, used as PREFIXES of a share of the random histories (a random cut of a random
// corpus history is replayed first, then generation continues at random from the situation it reached): the corner
// cases that were worth writing down are then also explored in their neighbourhood, not only replayed verbatim.
var corpusMotifs []hist.H

func runRandom(t *testing.T, w *hist.W, h int) {
	r := hist.Rng(h)
	synctest.Test(t, func(t *testing.T) {
		var prefix [][]uint64
		if len(corpusMotifs) > 0 && r.IntN(6) == 0 {
			m := corpusMotifs[r.IntN(len(corpusMotifs))]
			if len(m.Evs) > 0 {
				prefix = m.Evs[:1+r.IntN(len(m.Evs))]
			}
		}
		s := newSys(w)
		defer s.teardown()
		w.Begin(fmt.Sprintf("r%d", h), nil)
		var prev []uint64
		for _, ev := range prefix {
			ev = append([]uint64{}, ev...)
			obs, ok := s.exec(ev)
			if !ok {
				break
			}
			s.count(ev, obs, prev)
			prev = obs
			w.Step(ev, obs)
		}
		if prefix != nil {
			w.Count("random_with_corpus_prefix", 1)
		}
		steps := 10 + r.IntN(50)
		cfg := genCfg{maxActs: 4 + r.IntN(9), disc: r.IntN(10) < 7, pPanic: []int{0, 0, 10, 20, 35}[h%5]}
		if prefix != nil {
			cfg.maxActs += len(s.las)
		}
		for k := 0; k < steps; k++ {
			ev := s.gen(r, cfg)
			if ev == nil {
				break
			}
			obs, ok := s.exec(ev)
			if !ok {
				break
			}
			s.count(ev, obs, prev)
			prev = obs
			w.Step(ev, obs)
		}
		if cfg.disc && prefix == nil {
			w.Count("histories.disciplined", 1)
		}
		w.Count(fmt.Sprintf("len.%02d", min(steps/10, 6)*10), 1)
	})
}

func runFixed(t *testing.T, w *hist.W, id string, evs [][]uint64) {
	synctest.Test(t, func(t *testing.T) {
		s := newSys(w)
		defer s.teardown()
		w.Begin(id, nil)
		var prev []uint64
		for _, ev := range evs {
			obs, ok := s.exec(ev)
			if !ok {
				// the event is not applicable on the implementation (the history has diverged earlier)
				w.Count("fixed.truncated", 1)
				break
			}
			s.count(ev, obs, prev)
			prev = obs
			w.Step(ev, obs)
		}
	})
}

func TestBcast(t *testing.T) {
	w, err := hist.Open("bcast")
	if err != nil {
		t.Fatal(err)
	}
	defer w.Close()
	if *hist.Replay != "" {
		hs, err := hist.Load(*hist.Replay)
		if err != nil {
			t.Fatal(err)
		}
		for _, h := range hs {
			runFixed(t, w, h.ID, h.Evs)
		}
		return
	}
	corpusMotifs = hist.LoadCorpus(*hist.Corpus)
	for _, h := range corpusMotifs {
		runFixed(t, w, h.ID, h.Evs)
		w.Count("corpus", 1)
	}
	for h := 0; h < *hist.NHist; h++ {
		w.Flush()
		runRandom(t, w, h)
	}
}
