// Free-running correspondence for broadcast.Broadcast (C03): setters and waiters run truly in parallel on the real
// scheduler; oracle: Wait returns nil only after its predicate returned true, and never stays blocked while the guarded
// state satisfies the predicate (no broadcast is missed).  Exit status 5 on a violation.
package bcastx

import (
	"context"
	"flag"
	"fmt"
	"math/rand/v2"
	"os"
	"runtime"
	"sync"
	"sync/atomic"
	"testing"
	"time"

	"github.com/aperturerobotics/util/broadcast"
	"verif/harness/hist"
)

var freeMS = flag.Int("free_ms", 4000, "duration of the free-running run in milliseconds")

func TestBcastFree(t *testing.T) {
	dur := time.Duration(*freeMS) * time.Millisecond
	start := time.Now()
	var bad atomic.Value
	fail := func(msg string) { bad.CompareAndSwap(nil, msg) }
	rounds, waitsN := 0, 0
	for h := 0; time.Since(start) < dur && bad.Load() == nil; h++ {
		rounds++
		var bc broadcast.Broadcast
		state := 0 // guarded by bc
		const setters, per, waiters = 3, 30, 6
		total := setters * per
		ctx, cancel := context.WithCancel(context.Background())
		var wwg, swg sync.WaitGroup
		rng := rand.New(rand.NewPCG(*hist.Seed, uint64(h)))
		for i := 0; i < waiters; i++ {
			thr := 1 + rng.IntN(total)
			cancelled := rng.IntN(6) == 0
			wctx, wcancel := ctx, func() {}
			if cancelled {
				wctx, wcancel = context.WithCancel(ctx)
			}
			wwg.Add(1)
			go func() {
				defer wwg.Done()
				seen := 0
				err := bc.Wait(wctx, func(broadcast func(), getWaitCh func() <-chan struct{}) (bool, error) {
					seen = state
					return state >= thr, nil
				})
				switch {
				case err == nil && seen < thr:
					fail(fmt.Sprintf("Wait returned nil although its predicate last saw %d < %d", seen, thr))
				case err != nil && !cancelled:
					fail(fmt.Sprintf("Wait returned %v although its context was not cancelled", err))
				case err != nil && err != context.Canceled:
					fail(fmt.Sprintf("Wait returned %v for a cancelled context (want context.Canceled)", err))
				}
			}()
			if cancelled {
				spins := rng.IntN(200)
				go func() {
					for k := spins; k > 0; k-- {
						runtime.Gosched()
					}
					wcancel()
				}()
			} else {
				wcancel()
			}
		}
		for s := 0; s < setters; s++ {
			swg.Add(1)
			go func(s int) {
				defer swg.Done()
				for k := 0; k < per; k++ {
					switch (s + k) % 3 {
					case 0:
						bc.HoldLock(func(broadcast func(), getWaitCh func() <-chan struct{}) { state++; broadcast() })
					case 1:
						bc.HoldLockMaybeAsync(func(broadcast func(), getWaitCh func() <-chan struct{}) { state++; broadcast() })
					default:
						for !bc.TryHoldLock(func(broadcast func(), getWaitCh func() <-chan struct{}) { state++; broadcast() }) {
							runtime.Gosched()
						}
					}
				}
			}(s)
		}
		swg.Wait()
		// HoldLockMaybeAsync may still be running callbacks: wait until the state is complete
		deadline := time.Now().Add(5 * time.Second)
		for {
			cur := 0
			bc.HoldLock(func(broadcast func(), getWaitCh func() <-chan struct{}) { cur = state })
			if cur == total {
				break
			}
			if time.Now().After(deadline) {
				fail(fmt.Sprintf("only %d of %d state updates were applied", cur, total))
				break
			}
			runtime.Gosched()
		}
		done := make(chan struct{})
		go func() { wwg.Wait(); close(done) }()
		select {
		case <-done:
		case <-time.After(5 * time.Second):
			fail("a Wait stays blocked although the guarded state satisfies its predicate (a broadcast was missed)")
		}
		cancel()
		waitsN += waiters
	}
	w, err := hist.Open("bcast")
	if err == nil {
		w.Count("free.rounds", rounds)
		w.Count("free.waits", waitsN)
		if bad.Load() != nil {
			w.Count("free.violation", 1)
		}
		w.Close()
	}
	if bad.Load() == nil {
		return
	}
	msg := bad.Load().(string)
	if fo, err := os.OpenFile(*hist.OutFile, os.O_WRONLY|os.O_TRUNC|os.O_CREATE, 0o644); err == nil {
		fmt.Fprintf(fo, "# free-running run on broadcast (real scheduler, seed %d): %s\n", *hist.Seed, msg)
		fo.Close()
	}
	fmt.Fprintf(os.Stderr, "FREE-VIOLATION %s\n", msg)
	os.Exit(5)
}
