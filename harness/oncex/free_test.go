// Free-running correspondence for promise.Once and memo.MemoizeFunc (C16): callers run truly in parallel on the real
// scheduler; oracles (all theorems about the model for every schedule, Props_C16): the function is never running twice at
// once; after it returned without error it is never called again and every Resolve with a live context returns that
// value; a Resolve with a live context returns a value or the error of some invocation; a caller whose context is
// already cancelled gets context.Canceled; MemoizeFunc calls its function exactly once and every caller gets that
// result.  Exit status 5 on a violation.
package oncex

import (
	"context"
	"errors"
	"flag"
	"fmt"
	"math/rand/v2"
	"os"
	"runtime"
	"sync"
	"sync/atomic"
	"testing"
	"time"

	"github.com/aperturerobotics/util/memo"
	"github.com/aperturerobotics/util/promise"
	"verif/harness/hist"
)

var freeMS = flag.Int("free_ms", 4000, "duration of the free-running run in milliseconds")

var errFreeCb = errors.New("callback fails")

func TestOnceFree(t *testing.T) {
	dur := time.Duration(*freeMS) * time.Millisecond
	start := time.Now()
	var bad atomic.Value
	fail := func(msg string) { bad.CompareAndSwap(nil, msg) }
	rounds, resolves := 0, 0
	for h := 0; time.Since(start) < dur && bad.Load() == nil; h++ {
		rounds++
		rng := rand.New(rand.NewPCG(*hist.Seed, uint64(h)))
		failFirst := int64(rng.IntN(3))
		var calls, inside atomic.Int64
		var success atomic.Int64 // the value of the successful invocation (0: none yet)
		once := promise.NewOnce(func(ctx context.Context) (int64, error) {
			if n := inside.Add(1); n > 1 {
				fail(fmt.Sprintf("%d invocations of the Once function are running at once", n))
			}
			defer inside.Add(-1)
			if v := success.Load(); v != 0 {
				fail(fmt.Sprintf("the function is called again after it returned %d without error", v))
			}
			n := calls.Add(1)
			runtime.Gosched()
			if n <= failFirst {
				return 0, errFreeCb
			}
			success.Store(n)
			return n, nil
		})
		const callers = 8
		var wg sync.WaitGroup
		for g := 0; g < callers; g++ {
			pre := rng.IntN(5) == 0
			wg.Add(1)
			go func() {
				defer wg.Done()
				ctx, cancel := context.WithCancel(context.Background())
				defer cancel()
				if pre {
					cancel()
				}
				for k := 0; k < 3; k++ {
					before := success.Load()
					v, err := once.Resolve(ctx)
					switch {
					case pre:
						if err != context.Canceled {
							fail(fmt.Sprintf("Resolve with an already cancelled context returned (%d, %v)", v, err))
						}
					case err == nil:
						if s := success.Load(); s == 0 || v != s {
							fail(fmt.Sprintf("Resolve returned (%d, nil) but the successful invocation returned %d", v, s))
						}
					case err == errFreeCb:
						if before != 0 {
							fail(fmt.Sprintf("Resolve started after the function had returned %d without error, and returned the error of a failed invocation", before))
						}
					default:
						fail(fmt.Sprintf("Resolve with a live context returned (%d, %v)", v, err))
					}
				}
			}()
		}
		done := make(chan struct{})
		go func() { wg.Wait(); close(done) }()
		select {
		case <-done:
		case <-time.After(5 * time.Second):
			fail("a Resolve call did not return within 5 s although the function returns at once")
		}
		resolves += callers * 3

		// memo
		var mcalls atomic.Int64
		mf := memo.MemoizeFunc(func() (int64, error) {
			n := mcalls.Add(1)
			runtime.Gosched()
			if failFirst == 1 {
				return 7, errFreeCb
			}
			return 40 + n, nil
		})
		var mwg sync.WaitGroup
		for g := 0; g < 6; g++ {
			mwg.Add(1)
			go func() {
				defer mwg.Done()
				v, err := mf()
				if failFirst == 1 {
					if v != 7 || err != errFreeCb {
						fail(fmt.Sprintf("memoized call returned (%d, %v), the function returned (7, callback fails)", v, err))
					}
				} else if v != 41 || err != nil {
					fail(fmt.Sprintf("memoized call returned (%d, %v), the function's only call returned (41, nil)", v, err))
				}
			}()
		}
		mdone := make(chan struct{})
		go func() { mwg.Wait(); close(mdone) }()
		select {
		case <-mdone:
		case <-time.After(5 * time.Second):
			fail("a memoized call did not return within 5 s")
		}
		if n := mcalls.Load(); n != 1 && bad.Load() == nil {
			fail(fmt.Sprintf("the memoized function was called %d times", n))
		}
	}
	w, err := hist.Open("once")
	if err == nil {
		w.Count("free.rounds", rounds)
		w.Count("free.resolves", resolves)
		if bad.Load() != nil {
			w.Count("free.violation", 1)
		}
		w.Close()
	}
	if bad.Load() == nil {
		return
	}
	msg := bad.Load().(string)
	if fo, err := os.OpenFile(*hist.OutFile, os.O_WRONLY|os.O_TRUNC|os.O_CREATE, 0o644); err == nil {
		fmt.Fprintf(fo, "# free-running run on promise.Once / memo (real scheduler, seed %d): %s\n", *hist.Seed, msg)
		fo.Close()
	}
	fmt.Fprintf(os.Stderr, "FREE-VIOLATION %s\n", msg)
	os.Exit(5)
}
