// Scheduled correspondence harness for promise.Once and memo.MemoizeFunc (C16).
//
// once   events:  [1 c]    Resolve(ctx) in a new actor (c=1: ctx already cancelled).  The FLAVOUR of the context is derived from
//                          the number n of Resolve events before this one in the history (hctx.Flavour(n): n%4 = 0, 2 plain
//                          WithCancel; 1 ends like a deadline, Err() == DeadlineExceeded; 3 cancelled with a cause, Err() ==
//                          Canceled and Cause == hctx.ErrCause).  It is not part of the event: Once returns the literal
//                          context.Canceled whatever the flavour, so the model does not need it; a replay reproduces it.
//                 [3 i ch] let actor i run from its gate (caller at promise site 1; callback goroutine at site 2 / 3 / 0);
//                          ch is written by the harness after the step: 1 = the caller's context was cancelled before the
//                          step and it returned Canceled (the select choice when both Await cases were ready)
//                 [4 i]    cancel the context of caller i
//                 [5 i k]  the user callback running on goroutine actor i returns k: 0 value i+1, 1 error i+1, 2 context.Canceled,
//                          k>=3 the non-zero value k-2 together with error i+1 (Once passes (0, error) on)
//        observation: two integers per actor (creation order; a callback goroutine becomes an actor when the callback is entered)
//                 1 0 caller at gate 1   2 0 caller blocked in Await   3 v returned (v,nil)   4 0 returned Canceled
//                 5 p returned (v, error e): p = v<<20 + e
//                 6 c goroutine inside the callback (c=1 its ctx was cancelled on entry)   7 0 at gate 2   8 0 at gate 3   9 0 finished
//                 10 0 goroutine parked inside Promise.SetResult between the swap of isDone and the publication (site 0)
//                 11 0 the call panicked (recovered by the actor wrapper)
//                 12 0 returned (_, context.DeadlineExceeded)   13 0 returned (_, hctx.ErrCause): the caller was handed its
//                          context's own error / cancellation cause instead of context.Canceled (the callback never returns
//                          these errors; the model never produces these codes; clause 10)
//                 an error that is none of context.Canceled / DeadlineExceeded / ErrCause / a callback's error: 5 p with
//                          error id 0 (clause 3)
// memo   events:  [1] call the memoized function in a new actor
//                 [2 i k] fn running on actor i returns k: 0 (i+1, nil), k>=1 the value k-1 together with error i+1
//                 [3 n w] n new actors call it at the same moment (they race for real); w (written by the harness) = which one entered fn
//        observation per actor: 6 0 inside fn   2 0 blocked on done   3 v returned (v,nil) / 5 p returned (v, error e), p = v<<20 + e
package oncex

import (
	"context"
	"errors"
	"fmt"
	"math/rand/v2"
	"runtime"
	"sync/atomic"
	"testing"
	"testing/synctest"

	"github.com/aperturerobotics/util/memo"
	"github.com/aperturerobotics/util/promise"
	"verif/harness/ctl"
	"verif/harness/hctx"
	"verif/harness/hist"
)

const (
	kCaller = 1
	kCb     = 2
	kMemo   = 3
)

type idErr struct{ id int }

func (e *idErr) Error() string { return fmt.Sprintf("err%d", e.id) }

var errFree = errors.New("teardown")

// result of a call: code 3 value / 4 context.Canceled (the identical error value) / 12 context.DeadlineExceeded /
// 13 hctx.ErrCause / 5 (value, error id) packed as value<<20 + id (id 0: any other error)
type result struct {
	code, val uint64
}

func classify(v int, err error) result {
	switch {
	case err == nil:
		return result{3, uint64(v)}
	case err == context.Canceled:
		return result{4, 0}
	case err == context.DeadlineExceeded:
		return result{12, 0}
	case err == hctx.ErrCause:
		return result{13, 0}
	default:
		var ie *idErr
		if errors.As(err, &ie) {
			return result{5, uint64(v)<<20 + uint64(ie.id)}
		}
		return result{5, uint64(v) << 20}
	}
}

type cdata struct {
	cancel    func() // ends the context the way its flavour prescribes
	flav      int    // 0 plain WithCancel, 1 deadline-like, 2 cancelled with a cause
	cancelled bool
	res       result
}

var flavName = [3]string{"plain", "deadline", "cause"}

type gdata struct {
	entryCanc bool
	outcome   int
	starter   int // the caller actor whose section started this invocation
}

// ---------------------------------------------------------------- once

type sys struct {
	c    *ctl.Ctl
	w    *hist.W
	o    *promise.Once[int]
	hook func(site int, obj any)
	nres int // Resolve events so far: picks the context flavour of the next one
	// statistics of this history
	entries    int
	succeeded  bool
	canceledCb int
}

func newSys(w *hist.W) *sys {
	s := &sys{c: ctl.New(), w: w}
	s.c.ShouldPark = func(a *ctl.Actor, pkg string, site int, obj any) bool {
		// site 0 (inside Promise.SetResult, after the swap of isDone, before the result is published) only on the
		// callback goroutine: nobody else resolves a Once's promise
		return site == 1 || site == 2 || site == 3 || (site == 0 && a.Kind == kCb)
	}
	// a goroutine started by the library becomes an actor when it enters the user callback
	s.c.Adopt = func(pkg string, site int, obj any) *ctl.Actor {
		if site == 100 {
			return s.c.NewActor(kCb)
		}
		return nil
	}
	s.hook = s.c.HookFor("promise", nil, nil)
	promise.VerifHook = s.hook
	s.o = promise.NewOnce(s.cb)
	return s
}

// cb is the harness-owned callback of the Once.
func (s *sys) cb(ctx context.Context) (int, error) {
	s.hook(100, nil)
	a := s.c.Current()
	if a == nil {
		return 0, errFree // teardown
	}
	d := &gdata{entryCanc: ctx.Err() != nil, outcome: -1}
	a.Data = d
	s.c.ParkUser(a, 1)
	switch d.outcome {
	case 0:
		return a.ID + 1, nil
	case 1:
		return 0, &idErr{a.ID + 1}
	case 2:
		return 0, context.Canceled
	}
	if d.outcome >= 3 {
		// a value together with the error: Once must hand (zero value, error) to every caller
		return d.outcome - 2, &idErr{a.ID + 1}
	}
	return 0, errFree
}

func (s *sys) status() []uint64 {
	out := make([]uint64, 0, 2*len(s.c.Acts))
	for _, a := range s.c.Acts {
		var c, p uint64
		switch {
		case a.Panicked() != nil:
			c = 11 // the call (or the callback goroutine's hook) panicked
		case a.Kind == kCaller:
			switch {
			case a.Done():
				r := a.Data.(*cdata).res
				c, p = r.code, r.val
			case a.Parked():
				c = 1
			default:
				c = 2
			}
		default:
			switch {
			case a.InUser() != 0:
				c = 6
				if a.Data.(*gdata).entryCanc {
					p = 1
				}
			case a.Parked() && a.Site() == 2:
				c = 7
			case a.Parked() && a.Site() == 3:
				c = 8
			case a.Parked() && a.Site() == 0:
				c = 10
			case a.Parked():
				c = 98
			default:
				c = 9
			}
		}
		out = append(out, c, p)
	}
	return out
}

// exec applies one event to the real Once; ok=false if the event is not applicable now.
func (s *sys) exec(ev []uint64) (obs []uint64, ok bool) {
	switch {
	case ev[0] == 1 && len(ev) == 2 && ev[1] <= 1:
		ctx, cancel, flav := hctx.Flavour(context.Background(), s.nres)
		s.nres++
		d := &cdata{cancel: cancel, flav: flav}
		if ev[1] == 1 {
			d.cancelled = true
			cancel()
		}
		a := s.c.NewActor(kCaller)
		a.Data = d
		s.c.Go(a, func(a *ctl.Actor) {
			v, err := s.o.Resolve(ctx)
			d.res = classify(v, err)
		})
		synctest.Wait()
	case ev[0] == 3 && len(ev) == 3:
		i := int(ev[1])
		if i >= len(s.c.Acts) || !s.c.Acts[i].Parked() {
			return nil, false
		}
		a := s.c.Acts[i]
		was := false
		if a.Kind == kCaller {
			was = a.Data.(*cdata).cancelled
		}
		n := len(s.c.Acts)
		s.c.Step(a)
		ev[2] = 0
		if a.Kind == kCaller && was && a.Done() && a.Data.(*cdata).res.code == 4 {
			ev[2] = 1
		}
		if len(s.c.Acts) > n {
			s.entries++
			s.c.Acts[n].Data.(*gdata).starter = i
			s.w.Count("once.cb_entries", 1)
			if s.c.Acts[n].Data.(*gdata).entryCanc {
				s.w.Count("once.cb_entered_with_cancelled_ctx", 1)
			}
		}
	case ev[0] == 4 && len(ev) == 2:
		i := int(ev[1])
		if i >= len(s.c.Acts) || s.c.Acts[i].Kind != kCaller {
			return nil, false
		}
		d := s.c.Acts[i].Data.(*cdata)
		d.cancelled = true
		d.cancel()
		synctest.Wait()
	case ev[0] == 5 && len(ev) == 3 && ev[2] <= 64:
		i := int(ev[1])
		if i >= len(s.c.Acts) || s.c.Acts[i].Kind != kCb || s.c.Acts[i].InUser() == 0 {
			return nil, false
		}
		a := s.c.Acts[i]
		a.Data.(*gdata).outcome = int(ev[2])
		if ev[2] == 0 {
			s.succeeded = true
		}
		if ev[2] == 2 {
			s.canceledCb++
		}
		if ev[2] != 0 && ev[2] != 2 {
			// the situation of clause 9: the starter's context is already cancelled when the callback fails with an
			// error of its own, while another caller with a live context is waiting for this invocation
			if st := a.Data.(*gdata).starter; s.c.Acts[st].Data.(*cdata).cancelled {
				s.w.Count("once.cb_error_with_starter_cancelled", 1)
				// the goroutine's "ctx.Err() != nil => SetResult(context.Canceled)" branch, by flavour of the captured context
				s.w.Count("once.cb_error_with_starter_cancelled.flavour."+flavName[s.c.Acts[st].Data.(*cdata).flav], 1)
				for _, b := range s.c.Acts {
					if b.Kind == kCaller && !b.Done() && !b.Parked() && !b.Data.(*cdata).cancelled {
						s.w.Count("once.cb_error_with_starter_cancelled_and_live_waiter", 1)
						break
					}
				}
			}
		}
		s.c.StepUser(a)
	default:
		return nil, false
	}
	return s.status(), true
}

// gen picks the next event among those the implementation allows now.
func (s *sys) gen(r *rand.Rand, maxCallers int) []uint64 {
	var gates, inUser, live, liveWaiting, callerGates, inWindow []int
	ncallers := 0
	for i, a := range s.c.Acts {
		if a.Parked() {
			gates = append(gates, i)
			if a.Kind == kCaller {
				callerGates = append(callerGates, i)
			} else if a.Site() == 0 {
				inWindow = append(inWindow, i)
			}
		}
		if a.Kind == kCb && a.InUser() != 0 {
			inUser = append(inUser, i)
		}
		if a.Kind == kCaller {
			ncallers++
			if !a.Data.(*cdata).cancelled {
				live = append(live, i)
				if !a.Done() {
					liveWaiting = append(liveWaiting, i)
				}
			}
		}
	}
	// the window inside SetResult (goroutine parked at site 0: isDone set, nothing published): let other callers run
	// their sections / start / be cancelled there before the result is published
	if len(inWindow) > 0 && r.IntN(100) < 45 {
		y := r.IntN(100)
		switch {
		case y < 50 && len(callerGates) > 0:
			return []uint64{3, uint64(callerGates[r.IntN(len(callerGates))]), 0}
		case y < 75 && ncallers < maxCallers+3:
			return []uint64{1, 0}
		case y < 90 && len(liveWaiting) > 0:
			return []uint64{4, uint64(liveWaiting[r.IntN(len(liveWaiting))])}
		}
	}
	// a callback is running, its starter's context is live and somebody else waits with a live context: cancel the starter
	// now and then (the invocation then fails "because of" the cancelled caller; the others must not inherit that)
	if len(inUser) > 0 && len(liveWaiting) >= 2 && r.IntN(100) < 12 {
		st := s.c.Acts[inUser[0]].Data.(*gdata).starter
		if !s.c.Acts[st].Data.(*cdata).cancelled {
			return []uint64{4, uint64(st)}
		}
	}
	for tries := 0; tries < 200; tries++ {
		x := r.IntN(100)
		switch {
		case x < 20 && ncallers < maxCallers:
			if r.IntN(25) == 0 {
				return []uint64{1, 1}
			}
			return []uint64{1, 0}
		case x < 60 && len(gates) > 0:
			return []uint64{3, uint64(gates[r.IntN(len(gates))]), 0}
		case x < 67 && len(live) > 0:
			// mostly callers that are still inside Resolve (at the gate, blocked, or the spawner of a running callback)
			if len(liveWaiting) > 0 && r.IntN(8) != 0 {
				return []uint64{4, uint64(liveWaiting[r.IntN(len(liveWaiting))])}
			}
			if r.IntN(4) == 0 {
				return []uint64{4, uint64(live[r.IntN(len(live))])}
			}
		case x >= 67 && len(inUser) > 0:
			g := inUser[r.IntN(len(inUser))]
			y := r.IntN(100)
			k := uint64(1)
			switch {
			case y < 22:
				k = 0
			case y < 30 && s.canceledCb < 2:
				// a callback that returns Canceled by itself makes every waiter retry: rare and bounded
				k = 2
			case y < 55 && s.c.Acts[g].Data.(*gdata).entryCanc && s.canceledCb < 4:
				k = 2
			case y >= 85:
				// an error accompanied by a non-zero value
				k = uint64(3 + r.IntN(6))
			}
			return []uint64{5, uint64(g), k}
		}
	}
	return nil
}

func (s *sys) teardown() {
	for _, a := range s.c.Acts {
		if d, ok := a.Data.(*cdata); ok && d != nil {
			d.cancel()
		}
	}
	s.c.Free()
	synctest.Wait()
	promise.VerifHook = nil
}

func (s *sys) count(ev, obs []uint64, prev []uint64) {
	names := map[uint64]string{1: "resolve", 3: "step", 4: "cancel", 5: "cb_return"}
	s.w.Count("once.ev."+names[ev[0]], 1)
	if ev[0] == 5 {
		s.w.Count(fmt.Sprintf("once.ev.cb_return.%d", min(ev[2], 3)), 1)
	}
	if ev[0] == 1 {
		fl := flavName[s.c.Acts[len(s.c.Acts)-1].Data.(*cdata).flav]
		s.w.Count("once.ev.resolve.flavour."+fl, 1)
		if ev[1] == 1 {
			s.w.Count("once.ev.resolve.precancelled", 1)
			s.w.Count("once.ev.resolve.precancelled.flavour."+fl, 1)
		}
	}
	if ev[0] == 4 {
		i := int(ev[1])
		fl := flavName[s.c.Acts[i].Data.(*cdata).flav]
		switch {
		case 2*i < len(prev) && prev[2*i] == 2:
			s.w.Count("once.cancel_while_blocked_in_await.flavour."+fl, 1)
		case 2*i < len(prev) && prev[2*i] == 1:
			s.w.Count("once.cancel_at_gate.flavour."+fl, 1)
		}
	}
	if ev[0] == 3 && ev[2] == 1 {
		s.w.Count("once.step_of_cancelled_caller_at_gate", 1)
	}
	nb, ngate, nInCb, nTail, nWin := 0, 0, 0, 0, 0
	for i := 0; i+1 < len(obs); i += 2 {
		switch obs[i] {
		case 2:
			nb++
		case 1:
			ngate++
			if i < len(prev) && prev[i] == 2 {
				s.w.Count("once.caller_retries_after_canceled_result", 1)
			}
		case 6:
			nInCb++
		case 10:
			ngate++
			nTail++
			nWin++
		case 7, 8:
			ngate++
			nTail++
		case 3:
			if i >= len(prev) || prev[i] != 3 {
				s.w.Count("once.returned_value", 1)
			}
		case 4:
			if i >= len(prev) || prev[i] != 4 {
				s.w.Count("once.returned_canceled", 1)
				s.w.Count("once.returned_canceled.flavour."+flavName[s.c.Acts[i/2].Data.(*cdata).flav], 1)
			}
		case 12:
			if i >= len(prev) || prev[i] != 12 {
				s.w.Count("once.returned_deadline_exceeded", 1)
			}
		case 13:
			if i >= len(prev) || prev[i] != 13 {
				s.w.Count("once.returned_cancel_cause", 1)
			}
		case 5:
			if i >= len(prev) || prev[i] != 5 {
				s.w.Count("once.returned_error", 1)
				if s.succeeded {
					s.w.Count("once.old_error_delivered_after_success", 1)
				}
			}
		}
	}
	if nb >= 2 {
		s.w.Count("once.obs.two_or_more_blocked", 1)
	}
	if nWin > 0 {
		s.w.Count("once.obs.goroutine_inside_SetResult_window", 1)
		if ev[0] == 3 && int(ev[1]) < len(s.c.Acts) && s.c.Acts[ev[1]].Kind == kCaller {
			s.w.Count("once.caller_section_inside_SetResult_window", 1)
		}
		if ev[0] == 4 {
			s.w.Count("once.cancel_inside_SetResult_window", 1)
		}
	}
	if nInCb > 0 && nTail > 0 {
		s.w.Count("once.obs.new_callback_while_old_goroutine_unfinished", 1)
	}
	if ngate == 0 {
		s.w.Count("once.obs.quiescent_points", 1)
		if nb > 0 {
			s.w.Count("once.obs.quiescent_with_blocked", 1)
		}
	}
}

func (s *sys) finish() {
	s.w.Count(fmt.Sprintf("once.attempts.%d", min(s.entries, 6)), 1)
	if s.succeeded {
		s.w.Count("once.histories_with_success", 1)
	}
}

// corpusMotifs: the corpus histories of the model being run (once or memo), used as PREFIXES of a share of the random
// histories (a random cut of a random corpus history is replayed first, then generation continues at random from the
// situation it reached): the corner cases that were worth writing down are then also explored in their neighbourhood.
var corpusMotifs []hist.H

// motifPrefix draws (from the history's own PRNG) whether this random history starts with a corpus prefix, and which.
func motifPrefix(r *rand.Rand) [][]uint64 {
	if len(corpusMotifs) > 0 && r.IntN(6) == 0 {
		m := corpusMotifs[r.IntN(len(corpusMotifs))]
		if len(m.Evs) > 0 {
			return m.Evs[:1+r.IntN(len(m.Evs))]
		}
	}
	return nil
}

func runOnceRandom(t *testing.T, w *hist.W, h int) {
	r := hist.Rng(h)
	synctest.Test(t, func(t *testing.T) {
		prefix := motifPrefix(r)
		s := newSys(w)
		defer s.teardown()
		w.Begin(fmt.Sprintf("r%d", h), nil)
		var prev []uint64
		for _, ev0 := range prefix {
			ev := append([]uint64(nil), ev0...)
			if len(ev) == 0 {
				break
			}
			obs, ok := s.exec(ev)
			if !ok {
				break
			}
			s.count(ev, obs, prev)
			prev = obs
			w.Step(ev, obs)
		}
		if prefix != nil {
			w.Count("random_with_corpus_prefix", 1)
		}
		steps := 8 + r.IntN(50)
		maxCallers := 2 + r.IntN(9)
		if prefix != nil {
			for _, a := range s.c.Acts {
				if a.Kind == kCaller {
					maxCallers++
				}
			}
		}
		for k := 0; k < steps; k++ {
			ev := s.gen(r, maxCallers)
			if ev == nil {
				break
			}
			obs, ok := s.exec(ev)
			if !ok {
				break
			}
			s.count(ev, obs, prev)
			prev = obs
			w.Step(ev, obs)
		}
		s.finish()
		w.Count(fmt.Sprintf("once.len.%02d", min(steps/10, 6)*10), 1)
	})
}

func runOnceFixed(t *testing.T, w *hist.W, id string, evs [][]uint64) {
	synctest.Test(t, func(t *testing.T) {
		s := newSys(w)
		defer s.teardown()
		w.Begin(id, nil)
		var prev []uint64
		for _, ev0 := range evs {
			ev := append([]uint64(nil), ev0...)
			obs, ok := s.exec(ev)
			if !ok {
				// the event is not applicable on the implementation (the history has diverged earlier)
				w.Count("fixed.truncated", 1)
				break
			}
			s.count(ev, obs, prev)
			prev = obs
			w.Step(ev, obs)
		}
		s.finish()
	})
}

// ---------------------------------------------------------------- memo

type mdata struct {
	outcome int
	res     result
}

type msys struct {
	c       *ctl.Ctl
	w       *hist.W
	f       func() (int, error)
	entries int
}

func newMsys(w *hist.W) *msys {
	s := &msys{c: ctl.New(), w: w}
	s.f = memo.MemoizeFunc(s.fn)
	return s
}

// fn is the harness-owned memoized function.
func (s *msys) fn() (int, error) {
	a := s.c.Current()
	if a == nil {
		return 0, errFree
	}
	s.entries++
	s.c.ParkUser(a, 1)
	switch a.Data.(*mdata).outcome {
	case 0:
		return a.ID + 1, nil
	}
	if k := a.Data.(*mdata).outcome; k >= 1 {
		// the value k-1 together with an error: every caller must receive exactly this pair
		return k - 1, &idErr{a.ID + 1}
	}
	return 0, errFree
}

func (s *msys) status() []uint64 {
	out := make([]uint64, 0, 2*len(s.c.Acts))
	for _, a := range s.c.Acts {
		var c, p uint64
		switch {
		case a.Panicked() != nil:
			c = 11
		case a.Done():
			r := a.Data.(*mdata).res
			c, p = r.code, r.val
		case a.InUser() != 0:
			c = 6
		default:
			c = 2
		}
		out = append(out, c, p)
	}
	return out
}

func (s *msys) exec(ev []uint64) (obs []uint64, ok bool) {
	switch {
	case ev[0] == 1 && len(ev) == 1:
		a := s.c.NewActor(kMemo)
		d := &mdata{outcome: -1}
		a.Data = d
		s.c.Go(a, func(a *ctl.Actor) {
			v, err := s.f()
			d.res = classify(v, err)
		})
		synctest.Wait()
	case ev[0] == 2 && len(ev) == 3 && ev[2] <= 64:
		i := int(ev[1])
		if i >= len(s.c.Acts) || s.c.Acts[i].InUser() == 0 {
			return nil, false
		}
		a := s.c.Acts[i]
		a.Data.(*mdata).outcome = int(ev[2])
		s.c.StepUser(a)
	case ev[0] == 3 && len(ev) == 3 && ev[1] >= 1 && ev[1] <= 64:
		// n callers released together: memo has no schedule point, so this is the only way to make two callers race
		// for the swap.  Which of them won is read off afterwards.
		n := int(ev[1])
		base := len(s.c.Acts)
		start := make(chan struct{})
		var arrived atomic.Int64
		for k := 0; k < n; k++ {
			a := s.c.NewActor(kMemo)
			d := &mdata{outcome: -1}
			a.Data = d
			s.c.Go(a, func(a *ctl.Actor) {
				<-start
				// spin barrier: all n goroutines leave it within nanoseconds of each other
				arrived.Add(1)
				for spins := 1; arrived.Load() < int64(n); spins++ {
					if spins%2000 == 0 {
						runtime.Gosched()
					}
				}
				v, err := s.f()
				d.res = classify(v, err)
			})
		}
		synctest.Wait()
		close(start)
		synctest.Wait()
		ev[2] = 0
		for k := 0; k < n; k++ {
			if s.c.Acts[base+k].InUser() != 0 {
				ev[2] = uint64(k)
				break
			}
		}
	default:
		return nil, false
	}
	return s.status(), true
}

func (s *msys) gen(r *rand.Rand, maxCallers int, pReturn int) []uint64 {
	var inUser []int
	for i, a := range s.c.Acts {
		if a.InUser() != 0 {
			inUser = append(inUser, i)
		}
	}
	for tries := 0; tries < 100; tries++ {
		x := r.IntN(100)
		switch {
		case x < pReturn && len(inUser) > 0:
			k := uint64(0)
			switch r.IntN(6) {
			case 0:
				k = 1 // (0, error)
			case 1:
				k = uint64(2 + r.IntN(40)) // (non-zero value, error)
			}
			return []uint64{2, uint64(inUser[r.IntN(len(inUser))]), k}
		case x >= pReturn && len(s.c.Acts) < maxCallers:
			if r.IntN(4) == 0 {
				return []uint64{3, uint64(2 + r.IntN(11)), 0}
			}
			return []uint64{1}
		}
	}
	return nil
}

func (s *msys) teardown() {
	s.c.Free()
	synctest.Wait()
}

func (s *msys) count(ev, obs []uint64) {
	switch ev[0] {
	case 1:
		s.w.Count("memo.ev.call", 1)
	case 2:
		s.w.Count(fmt.Sprintf("memo.ev.fn_return.%d", min(ev[2], 2)), 1)
		if ev[2] >= 2 {
			s.w.Count("memo.fn_returns_value_with_error", 1)
			if len(obs) >= 4 {
				s.w.Count("memo.value_with_error_delivered_to_other_callers", 1)
			}
		}
	case 3:
		s.w.Count("memo.ev.burst", 1)
		if len(obs) == int(2*ev[1]) {
			s.w.Count("memo.ev.burst_racing_for_first_call", 1)
		}
		if ev[2] != 0 {
			s.w.Count("memo.burst_winner_not_first_spawned", 1)
		}
	}
	nb, nret := 0, 0
	for i := 0; i+1 < len(obs); i += 2 {
		switch obs[i] {
		case 2:
			nb++
		case 3, 5:
			nret++
		}
	}
	if nb >= 2 {
		s.w.Count("memo.obs.two_or_more_blocked", 1)
	}
	if ev[0] == 2 && nret >= 3 {
		s.w.Count("memo.fn_return_released_two_or_more_waiters", 1)
	}
	if ev[0] != 2 && nret >= 2 && obs[len(obs)-2] != 2 && obs[len(obs)-2] != 6 {
		s.w.Count("memo.call_after_completion", 1)
	}
}

func runMemo(t *testing.T, w *hist.W, id string, r *rand.Rand, evs [][]uint64) {
	synctest.Test(t, func(t *testing.T) {
		s := newMsys(w)
		defer s.teardown()
		w.Begin(id, nil)
		if r != nil {
			prefix := motifPrefix(r)
			for _, ev0 := range prefix {
				ev := append([]uint64(nil), ev0...)
				if len(ev) == 0 {
					break
				}
				obs, ok := s.exec(ev)
				if !ok {
					break
				}
				s.count(ev, obs)
				w.Step(ev, obs)
			}
			if prefix != nil {
				w.Count("random_with_corpus_prefix", 1)
			}
			steps := 3 + r.IntN(14)
			maxCallers := 2 + r.IntN(9)
			pReturn := 5 + r.IntN(40)
			if prefix != nil {
				maxCallers += len(s.c.Acts)
			}
			for k := 0; k < steps; k++ {
				ev := s.gen(r, maxCallers, pReturn)
				if ev == nil {
					break
				}
				obs, ok := s.exec(ev)
				if !ok {
					break
				}
				s.count(ev, obs)
				w.Step(ev, obs)
			}
		} else {
			for _, ev0 := range evs {
				ev := append([]uint64(nil), ev0...)
				obs, ok := s.exec(ev)
				if !ok {
					w.Count("fixed.truncated", 1)
					break
				}
				s.count(ev, obs)
				w.Step(ev, obs)
			}
		}
		w.Count(fmt.Sprintf("memo.fn_entries.%d", min(s.entries, 3)), 1)
	})
}

// ---------------------------------------------------------------- drivers

func run(t *testing.T, model string) {
	w, err := hist.Open(model)
	if err != nil {
		t.Fatal(err)
	}
	defer w.Close()
	fixed := func(h hist.H) {
		if model == "once" {
			runOnceFixed(t, w, h.ID, h.Evs)
		} else {
			runMemo(t, w, h.ID, nil, h.Evs)
		}
	}
	if *hist.Replay != "" {
		hs, err := hist.Load(*hist.Replay)
		if err != nil {
			t.Fatal(err)
		}
		for _, h := range hs {
			fixed(h)
		}
		return
	}
	corpusMotifs = hist.LoadCorpus(*hist.Corpus)
	for _, h := range corpusMotifs {
		fixed(h)
		w.Count("corpus", 1)
	}
	for h := 0; h < *hist.NHist; h++ {
		w.Flush()
		if model == "once" {
			runOnceRandom(t, w, h)
		} else {
			runMemo(t, w, fmt.Sprintf("r%d", h), hist.Rng(h), nil)
		}
	}
}

func TestOnce(t *testing.T) { run(t, "once") }
func TestMemo(t *testing.T) { run(t, "memo") }
