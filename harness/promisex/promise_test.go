// Scheduled correspondence harness for promise.Promise and promise.PromiseContainer (C11).
//
// One PromiseContainer[int] and any number of Promise[int] per history.  Every API call runs in its own
// actor.  Gates: promise.VerifHook site 0 (SetResult after the winning Swap), broadcast.VerifHook site 0
// (HoldLock entry) and, in histories with config [1], site 1 (HoldLock exit) for container awaiters.
//
// Events / observations: see /verif/coq/theories/Promise/Spec.v.  The last three numbers of the events
// 4, 5 and 12 are the status triple of the stepped actor as observed after the event (filled in after
// execution, recomputed on replay): the model uses them to learn which ready select case Go took.
//
// Context flavours: the n-th awaiter of a history (events 4 and 8 together, counted from 0) gets the context
// hctx.Flavour(n): n%4 = 0, 2 plain WithCancel; 1 ends like a deadline (Err() == DeadlineExceeded); 3 cancelled with a
// cause (Err() == Canceled, Cause == hctx.ErrCause).  The flavour is not part of the event: every await of Promise and
// PromiseContainer returns the literal context.Canceled for a context that ended, whatever its flavour, so the model
// needs no flavour; a replay reproduces it from the event list.  Error codes in observations: 0 nil, 1 context.Canceled
// (the identical value), 2 context.DeadlineExceeded, 3+i other error i, 98 hctx.ErrCause, 99 any other error.  An await
// that hands its caller the context's own error or cause shows up as (0, 2) / (0, 98): clauses 2 / 3.
//
// "Blocks without consuming CPU": a container awaiter that passes its HoldLock entry gate more than
// spinLimit times while it is the only thing that runs is reported with status 7 (spinning); a goroutine
// that spins without passing a gate trips the wall-clock watchdog (exit 3, last history on disk).
package promisex

import (
	"context"
	"errors"
	"flag"
	"fmt"
	"math/rand/v2"
	"os"
	"sync"
	"testing"
	"testing/synctest"
	"time"

	"github.com/aperturerobotics/util/broadcast"
	"github.com/aperturerobotics/util/promise"
	"verif/harness/ctl"
	"verif/harness/hctx"
	"verif/harness/hist"
)

const (
	kSet    = 3
	kAwait  = 4
	kCAwait = 8
	kCSet   = 9
	kCGet   = 11

	spinLimit = 3
)

var errOther = []error{errors.New("other0"), errors.New("other1"), errors.New("other2"), errors.New("other3")}

func errOf(c uint64) error {
	switch c {
	case 0:
		return nil
	case 1:
		return context.Canceled
	case 2:
		return context.DeadlineExceeded
	}
	return errOther[int(c-3)%len(errOther)]
}

func errCode(e error) uint64 {
	switch e {
	case nil:
		return 0
	case context.Canceled:
		return 1
	case context.DeadlineExceeded:
		return 2
	case hctx.ErrCause:
		return 98
	}
	for i, o := range errOther {
		if e == o {
			return uint64(3 + i)
		}
	}
	return 99
}

type adata struct {
	k         int    // await kind 0 Await, 1 AwaitWithErrCh, 2 AwaitWithCancelCh
	prom      int    // target promise (SetResult, direct await), installed promise (container set; -1 nil)
	cancel    func() // ends the context the way its flavour prescribes
	flav      int    // 0 plain WithCancel, 1 deadline-like, 2 cancelled with a cause
	cancelled bool
	errCh     chan error
	cancelCh  chan struct{}
	fired     bool
	isRes     bool
	secGen    int // container awaiter: value of sys.setGen at its last section
	secCur    int // container awaiter: the promise that was current at its last section (-1 nil, -2 no section yet)
	spinning  bool
	// results
	val     int
	err     error
	retBool bool
	getProm promise.PromiseLike[int]
	getCh   <-chan struct{}
}

type sys struct {
	nwitherr int // pre-resolved promises with a zero value and an error so far (alternates the constructor)
	c        *ctl.Ctl
	w        *hist.W
	hx       bool
	proms    []*promise.Promise[int]
	// harness-side bookkeeping used by the generator only
	setCalled   []bool // a SetResult has been called on the promise, or it was constructed resolved
	cur         int    // the container's current promise (-1 nil)
	cont        *promise.PromiseContainer[int]
	soloActor   int
	soloEntries int
	setGen      int // number of container SetPromise / SetResult sections so far
	nawait      int // awaiters created so far (events 4 and 8): picks the context flavour of the next one
}

var flavName = [3]string{"plain", "deadline", "cause"}

func newSys(w *hist.W, hx bool) *sys {
	s := &sys{c: ctl.New(), w: w, hx: hx, cur: -1, soloActor: -1, cont: promise.NewPromiseContainer[int]()}
	s.c.ShouldPark = func(a *ctl.Actor, pkg string, site int, obj any) bool {
		switch pkg {
		case "promise":
			return site == 0
		case "broadcast":
			return site == 0 || (site == 1 && s.hx && a.Kind == kCAwait)
		}
		return false
	}
	broadcast.VerifHook = s.c.HookFor("broadcast", []int{0, 2}, []int{1, 3})
	promise.VerifHook = s.c.HookFor("promise", nil, nil)
	return s
}

func (s *sys) promID(p promise.PromiseLike[int]) uint64 {
	if p == nil {
		return 0
	}
	for i, q := range s.proms {
		if pp, ok := p.(*promise.Promise[int]); ok && pp == q {
			return uint64(i + 1)
		}
	}
	return 999
}

func (s *sys) triple(a *ctl.Actor) [3]uint64 {
	d := a.Data.(*adata)
	switch {
	case a.Panicked() != nil:
		return [3]uint64{9, 0, 0}
	case d.spinning:
		return [3]uint64{7, 0, 0}
	case a.Done():
		switch a.Kind {
		case kSet:
			if d.retBool {
				return [3]uint64{3, 1, 0}
			}
			return [3]uint64{3, 0, 0}
		case kAwait, kCAwait:
			return [3]uint64{4, uint64(d.val), errCode(d.err)}
		case kCSet:
			if d.isRes {
				if d.retBool {
					return [3]uint64{5, 1, 0}
				}
				return [3]uint64{5, 2, 0}
			}
			return [3]uint64{5, 0, 0}
		case kCGet:
			cl := uint64(0)
			select {
			case <-d.getCh:
				cl = 1
			default:
			}
			return [3]uint64{6, s.promID(d.getProm), cl}
		}
		return [3]uint64{0, 0, 0}
	case a.Parked():
		return [3]uint64{1, 0, 0}
	default:
		return [3]uint64{2, 0, 0}
	}
}

func (s *sys) status() []uint64 {
	out := make([]uint64, 0, 3*len(s.c.Acts))
	for _, a := range s.c.Acts {
		t := s.triple(a)
		out = append(out, t[0], t[1], t[2])
	}
	return out
}

// mkAwaiter prepares context and channel of an awaiter (pre-cancelled / pre-fired if asked).
func mkAwaiter(n int, k int, ctxc, ch uint64) (context.Context, *adata, bool) {
	ctx, cancel, flav := hctx.Flavour(context.Background(), n)
	d := &adata{k: k, cancel: cancel, flav: flav, secCur: -2, prom: -1}
	if ctxc == 1 {
		cancel()
		d.cancelled = true
	} else if ctxc != 0 {
		return nil, nil, false
	}
	switch k {
	case 0:
		if ch != 0 {
			return nil, nil, false
		}
	case 1:
		d.errCh = make(chan error, 1)
	case 2:
		d.cancelCh = make(chan struct{}, 1)
		if ch > 2 {
			return nil, nil, false
		}
	default:
		return nil, nil, false
	}
	if ch != 0 {
		d.fire(ch)
	}
	return ctx, d, true
}

func (d *adata) fire(c uint64) {
	d.fired = true
	switch d.k {
	case 1:
		if c == 1 {
			close(d.errCh)
		} else {
			d.errCh <- errOf(c - 2)
		}
	case 2:
		if c == 1 {
			close(d.cancelCh)
		} else {
			d.cancelCh <- struct{}{}
		}
	}
}

func (s *sys) atEntry(a *ctl.Actor) bool {
	return !a.Done() && a.Parked() && !(a.Kind == kCAwait && a.Site() == 1)
}
func (s *sys) atExit(a *ctl.Actor) bool {
	return !a.Done() && a.Parked() && a.Kind == kCAwait && a.Site() == 1
}

// exec applies one event to the real code; ok=false if the event is not applicable now.  The returned
// event has its hint fields filled in.
func (s *sys) exec(ev []uint64) (out []uint64, obs []uint64, ok bool) {
	if len(ev) == 0 {
		return nil, nil, false
	}
	arg := func(i int) uint64 {
		if i < len(ev) {
			return ev[i]
		}
		return 0
	}
	hintOf := -1
	solo := false
	switch ev[0] {
	case 1:
		s.proms = append(s.proms, promise.NewPromise[int]())
		s.setCalled = append(s.setCalled, false)
		out = []uint64{1}
	case 2:
		// the wrapper constructor NewPromiseWithErr is the same promise for a zero value and a non-nil error: every
		// second such event goes through it
		if e := errOf(arg(2)); arg(1) == 0 && e != nil && func() bool { s.nwitherr++; return s.nwitherr%2 == 1 }() {
			s.proms = append(s.proms, promise.NewPromiseWithErr[int](e))
		} else {
			s.proms = append(s.proms, promise.NewPromiseWithResult(int(arg(1)), errOf(arg(2))))
		}
		s.setCalled = append(s.setCalled, true)
		out = []uint64{2, arg(1), arg(2)}
	case 3:
		p := int(arg(1))
		if p >= len(s.proms) || s.proms[p] == nil {
			return nil, nil, false
		}
		v, e := int(arg(2)), errOf(arg(3))
		a := s.c.NewActor(kSet)
		d := &adata{prom: p, secCur: -2}
		a.Data = d
		pr := s.proms[p]
		s.setCalled[p] = true
		s.c.Go(a, func(a *ctl.Actor) { d.retBool = pr.SetResult(v, e) })
		synctest.Wait()
		out = []uint64{3, arg(1), arg(2), arg(3)}
	case 4:
		k, p := int(arg(1)), int(arg(2))
		if p >= len(s.proms) || s.proms[p] == nil {
			return nil, nil, false
		}
		ctx, d, good := mkAwaiter(s.nawait, k, arg(3), arg(4))
		if !good {
			return nil, nil, false
		}
		s.nawait++
		d.prom = p
		a := s.c.NewActor(kAwait)
		a.Data = d
		pr := s.proms[p]
		s.c.Go(a, func(a *ctl.Actor) {
			switch k {
			case 0:
				d.val, d.err = pr.Await(ctx)
			case 1:
				d.val, d.err = pr.AwaitWithErrCh(ctx, d.errCh)
			case 2:
				d.val, d.err = pr.AwaitWithCancelCh(ctx, d.cancelCh)
			}
		})
		synctest.Wait()
		out = []uint64{4, arg(1), arg(2), arg(3), arg(4), 0, 0, 0}
		hintOf = a.ID
	case 5:
		i := int(arg(1))
		if i >= len(s.c.Acts) || !s.atEntry(s.c.Acts[i]) {
			return nil, nil, false
		}
		a := s.c.Acts[i]
		d := a.Data.(*adata)
		if d.spinning {
			return nil, nil, false
		}
		switch a.Kind {
		case kCSet:
			s.cur = d.prom
			s.setGen++
		case kCAwait:
			d.secGen = s.setGen
			solo = true
			if s.soloActor != i {
				s.soloActor, s.soloEntries = i, 0
			}
			d.secCur = s.cur
		}
		s.c.Step(a)
		if a.Kind == kCGet && a.Done() {
			// a promise allocated inside PromiseContainer.SetResult becomes known when GetPromise returns it
			if pp, isP := d.getProm.(*promise.Promise[int]); isP && pp != nil && s.promID(pp) == 999 &&
				s.cur >= 0 && s.cur < len(s.proms) && s.proms[s.cur] == nil {
				s.proms[s.cur] = pp
			}
		}
		if a.Kind == kCAwait {
			// run alone: an awaiter that comes back to its entry gate without anything else having happened
			// is stepped again, at most spinLimit times
			for s.atEntry(a) {
				s.soloEntries++
				if s.soloEntries > spinLimit {
					d.spinning = true
					break
				}
				if s.hx {
					break
				}
				s.c.Step(a)
			}
		}
		out = []uint64{5, arg(1), 0, 0, 0}
		hintOf = i
	case 12:
		i := int(arg(1))
		if i >= len(s.c.Acts) || !s.atExit(s.c.Acts[i]) {
			return nil, nil, false
		}
		a := s.c.Acts[i]
		d := a.Data.(*adata)
		solo = true
		if s.soloActor != i {
			s.soloActor, s.soloEntries = i, 0
		}
		{
			// which select cases are ready when the awaiter leaves the exit gate
			n, tag := 0, "exit.ready"
			if d.cancelled {
				n++
				tag += ".ctx"
			}
			if d.secGen != s.setGen {
				n++
				tag += ".replaced"
			}
			if d.secCur >= 0 && s.setCalled[d.secCur] {
				n++
				tag += ".result"
			}
			if d.secCur == -1 && d.fired {
				n++
				tag += ".ch"
			}
			if n >= 2 {
				s.w.Count(tag, 1)
			}
		}
		s.c.Step(a)
		if s.atEntry(a) {
			s.soloEntries++
			if s.soloEntries > spinLimit {
				d.spinning = true
			}
		}
		out = []uint64{12, arg(1), 0, 0, 0}
		hintOf = i
	case 6:
		i := int(arg(1))
		if i >= len(s.c.Acts) {
			return nil, nil, false
		}
		a := s.c.Acts[i]
		d := a.Data.(*adata)
		if (a.Kind != kAwait && a.Kind != kCAwait) || a.Done() || d.cancelled || d.spinning {
			return nil, nil, false
		}
		d.cancelled = true
		d.cancel()
		synctest.Wait()
		out = []uint64{6, arg(1)}
	case 7:
		i := int(arg(1))
		if i >= len(s.c.Acts) {
			return nil, nil, false
		}
		a := s.c.Acts[i]
		d := a.Data.(*adata)
		c := arg(2)
		if (a.Kind != kAwait && a.Kind != kCAwait) || a.Done() || d.fired || d.k == 0 || c == 0 || (d.k == 2 && c > 2) || d.spinning {
			return nil, nil, false
		}
		d.fire(c)
		synctest.Wait()
		out = []uint64{7, arg(1), c}
	case 8:
		k := int(arg(1))
		ctx, d, good := mkAwaiter(s.nawait, k, arg(2), arg(3))
		if !good {
			return nil, nil, false
		}
		s.nawait++
		a := s.c.NewActor(kCAwait)
		a.Data = d
		s.c.Go(a, func(a *ctl.Actor) {
			switch k {
			case 0:
				d.val, d.err = s.cont.Await(ctx)
			case 1:
				d.val, d.err = s.cont.AwaitWithErrCh(ctx, d.errCh)
			case 2:
				d.val, d.err = s.cont.AwaitWithCancelCh(ctx, d.cancelCh)
			}
		})
		synctest.Wait()
		out = []uint64{8, arg(1), arg(2), arg(3)}
	case 9:
		q := int(arg(1))
		if q > len(s.proms) || (q > 0 && s.proms[q-1] == nil) {
			return nil, nil, false
		}
		a := s.c.NewActor(kCSet)
		d := &adata{prom: q - 1, secCur: -2}
		a.Data = d
		s.c.Go(a, func(a *ctl.Actor) {
			if q == 0 {
				s.cont.SetPromise(nil)
			} else {
				s.cont.SetPromise(s.proms[q-1])
			}
		})
		synctest.Wait()
		out = []uint64{9, arg(1)}
	case 10:
		v, e := int(arg(1)), errOf(arg(2))
		// the container allocates a fresh pre-resolved promise: it gets the next promise id; its pointer is
		// unknown (nil here) until a GetPromise returns it
		a := s.c.NewActor(kCSet)
		d := &adata{prom: len(s.proms), secCur: -2, isRes: true}
		a.Data = d
		s.proms = append(s.proms, nil)
		s.setCalled = append(s.setCalled, true)
		s.c.Go(a, func(a *ctl.Actor) { d.retBool = s.cont.SetResult(v, e) })
		synctest.Wait()
		out = []uint64{10, arg(1), arg(2)}
	case 11:
		a := s.c.NewActor(kCGet)
		d := &adata{prom: -1, secCur: -2}
		a.Data = d
		s.c.Go(a, func(a *ctl.Actor) { d.getProm, d.getCh = s.cont.GetPromise() })
		synctest.Wait()
		out = []uint64{11}
	default:
		return nil, nil, false
	}
	if !solo {
		s.soloActor = -1
	}
	if hintOf >= 0 {
		t := s.triple(s.c.Acts[hintOf])
		copy(out[len(out)-3:], t[:])
	}
	return out, s.status(), true
}

// ---------------------------------------------------------------------------------------------------
// generation (implementation-driven)

func pickErr(r *rand.Rand) uint64 {
	x := r.IntN(100)
	switch {
	case x < 40:
		return 0
	case x < 68:
		return 1
	case x < 78:
		return 2
	}
	return uint64(3 + r.IntN(2))
}

func pickCh(r *rand.Rand, k int) uint64 {
	switch k {
	case 1:
		if r.IntN(3) == 0 {
			return 1
		}
		return 2 + pickErr(r)
	case 2:
		return uint64(1 + r.IntN(2))
	}
	return 0
}

// resolvedOrNil: the container's current promise is nil, or a result for it exists / is being published
func (s *sys) curSettled() bool { return s.cur < 0 || s.setCalled[s.cur] }

// genAvoids: ev is applicable but gen never produces it in the current situation, because it runs into the known finding
// D20 (the two guards of gen below: no section of a fired container awaiter that would find a pending promise, no firing
// of the channel of a container awaiter that is past its section on a non-nil promise).  A corpus prefix replayed at the
// head of a random history ends there.
func (s *sys) genAvoids(ev []uint64) bool {
	if len(ev) < 2 || (ev[0] != 5 && ev[0] != 7) || ev[1] >= uint64(len(s.c.Acts)) {
		return false
	}
	a := s.c.Acts[ev[1]]
	d := a.Data.(*adata)
	if a.Kind != kCAwait || a.Done() {
		return false
	}
	if ev[0] == 5 {
		return s.atEntry(a) && d.fired && !d.cancelled && !s.curSettled()
	}
	return !d.fired && d.k != 0 && !(s.atEntry(a) || d.secCur == -1)
}

func (s *sys) gen(r *rand.Rand, maxActs, maxProms int) []uint64 {
	var entry, exit, cancellable, fireable, known []int
	for i, p := range s.proms {
		if p != nil {
			known = append(known, i)
		}
	}
	for i, a := range s.c.Acts {
		d := a.Data.(*adata)
		if d.spinning || a.Done() {
			continue
		}
		if s.atEntry(a) {
			// D20 (known finding): a container awaiter whose channel has fired is not sent into a section that
			// would find a pending promise (it would stay blocked although its channel fired)
			if !(a.Kind == kCAwait && d.fired && !d.cancelled && !s.curSettled()) {
				entry = append(entry, i)
			}
		}
		if s.atExit(a) {
			exit = append(exit, i)
		}
		if a.Kind == kAwait || a.Kind == kCAwait {
			if !d.cancelled {
				cancellable = append(cancellable, i)
			}
			if !d.fired && d.k != 0 {
				if a.Kind == kAwait || s.atEntry(a) || d.secCur == -1 {
					fireable = append(fireable, i)
				}
			}
		}
	}
	room := len(s.c.Acts) < maxActs
	pre := func() (uint64, uint64, int) {
		k := r.IntN(3)
		ctx, ch := uint64(0), uint64(0)
		if r.IntN(8) == 0 {
			ctx = 1
		}
		if k != 0 && r.IntN(8) == 0 {
			ch = pickCh(r, k)
		}
		return ctx, ch, k
	}
	for tries := 0; tries < 200; tries++ {
		x := r.IntN(140)
		switch {
		case x < 10 && len(s.proms) < maxProms:
			return []uint64{1}
		case x < 14 && len(s.proms) < maxProms:
			return []uint64{2, uint64(r.IntN(5)), pickErr(r)}
		case x < 30 && room && len(known) > 0:
			return []uint64{3, uint64(known[r.IntN(len(known))]), uint64(r.IntN(5)), pickErr(r)}
		case x < 48 && room && len(known) > 0:
			ctx, ch, k := pre()
			return []uint64{4, uint64(k), uint64(known[r.IntN(len(known))]), ctx, ch, 0, 0, 0}
		case x < 78 && len(entry) > 0:
			return []uint64{5, uint64(entry[r.IntN(len(entry))]), 0, 0, 0}
		case x < 88 && len(exit) > 0:
			return []uint64{12, uint64(exit[r.IntN(len(exit))]), 0, 0, 0}
		case x < 94 && len(cancellable) > 0:
			return []uint64{6, uint64(cancellable[r.IntN(len(cancellable))])}
		case x < 100 && len(fireable) > 0:
			i := fireable[r.IntN(len(fireable))]
			return []uint64{7, uint64(i), pickCh(r, s.c.Acts[i].Data.(*adata).k)}
		case x < 110 && room:
			ctx, ch, k := pre()
			return []uint64{8, uint64(k), ctx, ch}
		case x < 119 && room:
			q := 0
			if len(known) > 0 && r.IntN(5) != 0 {
				q = known[r.IntN(len(known))] + 1
			}
			return []uint64{9, uint64(q)}
		case x < 124 && room && len(s.proms) < maxProms:
			return []uint64{10, uint64(r.IntN(5)), pickErr(r)}
		case x < 126 && room:
			return []uint64{11}
		case x >= 126 && len(entry)+len(exit) > 0:
			// drain: prefer letting parked actors run so that quiescent points are reached
			if len(entry) > 0 {
				return []uint64{5, uint64(entry[r.IntN(len(entry))]), 0, 0, 0}
			}
			return []uint64{12, uint64(exit[r.IntN(len(exit))]), 0, 0, 0}
		}
	}
	return nil
}

func (s *sys) teardown() {
	for _, a := range s.c.Acts {
		if d, ok := a.Data.(*adata); ok && d != nil && d.cancel != nil {
			d.cancel()
		}
	}
	synctest.Wait()
	s.c.Free()
	synctest.Wait()
	broadcast.VerifHook = nil
	promise.VerifHook = nil
}

func (s *sys) count(ev, obs []uint64, prev []uint64) {
	names := map[uint64]string{1: "newpromise", 2: "newpromise_with_result", 3: "setresult", 4: "await", 5: "step", 6: "cancel",
		7: "fire", 8: "c_await", 9: "c_setpromise", 10: "c_setresult", 11: "c_getpromise", 12: "step_exit"}
	s.w.Count("ev."+names[ev[0]], 1)
	switch ev[0] {
	case 4, 8:
		d := s.c.Acts[len(s.c.Acts)-1].Data.(*adata)
		s.w.Count("ev."+names[ev[0]]+".flavour."+flavName[d.flav], 1)
		if d.cancelled {
			s.w.Count("ev."+names[ev[0]]+".precancelled.flavour."+flavName[d.flav], 1)
		}
	case 6:
		a := s.c.Acts[ev[1]]
		what := "direct"
		if a.Kind == kCAwait {
			what = "container"
		}
		state := "parked"
		if 3*int(ev[1]) < len(prev) && prev[3*ev[1]] == 2 {
			state = "blocked"
		}
		s.w.Count("ev.cancel."+what+"."+state+".flavour."+flavName[a.Data.(*adata).flav], 1)
	}
	quiet, nb := true, 0
	for i := 0; i+2 < len(obs); i += 3 {
		switch obs[i] {
		case 1:
			quiet = false
		case 2:
			nb++
		case 7:
			s.w.Count("obs.spinning", 1)
		}
		fresh := i >= len(prev) || prev[i] != obs[i]
		if !fresh {
			continue
		}
		a := s.c.Acts[i/3]
		d := a.Data.(*adata)
		switch {
		case obs[i] == 3 && obs[i+1] == 0:
			// a SetResult lost: is the winner still before its writes?
			for _, b := range s.c.Acts {
				if b.Kind == kSet && !b.Done() && b.Parked() && b.Data.(*adata).prom == d.prom {
					s.w.Count("sit.setresult_false_before_winner_published", 1)
				}
			}
			s.w.Count("sit.setresult_false", 1)
		case obs[i] == 3 && obs[i+1] == 1:
			s.w.Count("sit.setresult_true", 1)
		case obs[i] == 4 && a.Kind == kAwait:
			s.w.Count("sit.await_returned", 1)
			if d.cancelled && d.err == context.Canceled {
				s.w.Count("sit.await_returned_ctx", 1)
				s.w.Count(fmt.Sprintf("sit.await_returned_ctx.kind%d.flavour.%s", d.k, flavName[d.flav]), 1)
			}
			if d.err == context.DeadlineExceeded && d.cancelled && d.flav == 1 {
				// only legitimate as the promise's own result
				s.w.Count("sit.await_of_ended_deadline_ctx_returned_deadline_exceeded", 1)
			}
		case obs[i] == 4 && a.Kind == kCAwait:
			s.w.Count("sit.c_await_returned", 1)
			if d.cancelled && d.err == context.Canceled {
				where := "past_section"
				if d.secCur == -1 {
					where = "nil_promise"
				} else if d.secCur == -2 {
					where = "before_section"
				}
				s.w.Count(fmt.Sprintf("sit.c_await_returned_ctx.kind%d.%s.flavour.%s", d.k, where, flavName[d.flav]), 1)
			}
			if !d.cancelled && d.err == context.Canceled && !d.fired {
				s.w.Count("sit.c_await_returned_canceled_result_live_ctx", 1)
			}
		case obs[i] == 1 && a.Kind == kCAwait && i < len(prev) && prev[i] == 2:
			s.w.Count("sit.c_await_woken_by_replacement", 1)
		}
	}
	if ev[0] == 4 || ev[0] == 5 || ev[0] == 12 {
		// several select cases may have been ready for the stepped awaiter
		a := s.c.Acts[len(s.c.Acts)-1]
		if ev[0] != 4 {
			a = s.c.Acts[int(ev[1])]
		}
		d := a.Data.(*adata)
		if (a.Kind == kAwait || a.Kind == kCAwait) && a.Done() {
			n := 0
			if d.cancelled {
				n++
			}
			if d.fired {
				n++
			}
			if n >= 1 && obs[3*a.ID] == 4 && !(obs[3*a.ID+1] == 0 && obs[3*a.ID+2] == 1) {
				s.w.Count("sit.returned_result_although_cancel_ready", 1)
			}
		}
	}
	if quiet {
		s.w.Count("obs.quiescent_points", 1)
		if nb > 0 {
			s.w.Count("obs.quiescent_with_blocked", 1)
		}
	}
	if nb >= 2 {
		s.w.Count("obs.two_or_more_blocked", 1)
	}
}

// watchdog: a goroutine that spins between two gates never lets synctest.Wait return
func watchdog(id string) *time.Timer {
	return time.AfterFunc(30*time.Second, func() {
		fmt.Fprintf(os.Stderr, "WATCHDOG: history %s did not finish within 30s of wall-clock time (a goroutine spins without blocking?)\n", id)
		os.Exit(3)
	})
}

// corpusMotifs: the scheduled corpus histories (not the stress ones), used as PREFIXES of a share of the random
// histories (a random cut of a random corpus history is replayed first, then generation continues at random from the
// situation it reached): the corner cases that were worth writing down are then also explored in their neighbourhood.
var corpusMotifs []hist.H

func runRandom(t *testing.T, w *hist.W, h int) {
	r := hist.Rng(h)
	id := fmt.Sprintf("r%d", h)
	wd := watchdog(id)
	defer wd.Stop()
	synctest.Test(t, func(t *testing.T) {
		hx := r.IntN(3) == 0
		var prefix [][]uint64
		if len(corpusMotifs) > 0 && r.IntN(6) == 0 {
			m := corpusMotifs[r.IntN(len(corpusMotifs))]
			if len(m.Evs) > 0 {
				hx = len(m.Cfg) > 0 && m.Cfg[0] == 1
				prefix = m.Evs[:1+r.IntN(len(m.Evs))]
			}
		}
		s := newSys(w, hx)
		defer s.teardown()
		cfg := uint64(0)
		if hx {
			cfg = 1
		}
		w.Begin(id, []uint64{cfg})
		var prev []uint64
		for _, ev := range prefix {
			if s.genAvoids(ev) {
				// the corpus history pins the known finding D20 from here on: random histories stay clear of it
				break
			}
			out, obs, ok := s.exec(append([]uint64{}, ev...))
			if !ok {
				break
			}
			s.count(out, obs, prev)
			prev = obs
			w.Step(out, obs)
			w.Flush()
		}
		if prefix != nil {
			w.Count("random_with_corpus_prefix", 1)
		}
		steps := 10 + r.IntN(50)
		maxActs := 4 + r.IntN(10)
		maxProms := 1 + r.IntN(6)
		if prefix != nil {
			maxActs += len(s.c.Acts)
			maxProms += len(s.proms)
		}
		for k := 0; k < steps; k++ {
			ev := s.gen(r, maxActs, maxProms)
			if ev == nil {
				break
			}
			out, obs, ok := s.exec(ev)
			if !ok {
				w.Count("gen.not_applicable", 1)
				break
			}
			s.count(out, obs, prev)
			prev = obs
			w.Step(out, obs)
			w.Flush()
		}
		w.Count(fmt.Sprintf("len.%02d", min(steps/10, 6)*10), 1)
		if hx {
			w.Count("histories.exit_gates", 1)
		}
	})
}

func runFixed(t *testing.T, w *hist.W, id string, cfg []uint64, evs [][]uint64) {
	wd := watchdog(id)
	defer wd.Stop()
	synctest.Test(t, func(t *testing.T) {
		hx := len(cfg) > 0 && cfg[0] == 1
		s := newSys(w, hx)
		defer s.teardown()
		c := uint64(0)
		if hx {
			c = 1
		}
		w.Begin(id, []uint64{c})
		var prev []uint64
		for _, ev := range evs {
			out, obs, ok := s.exec(ev)
			if !ok {
				// the event is not applicable on the implementation (the history has diverged earlier)
				w.Count("fixed.truncated", 1)
				break
			}
			s.count(out, obs, prev)
			prev = obs
			w.Step(out, obs)
			w.Flush()
		}
	})
}

// runStress: free-running rounds (no gates, no bubble, real parallelism) of ns SetResult calls racing with na awaiters on a
// fresh promise.  It looks for what a controller that runs one segment at a time cannot produce: interleavings of the
// memory accesses inside one segment (Swap vs. Load+Store, fields written after close).
func stressRounds(ns, na, iters int, seed uint64) []uint64 {
	r := rand.New(rand.NewPCG(seed, 0x5eed))
	tOK, dOK, panics := uint64(1), uint64(1), uint64(0)
	var mu sync.Mutex
	for it := 0; it < iters; it++ {
		p := promise.NewPromise[int]()
		start := make(chan struct{})
		var wg sync.WaitGroup
		rets := make([]bool, ns)
		errs := make([]uint64, ns)
		avals := make([]int, na)
		aerrs := make([]uint64, na)
		for i := range errs {
			errs[i] = pickErr(r)
		}
		guard := func() {
			if x := recover(); x != nil {
				mu.Lock()
				panics++
				mu.Unlock()
			}
			wg.Done()
		}
		for i := 0; i < ns; i++ {
			wg.Add(1)
			go func(i int) {
				defer guard()
				<-start
				rets[i] = p.SetResult(i+1, errOf(errs[i]))
			}(i)
		}
		for i := 0; i < na; i++ {
			wg.Add(1)
			kind := r.IntN(3)
			go func(i int) {
				defer guard()
				<-start
				var v int
				var e error
				switch kind {
				case 0:
					v, e = p.Await(context.Background())
				case 1:
					v, e = p.AwaitWithErrCh(context.Background(), make(chan error))
				default:
					v, e = p.AwaitWithCancelCh(context.Background(), make(chan struct{}))
				}
				avals[i], aerrs[i] = v, errCode(e)
			}(i)
		}
		close(start)
		done := make(chan struct{})
		go func() { wg.Wait(); close(done) }()
		select {
		case <-done:
		case <-time.After(10 * time.Second):
			// an awaiter never returned (or a panicking setter left the promise unresolved)
			return []uint64{tOK, 0, panics + 1000}
		}
		win := -1
		nt := 0
		for i, b := range rets {
			if b {
				nt++
				win = i
			}
		}
		if nt != 1 {
			tOK = uint64(nt) // 0 or >= 2
			continue
		}
		for i := range avals {
			if avals[i] != win+1 || aerrs[i] != errs[win] {
				dOK = 0
			}
		}
	}
	return []uint64{tOK, dOK, panics}
}

func runStress(w *hist.W, id string, ev []uint64, seed uint64) {
	broadcast.VerifHook = nil
	promise.VerifHook = nil
	if len(ev) < 4 || ev[1] < 1 || ev[1] > 16 || ev[2] > 32 || ev[3] > 100000 {
		return
	}
	w.Begin(id, []uint64{0})
	obs := stressRounds(int(ev[1]), int(ev[2]), int(ev[3]), seed)
	w.Step(ev, obs)
	w.Count("ev.stress", 1)
	w.Count("stress.rounds", int(ev[3]))
	w.Flush()
}

// runSaturate: ONE very long history on one promise (thorough runs only).  After the winning SetResult the promise
// receives 2^32 further SetResult calls; the calls number 2^8+1, 2^16+1 and 2^32+1 (counting the winner as number 1) are
// ordinary recorded events, all others are made directly by the controller and ELIDED from the history: by the model's
// theorem c11_setresult_on_resolved_is_noop a SetResult on a resolved promise returns false and changes nothing, so
// leaving such events out of a history does not change what the model predicts for the rest.  An elided call that
// returns true (or panics) ends the run with exit status 3, the history so far on disk.  What this reaches: a "done"
// indication kept in a counter that wraps around (8, 16 or 32 bits wide).
func runSaturate(t *testing.T, w *hist.W) {
	synctest.Test(t, func(t *testing.T) {
		s := newSys(w, false)
		defer s.teardown()
		w.Begin("saturate", []uint64{0})
		var prev []uint64
		step := func(ev []uint64) bool {
			out, obs, ok := s.exec(ev)
			if !ok {
				w.Count("saturate.truncated", 1)
				return false
			}
			s.count(out, obs, prev)
			prev = obs
			w.Step(out, obs)
			w.Flush()
			return true
		}
		if !step([]uint64{1}) || !step([]uint64{3, 0, 7, 0}) || !step([]uint64{5, 0, 0, 0, 0}) {
			return
		}
		p := s.proms[0]
		k := uint64(1) // calls made so far
		for _, target := range []uint64{1 << 8, 1 << 16, 1 << 32} {
			for k < target {
				n := min(target-k, 1<<24)
				w.Alive()
				// n elided calls under one recover
				done, won, pn := func() (done uint64, won bool, pn any) {
					defer func() { pn = recover() }()
					for ; done < n; done++ {
						if p.SetResult(8, nil) {
							return done, true, nil
						}
					}
					return done, false, nil
				}()
				k += done
				if won || pn != nil {
					w.Count("saturate.elided_call_returned_true_or_panicked", 1)
					fmt.Fprintf(os.Stderr, "saturate: SetResult call number %d on the resolved promise returned %v (panic: %v)\n", k+1, won, pn)
					_ = w.Close()
					os.Exit(3)
				}
			}
			if !step([]uint64{3, 0, 8, 0}) {
				return
			}
			k++
			if a := s.c.Acts[len(s.c.Acts)-1]; a.Parked() {
				// the call believes it has won and is at its gate: let it run on, so that the damage shows
				step([]uint64{5, uint64(len(s.c.Acts) - 1), 0, 0, 0})
			}
		}
		step([]uint64{4, 0, 0, 0, 0, 0, 0, 0})
		w.Count("saturate.calls_in_millions", int(k>>20))
	})
}

var saturate = flag.Bool("saturate", false, "run the saturation history whatever -n is")

func TestPromise(t *testing.T) {
	w, err := hist.Open("promise")
	if err != nil {
		t.Fatal(err)
	}
	defer w.Close()
	if *hist.Replay != "" {
		hs, err := hist.Load(*hist.Replay)
		if err != nil {
			t.Fatal(err)
		}
		for _, h := range hs {
			if len(h.Evs) == 1 && len(h.Evs[0]) > 0 && h.Evs[0][0] == 20 {
				runStress(w, h.ID, h.Evs[0], *hist.Seed)
				continue
			}
			runFixed(t, w, h.ID, h.Cfg, h.Evs)
		}
		return
	}
	corpusMotifs = nil
	for _, h := range hist.LoadCorpus(*hist.Corpus) {
		if len(h.Evs) == 1 && len(h.Evs[0]) > 0 && h.Evs[0][0] == 20 {
			runStress(w, h.ID, h.Evs[0], *hist.Seed)
		} else {
			runFixed(t, w, h.ID, h.Cfg, h.Evs)
			corpusMotifs = append(corpusMotifs, h)
		}
		w.Count("corpus", 1)
	}
	if *hist.NHist >= 100000 || *saturate {
		// thorough runs only (it takes 10 to 40 s)
		runSaturate(t, w)
	}
	for h := 0; h < *hist.NHist; h++ {
		w.Flush()
		if h%10 == 9 {
			// every tenth history is a free-running stress history
			r := hist.Rng(h)
			runStress(w, fmt.Sprintf("s%d", h), []uint64{20, uint64(2 + r.IntN(4)), uint64(1 + r.IntN(5)), 100}, *hist.Seed+uint64(h))
			continue
		}
		runRandom(t, w, h)
	}
}
