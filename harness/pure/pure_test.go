// Differential harness for C19: padding, commonprefix, prng reader.
// Every case is one history with a single event.  gen* produce events, exec runs the real
// code on an event and returns the observation (so corpus and replay files are re-executed
// from their events alone).
package pure

import (
	"bytes"
	"fmt"
	"math/rand/v2"
	"testing"

	"github.com/aperturerobotics/util/commonprefix"
	"github.com/aperturerobotics/util/padding"
	"github.com/aperturerobotics/util/prng"
	"verif/harness/hist"
)

func u(bs []byte) []uint64 {
	out := make([]uint64, len(bs))
	for i, b := range bs {
		out[i] = uint64(b)
	}
	return out
}

func b(us []uint64) []byte {
	out := make([]byte, len(us))
	for i, x := range us {
		out[i] = byte(x)
	}
	return out
}

func encStrs(ss [][]byte) []uint64 {
	var out []uint64
	for _, s := range ss {
		out = append(out, uint64(len(s)))
		out = append(out, u(s)...)
	}
	return out
}

func decStrs(n int, l []uint64) ([][]byte, []uint64) {
	var ss [][]byte
	for i := 0; i < n; i++ {
		k := int(l[0])
		ss = append(ss, b(l[1:1+k]))
		l = l[1+k:]
	}
	return ss, l
}

func randBytes(r *rand.Rand, n int, alphabet int) []byte {
	out := make([]byte, n)
	for i := range out {
		switch alphabet {
		case 0:
			out[i] = byte(r.IntN(256))
		case 1:
			out[i] = byte('a' + r.IntN(2))
		default: // high bytes: invalid and valid UTF-8 fragments
			out[i] = []byte{0x80, 0xc3, 0xa9, 0xff, 0xe2, 0x82, 0xac, 'x'}[r.IntN(8)]
		}
	}
	return out
}

var boundaryLens = []int{0, 1, 2, 30, 31, 32, 33, 34, 62, 63, 64, 65, 66, 95, 96, 4095, 4096, 4097}

func pickLen(r *rand.Rand) int {
	if r.IntN(3) == 0 {
		return boundaryLens[r.IntN(len(boundaryLens))]
	}
	return r.IntN(130)
}

func doUnpad(d []byte) (obs []uint64) {
	defer func() {
		if rec := recover(); rec != nil {
			obs = []uint64{0}
		}
	}()
	var in []byte // nil for the empty message
	if len(d) > 0 {
		in = append([]byte(nil), d...)
	}
	out, err := padding.UnpadInPlace(in)
	if err != nil {
		return []uint64{1}
	}
	return append([]uint64{2}, u(out)...)
}

type logSrc struct {
	src   rand.Source
	vals  []uint64 // replayed values (replay mode)
	draws int
}

func (l *logSrc) Uint64() uint64 {
	var v uint64
	if l.draws < len(l.vals) {
		v = l.vals[l.draws]
	}
	l.draws++
	return v
}

// exec runs the real code on one event.
func exec(w *hist.W, ev []uint64) []uint64 {
	switch ev[0] {
	case 1: // pad: [1, len x, x..., tail...]
		lx := int(ev[1])
		x, tail := b(ev[2:2+lx]), b(ev[2+lx:])
		arr := make([]byte, len(x)+len(tail))
		copy(arr, x)
		copy(arr[len(x):], tail)
		out := padding.PadInPlace(arr[:len(x):len(arr)])
		return u(out)
	case 2:
		obs := doUnpad(b(ev[1:]))
		w.Count(fmt.Sprintf("unpad.out_%d", obs[0]), 1)
		return obs
	case 3:
		x := b(ev[1:])
		return doUnpad(padding.PadInPlace(append([]byte(nil), x...)))
	case 8:
		lx := int(ev[1])
		x, tail := b(ev[2:2+lx]), b(ev[2+lx:])
		arr := make([]byte, len(x)+len(tail))
		copy(arr, x)
		copy(arr[len(x):], tail)
		return doUnpad(padding.PadInPlace(arr[:len(x):len(arr)]))
	case 4, 5:
		ss, _ := decStrs(int(ev[1]), ev[2:])
		strs := make([]string, len(ss))
		for i := range ss {
			strs[i] = string(ss[i])
		}
		if ev[0] == 4 {
			out := commonprefix.Prefix(strs...)
			w.Count(fmt.Sprintf("prefix.n%d.len%d", len(ss), min(len(out), 3)), 1)
			return u([]byte(out))
		}
		commonprefix.TrimPrefix(strs...)
		outs := make([][]byte, len(strs))
		for i := range strs {
			outs[i] = []byte(strs[i])
		}
		return encStrs(outs)
	case 6: // [6, nvals, vals..., chunks...]: reader over a source that yields vals
		nv := int(ev[1])
		ls := &logSrc{vals: ev[2 : 2+nv]}
		rd := prng.SourceToReader(ls)
		var outs [][]byte
		for _, c := range ev[2+nv:] {
			p := make([]byte, c)
			n, err := rd.Read(p)
			if err != nil {
				n = 0
			}
			outs = append(outs, p[:n])
		}
		return append([]uint64{uint64(ls.draws)}, encStrs(outs)...)
	case 7: // [7, n1, strs1..., n2, strs2...]
		d1, rest := decStrs(int(ev[1]), ev[2:])
		d2, _ := decStrs(int(rest[0]), rest[1:])
		r1, r2 := prng.BuildSeededReader(d1...), prng.BuildSeededReader(d2...)
		b1, b2 := make([]byte, 64), make([]byte, 64)
		for off, k := 0, 1; off < 64; k = k%11 + 1 { // different chunkings
			k = min(64-off, k)
			_, _ = r1.Read(b1[off : off+k])
			off += k
		}
		_, _ = r2.Read(b2)
		s1, s2 := prng.BuildSeededRand(d1...), prng.BuildSeededRand(d2...)
		eq := bytes.Equal(b1, b2)
		for i := 0; i < 4; i++ {
			if (s1.Uint64() == s2.Uint64()) != eq {
				return []uint64{2} // reader and source disagree about equality
			}
		}
		if eq {
			return []uint64{1}
		}
		return []uint64{0}
	}
	return []uint64{99}
}

func genStrs(r *rand.Rand) [][]byte {
	n := r.IntN(7)
	alpha := r.IntN(3)
	shared := randBytes(r, r.IntN(6), alpha)
	ss := make([][]byte, n)
	for i := range ss {
		k := r.IntN(len(shared) + 1)
		if r.IntN(3) > 0 {
			k = len(shared)
		}
		s := append([]byte(nil), shared[:k]...)
		s = append(s, randBytes(r, r.IntN(4), alpha)...)
		ss[i] = s
	}
	if n > 0 && r.IntN(8) == 0 { // all equal
		for i := range ss {
			ss[i] = append([]byte(nil), ss[0]...)
		}
	}
	return ss
}

func gen(w *hist.W, kind int, r *rand.Rand) []uint64 {
	switch kind {
	case 1: // pad with capacity variants
		x := randBytes(r, pickLen(r), 0)
		need := 32 - (len(x)+1)%32
		if need == 32 {
			need = 0
		}
		need++ // trailer
		var tl int
		switch r.IntN(5) {
		case 0:
			tl = 0
		case 1:
			tl = 1
		case 2:
			tl = need
		case 3:
			tl = need - 1
		default:
			tl = need + r.IntN(40)
		}
		tail := make([]byte, tl)
		for i := range tail {
			tail[i] = byte(1 + r.IntN(255)) // dirty
		}
		w.Count(fmt.Sprintf("pad.cap_%s", map[bool]string{true: "inplace", false: "alloc"}[tl >= need]), 1)
		code := uint64(1)
		if r.IntN(3) == 0 {
			// the round trip INSIDE the re-used buffer: PadInPlace into dirty spare capacity, then UnpadInPlace
			code = 8
			w.Count("round.reused_buffer", 1)
		}
		ev := append([]uint64{code, uint64(len(x))}, u(x)...)
		return append(ev, u(tail)...)
	case 2: // unpad on arbitrary / crafted input
		var d []byte
		switch r.IntN(6) {
		case 0:
			d = nil
		case 1:
			d = padding.PadInPlace(randBytes(r, pickLen(r), 0))
		case 2: // valid padding then corrupt trailer
			d = padding.PadInPlace(randBytes(r, r.IntN(70), 0))
			d[len(d)-1] = byte(r.IntN(256))
		case 3: // short messages with small trailer
			d = randBytes(r, 1+r.IntN(34), 0)
			d[len(d)-1] = byte(r.IntN(36))
		case 4: // trailer around len-1
			n := 1 + r.IntN(33)
			d = randBytes(r, n, 0)
			d[n-1] = byte(max(0, n-2+r.IntN(3)))
		default:
			d = randBytes(r, r.IntN(100), 0)
		}
		return append([]uint64{2}, u(d)...)
	case 3:
		w.Count("round", 1)
		return append([]uint64{3}, u(randBytes(r, pickLen(r), 0))...)
	case 4, 5:
		ss := genStrs(r)
		if kind == 5 {
			w.Count("trim", 1)
		}
		return append([]uint64{uint64(kind), uint64(len(ss))}, encStrs(ss)...)
	case 6: // reader chunking over the draws of a real seeded ChaCha8 source
		src := prng.BuildSeededRand(randBytes(r, r.IntN(10), 0))
		nch := r.IntN(8)
		chunks := make([]uint64, nch)
		total := 0
		for i := range chunks {
			c := r.IntN(12)
			if r.IntN(6) == 0 {
				c = 8 * r.IntN(4)
			}
			if r.IntN(10) == 0 {
				c = 17 + r.IntN(40)
			}
			chunks[i] = uint64(c)
			total += c
		}
		nv := (total + 7) / 8
		ev := []uint64{6, uint64(nv)}
		for i := 0; i < nv; i++ {
			ev = append(ev, src.Uint64())
		}
		w.Count("read", 1)
		w.Count("read.chunks", nch)
		return append(ev, chunks...)
	default: // 7: equal seed data, different splits
		data := randBytes(r, r.IntN(24), 0)
		split := func() [][]byte {
			var parts [][]byte
			rest := data
			for len(rest) > 0 && r.IntN(4) > 0 {
				k := r.IntN(len(rest) + 1)
				parts = append(parts, rest[:k])
				rest = rest[k:]
			}
			return append(parts, rest)
		}
		d1, d2 := split(), split()
		if r.IntN(5) == 0 { // different data: the streams must differ
			d2 = append(d2, []byte{byte(r.IntN(256))})
			w.Count("seed.different", 1)
		} else {
			w.Count("seed.same", 1)
		}
		ev := append([]uint64{7, uint64(len(d1))}, encStrs(d1)...)
		ev = append(ev, uint64(len(d2)))
		return append(ev, encStrs(d2)...)
	}
}

func TestPure(t *testing.T) {
	w, err := hist.Open("pure")
	if err != nil {
		t.Fatal(err)
	}
	defer w.Close()
	if *hist.Replay != "" {
		hs, err := hist.Load(*hist.Replay)
		if err != nil {
			t.Fatal(err)
		}
		for _, h := range hs {
			w.Begin(h.ID, h.Cfg)
			for _, ev := range h.Evs {
				w.Step(ev, exec(w, ev))
			}
		}
		return
	}
	for _, h := range hist.LoadCorpus(*hist.Corpus) {
		w.Begin(h.ID, h.Cfg)
		for _, ev := range h.Evs {
			w.Step(ev, exec(w, ev))
		}
		w.Count("corpus", 1)
	}
	// fixed boundary cases (deterministic, independent of the seed)
	for _, n := range boundaryLens {
		x := bytes.Repeat([]byte{0xAB}, n)
		ev := append([]uint64{3}, u(x)...)
		w.Begin(fmt.Sprintf("fixed-round-%d", n), nil)
		w.Step(ev, exec(w, ev))
	}
	for h := 0; h < *hist.NHist; h++ {
		r := hist.Rng(h)
		ev := gen(w, 1+h%7, r)
		w.Begin(fmt.Sprintf("r%d", h), nil)
		w.Step(ev, exec(w, ev))
	}
}
