// Scheduled correspondence harness for csync.Mutex and csync.RWMutex (C01, C02).
//
// Events:  [1 w] Lock(ctx, write=w) in a new actor   [2 w] TryLock(w) in a new actor
//          [3 i] let actor i run its next critical section (it is parked at a HoldLock gate)
//          [4 i] cancel the context of Lock actor i   [5 i] call the release function of actor i (new actor)
//          [6 w] Locker.Lock on the write (w=1, Locker()) / read (w=0, RLocker()) sync.Locker of the lock, in a new actor
//          [7 w] Locker.Unlock on that locker, in a new actor (9 = it panicked: unlock of an unlocked locker)
// Observation after every event: one status code per actor
//          1 at a gate, 2 blocked inside Lock, 3 returned ok, 4 returned Canceled, 5 TryLock false, 6 release() returned
package csyncx

import (
	"context"
	"fmt"
	"math/rand/v2"
	"sync"
	"testing"
	"testing/synctest"

	"github.com/aperturerobotics/util/broadcast"
	"github.com/aperturerobotics/util/csync"
	"verif/harness/ctl"
	"verif/harness/hist"
)

const (
	kLock   = 1
	kTry    = 2
	kRel    = 3
	kLocker = 4
)

type lockAPI interface {
	Lock(ctx context.Context, write bool) (func(), error)
	TryLock(write bool) (func(), bool)
	Locker(write bool) sync.Locker
}

type mutexAPI struct{ m csync.Mutex }

func (m *mutexAPI) Lock(ctx context.Context, _ bool) (func(), error) { return m.m.Lock(ctx) }
func (m *mutexAPI) TryLock(_ bool) (func(), bool)                    { return m.m.TryLock() }
func (m *mutexAPI) Locker(_ bool) sync.Locker                        { return m.m.Locker() }

type rwAPI struct{ m csync.RWMutex }

func (m *rwAPI) Lock(ctx context.Context, w bool) (func(), error) { return m.m.Lock(ctx, w) }
func (m *rwAPI) TryLock(w bool) (func(), bool)                    { return m.m.TryLock(w) }
func (m *rwAPI) Locker(w bool) sync.Locker {
	if w {
		return m.m.Locker()
	}
	return m.m.RLocker()
}

// deadlineCtx ends when its parent is cancelled but reports context.DeadlineExceeded, as a context whose deadline
// passed does (the library must still return context.Canceled from Lock).
type deadlineCtx struct{ context.Context }

func (c deadlineCtx) Err() error {
	if c.Context.Err() != nil {
		return context.DeadlineExceeded
	}
	return nil
}

type adata struct {
	cancel    context.CancelFunc
	cancelled bool
	release   func()
	write     bool
}

type sys struct {
	nlock int // Lock calls so far
	c    *ctl.Ctl
	l    lockAPI
	w    *hist.W
	rw   bool
	nrel int
	// the two sync.Locker objects (write, read) and how many grants each holds, as the harness sees it
	lockers [2]sync.Locker
	held    [2]int
}

func newSys(w *hist.W, rw bool) *sys {
	s := &sys{c: ctl.New(), w: w, rw: rw}
	if rw {
		s.l = &rwAPI{}
	} else {
		s.l = &mutexAPI{}
	}
	s.lockers[1] = s.l.Locker(true)
	s.lockers[0] = s.l.Locker(false)
	broadcast.VerifHook = s.c.HookFor("broadcast", []int{0, 2}, []int{1, 3})
	return s
}

func (s *sys) status() []uint64 {
	out := make([]uint64, len(s.c.Acts))
	for i, a := range s.c.Acts {
		switch {
		case a.Panicked() != nil:
			out[i] = 9
		case a.Done():
			out[i] = uint64(a.Res)
		case a.Parked():
			out[i] = 1
		default:
			out[i] = 2
		}
	}
	return out
}

// exec applies one event to the real lock; ok=false if the event is not applicable now.
func (s *sys) exec(ev []uint64) (obs []uint64, ok bool) {
	switch ev[0] {
	case 1:
		ctx, cancel := context.WithCancel(context.Background())
		s.nlock++
		if s.nlock%3 == 0 {
			// every third Lock call gets a context that ends like a deadline: Err() is context.DeadlineExceeded
			ctx = deadlineCtx{ctx}
		}
		write := ev[1] == 1
		a := s.c.NewActor(kLock)
		d := &adata{cancel: cancel, write: write}
		a.Data = d
		s.c.Go(a, func(a *ctl.Actor) {
			rel, err := s.l.Lock(ctx, write)
			if err == context.Canceled {
				a.Res = 4
			} else if err != nil {
				a.Res = 7 // any other error: the property names context.Canceled
			} else {
				d.release = rel
				a.Res = 3
			}
		})
		synctest.Wait()
	case 2:
		write := ev[1] == 1
		a := s.c.NewActor(kTry)
		d := &adata{write: write}
		a.Data = d
		s.c.Go(a, func(a *ctl.Actor) {
			rel, got := s.l.TryLock(write)
			if got {
				d.release = rel
				a.Res = 3
			} else {
				a.Res = 5
			}
		})
		synctest.Wait()
	case 3:
		i := int(ev[1])
		if i >= len(s.c.Acts) || !s.c.Acts[i].Parked() {
			return nil, false
		}
		s.c.Step(s.c.Acts[i])
	case 4:
		i := int(ev[1])
		if i >= len(s.c.Acts) || s.c.Acts[i].Kind != kLock {
			return nil, false
		}
		d := s.c.Acts[i].Data.(*adata)
		d.cancelled = true
		d.cancel()
		synctest.Wait()
	case 5:
		i := int(ev[1])
		if i >= len(s.c.Acts) || !s.c.Acts[i].Done() || s.c.Acts[i].Res != 3 {
			return nil, false
		}
		rel := s.c.Acts[i].Data.(*adata).release
		a := s.c.NewActor(kRel)
		s.nrel++
		s.c.Go(a, func(a *ctl.Actor) {
			rel()
			a.Res = 6
		})
		synctest.Wait()
	case 6:
		w := ev[1] & 1
		if !s.rw {
			w = 1
		}
		ev[1] = w
		lk := s.lockers[w]
		a := s.c.NewActor(kLocker)
		a.Data = &adata{write: w == 1}
		s.c.Go(a, func(a *ctl.Actor) {
			lk.Lock()
			a.Res = 3
		})
		synctest.Wait()
	case 7:
		w := ev[1] & 1
		if !s.rw {
			w = 1
		}
		ev[1] = w
		lk := s.lockers[w]
		a := s.c.NewActor(kRel)
		s.nrel++
		s.c.Go(a, func(a *ctl.Actor) {
			lk.Unlock()
			a.Res = 6
		})
		synctest.Wait()
	default:
		return nil, false
	}
	return s.status(), true
}

// gen picks the next event among those the implementation allows now.
func (s *sys) gen(r *rand.Rand, maxActs int) []uint64 {
	var gates, cancellable, granted []int
	for i, a := range s.c.Acts {
		if !a.Done() && a.Parked() {
			gates = append(gates, i)
		}
		if a.Kind == kLock && !a.Done() && !a.Data.(*adata).cancelled {
			cancellable = append(cancellable, i)
		}
		if a.Done() && a.Res == 3 && a.Kind != kLocker {
			granted = append(granted, i)
		}
	}
	for tries := 0; tries < 100; tries++ {
		x := r.IntN(100)
		wr := uint64(0)
		if s.rw && r.IntN(5) < 2 {
			wr = 1
		}
		switch {
		case x < 18 && len(s.c.Acts) < maxActs:
			return []uint64{1, wr}
		case x < 23 && len(s.c.Acts) < maxActs:
			return []uint64{2, wr}
		case x < 68 && len(gates) > 0:
			return []uint64{3, uint64(gates[r.IntN(len(gates))])}
		case x < 76 && len(cancellable) > 0:
			return []uint64{4, uint64(cancellable[r.IntN(len(cancellable))])}
		case x >= 94 && len(s.c.Acts) < maxActs+4:
			// Locker.Unlock: mostly when the locker holds something, sometimes on an unlocked locker (must panic)
			lw := uint64(r.IntN(2))
			if !s.rw {
				lw = 1
			}
			return []uint64{7, lw}
		case x >= 88 && x < 94 && len(s.c.Acts) < maxActs:
			return []uint64{6, wr}
		case x >= 76 && len(granted) > 0 && len(s.c.Acts) < maxActs+4:
			// prefer grants that have not been released, but double releases happen too
			return []uint64{5, uint64(granted[r.IntN(len(granted))])}
		}
	}
	return nil
}

func (s *sys) teardown() {
	for _, a := range s.c.Acts {
		if d, ok := a.Data.(*adata); ok && d != nil && d.cancel != nil {
			d.cancel()
		}
	}
	s.c.Free()
	// release every grant so that nothing stays blocked
	for round := 0; round < 50 && !s.c.AllDone(); round++ {
		for _, a := range s.c.Acts {
			if d, ok := a.Data.(*adata); ok && d != nil && a.Done() && d.release != nil {
				rel := d.release
				d.release = nil
				rel()
			}
		}
		// Locker.Lock calls cannot be cancelled: unlock the lockers until they hold nothing
		for _, lk := range s.lockers {
			for i := 0; i < 20; i++ {
				if !tryUnlock(lk) {
					break
				}
			}
		}
		synctest.Wait()
	}
	broadcast.VerifHook = nil
}

// tryUnlock calls Unlock and reports whether it did not panic.
func tryUnlock(lk sync.Locker) (ok bool) {
	defer func() {
		if recover() != nil {
			ok = false
		}
	}()
	lk.Unlock()
	return true
}

func (s *sys) count(ev []uint64, obs []uint64) {
	names := map[uint64]string{1: "lock", 2: "trylock", 3: "section", 4: "cancel", 5: "release", 6: "locker.lock", 7: "locker.unlock"}
	s.w.Count("ev."+names[ev[0]], 1)
	if ev[0] == 1 && ev[1] == 1 {
		s.w.Count("ev.lock.write", 1)
	}
	nb := 0
	quiet := true
	for _, c := range obs {
		if c == 2 {
			nb++
		}
		if c == 1 {
			quiet = false
		}
	}
	if nb >= 2 {
		s.w.Count("obs.two_or_more_blocked", 1)
	}
	if quiet {
		s.w.Count("obs.quiescent_points", 1)
		if nb > 0 {
			s.w.Count("obs.quiescent_with_blocked", 1)
		}
	}
}

// corpusMotifs: the corpus histories of the model being run, used as PREFIXES of a share of the random histories (a
// random cut of a random corpus history is replayed first, then generation continues at random from the situation it
// reached): the corner cases that were worth writing down are then also explored in their neighbourhood.
var corpusMotifs []hist.H

func runRandom(t *testing.T, w *hist.W, rw bool, h int) {
	r := hist.Rng(h)
	synctest.Test(t, func(t *testing.T) {
		var prefix [][]uint64
		if len(corpusMotifs) > 0 && r.IntN(6) == 0 {
			m := corpusMotifs[r.IntN(len(corpusMotifs))]
			if len(m.Evs) > 0 {
				prefix = m.Evs[:1+r.IntN(len(m.Evs))]
			}
		}
		s := newSys(w, rw)
		defer s.teardown()
		w.Begin(fmt.Sprintf("r%d", h), nil)
		for _, ev := range prefix {
			ev = append([]uint64{}, ev...)
			obs, ok := s.exec(ev)
			if !ok {
				break
			}
			s.count(ev, obs)
			w.Step(ev, obs)
		}
		if prefix != nil {
			w.Count("random_with_corpus_prefix", 1)
		}
		steps := 10 + r.IntN(50)
		maxActs := 4 + r.IntN(8)
		if prefix != nil {
			maxActs += len(s.c.Acts)
		}
		for k := 0; k < steps; k++ {
			ev := s.gen(r, maxActs)
			if ev == nil {
				break
			}
			obs, ok := s.exec(ev)
			if !ok {
				break
			}
			s.count(ev, obs)
			w.Step(ev, obs)
		}
		w.Count(fmt.Sprintf("len.%02d", min(steps/10, 6)*10), 1)
	})
}

func runFixed(t *testing.T, w *hist.W, rw bool, id string, evs [][]uint64) {
	synctest.Test(t, func(t *testing.T) {
		s := newSys(w, rw)
		defer s.teardown()
		w.Begin(id, nil)
		for _, ev := range evs {
			obs, ok := s.exec(ev)
			if !ok {
				// the event is not applicable on the implementation (the history has diverged earlier)
				w.Count("fixed.truncated", 1)
				break
			}
			s.count(ev, obs)
			w.Step(ev, obs)
		}
	})
}

func run(t *testing.T, model string, rw bool) {
	w, err := hist.Open(model)
	if err != nil {
		t.Fatal(err)
	}
	defer w.Close()
	if *hist.Replay != "" {
		hs, err := hist.Load(*hist.Replay)
		if err != nil {
			t.Fatal(err)
		}
		for _, h := range hs {
			runFixed(t, w, rw, h.ID, h.Evs)
		}
		return
	}
	corpusMotifs = hist.LoadCorpus(*hist.Corpus)
	for _, h := range corpusMotifs {
		runFixed(t, w, rw, h.ID, h.Evs)
		w.Count("corpus", 1)
	}
	for h := 0; h < *hist.NHist; h++ {
		w.Flush()
		runRandom(t, w, rw, h)
	}
}

func TestRWMutex(t *testing.T) { run(t, "rwmutex", true) }
func TestMutex(t *testing.T)   { run(t, "mutex", false) }
