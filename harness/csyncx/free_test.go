// Free-running search for a failing input (C01), used by ./check only when the gate-level correspondence of the csync
// models no longer checks and no scheduled history falsifies a monitor clause: a change whose effect needs two
// goroutines INSIDE one Broadcast critical section at the same instant (e.g. TryLock built on TryHoldLock) is invisible
// to the scheduled harness, which runs critical sections atomically.  Here goroutines run truly in parallel on the
// real scheduler.  Each holder logs "enter" after it acquired and "exit" before it releases, through one atomic
// sequence counter; the log interval of a holder is contained in its holding interval, so two overlapping log
// intervals (writer/writer or writer/reader) prove two simultaneous holders.  This is a search, not a proof; it is
// never what decides that a property holds.
//
// Output (-out): the tail of the log up to the violating event, one line per event:
//   F <seq> <goroutine> <op> <write> <holders-before>      op: 1 enter after Lock, 2 enter after TryLock, 3 exit,
//                                                          4 a release function was called twice concurrently
// Exit status 5 when a violation was observed.
package csyncx

import (
	"context"
	"flag"
	"fmt"
	"math/rand/v2"
	"os"
	"runtime"
	"sync"
	"sync/atomic"
	"testing"
	"time"

	"verif/harness/hist"
)

var freeMS = flag.Int("free_ms", 4000, "duration of the free-running search in milliseconds")

type freeEv struct {
	seq, g, op, write uint64
	holders           int64
}

type freeLog struct {
	seq     atomic.Uint64
	holders atomic.Int64 // writers count 1<<20, readers count 1
	ring    [4096]freeEv
	bad     atomic.Bool
	badSeq  atomic.Uint64
	what    atomic.Value
}

func (l *freeLog) log(g, op, write uint64, holders int64) uint64 {
	s := l.seq.Add(1)
	l.ring[s%uint64(len(l.ring))] = freeEv{s, g, op, write, holders}
	return s
}

const wbit = int64(1) << 20

func (l *freeLog) dump(f *os.File, upto uint64) {
	lo := uint64(1)
	if upto > 48 {
		lo = upto - 48
	}
	for s := lo; s <= upto; s++ {
		e := l.ring[s%uint64(len(l.ring))]
		if e.seq == s {
			fmt.Fprintf(f, "F %d %d %d %d %d\n", e.seq, e.g, e.op, e.write, e.holders)
		}
	}
}

func (l *freeLog) enter(g uint64, try bool, write bool) {
	var before int64
	if write {
		before = l.holders.Add(wbit) - wbit
	} else {
		before = l.holders.Add(1) - 1
	}
	op := uint64(1)
	if try {
		op = 2
	}
	s := l.log(g, op, b2u(write), before)
	if (write && before != 0) || (!write && before >= wbit) {
		if l.bad.CompareAndSwap(false, true) {
			l.badSeq.Store(s)
			l.what.Store(fmt.Sprintf("goroutine %d entered its critical section (write=%v, try=%v) while holders=%d writer(s) and %d reader(s) were inside", g, write, try, before/wbit, before%wbit))
		}
	}
}

func (l *freeLog) exit(g uint64, write bool) {
	before := l.holders.Load()
	l.log(g, 3, b2u(write), before)
	if write {
		l.holders.Add(-wbit)
	} else {
		l.holders.Add(-1)
	}
}

func b2u(b bool) uint64 {
	if b {
		return 1
	}
	return 0
}

func runFree(t *testing.T, model string, rw bool) {
	var api lockAPI
	if rw {
		api = &rwAPI{}
	} else {
		api = &mutexAPI{}
	}
	l := &freeLog{}
	deadline := time.Now().Add(time.Duration(*freeMS) * time.Millisecond)
	ng := 2 * runtime.GOMAXPROCS(0)
	if ng < 8 {
		ng = 8
	}
	var wg sync.WaitGroup
	var ops [8]atomic.Int64
	for g := 0; g < ng; g++ {
		wg.Add(1)
		go func(g int) {
			defer wg.Done()
			r := rand.New(rand.NewPCG(*hist.Seed, uint64(g)+77))
			for n := 0; !l.bad.Load(); n++ {
				if n%64 == 0 && time.Now().After(deadline) {
					return
				}
				write := !rw || r.IntN(3) == 0
				var rel func()
				try := false
				switch k := r.IntN(10); {
				case k < 4:
					try = true
					var ok bool
					rel, ok = api.TryLock(write)
					ops[0].Add(1)
					if !ok {
						continue
					}
					ops[1].Add(1)
				case k < 8:
					var err error
					rel, err = api.Lock(context.Background(), write)
					ops[2].Add(1)
					if err != nil {
						continue
					}
				default:
					// a Lock whose context is cancelled concurrently: an error return must not change the holders
					ctx, cancel := context.WithCancel(context.Background())
					go func() {
						for i := r.IntN(50); i > 0; i-- {
							runtime.Gosched()
						}
						cancel()
					}()
					var err error
					rel, err = api.Lock(ctx, write)
					ops[3].Add(1)
					if err != nil {
						ops[4].Add(1)
						cancel()
						continue
					}
					cancel()
				}
				l.enter(uint64(g), try, write)
				for i := r.IntN(4); i > 0; i-- {
					runtime.Gosched()
				}
				l.exit(uint64(g), write)
				if r.IntN(8) == 0 {
					// the release function called twice concurrently: exactly one call releases
					ops[5].Add(1)
					var w2 sync.WaitGroup
					w2.Add(2)
					for i := 0; i < 2; i++ {
						go func() { defer w2.Done(); rel() }()
					}
					w2.Wait()
				} else {
					rel()
					if r.IntN(4) == 0 {
						rel() // a repeated release is a no-op
					}
				}
			}
		}(g)
	}
	// the workers may all end up blocked for good inside Lock (a lock whose counters were corrupted): watch the log
	done := make(chan struct{})
	go func() { wg.Wait(); close(done) }()
	stalled := false
	lastSeq, since := l.seq.Load(), time.Now()
wait:
	for {
		select {
		case <-done:
			break wait
		case <-time.After(50 * time.Millisecond):
		}
		if q := l.seq.Load(); q != lastSeq {
			lastSeq, since = q, time.Now()
		} else if time.Since(since) > 5*time.Second {
			stalled = true
			break wait
		}
	}
	w, err := hist.Open(model)
	if err != nil {
		t.Fatal(err)
	}
	w.Count("free.trylock", int(ops[0].Load()))
	w.Count("free.trylock_ok", int(ops[1].Load()))
	w.Count("free.lock", int(ops[2].Load()))
	w.Count("free.lock_cancellable", int(ops[3].Load()))
	w.Count("free.lock_cancelled", int(ops[4].Load()))
	w.Count("free.concurrent_double_release", int(ops[5].Load()))
	w.Count("free.goroutines", ng)
	w.Count("free.events", int(l.seq.Load()))
	if stalled && !l.bad.Load() {
		// nobody is inside a critical section and every goroutine stays blocked in Lock: a liveness failure (C02), reported
		// with its own exit status; the log tail shows how the lock was driven there
		h := l.holders.Load()
		w.Count("free.stalled", 1)
		w.Close()
		f, err := os.OpenFile(*hist.OutFile, os.O_WRONLY|os.O_TRUNC, 0o644)
		if err != nil {
			t.Fatal(err)
		}
		fmt.Fprintf(f, "# free-running search on csync.%s (real scheduler, %d goroutines, seed %d): every goroutine stayed blocked in Lock for 5 s while %d writer(s) and %d reader(s) were inside their critical sections\n", map[bool]string{true: "RWMutex", false: "Mutex"}[rw], ng, *hist.Seed, h/wbit, h%wbit)
		l.dump(f, l.seq.Load())
		f.Close()
		fmt.Fprintf(os.Stderr, "FREE-STALL all goroutines blocked in Lock, holders=%d\n", h)
		if h == 0 {
			os.Exit(6)
		}
		os.Exit(0)
	}
	if !l.bad.Load() {
		w.Close()
		return
	}
	w.Count("free.violation", 1)
	w.Close()
	f, err := os.OpenFile(*hist.OutFile, os.O_WRONLY|os.O_TRUNC, 0o644)
	if err != nil {
		t.Fatal(err)
	}
	bs := l.badSeq.Load()
	fmt.Fprintf(f, "# free-running search on csync.%s (real scheduler, %d goroutines, seed %d): %s\n", map[bool]string{true: "RWMutex", false: "Mutex"}[rw], ng, *hist.Seed, l.what.Load())
	fmt.Fprintf(f, "# log tail up to the violating event; lines: F seq goroutine op(1 enter after Lock, 2 enter after TryLock, 3 exit) write holders-before (writers*%d + readers)\n", wbit)
	l.dump(f, bs)
	f.Close()
	fmt.Fprintf(os.Stderr, "FREE-VIOLATION %s\n", l.what.Load())
	os.Exit(5)
}

func TestMutexFree(t *testing.T)   { runFree(t, "mutex", false) }
func TestRWMutexFree(t *testing.T) { runFree(t, "rwmutex", true) }
