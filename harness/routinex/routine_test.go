// Scheduled correspondence harness for routine.RoutineContainer / StateRoutineContainer (C04, C05, C14).
// Event and observation encoding: see /verif/coq/theories/Routine/Spec.v.
//
// Contexts: the n-th WaitExited caller of a history (event 13, n from 1) gets a context of the flavour hctx.Flavour(n): n%4 == 1
// ends like a deadline (Err() == context.DeadlineExceeded), n%4 == 3 is cancelled with a cause, otherwise plain WithCancel; the
// root contexts have fixed flavours (rootFlavour).  The code under test returns / reports the literal context.Canceled whatever
// the flavour; codeOf distinguishes context.Canceled (1), context.DeadlineExceeded (97), the cause (98) and anything else (99).
package routinex

import (
	"context"
	"errors"
	"fmt"
	"math/rand/v2"
	"sync"
	"testing"
	"testing/synctest"
	"time"

	ubackoff "github.com/aperturerobotics/util/backoff"
	"github.com/aperturerobotics/util/broadcast"
	"github.com/aperturerobotics/util/routine"
	cbackoff "github.com/cenkalti/backoff/v4"
	"verif/harness/ctl"
	"verif/harness/hctx"
	"verif/harness/hist"
)

const (
	kAPI    = 1
	kInst   = 2
	kTimer  = 3
	kWaiter = 4
)

type rootKey struct{}

// number of root contexts the harness owns (ids 1..nRoots; 0 is the nil context)
const nRoots = 5

// scripted back-off
type scriptBO struct {
	durs  []uint64
	idx   int
	calls int
	s     *sys
}

// NextBackOff returns the scripted duration minus a fraction of a millisecond that shrinks with every call: timers
// armed for the same millisecond then fire in creation order, which is the order the model uses, and "deadline <=
// clock" in whole milliseconds is unchanged (the controller only advances by whole milliseconds).
func (b *scriptBO) NextBackOff() time.Duration {
	i := b.idx
	b.idx++
	if i < len(b.durs) {
		b.calls++
		d := time.Duration(b.durs[i])*time.Millisecond - time.Duration(400-b.calls%400)*time.Microsecond
		b.s.deadlines = append(b.s.deadlines, time.Now().Add(d))
		return d
	}
	return cbackoff.Stop
}
func (b *scriptBO) Reset() { b.idx = 0 }

type idata struct {
	ctx     context.Context
	arg     uint64
	root    uint64
	outcome uint64
	entered bool
	passed  bool // left the first gate
	booked  bool // its bookkeeping section was run (adopted goroutines have no Done flag)
	left    bool // it left the exit gate of its bookkeeping section
}

type wdata struct {
	cancel    func() // ends the caller's context (a context flavour of hctx: plain / deadline-like / cancelled with a cause)
	flavour   int    // 0 plain, 1 deadline-like, 2 cancelled with a cause
	cancelled bool
	counted   bool
	errCh     chan error
}

// Flavours of the root contexts (ids 1..nRoots): 1 and 5 plain WithCancel; 2 ends like a context whose DEADLINE PASSED, also
// for the contexts derived from it (dlRoot below: the instance contexts the container derives from it report
// context.DeadlineExceeded); 3 cancelled with a cause (hctx.WithCause: Err() == Canceled, Cause == hctx.ErrCause, inherited by
// derived contexts); 4 hctx.DeadlineLike (Err() == DeadlineExceeded on the root itself).  The container never passes the
// root's (or the derived context's) error on: an instance that is cancelled before it starts exits with the literal
// context.Canceled.
var rootFlavour = [nRoots + 1]string{"", "plain", "deadline_propagating", "with_cause", "deadline_like", "plain"}

// dlRoot is a context that, once end() was called, is done with Err() == context.DeadlineExceeded and
// context.Cause == context.DeadlineExceeded, and so is every context derived from it (as with context.WithDeadline, but the
// controller decides when; no clock).  The context package registers derived contexts through the AfterFunc method; end()
// runs the registered functions synchronously, in registration order, so that a derived context is cancelled by the time
// end() returns (exactly as for a WithCancel parent).
type dlRoot struct {
	vals context.Context
	done chan struct{}
	mu   sync.Mutex
	err  error
	fns  []*dlFn
}

type dlFn struct{ f func() }

func newDlRoot(vals context.Context) (*dlRoot, func()) {
	c := &dlRoot{vals: vals, done: make(chan struct{})}
	return c, c.end
}

func (c *dlRoot) Deadline() (time.Time, bool) { return time.Time{}, false }
func (c *dlRoot) Done() <-chan struct{}       { return c.done }
func (c *dlRoot) Value(k any) any             { return c.vals.Value(k) }
func (c *dlRoot) Err() error {
	c.mu.Lock()
	defer c.mu.Unlock()
	return c.err
}

func (c *dlRoot) AfterFunc(f func()) (stop func() bool) {
	c.mu.Lock()
	if c.err != nil {
		c.mu.Unlock()
		f()
		return func() bool { return false }
	}
	e := &dlFn{f: f}
	c.fns = append(c.fns, e)
	c.mu.Unlock()
	return func() bool {
		c.mu.Lock()
		defer c.mu.Unlock()
		for i, x := range c.fns {
			if x == e {
				c.fns = append(c.fns[:i:i], c.fns[i+1:]...)
				return true
			}
		}
		return false
	}
}

func (c *dlRoot) end() {
	c.mu.Lock()
	if c.err != nil {
		c.mu.Unlock()
		return
	}
	c.err = context.DeadlineExceeded
	close(c.done)
	fns := c.fns
	c.fns = nil
	c.mu.Unlock()
	for _, x := range fns {
		x.f()
	}
}

type sys struct {
	nclear  int // plain clearing calls so far: they alternate between SetContext(nil, false) and ClearContext()
	nwait   int // WaitExited calls so far (event 13): the n-th one gets the context flavour hctx.Flavour(n)
	c       *ctl.Ctl
	w       *hist.W
	variant bool
	exitg   bool
	rc      *routine.RoutineContainer
	sc      *routine.StateRoutineContainer[uint64]
	roots   []context.Context
	cancels []func()
	insts   []*ctl.Actor
	timers  []*ctl.Actor
	waiters []*ctl.Actor
	chans   []<-chan struct{}
	cblog   []uint64
	cbseen  int
	// deadlines of every retry timer ever armed: the clock is advanced from deadline to deadline so that the
	// callbacks of timers that expire during one advance arrive at their gate one after the other
	deadlines []time.Time
	// realBO: the back-off object is built by the library from a backoff.Backoff configuration (the harness does not see
	// its calls): the clock is advanced millisecond by millisecond, and the generator lets one millisecond pass after every
	// bookkeeping section, so that no two retry timers are ever due at the same instant
	realBO    bool
	needTick  bool
	maxFail   int    // > 0: at most that many error outcomes are generated in this history
	cur       uint64 // the root context last passed to SetContext (0 = nil)
	before    uint64 // cur before the event being executed
	deadRoot  []bool // root contexts cancelled by their owner (event 18)
	postCanc  int    // > 0: a root was just cancelled: favour API calls, WaitExited and retry timers for that many events
	nFail     int
	lastDelta int // exit-callback invocations during the last event
}

func errOf(code uint64) error {
	switch code {
	case 0:
		return nil
	case 1:
		return context.Canceled
	default:
		return fmt.Errorf("e%d", code-2)
	}
}

// Error codes of what the library returned / reported.  The IDENTITY counts (a WaitExited caller whose context ended, an
// instance cancelled before it started: the literal context.Canceled, whatever the flavour of the context):
// 1 context.Canceled itself, 97 context.DeadlineExceeded, 98 hctx.ErrCause (the cause of a context cancelled with a cause),
// n+2 the harness's own error "e<n>", 99 anything else (also a wrapped Canceled).
const (
	codeDeadline = 97
	codeCause    = 98
	codeOther    = 99
)

func codeOf(err error) uint64 {
	if err == nil {
		return 0
	}
	switch err {
	case context.Canceled:
		return 1
	case context.DeadlineExceeded:
		return codeDeadline
	case hctx.ErrCause:
		return codeCause
	}
	if errors.Is(err, context.Canceled) || errors.Is(err, context.DeadlineExceeded) || errors.Is(err, hctx.ErrCause) {
		return codeOther
	}
	var n uint64
	if _, e := fmt.Sscanf(err.Error(), "e%d", &n); e == nil {
		return n + 2
	}
	return codeOther
}

func newSys(w *hist.W, cfg []uint64) *sys {
	s := &sys{c: ctl.New(), w: w, variant: cfg[0] == 1, exitg: cfg[4] == 1}
	var opts []routine.Option
	for i := uint64(0); i < cfg[2]; i++ {
		opts = append(opts, routine.WithExitCb(func(err error) { s.cblog = append(s.cblog, codeOf(err)) }))
	}
	if cfg[3] == 1 {
		opts = append(opts, routine.WithBackoff(&scriptBO{durs: cfg[5:], s: s}))
	}
	if cfg[3] == 3 {
		// routine.WithRetry with the EMPTY configuration: the package's default exponential back-off (800 ms x 1.8 ... 20 s).
		// Its intervals are not whole milliseconds; the generator keeps the number of failures per history below 6, for
		// which two timers due within the same millisecond fire in creation order (DESIGN.md 9.9)
		s.realBO = true
		s.maxFail = 5
		retry := routine.WithRetry(&ubackoff.Backoff{})
		s.decoy(retry)
		opts = append(opts, retry)
	}
	if cfg[3] == 2 {
		// the real thing: routine.WithRetry with a configuration of the backoff package (constant kind, cfg[5] ms, 0 = unset);
		// the model computes the script from its model of that package
		s.realBO = true
		var d uint64
		if len(cfg) > 5 {
			d = cfg[5]
		}
		retry := routine.WithRetry(&ubackoff.Backoff{BackoffKind: ubackoff.BackoffKind_BackoffKind_CONSTANT,
			Constant: &ubackoff.Constant{Interval: uint32(d)}})
		s.decoy(retry)
		opts = append(opts, retry)
	}
	if s.variant {
		var cmp func(a, b uint64) bool
		switch cfg[1] {
		case 1:
			cmp = func(a, b uint64) bool { return a == b }
		case 2:
			cmp = func(a, b uint64) bool { return a%2 == b%2 }
		}
		s.sc = routine.NewStateRoutineContainer[uint64](cmp, opts...)
	} else {
		s.rc = routine.NewRoutineContainer(opts...)
	}
	s.roots = []context.Context{nil}
	s.cancels = []func(){nil}
	s.deadRoot = make([]bool, nRoots+1)
	for i := 1; i <= nRoots; i++ {
		vals := context.WithValue(context.Background(), rootKey{}, uint64(i))
		var ctx context.Context
		var end func()
		switch rootFlavour[i] {
		case "deadline_propagating":
			ctx, end = newDlRoot(vals)
		case "with_cause":
			ctx, end = hctx.WithCause(vals)
		case "deadline_like":
			ctx, end = hctx.DeadlineLike(vals)
		default:
			c, cancel := context.WithCancel(vals)
			ctx, end = c, func() { cancel() }
		}
		s.roots = append(s.roots, ctx)
		s.cancels = append(s.cancels, end)
	}
	s.c.ShouldPark = func(a *ctl.Actor, pkg string, site int, obj any) bool {
		switch a.Kind {
		case kInst:
			if pkg == "broadcast" && site == 1 {
				d := a.Data.(*idata)
				return s.exitg && d.booked && !d.left
			}
			return (pkg == "routine" && site == 0) || (pkg == "broadcast" && site == 0)
		case kTimer, kWaiter:
			return pkg == "broadcast" && site == 0
		}
		return false
	}
	s.c.Adopt = func(pkg string, site int, obj any) *ctl.Actor {
		if pkg == "routine" && site == 0 {
			a := s.c.NewActor(kInst)
			a.Data = &idata{}
			s.insts = append(s.insts, a)
			return a
		}
		if pkg == "broadcast" && site == 0 {
			a := s.c.NewActor(kTimer)
			s.timers = append(s.timers, a)
			return a
		}
		return nil
	}
	broadcast.VerifHook = s.c.HookFor("broadcast", []int{0, 2}, []int{1, 3})
	routine.VerifHook = s.c.HookFor("routine", nil, nil)
	return s
}

// decoy applies the SAME Option value to another container first and lets that one fail once (so that its back-off has
// handed out one interval) before the container under test is built: an Option is a reusable value, and every container
// it configures follows its own back-off sequence.  Runs before the hooks are installed; the decoy is stopped (its
// retry timer with it) before the history starts.
func (s *sys) decoy(retry routine.Option) {
	d := routine.NewRoutineContainer(retry)
	d.SetRoutine(func(ctx context.Context) error { return errors.New("decoy fails") })
	ctx, cancel := context.WithCancel(context.Background())
	d.SetContext(ctx, false)
	synctest.Wait()
	d.ClearContext()
	cancel()
	synctest.Wait()
	s.w.Count("cfg.retry_option_shared_with_a_decoy_container", 1)
}

// userFn is the body of every managed routine.
func (s *sys) userFn(ctx context.Context, arg uint64) error {
	a := s.c.Current()
	if a == nil || a.Kind != kInst {
		return errors.New("harness: user function on an unknown goroutine")
	}
	d := a.Data.(*idata)
	d.ctx, d.arg, d.entered = ctx, arg, true
	if v, ok := ctx.Value(rootKey{}).(uint64); ok {
		d.root = v
	}
	s.c.ParkUser(a, 1)
	return errOf(d.outcome)
}

func (s *sys) parkedTimers() []*ctl.Actor {
	var out []*ctl.Actor
	for _, t := range s.timers {
		if !t.Done() && t.Parked() {
			out = append(out, t)
		}
	}
	return out
}

func chanCode(ch <-chan struct{}) uint64 {
	if ch == nil {
		return 0
	}
	select {
	case <-ch:
		return 2
	default:
		return 1
	}
}

func (s *sys) obs(rets []uint64) []uint64 {
	o := append([]uint64{}, rets...)
	o = append(o, uint64(len(s.insts)))
	for _, a := range s.insts {
		d := a.Data.(*idata)
		switch {
		case a.Done() || (d.booked && !a.Parked()):
			o = append(o, 5, 0, 0, 0)
		case a.InUser() != 0:
			k := uint64(0)
			if d.ctx.Err() != nil {
				k = 1
			}
			o = append(o, 3, d.arg, d.root, k)
		case a.Parked() && !d.passed:
			o = append(o, 1, 0, 0, 0)
		case a.Parked() && d.booked:
			o = append(o, 6, 0, 0, 0)
		case a.Parked():
			o = append(o, 4, 0, 0, 0)
		default:
			o = append(o, 2, 0, 0, 0)
		}
	}
	o = append(o, uint64(len(s.chans)))
	for _, ch := range s.chans {
		o = append(o, chanCode(ch))
	}
	delta := s.cblog[s.cbseen:]
	s.cbseen = len(s.cblog)
	s.lastDelta = len(delta)
	o = append(o, uint64(len(delta)))
	o = append(o, delta...)
	o = append(o, uint64(len(s.waiters)))
	for _, a := range s.waiters {
		switch {
		case a.Done():
			o = append(o, 3+uint64(a.Res))
		case a.Parked():
			o = append(o, 1)
		default:
			o = append(o, 2)
		}
	}
	o = append(o, uint64(len(s.parkedTimers())))
	return o
}

func b2u(b bool) uint64 {
	if b {
		return 1
	}
	return 0
}

func (s *sys) api(f func()) {
	s.c.Spawn(kAPI, func(a *ctl.Actor) { f() })
}

func (s *sys) setContext(c uint64, restart bool) bool {
	var ctx context.Context
	if c != 0 {
		ctx = s.roots[c]
	}
	if c == 0 && !restart {
		// every second plain clearing goes through the wrapper ClearContext()
		s.nclear++
		if s.nclear%2 == 0 {
			s.w.Count("api.clearcontext_wrapper", 1)
			if s.variant {
				return s.sc.ClearContext()
			}
			return s.rc.ClearContext()
		}
	}
	if s.variant {
		return s.sc.SetContext(ctx, restart)
	}
	return s.rc.SetContext(ctx, restart)
}

// exec applies one event; ok=false if not applicable now.  It may rewrite the event (the select choice of event 8).
func (s *sys) exec(ev []uint64) (obs []uint64, ok bool) {
	var rets []uint64
	s.before = s.cur
	switch ev[0] {
	case 1:
		if ev[1] > nRoots {
			return nil, false
		}
		var ch bool
		s.api(func() { ch = s.setContext(ev[1], ev[2] == 1) })
		s.cur = ev[1]
		rets = []uint64{b2u(ch)}
	case 2:
		if s.variant {
			return nil, false
		}
		var wr <-chan struct{}
		var reset bool
		f := ev[1]
		s.api(func() {
			if f == 0 {
				wr, reset = s.rc.SetRoutine(nil)
			} else {
				wr, reset = s.rc.SetRoutine(func(ctx context.Context) error { return s.userFn(ctx, f) })
			}
		})
		s.chans = append(s.chans, wr)
		rets = []uint64{b2u(wr != nil), b2u(reset)}
	case 3:
		var r bool
		s.api(func() {
			if s.variant {
				r = s.sc.RestartRoutine()
			} else {
				r = s.rc.RestartRoutine()
			}
		})
		rets = []uint64{b2u(r)}
	case 4:
		if !s.variant {
			return nil, false
		}
		var wr <-chan struct{}
		var changed, reset, running bool
		s.api(func() { wr, changed, reset, running = s.sc.SetState(ev[1]) })
		s.chans = append(s.chans, wr)
		rets = []uint64{b2u(wr != nil), b2u(changed), b2u(reset), b2u(running)}
	case 5:
		if !s.variant {
			return nil, false
		}
		var wr <-chan struct{}
		var next uint64
		var changed, reset, running bool
		g := ev[1]
		s.api(func() {
			var cb func(uint64) uint64
			switch g {
			case 0:
			case 1:
				cb = func(v uint64) uint64 { return v + 1 }
			case 2:
				cb = func(v uint64) uint64 { return 0 }
			case 3:
				cb = func(v uint64) uint64 { return v }
			default:
				cb = func(v uint64) uint64 { return v + 2 }
			}
			next, wr, changed, reset, running = s.sc.SwapValue(cb)
		})
		s.chans = append(s.chans, wr)
		rets = []uint64{next, b2u(wr != nil), b2u(changed), b2u(reset), b2u(running)}
	case 6:
		if !s.variant {
			return nil, false
		}
		var wr <-chan struct{}
		var reset, running bool
		f := ev[1]
		s.api(func() {
			if f == 0 {
				wr, reset, running = s.sc.SetStateRoutine(nil)
			} else {
				wr, reset, running = s.sc.SetStateRoutine(func(ctx context.Context, st uint64) error { return s.userFn(ctx, st) })
			}
		})
		s.chans = append(s.chans, wr)
		rets = []uint64{b2u(wr != nil), b2u(reset), b2u(running)}
	case 7:
		if !s.variant {
			return nil, false
		}
		var v uint64
		s.api(func() { v = s.sc.GetState() })
		rets = []uint64{v}
	case 8:
		i := int(ev[1])
		if i >= len(s.insts) {
			return nil, false
		}
		a := s.insts[i]
		d := a.Data.(*idata)
		if a.Done() || !a.Parked() || d.passed {
			return nil, false
		}
		d.passed = true
		s.c.Step(a)
		ev[2] = b2u(a.InUser() != 0)
	case 9:
		i := int(ev[1])
		if i >= len(s.insts) || s.insts[i].InUser() == 0 {
			return nil, false
		}
		d := s.insts[i].Data.(*idata)
		d.outcome = ev[2]
		s.c.StepUser(s.insts[i])
	case 10:
		i := int(ev[1])
		if i >= len(s.insts) {
			return nil, false
		}
		a := s.insts[i]
		if a.Done() || !a.Parked() || !a.Data.(*idata).passed || a.Data.(*idata).booked {
			return nil, false
		}
		a.Data.(*idata).booked = true
		s.needTick = s.realBO
		s.c.Step(a)
	case 17:
		i := int(ev[1])
		if i >= len(s.insts) {
			return nil, false
		}
		a := s.insts[i]
		if !a.Parked() || !a.Data.(*idata).booked || a.Data.(*idata).left {
			return nil, false
		}
		a.Data.(*idata).left = true
		s.c.Step(a)
	case 11:
		target := time.Now().Add(time.Duration(ev[1]) * time.Millisecond)
		s.needTick = false
		for s.realBO && time.Now().Before(target) {
			time.Sleep(time.Millisecond)
			synctest.Wait()
		}
		for {
			var next time.Time
			now := time.Now()
			for _, d := range s.deadlines {
				if d.After(now) && !d.After(target) && (next.IsZero() || d.Before(next)) {
					next = d
				}
			}
			if next.IsZero() {
				break
			}
			time.Sleep(next.Sub(now))
			synctest.Wait()
		}
		if rest := target.Sub(time.Now()); rest > 0 {
			time.Sleep(rest)
		}
		synctest.Wait()
	case 12:
		ts := s.parkedTimers()
		if int(ev[1]) >= len(ts) {
			return nil, false
		}
		s.c.Step(ts[ev[1]])
	case 13:
		// the n-th WaitExited call of the history (n from 1) gets the context flavour n%4: 1 deadline-like, 3 cancelled with a
		// cause, 0 / 2 plain (a replay reproduces it: the counter is per history)
		s.nwait++
		ctx, cancel, flavour := hctx.Flavour(context.Background(), s.nwait)
		errCh := make(chan error, 1)
		a := s.c.NewActor(kWaiter)
		a.Data = &wdata{cancel: cancel, flavour: flavour, errCh: errCh}
		s.waiters = append(s.waiters, a)
		rinr := ev[1] == 1
		s.c.Go(a, func(a *ctl.Actor) {
			var err error
			if s.variant {
				err = s.sc.WaitExited(ctx, rinr, errCh)
			} else {
				err = s.rc.WaitExited(ctx, rinr, errCh)
			}
			a.Res = int(codeOf(err))
		})
		synctest.Wait()
	case 14:
		i := int(ev[1])
		if i >= len(s.waiters) || s.waiters[i].Done() || !s.waiters[i].Parked() {
			return nil, false
		}
		s.c.Step(s.waiters[i])
	case 15:
		i := int(ev[1])
		if i >= len(s.waiters) || s.waiters[i].Done() {
			return nil, false
		}
		d := s.waiters[i].Data.(*wdata)
		if d.cancelled {
			return nil, false
		}
		d.cancelled = true
		d.cancel()
		synctest.Wait()
	case 16:
		i := int(ev[1])
		if i >= len(s.waiters) || s.waiters[i].Done() || s.waiters[i].Parked() {
			return nil, false
		}
		d := s.waiters[i].Data.(*wdata)
		switch ev[2] {
		case 0:
			close(d.errCh)
		case 1:
			d.errCh <- nil
		default:
			d.errCh <- errOf(ev[2])
		}
		synctest.Wait()
	case 18:
		// the owner of root context ev[1] cancels it; the container is not told
		if ev[1] == 0 || ev[1] > nRoots {
			return nil, false
		}
		s.cancels[ev[1]]()
		s.deadRoot[ev[1]] = true
		synctest.Wait()
	default:
		return nil, false
	}
	return s.obs(rets), true
}

func (s *sys) teardown() {
	for _, a := range s.waiters {
		if d := a.Data.(*wdata); !d.cancelled {
			d.cancelled = true
			d.cancel()
		}
	}
	s.c.Free()
	for i := 0; i < 5; i++ {
		if s.variant {
			s.sc.ClearContext()
		} else {
			s.rc.ClearContext()
		}
		for _, c := range s.cancels {
			if c != nil {
				c()
			}
		}
		time.Sleep(100 * time.Second)
		s.c.Free()
	}
	broadcast.VerifHook = nil
	routine.VerifHook = nil
}

func pick(r *rand.Rand, xs []int) int { return xs[r.IntN(len(xs))] }

// pickRoot chooses the argument of SetContext: nil, one of the first two roots, or (a quarter of the time) any root,
// cancelled ones included
func (s *sys) pickRoot(r *rand.Rand) uint64 {
	if r.IntN(4) == 0 {
		return 1 + uint64(r.IntN(nRoots))
	}
	c := uint64(r.IntN(3))
	if r.IntN(3) > 0 && c == 0 {
		c = 1
	}
	if c != 0 && s.deadRoot[c] && r.IntN(3) > 0 {
		// prefer a root that is still alive
		for d := uint64(1); d <= nRoots; d++ {
			if !s.deadRoot[d] {
				return d
			}
		}
	}
	return c
}

// gen picks the next event among those the implementation allows now.
func (s *sys) gen(r *rand.Rand, maxInst int) []uint64 {
	var gate0, user, book, exitp, wgate, wblocked, wlive []int
	for i, a := range s.insts {
		d := a.Data.(*idata)
		switch {
		case a.Parked() && d.booked && !d.left:
			exitp = append(exitp, i)
		case a.Done() || d.booked:
		case a.InUser() != 0:
			user = append(user, i)
		case a.Parked() && !d.passed:
			gate0 = append(gate0, i)
		case a.Parked():
			book = append(book, i)
		}
	}
	for i, a := range s.waiters {
		if a.Done() {
			continue
		}
		wlive = append(wlive, i)
		if a.Parked() {
			wgate = append(wgate, i)
		} else {
			wblocked = append(wblocked, i)
		}
	}
	nt := len(s.parkedTimers())
	room := len(s.insts) < maxInst
	if s.needTick {
		// real back-off object: a retry timer may just have been armed; let one millisecond pass before anything else
		return []uint64{11, 1}
	}
	if s.realBO {
		// the library-built back-off objects have long intervals (>= 100 ms, defaults 800 ms / 5 s): make retries happen
		switch y := r.IntN(12); {
		case y < 2 && nt > 0:
			return []uint64{12, uint64(r.IntN(nt))}
		case y < 4:
			return []uint64{11, []uint64{300, 700, 1000, 2500, 5000}[r.IntN(5)]}
		}
	}
	for tries := 0; tries < 200; tries++ {
		x := r.IntN(100)
		if x == 99 || r.IntN(50) == 0 {
			// the owner cancels a root context: mostly the one the container was given last
			var live []uint64
			for c := uint64(1); c <= nRoots; c++ {
				if !s.deadRoot[c] {
					live = append(live, c)
				}
			}
			if len(live) > 2 {
				c := live[r.IntN(len(live))]
				if s.cur != 0 && !s.deadRoot[s.cur] && r.IntN(3) > 0 {
					c = s.cur
				}
				s.postCanc = 8
				return []uint64{18, c}
			}
		}
		if s.postCanc > 0 && r.IntN(2) == 0 {
			// right after a cancellation: every kind of API call, WaitExited and the retry timers
			s.postCanc--
			switch y := r.IntN(9); {
			case y == 0 && room:
				return []uint64{1, s.pickRoot(r), uint64(r.IntN(2))}
			case y == 1 && room:
				if s.variant {
					switch r.IntN(3) {
					case 0:
						return []uint64{6, uint64(r.IntN(3))}
					case 1:
						return []uint64{5, uint64(r.IntN(5))}
					default:
						return []uint64{4, uint64(r.IntN(4))}
					}
				}
				return []uint64{2, uint64(r.IntN(4))}
			case y == 2 && room:
				return []uint64{3}
			case y == 3 && len(s.waiters) < 3:
				return []uint64{13, uint64(r.IntN(2))}
			case y == 4 && len(wgate) > 0:
				return []uint64{14, uint64(pick(r, wgate))}
			case y == 5 && nt > 0:
				return []uint64{12, uint64(r.IntN(nt))}
			case y == 6 && !s.realBO:
				return []uint64{11, []uint64{100, 150, 300}[r.IntN(3)]}
			}
		}
		if len(exitp) > 0 {
			// an instance is parked after its bookkeeping section: let API calls race with its exit callbacks,
			// but do not run WaitExited sections meanwhile (the monitor's reference machine learns of the exit from the report)
			if x >= 89 && x < 95 {
				continue
			}
			if x%3 == 0 {
				return []uint64{17, uint64(pick(r, exitp))}
			}
		}
		switch {
		case x < 10 && room:
			return []uint64{1, s.pickRoot(r), uint64(r.IntN(2))}
		case x < 18 && room:
			if s.variant {
				switch r.IntN(4) {
				case 0:
					return []uint64{6, uint64(r.IntN(3))}
				case 1:
					return []uint64{5, uint64(r.IntN(5))}
				default:
					return []uint64{4, uint64(r.IntN(4))}
				}
			}
			return []uint64{2, uint64(r.IntN(4))}
		case x < 24 && room:
			return []uint64{3}
		case x < 25 && s.variant:
			return []uint64{7}
		case x < 45 && len(gate0) > 0:
			return []uint64{8, uint64(pick(r, gate0)), 0}
		case x < 60 && len(user) > 0:
			i := pick(r, user)
			d := s.insts[i].Data.(*idata)
			var o uint64
			switch y := r.IntN(10); {
			case d.ctx.Err() != nil && y < 7:
				o = 1
			case y < 3:
				o = 0
			case y < 4:
				o = 1
			default:
				o = 2 + uint64(r.IntN(2))
			}
			// leave slow-to-exit instances in place some of the time
			if d.ctx.Err() != nil && r.IntN(3) == 0 {
				continue
			}
			if s.maxFail > 0 && o != 0 {
				if s.nFail >= s.maxFail {
					o = 0
				} else {
					s.nFail++
				}
			}
			return []uint64{9, uint64(i), o}
		case x < 72 && len(book) > 0:
			return []uint64{10, uint64(pick(r, book))}
		case x < 80:
			ds := []uint64{50, 100, 150, 200, 1000}
			return []uint64{11, ds[r.IntN(len(ds))]}
		case x < 86 && nt > 0:
			return []uint64{12, uint64(r.IntN(nt))}
		case x < 89 && len(s.waiters) < 3:
			return []uint64{13, uint64(r.IntN(2))}
		case x < 95 && len(wgate) > 0:
			return []uint64{14, uint64(pick(r, wgate))}
		case x < 97 && len(wlive) > 0:
			i := pick(r, wlive)
			if s.waiters[i].Data.(*wdata).cancelled {
				continue
			}
			return []uint64{15, uint64(i)}
		case x < 99 && len(wblocked) > 0:
			i := pick(r, wblocked)
			d := s.waiters[i].Data.(*wdata)
			if len(d.errCh) > 0 {
				continue
			}
			return []uint64{16, uint64(i), uint64(r.IntN(4))}
		}
	}
	return nil
}

func (s *sys) count(ev, obs []uint64) {
	names := map[uint64]string{1: "setcontext", 2: "setroutine", 3: "restart", 4: "setstate", 5: "swapvalue", 6: "setstateroutine",
		7: "getstate", 8: "proceed", 9: "return", 10: "bookkeep", 11: "advance", 12: "timercb", 13: "waitexited", 14: "waitsection",
		15: "waitcancel", 16: "waiterrch", 17: "leave_exit_gate", 18: "cancelroot"}
	s.w.Count("ev."+names[ev[0]], 1)
	if s.before != 0 && s.deadRoot[s.before] && ev[0] != 18 {
		// the root context the container was given last has been cancelled by its owner
		s.w.Count("rootcancelled."+names[ev[0]], 1)
	}
	flv := []string{"plain", "deadline_like", "with_cause"}
	codeName := func(c uint64) string {
		switch c {
		case 0:
			return "nil"
		case 1:
			return "context_canceled"
		case codeDeadline:
			return "deadline_exceeded"
		case codeCause:
			return "the_cause"
		}
		return fmt.Sprintf("error_%d", c)
	}
	switch ev[0] {
	case 1:
		if ev[1] != 0 {
			s.w.Count("ctx.setcontext_root_"+rootFlavour[ev[1]], 1)
		}
	case 13:
		s.w.Count("ctx.waitexited_context_"+flv[s.waiters[len(s.waiters)-1].Data.(*wdata).flavour], 1)
	case 15:
		s.w.Count("ctx.waitexited_context_ended_"+flv[s.waiters[ev[1]].Data.(*wdata).flavour], 1)
	case 18:
		s.w.Count("ctx.root_ended_"+rootFlavour[ev[1]], 1)
		if s.before == ev[1] {
			s.w.Count("ctx.current_root_ended_"+rootFlavour[ev[1]], 1)
		}
	case 10:
		// the exit of an instance that was cancelled before it entered the managed function (the library makes up its error)
		if d := s.insts[ev[1]].Data.(*idata); !d.entered {
			fl := "none"
			if s.before != 0 {
				fl = rootFlavour[s.before]
			}
			s.w.Count("ctx.instance_cancelled_before_start.current_root_"+fl, 1)
		}
	}
	if (ev[0] == 10 || ev[0] == 17) && s.before != 0 && s.deadRoot[s.before] {
		for _, c := range s.cblog[len(s.cblog)-s.lastDelta:] {
			s.w.Count("ctx.exit_reported_after_"+rootFlavour[s.before]+"_root_ended."+codeName(c), 1)
		}
	}
	for _, a := range s.waiters {
		d := a.Data.(*wdata)
		if a.Done() && !d.counted {
			d.counted = true
			if d.cancelled {
				s.w.Count("ctx.waitexited_with_"+flv[d.flavour]+"_context_ended_returned_"+codeName(uint64(a.Res)), 1)
				if d.flavour != 0 && a.Res == 1 {
					s.w.Count("ctx.waitexited_flavoured_context_ended_returned_context_canceled", 1)
				}
			}
		}
	}
	inUser, blocked := 0, 0
	for _, a := range s.insts {
		if a.InUser() != 0 {
			inUser++
		} else if !a.Done() && !a.Parked() && !a.Data.(*idata).booked {
			blocked++
		}
	}
	if blocked > 0 {
		s.w.Count("obs.instance_blocked_on_predecessor", 1)
	}
	if blocked > 0 && inUser > 0 {
		s.w.Count("obs.blocked_behind_running", 1)
	}
	if ev[0] == 8 && ev[2] == 0 {
		s.w.Count("obs.proceed_without_entering", 1)
	}
	if len(s.parkedTimers()) > 0 {
		s.w.Count("obs.timer_callback_parked", 1)
		if s.realBO {
			s.w.Count("obs.real_backoff.timer_callback_parked", 1)
		}
	}
	if s.realBO && ev[0] == 12 {
		s.w.Count("ev.real_backoff.timercb", 1)
	}
}

func randomCfg(r *rand.Rand) []uint64 {
	cfg := []uint64{uint64(r.IntN(2)), uint64(r.IntN(3)), 1 + uint64(r.IntN(2)), uint64(r.IntN(2)), b2u(r.IntN(3) == 0)}
	if cfg[3] == 1 && r.IntN(4) == 0 {
		// the back-off object built by routine.WithRetry from a backoff.Backoff configuration (constant kind)
		if r.IntN(3) == 0 {
			cfg[3] = 3
			return cfg
		}
		cfg[3] = 2
		return append(cfg, []uint64{0, 100, 250, 700}[r.IntN(4)])
	}
	if cfg[3] == 1 {
		n := 1 + r.IntN(3)
		for i := 0; i < n; i++ {
			cfg = append(cfg, []uint64{50, 100, 150, 300}[r.IntN(4)])
		}
	}
	return cfg
}

// corpusMotifs: the corpus histories, used as PREFIXES of a share of the random histories (a random cut of a random
// corpus history is replayed first, then generation continues at random from the situation it reached): the corner
// cases that were worth writing down are then also explored in their neighbourhood, not only replayed verbatim.
var corpusMotifs []hist.H

func runRandom(t *testing.T, w *hist.W, h int) {
	r := hist.Rng(h)
	synctest.Test(t, func(t *testing.T) {
		cfg := randomCfg(r)
		var prefix [][]uint64
		if len(corpusMotifs) > 0 && r.IntN(6) == 0 {
			m := corpusMotifs[r.IntN(len(corpusMotifs))]
			if len(m.Cfg) >= 5 && len(m.Evs) > 0 {
				cfg = append([]uint64{}, m.Cfg...)
				prefix = m.Evs[:1+r.IntN(len(m.Evs))]
			}
		}
		s := newSys(w, cfg)
		defer s.teardown()
		w.Begin(fmt.Sprintf("r%d", h), cfg)
		for _, ev := range prefix {
			ev = append([]uint64{}, ev...)
			obs, ok := s.exec(ev)
			if !ok {
				break
			}
			s.count(ev, obs)
			w.Step(ev, obs)
		}
		if prefix != nil {
			w.Count("random_with_corpus_prefix", 1)
		}
		steps := 10 + r.IntN(60)
		maxInst := 3 + r.IntN(10)
		if prefix != nil {
			maxInst += len(s.insts)
		}
		for k := 0; k < steps; k++ {
			ev := s.gen(r, maxInst)
			if ev == nil {
				break
			}
			obs, ok := s.exec(ev)
			if !ok {
				break
			}
			s.count(ev, obs)
			w.Step(ev, obs)
		}
		w.Count(fmt.Sprintf("len.%02d", min(steps/10, 6)*10), 1)
		w.Count(fmt.Sprintf("cfg.variant%d.backoff%d.exitgate%d", cfg[0], cfg[3], cfg[4]), 1)
	})
}

func runFixed(t *testing.T, w *hist.W, id string, cfg []uint64, evs [][]uint64) {
	synctest.Test(t, func(t *testing.T) {
		if len(cfg) < 5 {
			return
		}
		s := newSys(w, cfg)
		defer s.teardown()
		w.Begin(id, cfg)
		for _, ev := range evs {
			ev = append([]uint64{}, ev...)
			obs, ok := s.exec(ev)
			if !ok {
				w.Count("fixed.truncated", 1)
				break
			}
			s.count(ev, obs)
			w.Step(ev, obs)
		}
	})
}

func TestRoutine(t *testing.T) {
	w, err := hist.Open("routine")
	if err != nil {
		t.Fatal(err)
	}
	defer w.Close()
	if *hist.Replay != "" {
		hs, err := hist.Load(*hist.Replay)
		if err != nil {
			t.Fatal(err)
		}
		for _, h := range hs {
			runFixed(t, w, h.ID, h.Cfg, h.Evs)
		}
		return
	}
	corpusMotifs = hist.LoadCorpus(*hist.Corpus)
	for _, h := range corpusMotifs {
		runFixed(t, w, h.ID, h.Cfg, h.Evs)
		w.Count("corpus", 1)
	}
	for h := 0; h < *hist.NHist; h++ {
		w.Flush()
		runRandom(t, w, h)
	}
}
