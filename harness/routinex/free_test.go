// Free-running correspondence for routine.RoutineContainer / StateRoutineContainer (C04, C05): several goroutines issue
// the calls truly in parallel on the real scheduler ("This holds also when the calls are issued concurrently from several
// goroutines", C05), with oracles the model is proved to satisfy for every schedule.
//
//	C04 (exit status 5)  the managed function is never executing in two instances at once; when the channel returned by
//	                     SetRoutine / SetState is closed, every instance that had entered the function before the call was
//	                     made has returned
//	C05 (exit status 6)  once the container is quiet and has no context, no instance is inside the function any more
//	                     (every instance waits for its context to end before it returns)
//
// Three phases: a RoutineContainer and a StateRoutineContainer with a constant retry delay of 1 ms, and a
// RoutineContainer with a retry delay of exactly ZERO.
//
// Output (-out): a one-line description of the violation.
package routinex

import (
	"context"
	"errors"
	"flag"
	"fmt"
	"math/rand/v2"
	"os"
	"runtime"
	"sync"
	"sync/atomic"
	"testing"
	"time"

	ubackoff "github.com/aperturerobotics/util/backoff"
	"github.com/aperturerobotics/util/routine"
	cbackoff "github.com/cenkalti/backoff/v4"
	"verif/harness/hist"
)

var freeMS = flag.Int("free_ms", 4000, "duration of the free-running run in milliseconds")

type freeInst struct {
	entered  uint64
	returned atomic.Bool
}

type freeRt struct {
	seq    atomic.Uint64
	inside atomic.Int32
	n      atomic.Int64
	bad    atomic.Value // first failure of the kind this run looks for (any kind when -free_want is 0)
	code   atomic.Int32
	want   int32
	other  atomic.Int32 // failures of the other kind (skipped)
	mu     sync.Mutex
	insts  []*freeInst
}

func (f *freeRt) fail(code int32, msg string) {
	if f.want != 0 && f.want != code {
		f.other.Add(1)
		return
	}
	if f.bad.CompareAndSwap(nil, msg) {
		f.code.Store(code)
	}
}

// body is the managed function.
func (f *freeRt) body(ctx context.Context) error {
	in := &freeInst{entered: f.seq.Add(1)}
	f.mu.Lock()
	f.insts = append(f.insts, in)
	if len(f.insts) > 4096 {
		f.insts = f.insts[2048:]
	}
	f.mu.Unlock()
	if n := f.inside.Add(1); n > 1 {
		f.fail(5, fmt.Sprintf("%d instances of the managed function are executing at once", n))
	}
	k := f.n.Add(1)
	defer func() {
		in.returned.Store(true)
		f.inside.Add(-1)
	}()
	for i := 0; i < 2; i++ {
		runtime.Gosched()
	}
	switch k % 4 {
	case 0:
		return errors.New("fails")
	case 1:
		return nil
	}
	<-ctx.Done()
	for i := 0; i < 3; i++ {
		runtime.Gosched() // a slow exit: whoever comes next must wait for it
	}
	return context.Canceled
}

// closed checks the channel a SetRoutine / SetState call returned: once it is closed, every instance that entered the
// function before the call was made has returned.
func (f *freeRt) closed(ch <-chan struct{}, before uint64, wg *sync.WaitGroup) {
	if ch == nil {
		return
	}
	wg.Add(1)
	go func() {
		defer wg.Done()
		select {
		case <-ch:
		case <-time.After(200 * time.Millisecond):
			return // still open: nothing to check
		}
		f.mu.Lock()
		defer f.mu.Unlock()
		for _, in := range f.insts {
			if in.entered < before && !in.returned.Load() {
				f.fail(5, "the channel returned by SetRoutine / SetState is closed although an instance that entered the function before the call has not returned")
			}
		}
	}()
}

func TestRoutineFree(t *testing.T) {
	dur := time.Duration(*freeMS) * time.Millisecond
	want := int32(*hist.FreeWant)
	stats := map[string]int{}
	var failed *freeRt
	for phase := 0; phase < 3 && failed == nil; phase++ {
		f := &freeRt{want: want}
		retry := routine.WithRetry(&ubackoff.Backoff{BackoffKind: ubackoff.BackoffKind_BackoffKind_CONSTANT, Constant: &ubackoff.Constant{Interval: 1}})
		if phase == 2 {
			// a retry delay of exactly zero (the scheduled harness and the model of the routine slice do not cover it)
			retry = routine.WithBackoff(&cbackoff.ZeroBackOff{})
		}
		ctx, cancel := context.WithCancel(context.Background())
		var ops []func(r *rand.Rand, wg *sync.WaitGroup)
		var clear func()
		if phase != 1 {
			rc := routine.NewRoutineContainer(retry)
			rc.SetContext(ctx, true)
			clear = func() { rc.ClearContext() }
			ops = []func(r *rand.Rand, wg *sync.WaitGroup){
				func(r *rand.Rand, wg *sync.WaitGroup) {
					before := f.seq.Load()
					ch, _ := rc.SetRoutine(f.body)
					f.closed(ch, before, wg)
				},
				func(r *rand.Rand, wg *sync.WaitGroup) { rc.RestartRoutine() },
				func(r *rand.Rand, wg *sync.WaitGroup) { rc.SetContext(ctx, true) },
				func(r *rand.Rand, wg *sync.WaitGroup) { rc.SetContext(ctx, false) },
				func(r *rand.Rand, wg *sync.WaitGroup) {
					if r.IntN(8) == 0 {
						rc.ClearContext()
						rc.SetContext(ctx, true)
					}
				},
				func(r *rand.Rand, wg *sync.WaitGroup) {
					if r.IntN(8) == 0 {
						rc.SetRoutine(nil)
					}
				},
			}
		} else {
			sc := routine.NewStateRoutineContainer[int](nil, retry)
			sc.SetStateRoutine(func(ctx context.Context, st int) error { return f.body(ctx) })
			sc.SetContext(ctx, true)
			clear = func() { sc.ClearContext() }
			ops = []func(r *rand.Rand, wg *sync.WaitGroup){
				func(r *rand.Rand, wg *sync.WaitGroup) {
					before := f.seq.Load()
					ch, _, _, _ := sc.SetState(r.IntN(4))
					f.closed(ch, before, wg)
				},
				func(r *rand.Rand, wg *sync.WaitGroup) {
					before := f.seq.Load()
					_, ch, _, _, _ := sc.SwapValue(func(v int) int { return (v + 1) % 4 })
					f.closed(ch, before, wg)
				},
				func(r *rand.Rand, wg *sync.WaitGroup) { sc.RestartRoutine() },
				func(r *rand.Rand, wg *sync.WaitGroup) { sc.SetContext(ctx, true) },
				func(r *rand.Rand, wg *sync.WaitGroup) {
					if r.IntN(8) == 0 {
						sc.ClearContext()
						sc.SetContext(ctx, true)
					}
				},
			}
		}
		var wg sync.WaitGroup
		stop := time.Now().Add(dur / 3)
		var calls atomic.Int64
		for g := 0; g < 6; g++ {
			wg.Add(1)
			go func(g int) {
				defer wg.Done()
				r := rand.New(rand.NewPCG(*hist.Seed, uint64(10*phase+g)))
				for time.Now().Before(stop) && f.bad.Load() == nil {
					ops[r.IntN(len(ops))](r, &wg)
					calls.Add(1)
					for i := r.IntN(4); i > 0; i-- {
						runtime.Gosched()
					}
				}
			}(g)
		}
		wg.Wait()
		// quiet, then no context: nobody is inside the function any more
		clear()
		deadline := time.Now().Add(5 * time.Second)
		for f.inside.Load() != 0 && f.bad.Load() == nil {
			if time.Now().After(deadline) {
				f.fail(6, "the container is quiet and has no context, but an instance is still inside the managed function (its context was never cancelled)")
				break
			}
			time.Sleep(time.Millisecond)
		}
		cancel()
		stats[fmt.Sprintf("free.phase%d.calls", phase)] = int(calls.Load())
		stats[fmt.Sprintf("free.phase%d.function_entries", phase)] = int(f.n.Load())
		stats[fmt.Sprintf("free.phase%d.failures_of_the_other_kind_skipped", phase)] = int(f.other.Load())
		if f.bad.Load() != nil {
			failed = f
		}
	}
	w, err := hist.Open("routine")
	if err == nil {
		for k, v := range stats {
			w.Count(k, v)
		}
		if failed != nil {
			w.Count("free.violation", 1)
		}
		w.Close()
	}
	if failed == nil {
		return
	}
	msg := failed.bad.Load().(string)
	if fo, err := os.OpenFile(*hist.OutFile, os.O_WRONLY|os.O_TRUNC|os.O_CREATE, 0o644); err == nil {
		fmt.Fprintf(fo, "# free-running run on routine (real scheduler, seed %d): %s\n", *hist.Seed, msg)
		fo.Close()
	}
	fmt.Fprintf(os.Stderr, "FREE-VIOLATION %s\n", msg)
	os.Exit(int(failed.code.Load()))
}
