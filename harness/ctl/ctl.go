// Package ctl is the schedule controller of the correspondence harness (DESIGN.md section 3.4).
//
// Every API call of a history runs in its own goroutine ("actor").  The verif-tagged schedule
// points of /repo call Hook; an actor arriving at a gated site parks on its gate channel until
// the controller steps it.  All of this runs inside a testing/synctest bubble: after every
// controller action synctest.Wait() returns when every other goroutine is durably blocked
// (parked at a gate, blocked inside the library, inside a harness-owned user function) or done,
// so the status vector read afterwards is exact.
package ctl

import (
	"runtime"
	"strconv"
	"strings"
	"sync"
	"sync/atomic"
	"testing/synctest"
)

// Gid returns the current goroutine id (verif harness only).
func Gid() int {
	var buf [64]byte
	n := runtime.Stack(buf[:], false)
	f := strings.Fields(string(buf[:n]))
	id, _ := strconv.Atoi(f[1])
	return id
}

// Actor is one controlled goroutine.
type Actor struct {
	ID     int
	Kind   int
	gate   chan struct{}
	parked atomic.Bool
	site   atomic.Int64
	done   atomic.Bool
	panicV atomic.Value
	depth  int // nesting depth of critical sections on this goroutine (touched only by itself)
	inUser atomic.Int64
	// Res is set by the actor's function before it returns (read by the controller after Wait).
	Res  int
	Data any
	Obj  any // object carried by the hook at which the actor is parked
}

// Parked reports whether the actor is parked at a gate, and at which site.
func (a *Actor) Parked() bool  { return a.parked.Load() }
func (a *Actor) Site() int     { return int(a.site.Load()) }
func (a *Actor) Done() bool    { return a.done.Load() }
func (a *Actor) Panicked() any { return a.panicV.Load() }

// InUser reports the user-function instance the actor is parked in (0 = none).
func (a *Actor) InUser() int { return int(a.inUser.Load()) }

// Ctl is the controller of one history.
type Ctl struct {
	mu    sync.Mutex
	byGid map[int]*Actor
	Acts  []*Actor
	free  atomic.Bool
	// ShouldPark decides whether actor a parks at (pkg, site, obj); nil = park at every entry site.
	ShouldPark func(a *Actor, pkg string, site int, obj any) bool
	// Adopt is called for a goroutine that is not an actor when it reaches a hook; it may return
	// a new actor (library-spawned goroutine) or nil to let it pass.
	Adopt func(pkg string, site int, obj any) *Actor
}

// New creates a controller.
func New() *Ctl { return &Ctl{byGid: map[int]*Actor{}} }

// NewActor allocates an actor record (appended to Acts).
func (c *Ctl) NewActor(kind int) *Actor {
	a := &Actor{ID: len(c.Acts), Kind: kind, gate: make(chan struct{})}
	c.Acts = append(c.Acts, a)
	return a
}

func (c *Ctl) lookup() *Actor {
	g := Gid()
	c.mu.Lock()
	a := c.byGid[g]
	c.mu.Unlock()
	return a
}

func (c *Ctl) bind(a *Actor) {
	g := Gid()
	c.mu.Lock()
	c.byGid[g] = a
	c.mu.Unlock()
}

// Current returns the actor bound to the calling goroutine (nil if none).
func (c *Ctl) Current() *Actor { return c.lookup() }

// HookFor returns a hook function for one instrumented package.  entry sites are those placed
// before a lock is taken, exit sites those placed after it was released; other sites are plain
// schedule points.
func (c *Ctl) HookFor(pkg string, entry, exit []int) func(site int, obj any) {
	isEntry, isExit := map[int]bool{}, map[int]bool{}
	for _, s := range entry {
		isEntry[s] = true
	}
	for _, s := range exit {
		isExit[s] = true
	}
	return func(site int, obj any) {
		a := c.lookup()
		if a == nil {
			if c.Adopt == nil || c.free.Load() {
				return
			}
			c.mu.Lock()
			a = c.Adopt(pkg, site, obj)
			if a != nil {
				c.byGid[Gid()] = a
			}
			c.mu.Unlock()
			if a == nil {
				return
			}
		}
		switch {
		case isEntry[site]:
			// never park while this goroutine already holds a section's lock
			if a.depth == 0 {
				c.maybePark(a, pkg, site, obj)
			}
			a.depth++
		case isExit[site]:
			a.depth--
			if a.depth == 0 {
				c.maybePark(a, pkg, site, obj)
			}
		default:
			if a.depth == 0 {
				c.maybePark(a, pkg, site, obj)
			}
		}
	}
}

func (c *Ctl) maybePark(a *Actor, pkg string, site int, obj any) {
	if c.free.Load() {
		return
	}
	if c.ShouldPark != nil {
		if !c.ShouldPark(a, pkg, site, obj) {
			return
		}
	} else if site%2 == 1 {
		return
	}
	a.Obj = obj
	a.site.Store(int64(site))
	a.parked.Store(true)
	<-a.gate
	a.parked.Store(false)
}

// Lock/Unlock bracket a harness-side critical section on the current actor (e.g. a user callback
// known to run under a library lock) so that nested hooks do not park.
func (c *Ctl) EnterNoPark() {
	if a := c.lookup(); a != nil {
		a.depth++
	}
}
func (c *Ctl) LeaveNoPark() {
	if a := c.lookup(); a != nil {
		a.depth--
	}
}

// Spawn runs f as a new actor and waits until the bubble is quiescent again.
func (c *Ctl) Spawn(kind int, f func(a *Actor)) *Actor {
	a := c.NewActor(kind)
	c.Go(a, f)
	synctest.Wait()
	return a
}

// Go starts f on actor a without waiting.
func (c *Ctl) Go(a *Actor, f func(a *Actor)) {
	go func() {
		c.bind(a)
		defer func() {
			if r := recover(); r != nil {
				a.panicV.Store(r)
			}
			a.done.Store(true)
		}()
		f(a)
	}()
}

// Step releases a parked actor and waits for quiescence.
func (c *Ctl) Step(a *Actor) {
	if !a.parked.Load() {
		return
	}
	a.gate <- struct{}{}
	synctest.Wait()
}

// ParkUser parks the calling actor inside harness-owned user code (instance id > 0) until stepped.
// Returns immediately in free mode.
func (c *Ctl) ParkUser(a *Actor, inst int) {
	if c.free.Load() {
		return
	}
	a.inUser.Store(int64(inst))
	<-a.gate
	a.inUser.Store(0)
}

// StepUser lets an actor parked in user code continue.
func (c *Ctl) StepUser(a *Actor) {
	if a.inUser.Load() == 0 {
		return
	}
	a.gate <- struct{}{}
	synctest.Wait()
}

// Free switches all gates off and releases every parked actor (teardown).
func (c *Ctl) Free() {
	c.free.Store(true)
	for i := 0; i < 1000; i++ {
		progress := false
		for _, a := range c.Acts {
			if a.parked.Load() || a.inUser.Load() != 0 {
				select {
				case a.gate <- struct{}{}:
					progress = true
				default:
				}
			}
		}
		synctest.Wait()
		if !progress {
			return
		}
	}
}

// AllDone reports whether every actor has returned.
func (c *Ctl) AllDone() bool {
	for _, a := range c.Acts {
		if !a.done.Load() {
			return false
		}
	}
	return true
}
