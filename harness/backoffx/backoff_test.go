// Differential harness for the backoff part of C14: (*backoff.Backoff).Construct() of /repo/backoff and the vendor
// algorithm it configures (github.com/cenkalti/backoff/v4: ExponentialBackOff, ConstantBackOff).
//
// One object per history, built from the config line
//
//	C kind initial_ms mult_bits max_ms rf_bits max_elapsed_ms const_ms rseed
//
// inside a synctest bubble: the vendor's SystemClock is time.Now, which is the bubble's fake clock, and time.Sleep in
// the bubble advances it exactly.  Events (see coq/theories/Backoff/Spec.v): 1 NextBackOff, 2 Reset, 3 d clock += d ms,
// 4 c mx arithmetic probe (Go's float64 rounding against the model's).  The vendor draws its jitter from the global
// math/rand source: it is re-seeded from rseed at the start of every history (randseednop=0 keeps rand.Seed effective),
// so a history is an exact function of its config line and its events.
//
//go:debug randseednop=0
package backoffx

import (
	"fmt"
	"math"
	mrand "math/rand"
	"math/rand/v2"
	"testing"
	"testing/synctest"
	"time"

	"github.com/aperturerobotics/util/backoff"
	cbackoff "github.com/cenkalti/backoff/v4"
	"verif/harness/hist"
)

const fifteenMin = uint64(15 * 60 * 1000)

type sys struct {
	w      *hist.W
	cfg    []uint64
	bo     cbackoff.BackOff
	t0     time.Time
	expo   bool
	rf     bool    // randomization factor != 0 (exponential kind)
	mult   float64 // the multiplier the config asks for (default applied)
	initNs uint64
	maxNs  uint64
	maxEl  uint64 // ms, 0 = unset
	// bookkeeping for the generator and the statistics only
	resetAt    uint64 // ms
	lastRet    uint64 // last returned interval, ns
	predNs     uint64 // a guess of the next interval (steers clock advances towards the Stop boundary)
	stopped    bool
	callsSince int
}

func nowMs(s *sys) uint64 { return uint64(time.Since(s.t0) / time.Millisecond) }

// build makes the config message of a config line.
func build(cfg []uint64) *backoff.Backoff {
	b := &backoff.Backoff{BackoffKind: backoff.BackoffKind(int32(cfg[0]))}
	allZero := cfg[1] == 0 && cfg[2] == 0 && cfg[3] == 0 && cfg[4] == 0 && cfg[5] == 0
	if !(allZero && cfg[7]%2 == 0) { // an entirely unset message is sometimes a nil pointer
		b.Exponential = &backoff.Exponential{
			InitialInterval:     uint32(cfg[1]),
			Multiplier:          math.Float32frombits(uint32(cfg[2])),
			MaxInterval:         uint32(cfg[3]),
			RandomizationFactor: math.Float32frombits(uint32(cfg[4])),
			MaxElapsedTime:      uint32(cfg[5]),
		}
	}
	if !(cfg[6] == 0 && cfg[7]%2 == 0) {
		b.Constant = &backoff.Constant{Interval: uint32(cfg[6])}
	}
	return b
}

func newSys(w *hist.W, cfg []uint64) *sys {
	mrand.Seed(int64(cfg[7]))
	s := &sys{w: w, cfg: cfg, t0: time.Now()}
	s.expo = cfg[0] != 2
	s.rf = s.expo && math.Float32frombits(uint32(cfg[4])) != 0
	m := math.Float32frombits(uint32(cfg[2]))
	if m == 0 {
		m = 1.8
	}
	s.mult = float64(m)
	s.initNs = dflt(cfg[1], 800) * 1e6
	s.maxNs = dflt(cfg[3], 20000) * 1e6
	s.maxEl = cfg[5]
	s.predNs = s.initNs
	s.bo = build(cfg).Construct()
	return s
}

func dflt(x, d uint64) uint64 {
	if x == 0 {
		return d
	}
	return x
}

// guess of incrementCurrentInterval (generation only: never compared with anything)
func (s *sys) guessNext(cur uint64) uint64 {
	if float64(cur) >= float64(s.maxNs)/s.mult {
		return s.maxNs
	}
	return uint64(float64(cur) * s.mult)
}

// exec runs one event on the implementation; it returns the event as logged (a NextBackOff with jitter carries its
// result) and the observation.
func (s *sys) exec(ev []uint64) ([]uint64, []uint64) {
	w := s.w
	switch ev[0] {
	case 1:
		el := nowMs(s) - s.resetAt
		d := s.bo.NextBackOff()
		var obs []uint64
		switch {
		case d == cbackoff.Stop:
			obs = []uint64{0}
		case d < 0:
			obs = []uint64{2, uint64(-d)}
		default:
			obs = []uint64{1, uint64(d)}
		}
		w.Count("ev.next", 1)
		if s.expo {
			if s.maxEl == 0 && el > fifteenMin {
				w.Count("next.beyond15min_maxelapsed_unset", 1)
			}
			if s.maxEl == 0 && el+uint64(s.predNs/1e6) > fifteenMin && el <= fifteenMin {
				w.Count("next.crossing15min_maxelapsed_unset", 1)
			}
			if obs[0] == 0 {
				w.Count("next.stop", 1)
				s.stopped = true
			} else if obs[0] == 1 {
				if uint64(d) == s.maxNs && s.callsSince > 0 {
					w.Count("next.capped_at_max", 1)
				}
				if s.callsSince == 0 {
					w.Count("next.first_after_reset", 1)
				}
				if s.maxEl != 0 && (el*1e6+uint64(d) == s.maxEl*1e6) {
					w.Count("next.exactly_at_max_elapsed", 1)
				}
				s.lastRet = uint64(d)
			}
			if s.rf {
				w.Count("next.randomized", 1)
			}
			s.predNs = s.guessNext(s.predNs)
			s.callsSince++
		} else {
			w.Count("next.constant", 1)
		}
		if s.rf {
			e := []uint64{1, obs[0], 0}
			if obs[0] != 0 {
				e[2] = obs[1]
			}
			return e, obs
		}
		return []uint64{1}, obs
	case 2:
		s.bo.Reset()
		w.Count("ev.reset", 1)
		if s.stopped {
			w.Count("reset.after_stop", 1)
			s.stopped = false
		}
		s.resetAt = nowMs(s)
		s.predNs = s.initNs
		s.callsSince = 0
		return []uint64{2}, []uint64{}
	case 3:
		time.Sleep(time.Duration(ev[1]) * time.Millisecond)
		w.Count("ev.advance", 1)
		if ev[1] >= 60000 {
			w.Count("advance.minutes", 1)
		}
		return ev, []uint64{nowMs(s)}
	case 4:
		c, mx := ev[1], ev[2]
		q := float64(time.Duration(mx)) / s.mult
		p := float64(time.Duration(c)) * s.mult
		ge := uint64(0)
		if float64(time.Duration(c)) >= q {
			ge = 1
		}
		w.Count("ev.probe", 1)
		return ev, []uint64{ge, math.Float64bits(q), uint64(time.Duration(p)), math.Float64bits(p)}
	}
	return ev, []uint64{99}
}

var multipliers = []float32{0, 0, 0, 1, 1.5, 1.8, 2, 2.5, 3.7}

func randomCfg(r *rand.Rand) []uint64 {
	cfg := make([]uint64, 8)
	switch k := r.IntN(20); {
	case k < 8:
		cfg[0] = 0
	case k < 15:
		cfg[0] = 1
	case k < 19:
		cfg[0] = 2
	default:
		cfg[0] = 3 + uint64(r.IntN(5)) // not a declared kind: Construct treats it as exponential
	}
	// initial interval
	switch k := r.IntN(20); {
	case k < 5:
	case k < 14:
		cfg[1] = 1 + uint64(r.IntN(5000))
	case k < 18:
		cfg[1] = 60000 * (1 + uint64(r.IntN(30))) // minutes
	case k < 19:
		cfg[1] = uint64(r.Uint32())
	default:
		cfg[1] = math.MaxUint32 - uint64(r.IntN(3))
	}
	// multiplier
	var m float32
	switch k := r.IntN(40); {
	case k < 27:
		m = multipliers[r.IntN(len(multipliers))]
	case k < 36:
		m = 1 + 3*r.Float32()
	case k < 38:
		m = []float32{0.5, 0.9, 0.999}[r.IntN(3)]
	case k < 39:
		m = math.Float32frombits(1 + uint32(r.IntN(1<<23))) // subnormal
	default:
		m = []float32{1e-30, 1e20, 1000, math.MaxFloat32}[r.IntN(4)]
	}
	cfg[2] = uint64(math.Float32bits(m))
	// max interval
	ini := dflt(cfg[1], 800)
	switch k := r.IntN(20); {
	case k < 5:
	case k < 8:
		cfg[3] = 1 + uint64(r.Int64N(int64(ini))) // <= initial
	case k < 10:
		cfg[3] = ini
	case k < 17:
		cfg[3] = min(math.MaxUint32, ini+uint64(r.IntN(60000)))
	case k < 19:
		cfg[3] = min(math.MaxUint32, ini*uint64(1+r.IntN(50)))
	default:
		cfg[3] = math.MaxUint32 - uint64(r.IntN(3))
	}
	// randomization factor
	switch k := r.IntN(50); {
	case k < 40:
	case k < 46:
		cfg[4] = uint64(math.Float32bits(0.5))
	case k < 49:
		cfg[4] = uint64(math.Float32bits(r.Float32()))
	default:
		cfg[4] = uint64(math.Float32bits(1))
	}
	// max elapsed time
	switch k := r.IntN(20); {
	case k < 13:
	case k < 16:
		cfg[5] = 1 + uint64(r.IntN(60000))
	case k < 17:
		cfg[5] = 1000 * (1 + uint64(r.IntN(60))) // whole seconds: the boundary elapsed+next == max is reachable
	case k < 19:
		cfg[5] = fifteenMin - 120000 + uint64(r.IntN(240000))
	default:
		cfg[5] = fifteenMin
	}
	if r.IntN(2) == 0 {
		cfg[6] = 1 + uint64(r.IntN(20000))
		if r.IntN(8) == 0 {
			cfg[6] = uint64(r.Uint32())
		}
	}
	cfg[7] = uint64(r.Uint32())
	return cfg
}

func randAdvance(r *rand.Rand) uint64 {
	switch k := r.IntN(20); {
	case k < 4:
		return 1 + uint64(r.IntN(100))
	case k < 10:
		return 1 + uint64(r.IntN(5000))
	case k < 15:
		return 1 + uint64(r.IntN(120000))
	default:
		return 60000 + uint64(r.IntN(19*60000+1)) // 1 .. 20 minutes
	}
}

// gen picks the next event.  mode 0: free mix; mode 1: a retry loop (NextBackOff, sleep for what it returned, ...) with
// occasional successes (Reset) and pauses.
func (s *sys) gen(r *rand.Rand, mode int) []uint64 {
	if mode == 1 {
		if s.callsSince > 0 && s.lastRet > 0 && r.IntN(8) > 0 {
			d := min((s.lastRet+999999)/1000000, 30*60*1000) // at most 30 minutes: huge sleeps overflow the bubble's timers
			s.lastRet = 0
			return []uint64{3, d}
		}
		switch k := r.IntN(20); {
		case k < 15:
			return []uint64{1}
		case k < 17:
			return []uint64{2}
		default:
			return []uint64{3, randAdvance(r)}
		}
	}
	switch k := r.IntN(40); {
	case k < 20:
		return []uint64{1}
	case k < 24:
		return []uint64{2}
	case k < 36:
		// towards the Stop boundary: elapsed + next == max_elapsed (+-1 ms) when all three are whole milliseconds
		if s.expo && s.maxEl != 0 && r.IntN(2) == 0 {
			el := nowMs(s) - s.resetAt
			tgt := int64(s.maxEl) - int64(el) - int64(s.predNs/1e6) + int64(r.IntN(3)) - 1
			if tgt >= 1 {
				return []uint64{3, uint64(tgt)}
			}
		}
		return []uint64{3, randAdvance(r)}
	default:
		if !s.expo {
			return []uint64{1}
		}
		var c, mx uint64
		mx = s.maxNs
		if r.IntN(3) == 0 {
			mx = 1 + r.Uint64N(1<<52)
		}
		switch r.IntN(5) {
		case 0:
			c = r.Uint64N(1 << 52)
		case 1:
			c = r.Uint64N(1 << uint(1+r.IntN(52)))
		case 2:
			c = s.predNs
		default: // around the capping threshold
			q := float64(mx) / s.mult
			if q >= 2 && q < (1<<52) {
				c = uint64(q) - 1 + uint64(r.IntN(3))
			} else {
				c = r.Uint64N(1 << 40)
			}
		}
		if p := float64(c) * s.mult; !(p < (1 << 62)) {
			return []uint64{1}
		}
		return []uint64{4, c, mx}
	}
}

func runRandom(t *testing.T, w *hist.W, h int) {
	r := hist.Rng(h)
	synctest.Test(t, func(t *testing.T) {
		cfg := randomCfg(r)
		s := newSys(w, cfg)
		w.Begin(fmt.Sprintf("r%d", h), cfg)
		mode := 0
		steps := 4 + r.IntN(40)
		if r.IntN(4) == 0 {
			mode = 1
			steps = 20 + r.IntN(120)
		}
		for k := 0; k < steps; k++ {
			ev, obs := s.exec(s.gen(r, mode))
			w.Step(ev, obs)
		}
		s.count(mode)
	})
}

func (s *sys) count(mode int) {
	w := s.w
	kind := "expo"
	if !s.expo {
		kind = "constant"
	}
	w.Count(fmt.Sprintf("cfg.kind_%s.mode%d", kind, mode), 1)
	if s.expo {
		w.Count(fmt.Sprintf("cfg.maxelapsed_%s", map[bool]string{true: "unset", false: "set"}[s.maxEl == 0]), 1)
		if s.rf {
			w.Count("cfg.randomized", 1)
		}
		if s.cfg[1] == 0 && s.cfg[2] == 0 && s.cfg[3] == 0 {
			w.Count("cfg.all_defaults", 1)
		}
		if s.initNs > s.maxNs {
			w.Count("cfg.initial_above_max", 1)
		}
	}
}

func runFixed(t *testing.T, w *hist.W, id string, cfg []uint64, evs [][]uint64) {
	synctest.Test(t, func(t *testing.T) {
		if len(cfg) != 8 {
			return
		}
		s := newSys(w, cfg)
		w.Begin(id, cfg)
		for _, ev := range evs {
			if len(ev) == 0 || (ev[0] == 3 && len(ev) < 2) || (ev[0] == 4 && len(ev) < 3) {
				break
			}
			e2, obs := s.exec(append([]uint64{}, ev...))
			w.Step(e2, obs)
		}
		s.count(9)
	})
}

func TestBackoff(t *testing.T) {
	w, err := hist.Open("backoff")
	if err != nil {
		t.Fatal(err)
	}
	defer w.Close()
	if *hist.Replay != "" {
		hs, err := hist.Load(*hist.Replay)
		if err != nil {
			t.Fatal(err)
		}
		for _, h := range hs {
			runFixed(t, w, h.ID, h.Cfg, h.Evs)
		}
		return
	}
	for _, h := range hist.LoadCorpus(*hist.Corpus) {
		runFixed(t, w, h.ID, h.Cfg, h.Evs)
		w.Count("corpus", 1)
	}
	for h := 0; h < *hist.NHist; h++ {
		runRandom(t, w, h)
	}
}
