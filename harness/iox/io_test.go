// Differential harness for C20 (IO part): ioseek.ReaderAtSeeker, iosizer.SizeReadWriter,
// iocloser.ReadCloser / WriteCloser, ioproxy.ProxyStreams.
//
// A history is a sequence of calls on ONE object chosen by the config line; the encoding of
// config, events and observations is the one of /verif/coq/theories/IO/Spec.v (header comment).
// All wrapped streams are harness-owned scripts: every event carries the (n, err) the wrapped
// call returns, and the observation reports what the wrapped stream was called with.
// exec* run the real code on an event and return the observation, so corpus and replay files are
// re-executed from their events alone.  Generation is implementation-driven: the generator follows
// the position / closed state it reads off the implementation's observations.
package iox

import (
	"errors"
	"fmt"
	"io"
	"math"
	"math/rand/v2"
	"sync"
	"sync/atomic"
	"testing"
	"testing/synctest"

	"github.com/aperturerobotics/util/iocloser"
	"github.com/aperturerobotics/util/ioproxy"
	"github.com/aperturerobotics/util/ioseek"
	"github.com/aperturerobotics/util/iosizer"
	"verif/harness/hist"
)

var errOther = errors.New("scripted error")
var errClosed = errors.New("scripted stream closed")

func decErr(c uint64) error {
	switch c {
	case 0:
		return nil
	case 1:
		return io.EOF
	}
	return errOther
}

func encErr(e error) uint64 {
	if e == nil {
		return 0
	}
	if e == io.EOF {
		return 1
	}
	return 2
}

// buffers: the scripted streams never touch p, so one shared buffer serves every call; only the
// few > 1 MiB cases allocate (untouched pages: virtual memory only).
var shared = make([]byte, 1<<20)

func bufOf(plen uint64) []byte {
	if plen <= uint64(len(shared)) {
		return shared[:plen]
	}
	if plen > 1<<33 {
		plen = 1 << 33
	}
	return make([]byte, plen)
}

const notCalled = math.MaxUint64

// script is a wrapped stream (ReaderAt, Reader, Writer) that returns what the current event prescribes.
type script struct {
	n      int
	err    error
	calls  int
	gotLen uint64
	gotOff uint64
}

func (s *script) set(n int, err error) {
	s.n, s.err, s.calls, s.gotLen, s.gotOff = n, err, 0, 0, notCalled
}
func (s *script) ReadAt(p []byte, off int64) (int, error) {
	s.calls++
	s.gotLen, s.gotOff = uint64(len(p)), uint64(off)
	return s.n, s.err
}
func (s *script) Read(p []byte) (int, error) {
	s.calls++
	s.gotLen = uint64(len(p))
	return s.n, s.err
}
func (s *script) Write(p []byte) (int, error) {
	s.calls++
	s.gotLen = uint64(len(p))
	return s.n, s.err
}
func (s *script) called() uint64 { return uint64(s.calls) }

type obj interface {
	step(t *testing.T, ev []uint64) []uint64
}

// ---------------------------------------------------------------- ioseek
type seekObj struct {
	size int64
	ra   *script
	rs   *ioseek.ReaderAtSeeker
	sra  *script
	sr   *io.SectionReader // third opinion (cfg sr = 1)
}

func newSeek(size int64, sr bool) *seekObj {
	o := &seekObj{size: size, ra: &script{}}
	o.rs = ioseek.NewReaderAtSeeker(o.ra, size)
	if sr {
		o.sra = &script{}
		o.sr = io.NewSectionReader(o.sra, 0, size)
	}
	return o
}

func (o *seekObj) srPos() uint64 {
	p, _ := o.sr.Seek(0, io.SeekCurrent)
	return uint64(p)
}

// io.SectionReader allows seeking beyond its limit; a BOUNDED section reader does not: a seek that
// fails or lands beyond the size is undone.
func (o *seekObj) srSeek(off int64, wh int) {
	prev, _ := o.sr.Seek(0, io.SeekCurrent)
	np, err := o.sr.Seek(off, wh)
	if err != nil || np > o.size {
		_, _ = o.sr.Seek(prev, io.SeekStart)
	}
}

func (o *seekObj) step(_ *testing.T, ev []uint64) []uint64 {
	switch {
	case ev[0] == 1 && len(ev) == 3:
		off, wh := int64(ev[1]), int(int64(ev[2]))
		pos, err := o.rs.Seek(off, wh)
		if err != nil {
			pos = 0 // the number returned together with an error is not part of the property
		}
		obs := []uint64{uint64(pos), encErr(err)}
		if o.sr != nil {
			o.srSeek(off, wh)
			obs = append(obs, o.srPos())
		}
		return obs
	case ev[0] == 2 && len(ev) == 4:
		p := bufOf(ev[1])
		n, e := int(int64(ev[2])), decErr(ev[3])
		o.ra.set(n, e)
		gn, ge := o.rs.Read(p)
		obs := []uint64{uint64(int64(gn)), encErr(ge), o.ra.gotLen, o.ra.gotOff}
		if o.sr != nil {
			// the same scripted result; clipped to what is left for the SectionReader only if the event is
			// ill-formed for it (possible only after the implementation's position has already diverged)
			nn := int64(n)
			if rem := o.size - int64(o.srPos()); nn > rem {
				nn = rem
			}
			if nn < 0 {
				nn = 0
			}
			o.sra.set(int(nn), e)
			_, _ = o.sr.Read(p)
			obs = append(obs, o.srPos())
		}
		return obs
	}
	return []uint64{99}
}

// ---------------------------------------------------------------- iosizer
type sizerObj struct {
	rd, wr *script
	s      *iosizer.SizeReadWriter
}

func newSizer(rd, wr bool) *sizerObj {
	o := &sizerObj{}
	var r io.Reader
	var w io.Writer
	if rd {
		o.rd = &script{}
		r = o.rd
	}
	if wr {
		o.wr = &script{}
		w = o.wr
	}
	o.s = iosizer.NewSizeReadWriter(r, w)
	return o
}

func (o *sizerObj) step(_ *testing.T, ev []uint64) []uint64 {
	switch {
	case (ev[0] == 1 || ev[0] == 2) && len(ev) == 4:
		p := bufOf(ev[1])
		n, e := int(int64(ev[2])), decErr(ev[3])
		sc := o.rd
		if ev[0] == 2 {
			sc = o.wr
		}
		if sc != nil {
			sc.set(n, e)
		}
		var gn int
		var ge error
		if ev[0] == 1 {
			gn, ge = o.s.Read(p)
		} else {
			gn, ge = o.s.Write(p)
		}
		var called, seen uint64
		if sc != nil {
			called, seen = sc.called(), sc.gotLen
		}
		return []uint64{uint64(int64(gn)), encErr(ge), called, seen, o.s.TotalSize()}
	case ev[0] == 3 && len(ev) == 1:
		return []uint64{o.s.TotalSize()}
	}
	return []uint64{99}
}

// ---------------------------------------------------------------- iocloser
type closerObj struct {
	sc   *script
	rc   *iocloser.ReadCloser
	wc   *iocloser.WriteCloser
	ran  uint64
	cerr error
}

func newCloser(kind uint64, present, fn bool) *closerObj {
	o := &closerObj{}
	var closeFn func() error
	if fn {
		closeFn = func() error {
			o.ran++
			return o.cerr
		}
	}
	if present {
		o.sc = &script{}
	}
	if kind == 0 {
		var r io.Reader
		if present {
			r = o.sc
		}
		o.rc = iocloser.NewReadCloser(r, closeFn)
	} else {
		var w io.Writer
		if present {
			w = o.sc
		}
		o.wc = iocloser.NewWriteCloser(w, closeFn)
	}
	return o
}

func (o *closerObj) step(_ *testing.T, ev []uint64) []uint64 {
	switch {
	case ev[0] == 1 && len(ev) == 4:
		p := bufOf(ev[1])
		if o.sc != nil {
			o.sc.set(int(int64(ev[2])), decErr(ev[3]))
		}
		var gn int
		var ge error
		if o.rc != nil {
			gn, ge = o.rc.Read(p)
		} else {
			gn, ge = o.wc.Write(p)
		}
		var called, seen uint64
		if o.sc != nil {
			called, seen = o.sc.called(), o.sc.gotLen
		}
		return []uint64{uint64(int64(gn)), encErr(ge), called, seen, o.ran}
	case ev[0] == 2 && len(ev) == 2:
		o.cerr = decErr(ev[1])
		var e error
		if o.rc != nil {
			e = o.rc.Close()
		} else {
			e = o.wc.Close()
		}
		return []uint64{encErr(e), o.ran}
	}
	return []uint64{99}
}

// ---------------------------------------------------------------- ioproxy
// datab and hashStep are `datab` and `hash` of IO/Spec.v.
func datab(sd uint64, j uint64) byte { return byte((j*7 + sd*13 + 1) % 251) }
func hashStep(h uint64, b byte) uint64 { return (h*31 + uint64(b) + 1) % 1000003 }

type sideScript struct {
	term   uint64 // 0 EOF, 1 error, 2 block until Close
	wkind  uint64 // 0 accept all, 1 error after wk bytes, 2 short write after wk bytes
	wk     uint64
	chunks []uint64
}

// pstream is one scripted io.ReadWriteCloser.  Read is called by one pump only, Write by the other.
type pstream struct {
	sd uint64
	sc sideScript
	// reader side
	ci     int    // current chunk
	cdone  uint64 // bytes of the current chunk already served
	pos    uint64 // bytes served in total
	closed chan struct{}
	once   sync.Once
	// writer side
	budget uint64
	wsizes []uint64
	wcount uint64
	whash  uint64
	wnext  uint64 // index of the next expected byte (of the OTHER side's data)
	worder bool   // every accepted byte was the expected one
	ncl    atomic.Int64
}

func newPStream(sd uint64, sc sideScript) *pstream {
	return &pstream{sd: sd, sc: sc, closed: make(chan struct{}), budget: sc.wk, worder: true}
}

func (s *pstream) Read(p []byte) (int, error) {
	if s.ci < len(s.sc.chunks) {
		rem := s.sc.chunks[s.ci] - s.cdone
		n := uint64(len(p))
		if rem < n {
			n = rem
		}
		for i := uint64(0); i < n; i++ {
			p[i] = datab(s.sd, s.pos+i)
		}
		s.pos += n
		s.cdone += n
		if s.cdone == s.sc.chunks[s.ci] {
			s.ci++
			s.cdone = 0
		}
		return int(n), nil
	}
	switch s.sc.term {
	case 0:
		return 0, io.EOF
	case 1:
		return 0, errOther
	}
	<-s.closed
	return 0, errClosed
}

func (s *pstream) accept(p []byte) {
	other := 3 - s.sd
	for _, b := range p {
		if b != datab(other, s.wnext) {
			s.worder = false
		}
		s.wnext++
		s.whash = hashStep(s.whash, b)
	}
	s.wcount += uint64(len(p))
}

func (s *pstream) Write(p []byte) (int, error) {
	s.wsizes = append(s.wsizes, uint64(len(p)))
	if s.sc.wkind == 0 {
		s.accept(p)
		return len(p), nil
	}
	if uint64(len(p)) <= s.budget {
		s.accept(p)
		s.budget -= uint64(len(p))
		return len(p), nil
	}
	b := s.budget
	s.accept(p[:b])
	s.budget = 0
	if s.sc.wkind == 1 {
		return int(b), errOther
	}
	return int(b), nil
}

func (s *pstream) Close() error {
	s.ncl.Add(1)
	s.release()
	return nil
}
func (s *pstream) release() { s.once.Do(func() { close(s.closed) }) }

func decSide(l []uint64) (sideScript, []uint64, bool) {
	if len(l) < 4 || uint64(len(l)-4) < l[3] {
		return sideScript{}, nil, false
	}
	n := int(l[3])
	return sideScript{term: l[0], wkind: l[1], wk: l[2], chunks: l[4 : 4+n]}, l[4+n:], true
}

// one direction: bytes accepted by the destination and their hash (Write sizes are not observed)
func encDirObs(dst *pstream) []uint64 { return []uint64{dst.wcount, dst.whash} }

type proxyObj struct{ w *hist.W }

// one complete ProxyStreams run inside a synctest bubble: wait until every goroutine of the bubble
// has returned or is durably blocked (a pump blocked in a Read that only Close releases), take the
// observation, then tear down.
func (o *proxyObj) step(t *testing.T, ev []uint64) []uint64 {
	if len(ev) < 2 || ev[0] != 1 {
		return []uint64{99}
	}
	a, rest, ok := decSide(ev[2:])
	if !ok {
		return []uint64{99}
	}
	b, rest, ok := decSide(rest)
	if !ok || len(rest) != 0 {
		return []uint64{99}
	}
	var obs []uint64
	synctest.Test(t, func(t *testing.T) {
		s1, s2 := newPStream(1, a), newPStream(2, b)
		var ncb atomic.Int64
		var cb func()
		if ev[1] == 0 {
			cb = func() { ncb.Add(1) }
		}
		ioproxy.ProxyStreams(s1, s2, cb)
		synctest.Wait()
		obs = append(encDirObs(s2), encDirObs(s1)...) // direction a: s1 -> s2; direction b: s2 -> s1
		// closed flags (was Close called at least once), not counts: how often a side is closed is not part of the property
		obs = append(obs, uint64(min(s1.ncl.Load(), 1)), uint64(min(s2.ncl.Load(), 1)), uint64(ncb.Load()))
		o.w.Count(fmt.Sprintf("proxy.close_calls_%d_%d", s1.ncl.Load(), s2.ncl.Load()), 1)
		for _, z := range append(append([]uint64(nil), s1.wsizes...), s2.wsizes...) {
			if z >= 8192 {
				o.w.Count("proxy.write_ge_8192", 1)
			}
		}
		if !s1.worder || !s2.worder {
			o.w.Count("proxy.out_of_order", 1) // the hash differs as well; counted for the evidence
		}
		s1.release()
		s2.release()
		synctest.Wait()
	})
	return obs
}

// ---------------------------------------------------------------- histories
func newObj(w *hist.W, cfg []uint64) obj {
	if len(cfg) == 0 {
		return nil
	}
	switch {
	case cfg[0] == 1 && len(cfg) == 3 && cfg[1] < 1<<63:
		return newSeek(int64(cfg[1]), cfg[2] != 0)
	case cfg[0] == 2 && len(cfg) == 3:
		return newSizer(cfg[1] != 0, cfg[2] != 0)
	case cfg[0] == 3 && len(cfg) == 4:
		return newCloser(cfg[1], cfg[2] != 0, cfg[3] != 0)
	case cfg[0] == 4 && len(cfg) == 1:
		return &proxyObj{w: w}
	}
	return nil
}

func runFixed(t *testing.T, w *hist.W, id string, cfg []uint64, evs [][]uint64) {
	o := newObj(w, cfg)
	w.Begin(id, cfg)
	if o == nil {
		return
	}
	for _, ev := range evs {
		if len(ev) == 0 {
			continue
		}
		w.Flush()
		w.Step(ev, o.step(t, ev))
	}
}

// ---------------------------------------------------------------- generators
func pick[T any](r *rand.Rand, xs ...T) T { return xs[r.IntN(len(xs))] }

const maxI64 = math.MaxInt64
const minI64 = math.MinInt64

var bigAllocs int // > 4 GiB buffers really allocated in this run (corpus excluded): at most 1

func genSeek(t *testing.T, w *hist.W, r *rand.Rand, id string) {
	size := pick[int64](r, 0, 1, 2, 7, 10, 100, 4096, 1<<20, 1<<40, maxI64-1, maxI64)
	if r.IntN(3) == 0 {
		size = int64(r.IntN(64))
	}
	sr := uint64(r.IntN(4) / 3 ^ 1) // mostly with the third opinion
	cfg := []uint64{1, uint64(size), sr}
	o := newObj(w, cfg)
	w.Begin(id, cfg)
	pos := int64(0) // the IMPLEMENTATION's position, read off its observations
	steps := 1 + r.IntN(14)
	for k := 0; k < steps; k++ {
		var ev []uint64
		if r.IntN(5) < 3 {
			wh := int64(r.IntN(3))
			var off int64
			inr := func(lo, hi int64) int64 { // uniform in [lo, hi] (hi-lo may be huge)
				if hi <= lo {
					return lo
				}
				span := uint64(hi-lo) + 1
				if span == 0 {
					return int64(r.Uint64())
				}
				return lo + int64(r.Uint64N(span))
			}
			switch wh {
			case 0:
				off = pick(r, 0, 1, size-1, size, size+1, -1, minI64, maxI64, pos, pos+1, inr(0, size), inr(0, size))
			case 1:
				off = pick(r, 0, 1, -1, -pos, -pos-1, size-pos, size-pos+1, size-pos-1, maxI64, minI64, maxI64-pos, maxI64-pos+1,
					minI64+pos, inr(-pos, size-pos), inr(-pos, size-pos))
			default:
				off = pick(r, 0, -1, 1, -size, -size-1, -size+1, minI64, maxI64, maxI64-size, maxI64-size+1, inr(-size, 0), inr(-size, 0))
			}
			if r.IntN(12) == 0 { // invalid whence
				wh = pick[int64](r, 3, -1, 7, 1<<40, minI64, maxI64)
				w.Count("seek.whence_invalid", 1)
			}
			ev = []uint64{1, uint64(off), uint64(wh)}
		} else {
			plen := pick[uint64](r, 0, 1, 2, 3, 8, 64, 4096, 1<<20)
			if r.IntN(2) == 0 {
				plen = uint64(r.IntN(40))
			}
			maxn := uint64(size - pos)
			if pos > size || pos < 0 {
				maxn = 0
			}
			if plen < maxn {
				maxn = plen
			}
			n := maxn
			switch r.IntN(5) {
			case 0:
				n = 0
			case 1:
				if maxn > 0 {
					n = maxn - 1
				}
			case 2:
				n = r.Uint64N(maxn + 1)
			}
			e := uint64(0)
			if n < plen {
				e = pick[uint64](r, 0, 1, 1, 2)
			} else if r.IntN(6) == 0 {
				e = pick[uint64](r, 1, 2)
			}
			if e != 0 && n > 0 {
				w.Count("seek.read_err_with_n", 1)
			}
			if n < plen && e == 0 {
				w.Count("seek.read_short_nil", 1)
			}
			ev = []uint64{2, plen, n, e}
		}
		obs := o.step(t, ev)
		w.Step(ev, obs)
		if ev[0] == 1 {
			w.Count("seek.seek", 1)
			if obs[1] == 0 {
				pos = int64(obs[0])
			} else {
				w.Count(fmt.Sprintf("seek.seek_fail_%d", obs[1]), 1)
			}
		} else {
			w.Count("seek.read", 1)
			pos = int64(obs[3]) + int64(obs[0])
		}
		if pos == size {
			w.Count("seek.at_end", 1)
		}
	}
}

func genN(r *rand.Rand, plen uint64, wild bool) uint64 {
	n := plen
	switch r.IntN(6) {
	case 0:
		n = 0
	case 1:
		if plen > 0 {
			n = plen - 1
		}
	case 2:
		n = r.Uint64N(plen + 1)
	}
	if wild && r.IntN(6) == 0 { // a wrapped stream that misbehaves: count beyond len(p), huge, negative
		n = pick[uint64](r, plen+1, math.MaxUint32-1, math.MaxUint32, math.MaxUint32+1, 4294967301, 1<<40, maxI64, maxI64-1,
			uint64(1<<64-1), uint64(1<<64-5), uint64(1<<63))
	}
	return n
}

func genSizer(t *testing.T, w *hist.W, r *rand.Rand, id string) {
	rd, wr := uint64(1), uint64(1)
	if r.IntN(8) == 0 {
		rd = 0
	}
	if r.IntN(8) == 0 {
		wr = 0
	}
	cfg := []uint64{2, rd, wr}
	o := newObj(w, cfg)
	w.Begin(id, cfg)
	steps := 1 + r.IntN(12)
	for k := 0; k < steps; k++ {
		var ev []uint64
		if r.IntN(6) == 0 {
			ev = []uint64{3}
		} else {
			plen := pick[uint64](r, 0, 1, 5, 16, 512, 8192, 1<<20)
			n := genN(r, plen, true)
			if bigAllocs < 1 && r.IntN(2000) == 0 { // a well-behaved > 4 GiB transfer: the buffer really has that size
				bigAllocs++
				plen, n = 4294967301+uint64(r.IntN(3)), 4294967301
				w.Count("sizer.big_alloc", 1)
			}
			e := uint64(0)
			if r.IntN(4) == 0 {
				e = pick[uint64](r, 1, 2)
			}
			ev = []uint64{1 + uint64(r.IntN(2)), plen, n, e}
			if int64(n) > math.MaxUint32 {
				w.Count("sizer.n_gt_maxuint32", 1)
			}
			if int64(n) < 0 {
				w.Count("sizer.n_negative", 1)
			}
			if e != 0 && int64(n) > 0 {
				w.Count("sizer.err_with_n", 1)
			}
		}
		obs := o.step(t, ev)
		w.Step(ev, obs)
		w.Count(fmt.Sprintf("sizer.ev_%d", ev[0]), 1)
		if len(obs) == 5 && obs[2] == 0 {
			w.Count("sizer.nil_stream_call", 1)
		}
	}
}

func genCloser(t *testing.T, w *hist.W, r *rand.Rand, id string) {
	kind := uint64(r.IntN(2))
	present, fn := uint64(1), uint64(1)
	if r.IntN(8) == 0 {
		present = 0
	}
	if r.IntN(6) == 0 {
		fn = 0
	}
	cfg := []uint64{3, kind, present, fn}
	o := newObj(w, cfg)
	w.Begin(id, cfg)
	steps := 1 + r.IntN(10)
	closed := false
	for k := 0; k < steps; k++ {
		var ev []uint64
		pc := 4
		if closed {
			pc = 2
		}
		if r.IntN(pc) == 0 {
			ev = []uint64{2, pick[uint64](r, 0, 0, 1, 2)}
		} else {
			plen := pick[uint64](r, 0, 1, 5, 16, 512, 8192)
			e := uint64(0)
			if r.IntN(4) == 0 {
				e = pick[uint64](r, 1, 2)
			}
			ev = []uint64{1, plen, genN(r, plen, r.IntN(4) == 0), e}
		}
		obs := o.step(t, ev)
		w.Step(ev, obs)
		if ev[0] == 2 {
			if closed {
				w.Count("closer.close_again", 1)
			}
			closed = true
			w.Count("closer.close", 1)
		} else {
			if closed {
				w.Count("closer.io_after_close", 1)
			}
			w.Count("closer.io", 1)
		}
	}
}

func genSide(r *rand.Rand, large bool) []uint64 {
	term := pick[uint64](r, 0, 0, 1, 2, 2)
	nch := r.IntN(5)
	var chunks []uint64
	total := uint64(0)
	nbig := 0
	if large && nch == 0 {
		nch = 1
	}
	for i := 0; i < nch; i++ {
		c := uint64(r.IntN(40))
		switch r.IntN(6) {
		case 0:
			c = 0
		case 1:
			c = uint64(r.IntN(600))
		}
		if large && nbig < 2 && r.IntN(2+2*nbig) == 0 {
			c = pick[uint64](r, 8191, 8192, 8193, 8193, 9000, 16384, 16385)
			nbig++
		}
		chunks = append(chunks, c)
		total += c
	}
	wkind, wk := uint64(0), uint64(0)
	if r.IntN(3) == 0 {
		wkind = 1 + uint64(r.IntN(2))
		// budgets around the other side's typical totals; the exact relation is decided by the peer's script
		wk = pick[uint64](r, 0, 1, 7, 39, 40, 41, 100, 600, 8191, 8192, 8193, uint64(r.IntN(80)))
	}
	out := []uint64{term, wkind, wk, uint64(nch)}
	return append(out, chunks...)
}

func sideTotal(s []uint64) uint64 {
	t := uint64(0)
	for _, c := range s[4:] {
		t += c
	}
	return t
}

func genProxy(t *testing.T, w *hist.W, r *rand.Rand, id string) {
	cfg := []uint64{4}
	o := newObj(w, cfg)
	w.Begin(id, cfg)
	steps := 1 + r.IntN(2)
	for k := 0; k < steps; k++ {
		large := r.IntN(100) == 0
		a, b := genSide(r, large), genSide(r, large && r.IntN(2) == 0)
		// make the budget of a failing writer meet the peer's total exactly / off by one now and then
		if a[1] != 0 && r.IntN(2) == 0 {
			tb := sideTotal(b)
			a[2] = pick(r, tb, tb+1, tb/2, tb-min(tb, 1))
		}
		if b[1] != 0 && r.IntN(2) == 0 {
			ta := sideTotal(a)
			b[2] = pick(r, ta, ta+1, ta/2, ta-min(ta, 1))
		}
		a[2], b[2] = min(a[2], 65536), min(b[2], 65536)
		cbnil := uint64(0)
		if r.IntN(8) == 0 {
			cbnil = 1
		}
		ev := append([]uint64{1, cbnil}, a...)
		ev = append(ev, b...)
		obs := o.step(t, ev)
		w.Step(ev, obs)
		w.Count("proxy.run", 1)
		if large {
			w.Count("proxy.large", 1)
		}
		if len(obs) >= 3 {
			c1, c2, cb := obs[len(obs)-3], obs[len(obs)-2], obs[len(obs)-1]
			if c1 == 0 && c2 == 0 {
				w.Count("proxy.both_block_forever", 1)
			}
			if a[0] == 2 && b[0] == 2 && c1 > 0 {
				w.Count("proxy.ended_by_write_failure", 1)
			}
			if (a[0] == 2) != (b[0] == 2) {
				w.Count("proxy.blocked_pump_released_by_close", 1)
			}
			if cbnil == 1 {
				w.Count("proxy.cb_nil", 1)
			}
			_ = cb
		}
	}
}

// fixed boundary cases (deterministic, independent of the seed)
func runBoundary(t *testing.T, w *hist.W) {
	u := func(x int64) uint64 { return uint64(x) }
	runFixed(t, w, "fixed-seek-wrap", []uint64{1, 10, 1}, [][]uint64{
		{1, 10, 0}, {1, u(maxI64), 1}, {1, u(maxI64 - 9), 1}, {1, u(minI64), 1}, {1, u(maxI64), 2}, {1, u(minI64), 2},
		{1, u(-10), 2}, {1, u(-11), 2}, {1, 1, 2}, {1, 0, 2}, {2, 4, 0, 1}, {1, 0, 3}, {1, 5, u(-1)}, {1, 11, 0}, {1, u(-1), 0},
		{1, 3, 0}, {2, 16, 5, 2}, {1, 0, 1}, {2, 16, 2, 1}, {2, 16, 0, 1}, {1, 1, 1}, {1, u(-10), 1}, {1, u(-1), 1},
	})
	runFixed(t, w, "fixed-seek-maxsize", []uint64{1, u(maxI64), 1}, [][]uint64{
		{1, u(maxI64), 0}, {1, 1, 1}, {1, 0, 2}, {1, 1, 2}, {1, u(-2), 2}, {2, 8, 2, 0}, {2, 8, 0, 1}, {1, u(minI64), 1}, {1, u(-maxI64), 1},
		{1, u(maxI64), 1}, {1, 1, 1}, {1, u(-maxI64), 2}, {1, u(minI64), 2},
	})
	runFixed(t, w, "fixed-seek-empty", []uint64{1, 0, 1}, [][]uint64{
		{2, 8, 0, 1}, {1, 0, 0}, {1, 0, 1}, {1, 0, 2}, {1, 1, 0}, {1, u(-1), 2}, {2, 0, 0, 0},
	})
	runFixed(t, w, "fixed-sizer-wrap", []uint64{2, 1, 1}, [][]uint64{
		{1, 8, u(maxI64), 0}, {3}, {2, 8, u(maxI64), 2}, {3}, {1, 8, 2, 0}, {3}, {1, 8, 3, 1}, {1, 8, u(-1), 0}, {2, 8, 0, 0}, {3},
		{1, 8, math.MaxUint32, 0}, {2, 8, math.MaxUint32 + 1, 0}, {3},
	})
	runFixed(t, w, "fixed-sizer-nil", []uint64{2, 0, 0}, [][]uint64{{1, 8, 8, 0}, {2, 8, 8, 0}, {3}})
	for kind := uint64(0); kind < 2; kind++ {
		runFixed(t, w, fmt.Sprintf("fixed-closer-%d", kind), []uint64{3, kind, 1, 1}, [][]uint64{
			{1, 8, 8, 0}, {1, 8, 3, 2}, {2, 2}, {2, 0}, {1, 8, 8, 0}, {2, 1}, {1, 0, 0, 0},
		})
		runFixed(t, w, fmt.Sprintf("fixed-closer-nilfn-%d", kind), []uint64{3, kind, 1, 0}, [][]uint64{{1, 8, 8, 0}, {2, 2}, {1, 8, 8, 0}, {2, 1}})
		runFixed(t, w, fmt.Sprintf("fixed-closer-nilstream-%d", kind), []uint64{3, kind, 0, 1}, [][]uint64{{1, 8, 8, 0}, {2, 1}, {2, 1}, {1, 8, 8, 0}})
	}
	runFixed(t, w, "fixed-proxy", []uint64{4}, [][]uint64{
		{1, 0, 0, 0, 0, 2, 3, 9000, 2, 1, 5000, 1, 2},                // EOF side vs. failing writer + blocking reader
		{1, 0, 2, 0, 0, 1, 5, 2, 0, 0, 1, 7},                         // both block forever: nothing is closed
		{1, 1, 2, 0, 0, 1, 5, 2, 2, 3, 1, 7},                         // both block, a short write ends it; nil callback
		{1, 0, 0, 0, 0, 3, 8192, 0, 8193, 1, 0, 0, 0},                // chunk boundaries, zero chunk, error terminal
		{1, 0, 0, 1, 16385, 1, 4, 0, 0, 0, 2, 16384, 1},              // budget exactly the total: no failure
		{1, 0, 0, 1, 16384, 1, 4, 0, 0, 0, 2, 16384, 1},              // one byte less
		{1, 0, 1, 0, 0, 0, 1, 0, 0, 0},                               // nothing to copy
	})
}

func TestIO(t *testing.T) {
	w, err := hist.Open("io")
	if err != nil {
		t.Fatal(err)
	}
	defer w.Close()
	if *hist.Replay != "" {
		hs, err := hist.Load(*hist.Replay)
		if err != nil {
			t.Fatal(err)
		}
		for _, h := range hs {
			runFixed(t, w, h.ID, h.Cfg, h.Evs)
		}
		return
	}
	for _, h := range hist.LoadCorpus(*hist.Corpus) {
		runFixed(t, w, h.ID, h.Cfg, h.Evs)
		w.Count("corpus", 1)
	}
	runBoundary(t, w)
	for h := 0; h < *hist.NHist; h++ {
		r := hist.Rng(h)
		id := fmt.Sprintf("r%d", h)
		switch k := h % 20; {
		case k < 8:
			genSeek(t, w, r, id)
		case k < 12:
			genSizer(t, w, r, id)
		case k < 17:
			genCloser(t, w, r, id)
		default:
			genProxy(t, w, r, id)
		}
	}
}
