// Scheduled correspondence harness for keyed.Keyed / keyed.KeyedRefCount (C06, C07).
// Event and observation encoding: see /verif/coq/theories/Keyed/Spec.v.
package keyedx

import (
	"context"
	"errors"
	"fmt"
	"math/rand/v2"
	"sort"
	"sync"
	"testing"
	"testing/synctest"
	"time"

	ubackoff "github.com/aperturerobotics/util/backoff"
	"github.com/aperturerobotics/util/keyed"
	cbackoff "github.com/cenkalti/backoff/v4"
	"verif/harness/ctl"
	"verif/harness/hist"
)

const (
	kAPI   = 1
	kInst  = 2
	kTimer = 3
	kRel   = 4
)

type rootKey struct{}

// scripted back-off (one per record)
type scriptBO struct {
	durs []uint64
	idx  int
}

func (b *scriptBO) NextBackOff() time.Duration {
	i := b.idx
	b.idx++
	if i < len(b.durs) {
		return time.Duration(b.durs[i]) * time.Millisecond
	}
	return cbackoff.Stop
}
func (b *scriptBO) Reset() { b.idx = 0 }

type idata struct {
	key     uint64
	ctx     context.Context
	data    uint64
	root    uint64
	outcome uint64
	passed  bool // left the first gate
	booked  bool // its bookkeeping section was run (adopted goroutines have no Done flag)
}

type tdata struct {
	kind, key, dead uint64
	seq             int
	ran             bool
}

type sys struct {
	c        *ctl.Ctl
	w        *hist.W
	variant  bool
	k        *keyed.Keyed[uint64, uint64]
	rc       *keyed.KeyedRefCount[uint64, uint64]
	roots    map[uint64]context.Context // root contexts by number, made on first use (the harness owns them)
	cancels  map[uint64]context.CancelFunc
	rootDead map[uint64]bool // the owner (the harness) has cancelled this root context
	cur      uint64          // the root context handed to SetContext last (0: nil)
	ncancel  int
	insts    []*ctl.Actor
	pending  []*ctl.Actor
	timers   []*ctl.Actor
	refs     []*keyed.KeyedRef[uint64, uint64]
	refKeys  []uint64
	refLive  []bool      // the reference is still counted in rc.refs (statistics and generation only)
	rcFree   func() bool // keyed.KeyedRefCount.VerifRcMtxFree (verif_on.go), nil if /repo does not have it yet
	rels     []*ctl.Actor
	ctorN    map[uint64]uint64
	cbmu     sync.Mutex
	cblog    [][3]uint64
	cbseen   int
	start    time.Time
	keys     []keyed.KeyWithData[uint64, uint64] // observed last
	nkeys    int
	clockMs  uint64
	lastReq  map[uint64]uint64 // key -> time of the last removal request (statistics only)
	nclear   int               // clearing calls so far (they alternate between ClearContext() and SetContext(nil, false))
	nilMode  uint64            // event 22: what the constructor returns next (0 a routine, 1 none, 2.. none for odd keys)
	nilKeys  map[uint64]bool   // keys whose current record was constructed without a routine (generation and statistics only)
}

func errOf(code uint64) error {
	switch code {
	case 0:
		return nil
	case 1:
		return context.Canceled
	default:
		return fmt.Errorf("e%d", code-2)
	}
}

func codeOf(err error) uint64 {
	if err == nil {
		return 0
	}
	if errors.Is(err, context.Canceled) {
		return 1
	}
	var n uint64
	if _, e := fmt.Sscanf(err.Error(), "e%d", &n); e == nil {
		return n + 2
	}
	return 99
}

func newSys(w *hist.W, cfg []uint64) *sys {
	s := &sys{c: ctl.New(), w: w, variant: cfg[0]&1 == 1, ctorN: map[uint64]uint64{}, lastReq: map[uint64]uint64{}, nilKeys: map[uint64]bool{}, start: time.Now()}
	ctor := func(key uint64) (keyed.Routine, uint64) {
		s.ctorN[key]++
		data := key*1000 + s.ctorN[key]
		if s.nilMode == 1 || (s.nilMode >= 2 && key%2 == 1) {
			// no routine: the record occupies its key and is never started
			s.nilKeys[key] = true
			s.w.Count("obs.constructor_returned_nil_routine", 1)
			return nil, data
		}
		if s.nilKeys[key] {
			s.w.Count("obs.routine_constructed_after_record_without_routine", 1)
			for _, a := range s.insts {
				if a.InUser() != 0 && a.Data.(*idata).key == key {
					s.w.Count("obs.routine_constructed_after_record_without_routine.instance_still_in_user_code", 1)
					break
				}
			}
		}
		delete(s.nilKeys, key)
		return func(ctx context.Context) error { return s.userFn(ctx, data) }, data
	}
	opts := []keyed.Option[uint64, uint64]{
		keyed.WithExitCb(func(key uint64, _ keyed.Routine, data uint64, err error) {
			// exit callbacks of different instances run concurrently once the gates are switched off (teardown)
			s.cbmu.Lock()
			s.cblog = append(s.cblog, [3]uint64{key, data, codeOf(err)})
			s.cbmu.Unlock()
		}),
	}
	if cfg[1] != 0 {
		d := time.Duration(cfg[1]) * time.Millisecond
		if cfg[0]&2 != 0 {
			// the option takes the absolute value
			d = -d
			w.Count("cfg.negative_release_delay", 1)
		}
		opts = append(opts, keyed.WithReleaseDelay[uint64, uint64](d))
	}
	if cfg[2] == 1 {
		durs := append([]uint64{}, cfg[3:]...)
		opts = append(opts, keyed.WithBackoff[uint64, uint64](func(uint64) cbackoff.BackOff { return &scriptBO{durs: durs} }))
	}
	if cfg[2] == 2 {
		// keyed.WithRetry with a configuration of the backoff package (constant kind, cfg[3] ms, 0 = unset): every record gets
		// its own object from conf.Construct(); the model computes the script from its model of that package
		var d uint64
		if len(cfg) > 3 {
			d = cfg[3]
		}
		opts = append(opts, keyed.WithRetry[uint64, uint64](&ubackoff.Backoff{BackoffKind: ubackoff.BackoffKind_BackoffKind_CONSTANT,
			Constant: &ubackoff.Constant{Interval: uint32(d)}}))
		w.Count("cfg.real_backoff_object", 1)
	}
	if s.variant {
		s.rc = keyed.NewKeyedRefCount(ctor, opts...)
		// the probe comes with gate 5 (notes/keyed_site5_hook.patch); looked up dynamically so that the harness also
		// builds against a /repo that has neither (gate 5 is then never reached and nothing parks there)
		if p, ok := any(s.rc).(interface{ VerifRcMtxFree() bool }); ok {
			s.rcFree = p.VerifRcMtxFree
			w.Count("hook.rc_mtx_probe_available", 1)
		} else {
			w.Count("hook.rc_mtx_probe_missing", 1)
		}
	} else {
		s.k = keyed.NewKeyed(ctor, opts...)
	}
	s.roots = map[uint64]context.Context{}
	s.cancels = map[uint64]context.CancelFunc{}
	s.rootDead = map[uint64]bool{}
	s.c.ShouldPark = func(a *ctl.Actor, pkg string, site int, obj any) bool {
		if pkg != "keyed" {
			return false
		}
		switch a.Kind {
		case kInst:
			return site == 0 || site == 1
		case kTimer:
			return site == 2 || site == 3
		case kRel:
			if site == 5 {
				// Keyed.RemoveKey reached from a Release call.  The unchanged code gets here inside the rc.mtx section
				// (never park a goroutine that holds a sync.Mutex); a Release that has already let go of rc.mtx is
				// parked: the window between the reference bookkeeping and the removal is a schedule point.
				return s.variant && s.rcFree != nil && s.rcFree()
			}
			return site == 4
		}
		// API actors (Keyed.RemoveKey, KeyedRefCount.RemoveKey) do not park at site 5: for the plain call it is the
		// same as the call not having started, and KeyedRefCount.RemoveKey holds rc.mtx there
		return false
	}
	s.c.Adopt = func(pkg string, site int, obj any) *ctl.Actor {
		if pkg != "keyed" {
			return nil
		}
		key, _ := obj.(uint64)
		switch site {
		case 0:
			a := s.c.NewActor(kInst)
			a.Data = &idata{key: key}
			s.pending = append(s.pending, a)
			return a
		case 2, 3:
			a := s.c.NewActor(kTimer)
			a.Data = &tdata{kind: uint64(site - 2), key: key, dead: uint64(time.Since(s.start) / time.Millisecond), seq: len(s.timers)}
			s.timers = append(s.timers, a)
			return a
		}
		return nil
	}
	keyed.VerifHook = s.c.HookFor("keyed", nil, nil)
	return s
}

const maxRoot = 9

// root returns root context c (c >= 1), making it on first use.
func (s *sys) root(c uint64) context.Context {
	if ctx, ok := s.roots[c]; ok {
		return ctx
	}
	ctx, cancel := context.WithCancel(context.WithValue(context.Background(), rootKey{}, c))
	s.roots[c], s.cancels[c] = ctx, cancel
	return ctx
}

// curDead: the root context the container was given last has been cancelled by its owner
func (s *sys) curDead() bool { return s.cur != 0 && s.rootDead[s.cur] }

// userFn is the body of every managed routine.
func (s *sys) userFn(ctx context.Context, data uint64) error {
	a := s.c.Current()
	if a == nil || a.Kind != kInst {
		return errors.New("harness: user function on an unknown goroutine")
	}
	d := a.Data.(*idata)
	d.ctx, d.data = ctx, data
	if v, ok := ctx.Value(rootKey{}).(uint64); ok {
		d.root = v
	}
	s.c.ParkUser(a, 1)
	return errOf(d.outcome)
}

// instances spawned during one event are numbered in key order (Go's map iteration order is not observable)
func (s *sys) flush() {
	sort.SliceStable(s.pending, func(i, j int) bool {
		return s.pending[i].Data.(*idata).key < s.pending[j].Data.(*idata).key
	})
	s.insts = append(s.insts, s.pending...)
	s.pending = nil
}

func (s *sys) parkedTimers() []*ctl.Actor {
	var out []*ctl.Actor
	for _, t := range s.timers {
		if !t.Data.(*tdata).ran && t.Parked() {
			out = append(out, t)
		}
	}
	sort.SliceStable(out, func(i, j int) bool {
		a, b := out[i].Data.(*tdata), out[j].Data.(*tdata)
		if a.dead != b.dead {
			return a.dead < b.dead
		}
		if a.kind != b.kind {
			return a.kind < b.kind
		}
		if a.key != b.key {
			return a.key < b.key
		}
		return a.seq < b.seq
	})
	return out
}

// tied: another parked callback with the same deadline, kind and key (their relative order is not determined)
func tied(ts []*ctl.Actor, j int) bool {
	a := ts[j].Data.(*tdata)
	for i, t := range ts {
		b := t.Data.(*tdata)
		if i != j && a.dead == b.dead && a.kind == b.kind && a.key == b.key {
			return true
		}
	}
	return false
}

func (s *sys) getKeys() []keyed.KeyWithData[uint64, uint64] {
	var ks []keyed.KeyWithData[uint64, uint64]
	if s.variant {
		ks = s.rc.GetKeysWithData()
	} else {
		ks = s.k.GetKeysWithData()
	}
	sort.Slice(ks, func(i, j int) bool { return ks[i].Key < ks[j].Key })
	return ks
}

func (s *sys) hasKey(k uint64) bool {
	for _, x := range s.keys {
		if x.Key == k {
			return true
		}
	}
	return false
}

func (s *sys) obs(rets []uint64) []uint64 {
	s.flush()
	o := append([]uint64{}, rets...)
	s.keys = s.getKeys()
	o = append(o, uint64(len(s.keys)))
	for _, kd := range s.keys {
		o = append(o, kd.Key, kd.Data)
	}
	o = append(o, uint64(len(s.insts)))
	for _, a := range s.insts {
		d := a.Data.(*idata)
		switch {
		case a.Done() || (d.booked && !a.Parked()):
			o = append(o, 5, d.key, 0, 0, 0)
		case a.InUser() != 0:
			k := uint64(0)
			if d.ctx.Err() != nil {
				k = 1
			}
			o = append(o, 3, d.key, d.data, d.root, k)
		case a.Parked() && !d.passed:
			o = append(o, 1, d.key, 0, 0, 0)
		case a.Parked():
			o = append(o, 4, d.key, 0, 0, 0)
		default:
			o = append(o, 2, d.key, 0, 0, 0)
		}
	}
	s.cbmu.Lock()
	delta := append([][3]uint64{}, s.cblog[s.cbseen:]...)
	s.cbseen = len(s.cblog)
	s.cbmu.Unlock()
	o = append(o, uint64(len(delta)))
	for _, x := range delta {
		o = append(o, x[0], x[1], x[2])
	}
	ts := s.parkedTimers()
	o = append(o, uint64(len(ts)))
	for _, t := range ts {
		d := t.Data.(*tdata)
		o = append(o, d.kind, d.key, d.dead)
	}
	o = append(o, uint64(len(s.rels)))
	for _, a := range s.rels {
		switch {
		case a.Done():
			o = append(o, 2)
		case a.Parked() && a.Site() == 5:
			o = append(o, 3)
		default:
			o = append(o, 1)
		}
	}
	return o
}

func b2u(b bool) uint64 {
	if b {
		return 1
	}
	return 0
}

func (s *sys) api(f func()) { s.c.Spawn(kAPI, func(a *ctl.Actor) { f() }) }

func conds(c uint64) []func(uint64, uint64) bool {
	switch c {
	case 0:
		return nil
	case 1:
		return []func(uint64, uint64) bool{func(uint64, uint64) bool { return false }}
	default:
		return []func(uint64, uint64) bool{func(k, _ uint64) bool { return k%2 == 1 }}
	}
}

func encKeys(ks []uint64) []uint64 {
	ks = append([]uint64{}, ks...)
	sort.Slice(ks, func(i, j int) bool { return ks[i] < ks[j] })
	return append([]uint64{uint64(len(ks))}, ks...)
}

// exec applies one event; ok=false if not applicable now.  It may rewrite the event (the select choice of event 14).
func (s *sys) exec(ev []uint64) (obs []uint64, ok bool) {
	var rets []uint64
	switch ev[0] {
	case 1:
		if len(ev) != 3 || ev[1] > maxRoot {
			return nil, false
		}
		c, restart := ev[1], ev[2] == 1
		var ctx context.Context
		if c != 0 {
			ctx = s.root(c)
			if s.rootDead[c] {
				s.w.Count("obs.setcontext_with_cancelled_root", 1)
			}
		}
		// clearing calls alternate between the ClearContext() wrapper (the first, third, ... of a history) and
		// SetContext(nil, false)
		wrapper := false
		if c == 0 && !restart {
			s.nclear++
			wrapper = s.nclear%2 == 1
			if wrapper {
				s.w.Count("api.clearcontext_wrapper", 1)
			} else {
				s.w.Count("api.setcontext_nil", 1)
			}
		}
		s.api(func() {
			switch {
			case wrapper && s.variant:
				s.rc.ClearContext()
			case wrapper:
				s.k.ClearContext()
			case s.variant:
				s.rc.SetContext(ctx, restart)
			default:
				s.k.SetContext(ctx, restart)
			}
		})
		s.cur = c
	case 2:
		if s.variant || len(ev) != 3 {
			return nil, false
		}
		var d uint64
		var ex bool
		s.api(func() { d, ex = s.k.SetKey(ev[1], ev[2] == 1) })
		rets = []uint64{d, b2u(ex)}
	case 3:
		if s.variant || len(ev) != 2 {
			return nil, false
		}
		var ex bool
		s.api(func() { ex = s.k.RemoveKey(ev[1]) })
		rets = []uint64{b2u(ex)}
		s.lastReq[ev[1]] = s.clockMs
	case 4:
		if s.variant || len(ev) < 2 {
			return nil, false
		}
		var added, removed []uint64
		s.api(func() { added, removed = s.k.SyncKeys(append([]uint64{}, ev[2:]...), ev[1] == 1) })
		rets = append(encKeys(added), encKeys(removed)...)
		for _, k := range removed {
			s.lastReq[k] = s.clockMs
		}
	case 5:
		if len(ev) != 2 {
			return nil, false
		}
		var d uint64
		var ex bool
		s.api(func() {
			if s.variant {
				d, ex = s.rc.GetKey(ev[1])
			} else {
				d, ex = s.k.GetKey(ev[1])
			}
		})
		rets = []uint64{d, b2u(ex)}
	case 6, 7:
		if len(ev) != 3 {
			return nil, false
		}
		var ex, rs bool
		s.api(func() {
			switch {
			case ev[0] == 6 && s.variant:
				ex, rs = s.rc.ResetRoutine(ev[1], conds(ev[2])...)
			case ev[0] == 6:
				ex, rs = s.k.ResetRoutine(ev[1], conds(ev[2])...)
			case s.variant:
				ex, rs = s.rc.RestartRoutine(ev[1], conds(ev[2])...)
			default:
				ex, rs = s.k.RestartRoutine(ev[1], conds(ev[2])...)
			}
		})
		rets = []uint64{b2u(ex), b2u(rs)}
	case 8, 9:
		if len(ev) != 2 {
			return nil, false
		}
		var n, tot int
		s.api(func() {
			switch {
			case ev[0] == 8 && s.variant:
				n, tot = s.rc.ResetAllRoutines(conds(ev[1])...)
			case ev[0] == 8:
				n, tot = s.k.ResetAllRoutines(conds(ev[1])...)
			case s.variant:
				n, tot = s.rc.RestartAllRoutines(conds(ev[1])...)
			default:
				n, tot = s.k.RestartAllRoutines(conds(ev[1])...)
			}
		})
		rets = []uint64{uint64(n), uint64(tot)}
	case 10:
		if !s.variant || len(ev) != 2 {
			return nil, false
		}
		var d uint64
		var ex bool
		var ref *keyed.KeyedRef[uint64, uint64]
		s.api(func() { ref, d, ex = s.rc.AddKeyRef(ev[1]) })
		s.refs = append(s.refs, ref)
		s.refKeys = append(s.refKeys, ev[1])
		s.refLive = append(s.refLive, true)
		rets = []uint64{d, b2u(ex)}
		for _, a := range s.rels {
			if !a.Done() && a.Parked() && a.Site() == 5 && s.refKey(a) == ev[1] {
				s.w.Count("obs.addkeyref_while_release_parked_before_removekey", 1)
				break
			}
		}
	case 11:
		if !s.variant || len(ev) != 2 || int(ev[1]) >= len(s.refs) {
			return nil, false
		}
		ref := s.refs[ev[1]]
		a := s.c.NewActor(kRel)
		a.Data = ev[1]
		s.c.Go(a, func(a *ctl.Actor) { ref.Release() })
		synctest.Wait()
		if !a.Done() {
			s.rels = append(s.rels, a)
		}
	case 12:
		if !s.variant || len(ev) != 2 || int(ev[1]) >= len(s.rels) {
			return nil, false
		}
		a := s.rels[ev[1]]
		if a.Done() || !a.Parked() || a.Site() != 4 {
			return nil, false
		}
		s.lastReq[s.refKey(a)] = s.clockMs
		if f := a.Data.(uint64); s.refLive[f] {
			s.refLive[f] = false
			if s.liveRefs(s.refKeys[f]) == 0 {
				s.w.Count("obs.release_of_last_reference", 1)
			}
		}
		s.c.Step(a)
		if a.Parked() && a.Site() == 5 {
			s.w.Count("obs.release_parked_before_removekey_outside_rc_mtx", 1)
		}
	case 13:
		if !s.variant || len(ev) != 2 {
			return nil, false
		}
		var ex bool
		s.api(func() { ex = s.rc.RemoveKey(ev[1]) })
		rets = []uint64{b2u(ex)}
		s.lastReq[ev[1]] = s.clockMs
		for f, k := range s.refKeys {
			if k == ev[1] {
				s.refLive[f] = false
			}
		}
	case 14:
		if len(ev) != 3 || int(ev[1]) >= len(s.insts) {
			return nil, false
		}
		a := s.insts[ev[1]]
		d := a.Data.(*idata)
		if a.Done() || !a.Parked() || d.passed {
			return nil, false
		}
		d.passed = true
		s.c.Step(a)
		ev[2] = b2u(a.InUser() != 0)
	case 15:
		if len(ev) != 3 || int(ev[1]) >= len(s.insts) || s.insts[ev[1]].InUser() == 0 {
			return nil, false
		}
		s.insts[ev[1]].Data.(*idata).outcome = ev[2]
		s.c.StepUser(s.insts[ev[1]])
	case 16:
		if len(ev) != 2 || int(ev[1]) >= len(s.insts) {
			return nil, false
		}
		a := s.insts[ev[1]]
		d := a.Data.(*idata)
		if a.Done() || !a.Parked() || !d.passed || d.booked {
			return nil, false
		}
		d.booked = true
		s.c.Step(a)
	case 17:
		if len(ev) != 2 {
			return nil, false
		}
		time.Sleep(time.Duration(ev[1]) * time.Millisecond)
		synctest.Wait()
		s.clockMs += ev[1]
	case 18:
		ts := s.parkedTimers()
		if len(ev) != 2 || int(ev[1]) >= len(ts) {
			return nil, false
		}
		ts[ev[1]].Data.(*tdata).ran = true
		s.c.Step(ts[ev[1]])
	case 19:
		if len(ev) != 1 {
			return nil, false
		}
		var ks []uint64
		s.api(func() {
			if s.variant {
				ks = s.rc.GetKeys()
			} else {
				ks = s.k.GetKeys()
			}
		})
		rets = encKeys(ks)
	case 20:
		// a Release call that left its rc.mtx section and is parked before Keyed.RemoveKey (site 5) goes on.  The
		// unchanged code never parks there, the model has no such event.
		if !s.variant || len(ev) != 2 || int(ev[1]) >= len(s.rels) {
			return nil, false
		}
		a := s.rels[ev[1]]
		if a.Done() || !a.Parked() || a.Site() != 5 {
			return nil, false
		}
		s.lastReq[s.refKey(a)] = s.clockMs
		s.c.Step(a)
	case 21:
		// the owner of root context c cancels it; the container is not told
		if len(ev) != 2 || ev[1] == 0 || ev[1] > maxRoot {
			return nil, false
		}
		c := ev[1]
		s.root(c)
		live := 0
		for _, a := range s.insts {
			if d := a.Data.(*idata); a.InUser() != 0 && d.root == c && d.ctx.Err() == nil {
				live++
			}
		}
		switch {
		case s.rootDead[c]:
			s.w.Count("obs.cancel_root_again", 1)
		case c == s.cur:
			s.w.Count("obs.cancel_installed_root", 1)
		default:
			s.w.Count("obs.cancel_other_root", 1)
		}
		if live > 0 {
			s.w.Count("obs.cancel_root_with_live_instance_in_user_code", 1)
		}
		s.cancels[c]()
		s.rootDead[c] = true
		s.ncancel++
		synctest.Wait()
	case 22:
		// the constructor's next results (harness-owned callback): nothing else happens
		if len(ev) != 2 || ev[1] > 2 {
			return nil, false
		}
		s.nilMode = ev[1]
	default:
		return nil, false
	}
	return s.obs(rets), true
}

func (s *sys) refKey(a *ctl.Actor) uint64 { return s.refKeys[a.Data.(uint64)] }

func (s *sys) liveRefs(k uint64) int {
	n := 0
	for f, live := range s.refLive {
		if live && s.refKeys[f] == k {
			n++
		}
	}
	return n
}

func (s *sys) teardown() {
	s.c.Free()
	for i := 0; i < 5; i++ {
		if s.variant {
			s.rc.ClearContext()
		} else {
			s.k.ClearContext()
		}
		for c := uint64(1); c <= maxRoot; c++ {
			if f := s.cancels[c]; f != nil {
				f()
			}
		}
		time.Sleep(100 * time.Second)
		s.c.Free()
	}
	keyed.VerifHook = nil
}

func pick(r *rand.Rand, xs []int) int { return xs[r.IntN(len(xs))] }

// gen picks the next event among those the implementation allows now.
func (s *sys) gen(r *rand.Rand, maxInst int) []uint64 {
	var gate0, user, book, relParked, relLate []int
	for i, a := range s.insts {
		d := a.Data.(*idata)
		switch {
		case a.Done() || d.booked:
		case a.InUser() != 0:
			user = append(user, i)
		case a.Parked() && !d.passed:
			gate0 = append(gate0, i)
		case a.Parked():
			book = append(book, i)
		}
	}
	for i, a := range s.rels {
		switch {
		case a.Done() || !a.Parked():
		case a.Site() == 5:
			relLate = append(relLate, i)
		default:
			relParked = append(relParked, i)
		}
	}
	ts := s.parkedTimers()
	room := len(s.insts) < maxInst
	key := func() uint64 { return uint64(r.IntN(s.nkeys)) }
	cond := func() uint64 {
		if r.IntN(3) == 0 {
			return uint64(1 + r.IntN(2))
		}
		return 0
	}
	// a Release call parked between its rc.mtx section and Keyed.RemoveKey (never with the unchanged code): race it
	// against a new reference to the same key, then let it go on
	if len(relLate) > 0 {
		i := pick(r, relLate)
		switch y := r.IntN(10); {
		case y < 5 && room:
			return []uint64{10, s.refKey(s.rels[i])}
		case y < 8:
			return []uint64{20, uint64(i)}
		}
	}
	// root contexts in play: two, and one more for every cancellation so far
	nroots := min(maxRoot, 2+s.ncancel)
	// the root context the container was given last has been cancelled by its owner: make sure that calls of every kind
	// (and timer callbacks) meet that state before the context is replaced
	if s.curDead() && r.IntN(3) == 0 {
		switch y := r.IntN(10); {
		case y == 0 && room && !s.variant:
			return []uint64{2, key(), 1}
		case y == 1 && room && !s.variant:
			return []uint64{2, key(), 0}
		case y == 2 && room && !s.variant:
			ev := []uint64{4, uint64(r.IntN(2))}
			for i, n := 0, r.IntN(s.nkeys+1); i < n; i++ {
				ev = append(ev, key())
			}
			return ev
		case y == 3 && !s.variant:
			return []uint64{3, key()}
		case y <= 1 && room && s.variant:
			return []uint64{10, key()}
		case y <= 3 && s.variant:
			return []uint64{13, key()}
		case y == 4 && room:
			return []uint64{7, key(), 0}
		case y == 5 && room:
			return []uint64{6, key(), 0}
		case y == 6:
			return []uint64{17, []uint64{100, 200, 1000}[r.IntN(3)]}
		case y <= 8 && len(ts) > 0:
			if j := r.IntN(len(ts)); !tied(ts, j) {
				return []uint64{18, uint64(j)}
			}
		case y == 9 && room:
			return []uint64{9, 0}
		}
	}
	// the constructor returns no routine: construct (ResetRoutine of a key whose instance is still running, new keys),
	// then switch back and reset such a key again - the next instance must still wait for the first one
	if s.nilMode != 0 && r.IntN(2) == 0 {
		switch y := r.IntN(10); {
		case y < 4 && room:
			return []uint64{6, key(), 0}
		case y < 5 && room:
			return []uint64{8, 0}
		case y < 6 && room && !s.variant:
			return []uint64{2, key(), uint64(r.IntN(2))}
		case y < 6 && room && s.variant:
			return []uint64{10, key()}
		case y < 7 && room:
			return []uint64{7, key(), 0}
		default:
			return []uint64{22, 0}
		}
	}
	if s.nilMode == 0 && len(s.nilKeys) > 0 && room && r.IntN(3) == 0 {
		for k := uint64(0); k < uint64(s.nkeys); k++ {
			if s.nilKeys[k] {
				if r.IntN(4) == 0 {
					return []uint64{7, k, 0}
				}
				return []uint64{6, k, 0}
			}
		}
	}
	for tries := 0; tries < 300; tries++ {
		x := r.IntN(100)
		switch {
		case x == 97 || (x == 29 && len(user) > 0):
			if s.nilMode != 0 {
				return []uint64{22, 0}
			}
			return []uint64{22, uint64(1 + r.IntN(2))}
		case x < 8 && room:
			c := uint64(0)
			if r.IntN(9) > 0 {
				c = uint64(1 + r.IntN(nroots))
			}
			return []uint64{1, c, uint64(r.IntN(2))}
		case x == 98:
			// the owner of a root context cancels it: mostly the one the container holds
			if s.cur != 0 && !s.rootDead[s.cur] && r.IntN(10) < 7 {
				return []uint64{21, s.cur}
			}
			return []uint64{21, uint64(1 + r.IntN(nroots))}
		case x < 30:
			y := r.IntN(22)
			if s.variant {
				switch {
				case y < 10 && room:
					return []uint64{10, key()}
				case y < 18 && len(s.refs) > 0:
					return []uint64{11, uint64(r.IntN(len(s.refs)))}
				case y < 21:
					return []uint64{13, key()}
				default:
					return []uint64{5, key()}
				}
			}
			switch {
			case y < 9 && room:
				return []uint64{2, key(), uint64(r.IntN(2))}
			case y < 16:
				return []uint64{3, key()}
			case y < 21 && room:
				ev := []uint64{4, uint64(r.IntN(2))}
				n := r.IntN(s.nkeys + 2)
				for i := 0; i < n; i++ {
					ev = append(ev, key())
				}
				return ev
			default:
				return []uint64{5, key()}
			}
		case x >= 30 && x < 40 && room:
			switch y := r.IntN(10); {
			case y < 5:
				return []uint64{7, key(), cond()}
			case y < 8:
				return []uint64{6, key(), cond()}
			case y < 9:
				return []uint64{8, cond()}
			default:
				return []uint64{9, cond()}
			}
		case x >= 40 && x < 55 && len(gate0) > 0:
			return []uint64{14, uint64(pick(r, gate0)), 0}
		case x >= 55 && x < 67 && len(user) > 0:
			i := pick(r, user)
			d := s.insts[i].Data.(*idata)
			var o uint64
			switch y := r.IntN(10); {
			case d.ctx.Err() != nil && y < 7:
				o = 1
			case y < 3:
				o = 0
			case y < 4:
				o = 1
			default:
				o = 2 + uint64(r.IntN(2))
			}
			// leave slow-to-exit instances in place some of the time
			if d.ctx.Err() != nil && r.IntN(3) == 0 {
				continue
			}
			return []uint64{15, uint64(i), o}
		case x >= 67 && x < 77 && len(book) > 0:
			return []uint64{16, uint64(pick(r, book))}
		case x >= 77 && x < 84:
			ds := []uint64{50, 100, 200, 400, 500, 600, 1000}
			return []uint64{17, ds[r.IntN(len(ds))]}
		case x >= 84 && x < 93 && len(ts) > 0:
			j := r.IntN(len(ts))
			if tied(ts, j) {
				s.w.Count("gen.tied_timer_callbacks_left_parked", 1)
				continue
			}
			return []uint64{18, uint64(j)}
		case x >= 93 && x < 99 && len(relParked) > 0:
			return []uint64{12, uint64(pick(r, relParked))}
		case x == 99:
			return []uint64{19}
		}
	}
	return nil
}

var evNames = map[uint64]string{1: "setcontext", 2: "setkey", 3: "removekey", 4: "synckeys", 5: "getkey", 6: "reset", 7: "restart",
	8: "resetall", 9: "restartall", 10: "addkeyref", 11: "release", 12: "releasesection", 13: "rcremovekey", 14: "proceed",
	15: "return", 16: "bookkeep", 17: "advance", 18: "timercb", 19: "getkeys", 20: "release_late_removekey", 21: "cancelroot", 22: "ctormode"}

func (s *sys) count(ev []uint64, before []keyed.KeyWithData[uint64, uint64], parkedBefore []*ctl.Actor, liveBefore map[uint64]bool, deadBefore bool, ninstBefore int) {
	s.w.Count("ev."+evNames[ev[0]], 1)
	if deadBefore {
		// what happened while the container held a root context that its owner had cancelled
		name := evNames[ev[0]]
		switch ev[0] {
		case 2:
			name += []string{"_nostart", "_start"}[ev[2]&1]
		case 18:
			if int(ev[1]) < len(parkedBefore) {
				name += []string{"_retry", "_removal"}[parkedBefore[ev[1]].Data.(*tdata).kind&1]
			}
		}
		s.w.Count("obs.under_cancelled_root."+name, 1)
		if len(s.insts) > ninstBefore {
			s.w.Count("obs.under_cancelled_root."+name+".spawned", 1)
		}
	}
	inUser := map[uint64]int{}
	blocked := 0
	for _, a := range s.insts {
		d := a.Data.(*idata)
		if a.InUser() != 0 {
			inUser[d.key]++
		} else if !a.Done() && !a.Parked() && !d.booked {
			blocked++
		}
	}
	if blocked > 0 {
		s.w.Count("obs.instance_blocked_on_predecessor", 1)
	}
	if len(inUser) > 1 {
		s.w.Count("obs.several_keys_in_user_code", 1)
	}
	if ev[0] == 14 && ev[2] == 0 {
		s.w.Count("obs.proceed_without_entering", 1)
	}
	has := func(ks []keyed.KeyWithData[uint64, uint64], k uint64) bool {
		for _, x := range ks {
			if x.Key == k {
				return true
			}
		}
		return false
	}
	switch ev[0] {
	case 2, 10:
		if t, ok := s.lastReq[ev[1]]; ok && has(before, ev[1]) && s.clockMs-t < 1000 && s.clockMs >= t {
			s.w.Count("obs.rerequest_inside_delay_window", 1)
		}
		if len(parkedBefore) > 0 {
			s.w.Count("obs.api_call_while_timer_callback_parked", 1)
		}
	case 3, 4, 13:
		if len(parkedBefore) > 0 {
			s.w.Count("obs.api_call_while_timer_callback_parked", 1)
		}
		if ev[0] == 4 {
			distinct := map[uint64]bool{}
			for _, k := range ev[2:] {
				distinct[k] = true
			}
			dups := len(ev[2:]) - len(distinct)
			dropped, droppedLive := 0, 0
			for _, x := range before {
				if !distinct[x.Key] {
					dropped++
					if liveBefore[x.Key] {
						droppedLive++
					}
				}
			}
			if dups > 0 {
				s.w.Count("obs.synckeys_with_duplicate_keys", 1)
				if dropped > 0 {
					s.w.Count("obs.synckeys_with_duplicates_drops_a_key", 1)
				}
				if dropped > 0 && dups >= dropped {
					s.w.Count("obs.synckeys_duplicates_at_least_dropped_keys", 1)
					if droppedLive > 0 {
						s.w.Count("obs.synckeys_duplicates_at_least_dropped_keys_live_instance", 1)
					}
				}
			}
		}
	case 18:
		if len(s.keys) < len(before) {
			s.w.Count("obs.key_removed_by_delayed_callback", 1)
		}
		if int(ev[1]) < len(parkedBefore) {
			d := parkedBefore[ev[1]].Data.(*tdata)
			if d.kind == 1 && len(s.keys) == len(before) {
				s.w.Count("obs.stale_removal_callback", 1)
			}
			if d.kind == 0 {
				s.w.Count("obs.retry_callback_run", 1)
			}
		}
	case 11:
		s.w.Count("obs.release_calls", 1)
	}
	ts := s.parkedTimers()
	for j := range ts {
		for i := 0; i < j; i++ {
			a, b := ts[i].Data.(*tdata), ts[j].Data.(*tdata)
			if a.kind == b.kind && a.key == b.key {
				s.w.Count("obs.two_parked_callbacks_same_key", 1)
				return
			}
		}
	}
}

func randomCfg(r *rand.Rand) []uint64 {
	cfg := []uint64{uint64(r.IntN(2)), []uint64{0, 1000}[r.IntN(2)], 0}
	if cfg[1] != 0 && r.IntN(4) == 0 {
		cfg[0] += 2 // WithReleaseDelay(-delay)
	}
	switch r.IntN(3) {
	case 1:
		cfg[2] = 1
		cfg = append(cfg, 100)
	case 2:
		cfg[2] = 1
		cfg = append(cfg, 100, 200)
	}
	if cfg[2] == 1 && r.IntN(4) == 0 {
		// the back-off objects built by keyed.WithRetry from a backoff.Backoff configuration (constant kind)
		cfg = append(cfg[:2], 2, []uint64{100, 250, 700}[r.IntN(3)])
	}
	return cfg
}

func (s *sys) stepAndLog(ev []uint64) bool {
	before := s.keys
	parkedBefore := s.parkedTimers()
	// keys with an instance inside the routine function whose context is not cancelled (statistics only)
	liveBefore := map[uint64]bool{}
	for _, a := range s.insts {
		if d := a.Data.(*idata); a.InUser() != 0 && d.ctx.Err() == nil {
			liveBefore[d.key] = true
		}
	}
	deadBefore, ninstBefore := s.curDead(), len(s.insts)
	obs, ok := s.exec(ev)
	if !ok {
		return false
	}
	s.count(ev, before, parkedBefore, liveBefore, deadBefore, ninstBefore)
	s.w.Step(ev, obs)
	return true
}

// corpusMotifs: the corpus histories, used as PREFIXES of a share of the random histories (a random cut of a random
// corpus history is replayed first, then generation continues at random from the situation it reached): the corner
// cases that were worth writing down are then also explored in their neighbourhood, not only replayed verbatim.
var corpusMotifs []hist.H

func runRandom(t *testing.T, w *hist.W, h int) {
	r := hist.Rng(h)
	synctest.Test(t, func(t *testing.T) {
		cfg := randomCfg(r)
		var prefix [][]uint64
		if len(corpusMotifs) > 0 && r.IntN(6) == 0 {
			m := corpusMotifs[r.IntN(len(corpusMotifs))]
			if len(m.Cfg) >= 3 && m.Cfg[0] <= 3 && len(m.Evs) > 0 {
				cfg = append([]uint64{}, m.Cfg...)
				prefix = m.Evs[:1+r.IntN(len(m.Evs))]
			}
		}
		s := newSys(w, cfg)
		s.nkeys = 2 + r.IntN(2)
		defer s.teardown()
		w.Begin(fmt.Sprintf("r%d", h), cfg)
		for _, ev := range prefix {
			if !s.stepAndLog(append([]uint64{}, ev...)) {
				break
			}
		}
		if prefix != nil {
			w.Count("random_with_corpus_prefix", 1)
		}
		steps := 10 + r.IntN(70)
		maxInst := 4 + r.IntN(9)
		if prefix != nil {
			maxInst += len(s.insts)
		}
		for k := 0; k < steps; k++ {
			ev := s.gen(r, maxInst)
			if ev == nil || !s.stepAndLog(ev) {
				break
			}
		}
		w.Count(fmt.Sprintf("len.%02d", min(steps/10, 7)*10), 1)
		w.Count(fmt.Sprintf("cfg.variant%d.delay%d.backoff%d", cfg[0]&1, cfg[1], len(cfg)-3), 1)
	})
}

func runFixed(t *testing.T, w *hist.W, id string, cfg []uint64, evs [][]uint64) {
	synctest.Test(t, func(t *testing.T) {
		if len(cfg) < 3 || cfg[0] > 3 {
			return
		}
		s := newSys(w, cfg)
		s.nkeys = 3
		defer s.teardown()
		w.Begin(id, cfg)
		for _, ev := range evs {
			if !s.stepAndLog(append([]uint64{}, ev...)) {
				w.Count("fixed.truncated", 1)
				break
			}
		}
	})
}

func TestKeyed(t *testing.T) {
	w, err := hist.Open("keyed")
	if err != nil {
		t.Fatal(err)
	}
	defer w.Close()
	if *hist.Replay != "" {
		hs, err := hist.Load(*hist.Replay)
		if err != nil {
			t.Fatal(err)
		}
		for _, h := range hs {
			runFixed(t, w, h.ID, h.Cfg, h.Evs)
		}
		return
	}
	corpusMotifs = hist.LoadCorpus(*hist.Corpus)
	for _, h := range corpusMotifs {
		runFixed(t, w, h.ID, h.Cfg, h.Evs)
		w.Count("corpus", 1)
	}
	for h := 0; h < *hist.NHist; h++ {
		w.Flush()
		runRandom(t, w, h)
	}
}
