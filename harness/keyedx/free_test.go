// Free-running correspondence for keyed.Keyed / keyed.KeyedRefCount (C06, C07): goroutines drive the real object truly
// in parallel on the real scheduler, with oracles the model is proved to satisfy for every schedule.  Keyed has its own
// mutexes, so a critical section split in two is invisible to the scheduled harness except where a hook site happens to
// sit (site 5); here it is not.
//
// Phase 1 (C07, exit status 5): a Keyed with a fixed set of keys that are never removed, a retry back-off of 1 ms, and
// goroutines calling RestartRoutine / ResetRoutine / RestartAllRoutines / ResetAllRoutines / SetContext(same ctx, true) /
// SetKey(k, true) at random.  Oracle: per key, never two instances inside the routine function at once (c07: "while a key
// remains in the set, its routine is never executing in two instances at once").
// Phase 3 (C07, exit status 5): keys are set, removed, restarted and reset (with condition callbacks) at random; then every
// key is removed.  Oracle: "when a key is removed the running instance's context is cancelled and nothing for that key
// is started again": 3 s later no instance is inside its routine.
// Phase 2 (C06, exit status 6): a KeyedRefCount; goroutines take a reference on a random key, check that GetKey reports
// the key while they hold the reference, release it (sometimes twice).  Oracle: a reference-counted key is present while
// at least one unreleased reference exists; when every reference is released the key set is empty.
//
// Output (-out): a one-line description of the violation.
package keyedx

import (
	"context"
	"errors"
	"flag"
	"fmt"
	"math/rand/v2"
	"os"
	"runtime"
	"sync"
	"sync/atomic"
	"testing"
	"time"

	ubackoff "github.com/aperturerobotics/util/backoff"
	"github.com/aperturerobotics/util/keyed"
	"verif/harness/hist"
)

var freeMS = flag.Int("free_ms", 4000, "duration of the free-running run in milliseconds")

const freeKeys = 3

func freeReport(code int, msg string, stats map[string]int) {
	w, err := hist.Open("keyed")
	if err == nil {
		for k, v := range stats {
			w.Count(k, v)
		}
		if code != 0 {
			w.Count("free.violation", 1)
		}
		w.Close()
	}
	if code == 0 {
		return
	}
	f, err := os.OpenFile(*hist.OutFile, os.O_WRONLY|os.O_TRUNC|os.O_CREATE, 0o644)
	if err == nil {
		fmt.Fprintf(f, "# free-running run on keyed (real scheduler, seed %d): %s\n", *hist.Seed, msg)
		f.Close()
	}
	fmt.Fprintf(os.Stderr, "FREE-VIOLATION %s\n", msg)
	os.Exit(code)
}

func TestKeyedFree(t *testing.T) {
	dur := time.Duration(*freeMS) * time.Millisecond
	stats := map[string]int{}
	want := *hist.FreeWant

	// ---- phase 1: one live instance per key (C07)
	if want == 0 || want == 5 {
		var inside [freeKeys]atomic.Int32
		var entries atomic.Int64
		var bad atomic.Value
		ctor := func(key int) (keyed.Routine, int) {
			return func(ctx context.Context) error {
				if n := inside[key].Add(1); n > 1 {
					bad.CompareAndSwap(nil, fmt.Sprintf("key %d: %d instances of its routine are inside the function at once although the key was never removed", key, n))
				}
				entries.Add(1)
				defer inside[key].Add(-1)
				for i := 0; i < 3; i++ {
					runtime.Gosched()
				}
				switch entries.Load() % 3 {
				case 0:
					return errors.New("fails")
				case 1:
					return nil
				}
				<-ctx.Done()
				for i := 0; i < 3; i++ {
					runtime.Gosched() // a slow exit: the replacement must wait for it
				}
				return context.Canceled
			}, key
		}
		k := keyed.NewKeyed[int, int](ctor, keyed.WithRetry[int, int](&ubackoff.Backoff{BackoffKind: ubackoff.BackoffKind_BackoffKind_CONSTANT,
			Constant: &ubackoff.Constant{Interval: 1}}))
		ctx, cancel := context.WithCancel(context.Background())
		k.SetContext(ctx, true)
		for key := 0; key < freeKeys; key++ {
			k.SetKey(key, true)
		}
		var wg sync.WaitGroup
		stop := time.Now().Add(dur / 3)
		var ops atomic.Int64
		for g := 0; g < 6; g++ {
			wg.Add(1)
			go func(g int) {
				defer wg.Done()
				r := rand.New(rand.NewPCG(*hist.Seed, uint64(g)))
				for time.Now().Before(stop) && bad.Load() == nil {
					key := r.IntN(freeKeys)
					switch r.IntN(7) {
					case 0:
						k.RestartRoutine(key)
					case 1:
						k.ResetRoutine(key)
					case 2:
						k.RestartAllRoutines()
					case 3:
						k.ResetAllRoutines()
					case 4:
						k.SetContext(ctx, true)
					case 5:
						k.SetKey(key, true)
					default:
						k.GetKey(key)
					}
					ops.Add(1)
					for i := r.IntN(4); i > 0; i-- {
						runtime.Gosched()
					}
				}
			}(g)
		}
		wg.Wait()
		cancel()
		k.ClearContext()
		stats["free.c07.calls"] = int(ops.Load())
		stats["free.c07.routine_entries"] = int(entries.Load())
		if m := bad.Load(); m != nil {
			freeReport(5, m.(string), stats)
		}
	}

	// ---- phase 3: nothing runs for a removed key (C07)
	if want == 0 || want == 5 {
		var inside atomic.Int32
		var entries atomic.Int64
		ctor := func(key int) (keyed.Routine, int) {
			return func(ctx context.Context) error {
				inside.Add(1)
				defer inside.Add(-1)
				if entries.Add(1)%3 == 0 {
					runtime.Gosched()
					return errors.New("fails") // retried after 1 ms while the key stays
				}
				<-ctx.Done()
				return context.Canceled
			}, key
		}
		k := keyed.NewKeyed[int, int](ctor, keyed.WithRetry[int, int](&ubackoff.Backoff{BackoffKind: ubackoff.BackoffKind_BackoffKind_CONSTANT,
			Constant: &ubackoff.Constant{Interval: 1}}))
		ctx, cancel := context.WithCancel(context.Background())
		k.SetContext(ctx, true)
		yes := func(int, int) bool { runtime.Gosched(); return true }
		var wg sync.WaitGroup
		stop := time.Now().Add(dur / 3)
		var ops atomic.Int64
		for g := 0; g < 6; g++ {
			wg.Add(1)
			go func(g int) {
				defer wg.Done()
				r := rand.New(rand.NewPCG(*hist.Seed, 200+uint64(g)))
				for time.Now().Before(stop) {
					key := r.IntN(freeKeys)
					switch r.IntN(8) {
					case 0, 1:
						k.SetKey(key, true)
					case 2, 3:
						k.RemoveKey(key)
					case 4:
						k.RestartRoutine(key, yes)
					case 5:
						k.ResetRoutine(key, yes)
					case 6:
						k.RestartAllRoutines(yes)
					default:
						k.SyncKeys([]int{key}, r.IntN(2) == 0)
					}
					ops.Add(1)
					for i := r.IntN(3); i > 0; i-- {
						runtime.Gosched()
					}
				}
			}(g)
		}
		wg.Wait()
		for key := 0; key < freeKeys; key++ {
			k.RemoveKey(key)
		}
		stats["free.c07.remove_phase_calls"] = int(ops.Load())
		stats["free.c07.remove_phase_entries"] = int(entries.Load())
		deadline := time.Now().Add(3 * time.Second)
		for inside.Load() != 0 {
			if time.Now().After(deadline) {
				cancel()
				freeReport(5, fmt.Sprintf("every key has been removed (no release delay), yet %d instance(s) are still inside their routine 3 s later: started for a removed key, or never cancelled", inside.Load()), stats)
			}
			time.Sleep(time.Millisecond)
		}
		cancel()
		k.ClearContext()
	}

	// ---- phase 2: a referenced key is present (C06)
	if want == 0 || want == 6 {
		ctor := func(key int) (keyed.Routine, int) {
			return func(ctx context.Context) error { <-ctx.Done(); return context.Canceled }, key
		}
		k := keyed.NewKeyedRefCount[int, int](ctor)
		ctx, cancel := context.WithCancel(context.Background())
		k.SetContext(ctx, true)
		var bad atomic.Value
		var wg sync.WaitGroup
		stop := time.Now().Add(dur / 2)
		var refs atomic.Int64
		for g := 0; g < 6; g++ {
			wg.Add(1)
			go func(g int) {
				defer wg.Done()
				r := rand.New(rand.NewPCG(*hist.Seed, 100+uint64(g)))
				for time.Now().Before(stop) && bad.Load() == nil {
					key := r.IntN(freeKeys)
					ref, _, _ := k.AddKeyRef(key)
					refs.Add(1)
					for i := r.IntN(3); i > 0; i-- {
						runtime.Gosched()
					}
					if _, ok := k.GetKey(key); !ok {
						bad.CompareAndSwap(nil, fmt.Sprintf("key %d is not in the key set while an unreleased reference to it is held", key))
					}
					ref.Release()
					if r.IntN(4) == 0 {
						ref.Release() // releasing twice counts once
					}
				}
			}(g)
		}
		wg.Wait()
		if bad.Load() == nil {
			if ks := k.GetKeys(); len(ks) != 0 {
				bad.CompareAndSwap(nil, fmt.Sprintf("every reference is released (no release delay) but the key set is %v", ks))
			}
		}
		cancel()
		k.ClearContext()
		stats["free.c06.references"] = int(refs.Load())
		if m := bad.Load(); m != nil {
			freeReport(6, m.(string), stats)
		}
	}
	freeReport(0, "", stats)
}
