// Free-running correspondence for keyed.Keyed / keyed.KeyedRefCount (C06, C07): goroutines drive the real object truly
// in parallel on the real scheduler, with oracles the model is proved to satisfy for every schedule.  Keyed has its own
// mutexes, so a critical section split in two is invisible to the scheduled harness except where a hook site happens to
// sit (site 5); here it is not.
//
// Phase 1 (C07, exit status 5): a Keyed with a fixed set of keys that are never removed, a retry back-off of 1 ms, and
// goroutines calling RestartRoutine / ResetRoutine / RestartAllRoutines / ResetAllRoutines / SetContext(same ctx, true) /
// SetKey(k, true) at random.  Oracle: per key, never two instances inside the routine function at once (c07: "while a key
// remains in the set, its routine is never executing in two instances at once").
// Phase 3 (C07, exit status 5): keys are set, removed, restarted and reset (with condition callbacks) at random; then every
// key is removed.  Oracle: "when a key is removed the running instance's context is cancelled and nothing for that key
// is started again": 5 s later no instance is inside its routine.
// Phase 4 (C07, exit status 5): calls queued behind a long critical section in a chosen order (see there).
// Phase 2 (C06, exit status 6): a KeyedRefCount; goroutines take a reference on a random key, check that GetKey reports
// the key while they hold the reference, release it (sometimes twice).  Oracle: a reference-counted key is present while
// at least one unreleased reference exists; when every reference is released the key set is empty.
//
// Output (-out): a one-line description of the violation.
package keyedx

import (
	"context"
	"errors"
	"flag"
	"fmt"
	"math/rand/v2"
	"os"
	"runtime"
	"sync"
	"sync/atomic"
	"testing"
	"time"

	ubackoff "github.com/aperturerobotics/util/backoff"
	"github.com/aperturerobotics/util/keyed"
	"verif/harness/hist"
)

var freeMS = flag.Int("free_ms", 4000, "duration of the free-running run in milliseconds")

const freeKeys = 3

func freeReport(code int, msg string, stats map[string]int) {
	w, err := hist.Open("keyed")
	if err == nil {
		for k, v := range stats {
			w.Count(k, v)
		}
		if code != 0 {
			w.Count("free.violation", 1)
		}
		w.Close()
	}
	if code == 0 {
		return
	}
	f, err := os.OpenFile(*hist.OutFile, os.O_WRONLY|os.O_TRUNC|os.O_CREATE, 0o644)
	if err == nil {
		fmt.Fprintf(f, "# free-running run on keyed (real scheduler, seed %d): %s\n", *hist.Seed, msg)
		f.Close()
	}
	fmt.Fprintf(os.Stderr, "FREE-VIOLATION %s\n", msg)
	os.Exit(code)
}

func TestKeyedFree(t *testing.T) {
	dur := time.Duration(*freeMS) * time.Millisecond
	stats := map[string]int{}
	want := *hist.FreeWant

	// ---- phase 1: one live instance per key (C07)
	if want == 0 || want == 5 {
		var inside [freeKeys]atomic.Int32
		var entries atomic.Int64
		var bad atomic.Value
		ctor := func(key int) (keyed.Routine, int) {
			return func(ctx context.Context) error {
				if n := inside[key].Add(1); n > 1 {
					bad.CompareAndSwap(nil, fmt.Sprintf("key %d: %d instances of its routine are inside the function at once although the key was never removed", key, n))
				}
				entries.Add(1)
				defer inside[key].Add(-1)
				for i := 0; i < 3; i++ {
					runtime.Gosched()
				}
				switch entries.Load() % 3 {
				case 0:
					return errors.New("fails")
				case 1:
					return nil
				}
				<-ctx.Done()
				for i := 0; i < 3; i++ {
					runtime.Gosched() // a slow exit: the replacement must wait for it
				}
				return context.Canceled
			}, key
		}
		k := keyed.NewKeyed[int, int](ctor, keyed.WithRetry[int, int](&ubackoff.Backoff{BackoffKind: ubackoff.BackoffKind_BackoffKind_CONSTANT,
			Constant: &ubackoff.Constant{Interval: 1}}))
		ctx, cancel := context.WithCancel(context.Background())
		k.SetContext(ctx, true)
		for key := 0; key < freeKeys; key++ {
			k.SetKey(key, true)
		}
		var wg sync.WaitGroup
		stop := time.Now().Add(dur / 3)
		var ops atomic.Int64
		for g := 0; g < 6; g++ {
			wg.Add(1)
			go func(g int) {
				defer wg.Done()
				r := rand.New(rand.NewPCG(*hist.Seed, uint64(g)))
				for time.Now().Before(stop) && bad.Load() == nil {
					key := r.IntN(freeKeys)
					switch r.IntN(7) {
					case 0:
						k.RestartRoutine(key)
					case 1:
						k.ResetRoutine(key)
					case 2:
						k.RestartAllRoutines()
					case 3:
						k.ResetAllRoutines()
					case 4:
						k.SetContext(ctx, true)
					case 5:
						k.SetKey(key, true)
					default:
						k.GetKey(key)
					}
					ops.Add(1)
					for i := r.IntN(4); i > 0; i-- {
						runtime.Gosched()
					}
				}
			}(g)
		}
		wg.Wait()
		cancel()
		k.ClearContext()
		stats["free.c07.calls"] = int(ops.Load())
		stats["free.c07.routine_entries"] = int(entries.Load())
		if m := bad.Load(); m != nil {
			freeReport(5, m.(string), stats)
		}
	}

	// ---- phase 3: nothing runs for a removed key (C07)
	if want == 0 || want == 5 {
		var inside atomic.Int32
		var entries atomic.Int64
		ctor := func(key int) (keyed.Routine, int) {
			return func(ctx context.Context) error {
				inside.Add(1)
				defer inside.Add(-1)
				if entries.Add(1)%3 == 0 {
					runtime.Gosched()
					return errors.New("fails") // retried after 1 ms while the key stays
				}
				<-ctx.Done()
				return context.Canceled
			}, key
		}
		k := keyed.NewKeyed[int, int](ctor, keyed.WithRetry[int, int](&ubackoff.Backoff{BackoffKind: ubackoff.BackoffKind_BackoffKind_CONSTANT,
			Constant: &ubackoff.Constant{Interval: 1}}))
		ctx, cancel := context.WithCancel(context.Background())
		k.SetContext(ctx, true)
		// the condition callbacks run under the Keyed's mutex: now and then one takes 2 ms, which drives the mutex into
		// its starvation mode (FIFO hand-off to the waiters), so that whoever unlocks and locks again queues BEHIND the
		// calls that were waiting: a check-then-act spread over two sections gets somebody else in between
		var nyes atomic.Int64
		yes := func(int, int) bool {
			if nyes.Add(1)%64 == 0 {
				time.Sleep(2 * time.Millisecond)
			} else {
				runtime.Gosched()
			}
			return true
		}
		var wg sync.WaitGroup
		stop := time.Now().Add(dur / 3)
		var ops atomic.Int64
		for g := 0; g < 6; g++ {
			wg.Add(1)
			go func(g int) {
				defer wg.Done()
				r := rand.New(rand.NewPCG(*hist.Seed, 200+uint64(g)))
				for time.Now().Before(stop) {
					key := r.IntN(freeKeys)
					switch r.IntN(8) {
					case 0, 1:
						k.SetKey(key, true)
					case 2, 3:
						k.RemoveKey(key)
					case 4:
						k.RestartRoutine(key, yes)
					case 5:
						k.ResetRoutine(key, yes)
					case 6:
						k.RestartAllRoutines(yes)
					default:
						k.SyncKeys([]int{key}, r.IntN(2) == 0)
					}
					ops.Add(1)
					for i := r.IntN(3); i > 0; i-- {
						runtime.Gosched()
					}
				}
			}(g)
		}
		wg.Wait()
		for key := 0; key < freeKeys; key++ {
			k.RemoveKey(key)
		}
		stats["free.c07.remove_phase_calls"] = int(ops.Load())
		stats["free.c07.remove_phase_entries"] = int(entries.Load())
		deadline := time.Now().Add(5 * time.Second)
		for inside.Load() != 0 {
			if time.Now().After(deadline) {
				cancel()
				freeReport(5, fmt.Sprintf("every key has been removed (no release delay), yet %d instance(s) are still inside their routine 5 s later: started for a removed key, or never cancelled", inside.Load()), stats)
			}
			time.Sleep(time.Millisecond)
		}
		cancel()
		k.ClearContext()
	}

	// ---- phase 4: calls queued behind a long critical section in a chosen order (C07)
	// A condition callback of RestartRoutine("hold") keeps the Keyed's mutex for several milliseconds; meanwhile a first
	// call X on key 0 (the retry timer callback of a routine that just failed, or RestartRoutine / ResetRoutine / SetKey)
	// and then RemoveKey(0) block on the mutex.  Waiting for more than a millisecond puts sync.Mutex into starvation
	// mode: strict FIFO hand-off.  X therefore runs first and RemoveKey directly after X's first Unlock - if X spreads a
	// check and the act over two sections, RemoveKey lands between them.  Oracle: an instance of key 0 never enters its
	// function with a live context while key 0 is not in the set.
	if want == 0 || want == 5 {
		trials, late := 0, ""
		stop := time.Now().Add(dur / 4)
		for i := 0; time.Now().Before(stop) && late == ""; i++ {
			trials++
			var runs atomic.Int32
			var kp atomic.Pointer[keyed.Keyed[int, int]]
			var lateStart atomic.Bool
			k := keyed.NewKeyed[int, int](func(key int) (keyed.Routine, int) {
				if key != 0 {
					return func(ctx context.Context) error { <-ctx.Done(); return nil }, key
				}
				return func(ctx context.Context) error {
					runs.Add(1)
					if kk := kp.Load(); kk != nil {
						if _, ok := kk.GetKey(0); !ok && ctx.Err() == nil {
							lateStart.Store(true)
						}
					}
					return errors.New("fails")
				}, key
			}, keyed.WithRetry[int, int](&ubackoff.Backoff{BackoffKind: ubackoff.BackoffKind_BackoffKind_CONSTANT, Constant: &ubackoff.Constant{Interval: 2}}))
			kp.Store(k)
			ctx, cancel := context.WithCancel(context.Background())
			k.SetContext(ctx, false)
			k.SetKey(1, true)
			k.SetKey(0, true) // fails at once; its retry timer fires in 2 ms
			for t0 := time.Now(); runs.Load() < 1 && time.Since(t0) < time.Second; {
				time.Sleep(20 * time.Microsecond)
			}
			holding, release, holdDone := make(chan struct{}), make(chan struct{}), make(chan struct{})
			go func() {
				first := true
				k.RestartRoutine(1, func(int, int) bool {
					if first {
						first = false
						close(holding)
						<-release
					}
					return false
				})
				// re-take the mutex at once and keep it until the woken waiter has failed to get it
				k.RestartRoutine(1, func(int, int) bool { time.Sleep(time.Millisecond); return false })
				close(holdDone)
			}()
			<-holding
			var wg sync.WaitGroup
			wg.Add(1)
			go func() { defer wg.Done(); k.GetKeys() }()
			switch i % 4 {
			case 0: // X = the retry timer callback: it fires while the mutex is held
			case 1:
				wg.Add(1)
				go func() { defer wg.Done(); k.RestartRoutine(0) }()
			case 2:
				wg.Add(1)
				go func() { defer wg.Done(); k.ResetRoutine(0) }()
			case 3:
				wg.Add(1)
				go func() { defer wg.Done(); k.SetKey(0, true) }()
			}
			time.Sleep(4 * time.Millisecond)
			wg.Add(1)
			go func() { defer wg.Done(); k.RemoveKey(0) }()
			time.Sleep(2 * time.Millisecond)
			close(release)
			<-holdDone
			wg.Wait()
			time.Sleep(5 * time.Millisecond)
			k.ClearContext()
			cancel()
			if lateStart.Load() {
				late = fmt.Sprintf("trial %d (X = %s): an instance of key 0 entered its function with a live context while key 0 is not in the set (RemoveKey had run)",
					i, []string{"retry timer callback", "RestartRoutine", "ResetRoutine", "SetKey"}[i%4])
			}
		}
		stats["free.c07.queued_behind_long_section_trials"] = trials
		if late != "" {
			freeReport(5, late, stats)
		}
	}

	// ---- phase 2: a referenced key is present (C06)
	if want == 0 || want == 6 {
		ctor := func(key int) (keyed.Routine, int) {
			return func(ctx context.Context) error { <-ctx.Done(); return context.Canceled }, key
		}
		k := keyed.NewKeyedRefCount[int, int](ctor)
		ctx, cancel := context.WithCancel(context.Background())
		k.SetContext(ctx, true)
		var bad atomic.Value
		var wg sync.WaitGroup
		stop := time.Now().Add(dur / 2)
		var refs atomic.Int64
		for g := 0; g < 6; g++ {
			wg.Add(1)
			go func(g int) {
				defer wg.Done()
				r := rand.New(rand.NewPCG(*hist.Seed, 100+uint64(g)))
				for time.Now().Before(stop) && bad.Load() == nil {
					key := r.IntN(freeKeys)
					ref, _, _ := k.AddKeyRef(key)
					refs.Add(1)
					for i := r.IntN(3); i > 0; i-- {
						runtime.Gosched()
					}
					if _, ok := k.GetKey(key); !ok {
						bad.CompareAndSwap(nil, fmt.Sprintf("key %d is not in the key set while an unreleased reference to it is held", key))
					}
					ref.Release()
					if r.IntN(4) == 0 {
						ref.Release() // releasing twice counts once
					}
				}
			}(g)
		}
		wg.Wait()
		if bad.Load() == nil {
			if ks := k.GetKeys(); len(ks) != 0 {
				bad.CompareAndSwap(nil, fmt.Sprintf("every reference is released (no release delay) but the key set is %v", ks))
			}
		}
		cancel()
		k.ClearContext()
		stats["free.c06.references"] = int(refs.Load())
		if m := bad.Load(); m != nil {
			freeReport(6, m.(string), stats)
		}
	}
	freeReport(0, "", stats)
}
