// lockscan: the translator of property C13 (see /verif/DESIGN.md section 4 "C13", Appendix C and
// /verif/coq/theories/Lockset/Check.v).  It regenerates the race table from the Go sources of /repo.
//
// scan.go: walking function bodies; held lock sets, accesses, call edges, function-valued slots.
package main

import (
	"fmt"
	"go/ast"
	"go/token"
	"go/types"
	"sort"
	"strings"

	"golang.org/x/tools/go/packages"
)

type set map[string]bool

func (s set) clone() set {
	r := set{}
	for k := range s {
		r[k] = true
	}
	return r
}
func (s set) keys() []string {
	r := []string{}
	for k := range s {
		r = append(r, k)
	}
	sort.Strings(r)
	return r
}
func inter(a, b set) set {
	r := set{}
	for k := range a {
		if b[k] {
			r[k] = true
		}
	}
	return r
}
func union(a, b set) set {
	r := a.clone()
	for k := range b {
		r[k] = true
	}
	return r
}

const rdSuffix = "|R" // reader-mode hold of an RWMutex: protects reads only

// effective lock classes for an access: reader-mode holds count for reads only
func effHeld(h set, write bool) set {
	r := set{}
	for k := range h {
		if strings.HasSuffix(k, rdSuffix) {
			if !write {
				r[strings.TrimSuffix(k, rdSuffix)] = true
			}
		} else {
			r[k] = true
		}
	}
	return r
}

type shape struct {
	kind string // "", "preclose", "postrecv", "precas", "postload"
	c, g string // channel location / guard atomic (preclose, postrecv); s in c for precas/postload
}

type access struct {
	loc       string
	write     bool
	pos       token.Pos
	effPos    token.Pos // position used for "before the first escape" reasoning
	held      set       // locally held (without the entry set of the node)
	n         *node
	own       bool       // captured variable: access in the declaring function's own body
	construct bool       // forced Construct (composite literal initialisation, declaration)
	v         *types.Var // captured-variable accesses: the variable
	base      *types.Var // field accesses through an identifier: that identifier's variable
	expr      ast.Node
	shp       shape
	fd        *funcInfo
}

type callEdge struct {
	callee    *node
	held      set
	pos       token.Pos
	freshRecv *types.Var // receiver is a freshly allocated local object (construct-phase call if before its escape)
	construct bool
	fd        *funcInfo
	call      *ast.CallExpr // the call expression (nil for calls through slots)
	from      *node
}

type slotCall struct {
	slot *types.Var
	from *node
	held set
	pos  token.Pos
}

type node struct {
	id        int
	name      string
	pos       token.Pos
	root      bool
	rootWhy   string
	assume    set // closure run by HoldLockMaybeAsync: entry is exactly this
	isLit     bool
	goParent  *node // `go func(){...}()`: the node that executes the go statement
	goHeld    set   // locks held locally at the go statement
	calls     []*callEdge
	accs      []*access
	entry     set // nil = top (no constraining call site seen)
	hasIn     bool
	hasConstr bool // reached through a construct-phase call
}

type locInfo struct {
	key  string
	kind string // "field", "captured", "syncobj"
	uses int    // uses through methods (sync objects)
	accs []*access
}

type freshInfo struct {
	v       *types.Var
	declPos token.Pos
	bad     bool        // assigned again after its definition: not tracked
	viaCall *types.Func // defined as the result of a call of this (returns-fresh) constructor function
	track   *objTrack   // the flow analysis of the object (objflow.go)
}

// per top-level function
type funcInfo struct {
	decl     *ast.FuncDecl
	name     string
	pkg      *packages.Package
	parents  map[ast.Node]ast.Node
	fresh    map[*types.Var]*freshInfo
	loadDef  map[*types.Var]string // local variable whose only definition is `v := S.Load()`: location of S
	assigned map[*types.Var]int    // number of plain assignments (not the definition)
	varEsc   map[*types.Var]token.Pos
	varNames map[*types.Var]string
	nameCnt  map[string]int
	end      token.Pos
	// closures bound to a local variable that is only ever called directly, from code that runs inline in the
	// declaring function: they run on the declaring goroutine
	inlineLocal map[*ast.FuncLit]bool
	// those of them that are (also) passed to Broadcast.HoldLock / TryHoldLock / Wait: their function-typed parameters
	// are the broadcast / getWaitCh functions of a lock callback
	lockCbLocal map[*ast.FuncLit]bool
	node        *node
	obj         *types.Func
}

type residual struct {
	pos token.Pos
	msg string
}

type scanner struct {
	fset     *token.FileSet
	inScope  map[string]bool // absolute file names that are scanned
	pkgPaths map[string]bool
	nodes    []*node
	funcNode map[*types.Func]*node
	funcs    []*funcInfo
	fdOfFunc map[*types.Func]*funcInfo
	fdOfNode map[*node]*funcInfo

	// objflow.go
	retFresh     map[*types.Func]int // 0 unknown, 1 being computed, 2 candidate, 3 no
	helperVisits map[ast.Node][]helperVisit
	descents     map[*node]map[*ast.CallExpr]bool
	incoming     map[*node][]*callEdge

	flowNodes map[*types.Var][]*node      // closures that flow directly into a slot
	flowSlots map[*types.Var][]*types.Var // slot -> slots whose content flows into it
	slotEsc   map[*types.Var]token.Pos
	slotCalls []slotCall
	bcastArgs map[*types.Var]bool // broadcast / getWaitCh parameters of lock-callback literals

	locs        map[string]*locInfo
	residuals   []residual
	trustedArgs []string // method values passed to a callback invocation (Broadcast contract)
	nFuncs      int
	nLits       int
	nInline     int
}

func short(p string) string { i := strings.LastIndex(p, "/"); return p[i+1:] }

func deref(t types.Type) types.Type {
	for {
		if p, ok := t.(*types.Pointer); ok {
			t = p.Elem()
			continue
		}
		return t
	}
}

func typeName(t types.Type) string {
	t = deref(t)
	if n, ok := t.(*types.Named); ok {
		if n.Obj().Pkg() == nil {
			return n.Obj().Name()
		}
		return n.Obj().Pkg().Path() + "." + n.Obj().Name()
	}
	return t.String()
}

func ownerName(t types.Type) string {
	t = deref(t)
	if n, ok := t.(*types.Named); ok {
		if n.Obj().Pkg() == nil {
			return n.Obj().Name()
		}
		return short(n.Obj().Pkg().Path()) + "." + n.Obj().Name()
	}
	return t.String()
}

// value types that are synchronisation objects: used only through their methods
func isSyncValue(t types.Type) bool {
	if _, ok := t.(*types.Pointer); ok {
		return false
	}
	s := typeName(t)
	if strings.HasPrefix(s, "sync.") || strings.HasPrefix(s, "sync/atomic.") {
		return true
	}
	return strings.HasSuffix(s, "/broadcast.Broadcast")
}

func isLockType(t types.Type) bool {
	s := typeName(t)
	return s == "sync.Mutex" || s == "sync.RWMutex" || strings.HasSuffix(s, "/broadcast.Broadcast")
}

func isBroadcast(t types.Type) bool { return strings.HasSuffix(typeName(t), "/broadcast.Broadcast") }

func isFuncType(t types.Type) bool {
	if t == nil {
		return false
	}
	switch u := t.Underlying().(type) {
	case *types.Signature:
		return true
	case *types.Slice:
		_, ok := u.Elem().Underlying().(*types.Signature)
		return ok
	}
	return false
}

func (sc *scanner) newNode(name string, pos token.Pos) *node {
	n := &node{id: len(sc.nodes), name: name, pos: pos}
	sc.nodes = append(sc.nodes, n)
	return n
}

func (sc *scanner) residual(pos token.Pos, format string, a ...interface{}) {
	sc.residuals = append(sc.residuals, residual{pos, fmt.Sprintf(format, a...)})
}

func (sc *scanner) loc(key, kind string) *locInfo {
	li := sc.locs[key]
	if li == nil {
		li = &locInfo{key: key, kind: kind}
		sc.locs[key] = li
	}
	return li
}

func (sc *scanner) markRoot(n *node, why string) {
	if n != nil && !n.root {
		n.root, n.rootWhy = true, why
	}
}

func (sc *scanner) escapeSlot(v *types.Var, pos token.Pos) {
	if _, ok := sc.slotEsc[v]; !ok {
		sc.slotEsc[v] = pos
	}
}

// ---------------------------------------------------------------------------------------------

type litFrame struct {
	lit    *ast.FuncLit
	inline bool
	loops  []token.Pos // loops enclosing the creation site
}

type walker struct {
	sc          *scanner
	fd          *funcInfo
	info        *types.Info
	cur         *node
	frames      []litFrame
	loops       []token.Pos
	posOverride token.Pos
	deferHeld   set
	namedRes    []*types.Var
}

func (w *walker) pos(p token.Pos) token.Pos {
	if w.posOverride != token.NoPos {
		return w.posOverride
	}
	return p
}

func (w *walker) isLocalVar(v *types.Var) bool {
	return v != nil && !v.IsField() && v.Pos() >= w.fd.decl.Pos() && v.Pos() <= w.fd.decl.End()
}

// the frames (closure literals) that lie between the declaration of v and the current point
func (w *walker) framesOutside(v *types.Var) []litFrame {
	var r []litFrame
	for _, f := range w.frames {
		if v.Pos() < f.lit.Pos() || v.Pos() > f.lit.End() {
			r = append(r, f)
		}
	}
	return r
}

// escape position of something created at litPos inside loops, for a variable declared at declPos
func loopAdjust(p token.Pos, loops []token.Pos, declPos token.Pos) token.Pos {
	for _, l := range loops { // outermost first
		if l > declPos && l < p {
			return l
		}
	}
	return p
}

func (w *walker) varKey(v *types.Var) string {
	if n, ok := w.fd.varNames[v]; ok {
		return n
	}
	base := w.fd.name + "#" + v.Name()
	w.fd.nameCnt[base]++
	n := base
	if c := w.fd.nameCnt[base]; c > 1 {
		n = fmt.Sprintf("%s'%d", base, c)
	}
	w.fd.varNames[v] = n
	return n
}

func (w *walker) recordVar(v *types.Var, id ast.Node, write bool, p token.Pos, held set, construct bool) {
	if v.Name() == "_" {
		return
	}
	out := w.framesOutside(v)
	own := true
	for _, f := range out {
		if !f.inline {
			own = false
		}
	}
	if !own {
		// the outermost non-inline closure through which v is reached
		for _, f := range out {
			if !f.inline {
				e := loopAdjust(f.lit.Pos(), f.loops, v.Pos())
				if old, ok := w.fd.varEsc[v]; !ok || e < old {
					w.fd.varEsc[v] = e
				}
				break
			}
		}
	}
	kind := "captured"
	if isSyncValue(v.Type()) {
		kind = "syncobj"
	}
	key := w.varKey(v)
	li := w.sc.loc(key, kind)
	a := &access{loc: key, write: write, pos: p, effPos: w.pos(p), held: effHeld(held, write), n: w.cur, own: own, construct: construct, v: v, expr: id, fd: w.fd}
	li.accs = append(li.accs, a)
	w.cur.accs = append(w.cur.accs, a)
}

func (w *walker) fieldKey(x *ast.SelectorExpr, sel *types.Selection) string {
	f := sel.Obj().(*types.Var)
	recv := sel.Recv()
	if idx := sel.Index(); len(idx) > 1 {
		t := deref(recv)
		for _, i := range idx[:len(idx)-1] {
			if st, ok := t.Underlying().(*types.Struct); ok {
				t = deref(st.Field(i).Type())
			}
		}
		recv = t
	}
	return ownerName(recv) + "." + f.Name()
}

func (w *walker) inScanned(f *types.Var) bool {
	return f.Pkg() != nil && w.sc.pkgPaths[f.Pkg().Path()]
}

func (w *walker) recordField(x *ast.SelectorExpr, sel *types.Selection, write bool, p token.Pos, held set, construct bool) {
	f := sel.Obj().(*types.Var)
	if !w.inScanned(f) {
		return
	}
	key := w.fieldKey(x, sel)
	kind := "field"
	if isSyncValue(f.Type()) {
		kind = "syncobj"
	}
	li := w.sc.loc(key, kind)
	a := &access{loc: key, write: write, pos: p, effPos: w.pos(p), held: effHeld(held, write), n: w.cur, construct: construct, expr: x, fd: w.fd}
	if id, ok := ast.Unparen(x.X).(*ast.Ident); ok {
		if v, ok := w.info.Uses[id].(*types.Var); ok {
			a.base = v
		}
	}
	li.accs = append(li.accs, a)
	w.cur.accs = append(w.cur.accs, a)
}

// location key of a synchronisation object denoted by e ("" if e is not one)
func (w *walker) syncLoc(e ast.Expr) string {
	switch x := ast.Unparen(e).(type) {
	case *ast.SelectorExpr:
		if sel := w.info.Selections[x]; sel != nil && sel.Kind() == types.FieldVal && isSyncValue(sel.Obj().Type()) && w.inScanned(sel.Obj().(*types.Var)) {
			return w.fieldKey(x, sel)
		}
	case *ast.Ident:
		if v, ok := w.info.Uses[x].(*types.Var); ok && isSyncValue(v.Type()) && w.isLocalVar(v) {
			return w.varKey(v)
		}
	case *ast.UnaryExpr:
		if x.Op == token.AND {
			return w.syncLoc(x.X)
		}
	}
	return ""
}

// a use of a synchronisation object through one of its methods (or by address): not a memory access of ours
func (w *walker) syncUse(e ast.Expr, held set) {
	switch x := ast.Unparen(e).(type) {
	case *ast.SelectorExpr:
		if sel := w.info.Selections[x]; sel != nil && sel.Kind() == types.FieldVal {
			if f := sel.Obj().(*types.Var); w.inScanned(f) {
				kind := "field"
				if isSyncValue(f.Type()) {
					kind = "syncobj"
				}
				w.sc.loc(w.fieldKey(x, sel), kind).uses++
			}
			w.baseExpr(x.X, held)
			return
		}
	case *ast.Ident:
		if v, ok := w.info.Uses[x].(*types.Var); ok && w.isLocalVar(v) && isSyncValue(v.Type()) {
			// touching the variable from a closure still makes it a shared variable: record a use-only access
			out := w.framesOutside(v)
			for _, f := range out {
				if !f.inline {
					e := loopAdjust(f.lit.Pos(), f.loops, v.Pos())
					if old, ok := w.fd.varEsc[v]; !ok || e < old {
						w.fd.varEsc[v] = e
					}
					break
				}
			}
			w.sc.loc(w.varKey(v), "syncobj").uses++
			return
		}
	case *ast.UnaryExpr:
		if x.Op == token.AND {
			w.syncUse(x.X, held)
			return
		}
	}
	w.expr(e, held)
}

// the base of a selector: a fresh local object is not escaped by selecting one of its fields
func (w *walker) baseExpr(e ast.Expr, held set) {
	if id, ok := ast.Unparen(e).(*ast.Ident); ok {
		if v, ok := w.info.Uses[id].(*types.Var); ok && w.isLocalVar(v) {
			w.recordVar(v, id, false, id.Pos(), held, false)
			return
		}
	}
	w.expr(e, held)
}

// lockClass names the lock denoted by e ("" if none).
func (w *walker) lockClass(e ast.Expr) string {
	switch x := ast.Unparen(e).(type) {
	case *ast.SelectorExpr:
		if sel := w.info.Selections[x]; sel != nil && sel.Kind() == types.FieldVal && isLockType(sel.Obj().Type()) {
			return w.fieldKey(x, sel)
		}
	case *ast.Ident:
		if v, ok := w.info.Uses[x].(*types.Var); ok && isLockType(v.Type()) {
			if _, isPtr := v.Type().(*types.Pointer); isPtr || !w.isLocalVar(v) {
				// a lock reached through a pointer parameter / receiver: the object's own lock
				if isBroadcast(v.Type()) {
					return "broadcast.Broadcast.mtx"
				}
				return w.fd.name + "#" + v.Name()
			}
			return w.varKey(v)
		}
	case *ast.UnaryExpr:
		if x.Op == token.AND {
			return w.lockClass(x.X)
		}
	}
	return ""
}

func (w *walker) lockCall(e ast.Expr) (cls, method string, recv ast.Expr) {
	c, ok := ast.Unparen(e).(*ast.CallExpr)
	if !ok {
		return
	}
	se, ok := c.Fun.(*ast.SelectorExpr)
	if !ok {
		return
	}
	switch se.Sel.Name {
	case "Lock", "RLock", "Unlock", "RUnlock", "TryLock", "TryRLock":
	default:
		return
	}
	if len(c.Args) != 0 {
		return
	}
	cls = w.lockClass(se.X)
	if cls == "" {
		return
	}
	if s := typeName(w.info.TypeOf(se.X)); s != "sync.Mutex" && s != "sync.RWMutex" {
		return "", "", nil
	}
	return cls, se.Sel.Name, se.X
}

// slotOf: e denotes a function-valued variable / field ("slot")
func (w *walker) slotOf(e ast.Expr) *types.Var {
	switch x := ast.Unparen(e).(type) {
	case *ast.Ident:
		if v, ok := w.info.Uses[x].(*types.Var); ok && isFuncType(v.Type()) {
			return v
		}
	case *ast.SelectorExpr:
		if sel := w.info.Selections[x]; sel != nil && sel.Kind() == types.FieldVal && isFuncType(sel.Obj().Type()) {
			return sel.Obj().(*types.Var).Origin()
		}
	case *ast.IndexExpr:
		if t := w.info.TypeOf(x.X); t != nil && isFuncType(t) {
			return w.slotOf(x.X)
		}
	}
	return nil
}

// methodValue: e is a method value / function name (not a call); returns its node if it is one of ours
func (w *walker) funcValue(e ast.Expr) (*node, bool) {
	switch x := ast.Unparen(e).(type) {
	case *ast.Ident:
		if f, ok := w.info.Uses[x].(*types.Func); ok {
			return w.sc.funcNode[f.Origin()], true
		}
	case *ast.SelectorExpr:
		if f, ok := w.info.Uses[x.Sel].(*types.Func); ok {
			return w.sc.funcNode[f.Origin()], true
		}
	case *ast.IndexExpr:
		return w.funcValue(x.X)
	case *ast.IndexListExpr:
		return w.funcValue(x.X)
	}
	return nil, false
}

// a function value e flows into slot dst (nil dst = somewhere unknown: it escapes)
func (w *walker) flow(e ast.Expr, dst *types.Var, held set, why string) {
	e = ast.Unparen(e)
	if fl, ok := e.(*ast.FuncLit); ok {
		n := w.closure(fl, why)
		if dst == nil {
			w.sc.markRoot(n, why)
		} else {
			w.sc.flowNodes[dst] = append(w.sc.flowNodes[dst], n)
		}
		return
	}
	if id, ok := e.(*ast.Ident); ok && id.Name == "nil" {
		return
	}
	if u, ok := e.(*ast.UnaryExpr); ok && u.Op == token.AND {
		if s := w.slotOf(u.X); s != nil {
			w.sc.escapeSlot(s, e.Pos())
			w.readSlotExpr(u.X, held)
			return
		}
	}
	if s := w.slotOf(e); s != nil {
		if dst == nil {
			w.sc.escapeSlot(s, e.Pos())
		} else {
			w.sc.flowSlots[dst] = append(w.sc.flowSlots[dst], s)
		}
		w.readSlotExpr(e, held)
		return
	}
	if n, ok := w.funcValue(e); ok {
		if se, ok := e.(*ast.SelectorExpr); ok {
			if sel := w.info.Selections[se]; sel != nil {
				w.baseExpr(se.X, held)
			}
		}
		if n != nil {
			if dst == nil {
				w.sc.markRoot(n, why)
			} else {
				w.sc.flowNodes[dst] = append(w.sc.flowNodes[dst], n)
			}
		}
		return
	}
	w.expr(e, held)
}

// read of the memory a slot expression occupies (the variable / field itself), without treating it as an escape
func (w *walker) readSlotExpr(e ast.Expr, held set) {
	switch x := ast.Unparen(e).(type) {
	case *ast.Ident:
		if v, ok := w.info.Uses[x].(*types.Var); ok && w.isLocalVar(v) {
			w.recordVar(v, x, false, x.Pos(), held, false)
		}
	case *ast.SelectorExpr:
		if sel := w.info.Selections[x]; sel != nil && sel.Kind() == types.FieldVal {
			w.recordField(x, sel, false, x.Sel.Pos(), held, false)
			w.baseExpr(x.X, held)
		}
	case *ast.IndexExpr:
		w.readSlotExpr(x.X, held)
		w.expr(x.Index, held)
	}
}

// closure creates the node of a literal that does not run inline and walks its body.
func (w *walker) closure(fl *ast.FuncLit, why string) *node {
	w.sc.nLits++
	n := w.sc.newNode(fmt.Sprintf("%s$%s@%d", w.fd.name, why, w.sc.fset.Position(fl.Pos()).Line), fl.Pos())
	n.isLit = true
	sub := &walker{sc: w.sc, fd: w.fd, info: w.info, cur: n, deferHeld: set{}}
	il := w.fd.inlineLocal[fl]
	if w.fd.lockCbLocal[fl] {
		w.markBcastParams(fl)
	}
	if il {
		// runs when called, not where it is written: never "before the first escape"
		sub.posOverride = w.fd.end
	}
	sub.frames = append(append([]litFrame{}, w.frames...), litFrame{lit: fl, inline: il, loops: append([]token.Pos{}, w.loops...)})
	sub.loops = append([]token.Pos{}, w.loops...)
	sub.declParams(fl.Type)
	sub.block(fl.Body.List, set{})
	return n
}

// inline runs a literal's body in the current node (HoldLock bodies, immediately invoked literals, deferred literals)
func (w *walker) inline(fl *ast.FuncLit, held set, deferred bool) {
	w.sc.nInline++
	saveFrames, saveDefer, savePos, saveRes := w.frames, w.deferHeld, w.posOverride, w.namedRes
	w.frames = append(append([]litFrame{}, w.frames...), litFrame{lit: fl, inline: true, loops: append([]token.Pos{}, w.loops...)})
	w.deferHeld = held.clone()
	w.namedRes = nil
	if deferred {
		w.posOverride = w.fd.end
	}
	w.declParams(fl.Type)
	w.block(fl.Body.List, held)
	w.frames, w.deferHeld, w.posOverride, w.namedRes = saveFrames, saveDefer, savePos, saveRes
}

// the function-typed parameters of a lock callback are the broadcast / getWaitCh functions of the Broadcast contract
func (w *walker) markBcastParams(fl *ast.FuncLit) {
	if fl.Type.Params == nil {
		return
	}
	for _, f := range fl.Type.Params.List {
		for _, nm := range f.Names {
			if v, ok := w.info.Defs[nm].(*types.Var); ok && isFuncType(v.Type()) {
				w.sc.bcastArgs[v] = true
			}
		}
	}
}

func (w *walker) declParams(ft *ast.FuncType) {
	decl := func(fl *ast.FieldList, res bool) {
		if fl == nil {
			return
		}
		for _, f := range fl.List {
			for _, nm := range f.Names {
				if v, ok := w.info.Defs[nm].(*types.Var); ok {
					w.recordVar(v, nm, true, nm.Pos(), set{}, true)
					if res {
						w.namedRes = append(w.namedRes, v)
					}
				}
			}
		}
	}
	decl(ft.Params, false)
	decl(ft.Results, true)
}

var lockClosureMethods = map[string]bool{"HoldLock": true, "TryHoldLock": true, "HoldLockMaybeAsync": true, "Wait": true}

func (w *walker) addCall(callee *node, held set, pos token.Pos, fresh *types.Var, call *ast.CallExpr) {
	if callee == nil {
		return
	}
	w.cur.calls = append(w.cur.calls, &callEdge{callee: callee, held: effHeld(held, true), pos: pos, freshRecv: fresh, fd: w.fd, call: call, from: w.cur})
}

func (w *walker) addSlotCall(s *types.Var, held set, pos token.Pos) {
	w.sc.slotCalls = append(w.sc.slotCalls, slotCall{slot: s, from: w.cur, held: effHeld(held, true), pos: pos})
}

func (w *walker) call(c *ast.CallExpr, held set) {
	// X.HoldLock(func...) on a Broadcast: the literal runs under the lock
	if se, ok := c.Fun.(*ast.SelectorExpr); ok && lockClosureMethods[se.Sel.Name] {
		if t := w.info.TypeOf(se.X); t != nil && isBroadcast(t) {
			if cls := w.lockClass(se.X); cls != "" {
				w.syncUse(se.X, held)
				h := held.clone()
				h[cls] = true
				for _, a := range c.Args {
					a = ast.Unparen(a)
					if fl, ok := a.(*ast.FuncLit); ok {
						if se.Sel.Name == "HoldLockMaybeAsync" {
							n := w.closure(fl, "maybeasync")
							n.assume = effHeld(h, true)
						} else {
							w.markBcastParams(fl)
							w.inline(fl, h, false)
						}
					} else if s := w.slotOf(a); s != nil && isFuncType(w.info.TypeOf(a)) {
						w.readSlotExpr(a, held)
						if se.Sel.Name == "HoldLockMaybeAsync" {
							w.sc.escapeSlot(s, a.Pos())
						} else {
							w.addSlotCall(s, h, a.Pos())
						}
					} else if n, ok := w.funcValue(a); ok {
						w.addCall(n, h, a.Pos(), nil, nil)
					} else {
						w.expr(a, held)
					}
				}
				return
			}
		}
	}
	// once.Do(func(){...}): sync.Once runs the literal synchronously in the calling goroutine
	if se, ok := c.Fun.(*ast.SelectorExpr); ok && se.Sel.Name == "Do" && len(c.Args) == 1 {
		if t := w.info.TypeOf(se.X); t != nil && typeName(t) == "sync.Once" {
			if fl, ok := ast.Unparen(c.Args[0]).(*ast.FuncLit); ok {
				w.syncUse(se.X, held)
				w.inline(fl, held, false)
				return
			}
			if s := w.slotOf(c.Args[0]); s != nil && w.isLocalVar(s) {
				// a closure bound to a local variable: called here, synchronously, with the locks held here
				w.syncUse(se.X, held)
				w.readSlotExpr(c.Args[0], held)
				w.addSlotCall(s, held, c.Args[0].Pos())
				return
			}
		}
	}
	// builtins and conversions
	if id, ok := ast.Unparen(c.Fun).(*ast.Ident); ok {
		if _, isBuiltin := w.info.Uses[id].(*types.Builtin); isBuiltin {
			switch id.Name {
			case "delete", "copy", "clear":
				if len(c.Args) > 0 {
					w.lhs(c.Args[0], held, c.End(), false)
					for _, a := range c.Args[1:] {
						w.expr(a, held)
					}
				}
			default:
				for _, a := range c.Args {
					if t := w.info.TypeOf(a); t != nil && isFuncType(t) && id.Name == "append" {
						w.flow(a, nil, held, "stored")
					} else {
						w.expr(a, held)
					}
				}
			}
			return
		}
	}
	if tv, ok := w.info.Types[c.Fun]; ok && tv.IsType() {
		for _, a := range c.Args {
			if t := w.info.TypeOf(a); t != nil && isFuncType(t) {
				// conversion of a function value (Routine(f)): the value flows on to wherever the result goes; treat as escape
				w.flow(a, nil, held, "converted")
			} else {
				w.expr(a, held)
			}
		}
		return
	}
	var callee *node
	var calleeSig *types.Signature
	var viaSlot *types.Var
	known := false
	fun := ast.Unparen(c.Fun)
	switch f := fun.(type) {
	case *ast.IndexExpr:
		if _, ok := w.funcValue(f.X); ok {
			fun = ast.Unparen(f.X)
		}
	case *ast.IndexListExpr:
		if _, ok := w.funcValue(f.X); ok {
			fun = ast.Unparen(f.X)
		}
	}
	var fresh *types.Var
	switch f := fun.(type) {
	case *ast.FuncLit:
		for _, a := range c.Args {
			w.expr(a, held)
		}
		w.inline(f, held, false)
		return
	case *ast.Ident:
		switch o := w.info.Uses[f].(type) {
		case *types.Func:
			callee = w.sc.funcNode[o.Origin()]
			if callee != nil {
				known = true
				calleeSig = o.Origin().Type().(*types.Signature)
			}
		case *types.Var:
			if isFuncType(o.Type()) {
				viaSlot = o
				if w.isLocalVar(o) {
					w.recordVar(o, f, false, f.Pos(), held, false)
				}
			}
		}
	case *ast.SelectorExpr:
		sel := w.info.Selections[f]
		switch {
		case sel == nil: // pkg.Func
			if o, ok := w.info.Uses[f.Sel].(*types.Func); ok {
				callee = w.sc.funcNode[o.Origin()]
				if callee != nil {
					known = true
					calleeSig = o.Origin().Type().(*types.Signature)
				}
			}
		case sel.Kind() == types.MethodVal:
			if t := w.info.TypeOf(f.X); t != nil && isSyncValue(deref(t)) {
				if _, isPtr := t.(*types.Pointer); !isPtr {
					w.syncUse(f.X, held)
				} else {
					w.baseExpr(f.X, held)
				}
			} else {
				if id, ok := ast.Unparen(f.X).(*ast.Ident); ok {
					if v, ok := w.info.Uses[id].(*types.Var); ok && w.fd.fresh[v] != nil {
						fresh = v
					}
				}
				w.baseExpr(f.X, held)
			}
			if o, ok := sel.Obj().(*types.Func); ok {
				callee = w.sc.funcNode[o.Origin()]
				if callee != nil {
					known = true
					calleeSig = o.Origin().Type().(*types.Signature)
				}
			}
		case sel.Kind() == types.FieldVal:
			if s := w.slotOf(f); s != nil {
				viaSlot = s
				w.readSlotExpr(f, held)
			} else {
				w.expr(f, held)
			}
		}
	default:
		if s := w.slotOf(fun); s != nil {
			viaSlot = s
			w.readSlotExpr(fun, held)
		} else {
			w.expr(fun, held)
		}
	}
	if callee != nil {
		w.addCall(callee, held, c.Pos(), fresh, c)
	}
	if viaSlot != nil {
		w.addSlotCall(viaSlot, held, c.Pos())
	}
	for i, a := range c.Args {
		a = ast.Unparen(a)
		var param *types.Var
		if known && calleeSig != nil {
			np := calleeSig.Params().Len()
			if i < np {
				param = calleeSig.Params().At(i)
			} else if calleeSig.Variadic() && np > 0 {
				param = calleeSig.Params().At(np - 1)
			}
		}
		t := w.info.TypeOf(a)
		if _, isLit := a.(*ast.FuncLit); isLit || (t != nil && isFuncType(t)) {
			if id, ok := a.(*ast.Ident); ok && id.Name == "nil" {
				continue
			}
			if viaSlot != nil {
				// arguments of a callback invocation
				if n, ok := w.funcValue(a); ok && w.slotOf(a) == nil {
					// method value handed to the callback: called only during the callback (Broadcast contract)
					if se, ok := a.(*ast.SelectorExpr); ok {
						w.baseExpr(se.X, held)
					}
					if n != nil {
						w.addCall(n, held, a.Pos(), nil, nil)
						w.sc.trustedArgs = append(w.sc.trustedArgs, fmt.Sprintf("%s at %s", n.name, w.sc.posStr(a.Pos())))
					}
					continue
				}
				if s := w.slotOf(a); s != nil && w.sc.bcastArgs[s] {
					// broadcast / getWaitCh passed on to another callback: still inside the lock callback
					w.readSlotExpr(a, held)
					continue
				}
				w.flow(a, nil, held, "arg")
				continue
			}
			if param != nil && isFuncType(param.Type()) {
				w.flow(a, param, held, "arg")
			} else {
				why := "arg"
				if se, ok := fun.(*ast.SelectorExpr); ok && se.Sel.Name == "AfterFunc" {
					why = "timer"
				}
				w.flow(a, nil, held, why)
			}
			continue
		}
		w.expr(a, held)
	}
}

// expr walks an expression that is read.
func (w *walker) expr(e ast.Expr, held set) {
	switch x := e.(type) {
	case nil:
	case *ast.Ident:
		if v, ok := w.info.Uses[x].(*types.Var); ok && w.isLocalVar(v) {
			w.recordVar(v, x, false, x.Pos(), held, false)
			if isFuncType(v.Type()) {
				w.sc.escapeSlot(v, x.Pos())
			}
		} else if f, ok := w.info.Uses[x].(*types.Func); ok {
			w.sc.markRoot(w.sc.funcNode[f.Origin()], "function value")
		}
	case *ast.SelectorExpr:
		sel := w.info.Selections[x]
		if sel == nil {
			if f, ok := w.info.Uses[x.Sel].(*types.Func); ok {
				w.sc.markRoot(w.sc.funcNode[f.Origin()], "function value")
			}
			return
		}
		switch sel.Kind() {
		case types.FieldVal:
			w.recordField(x, sel, false, x.Sel.Pos(), held, false)
			if f := sel.Obj().(*types.Var); isFuncType(f.Type()) {
				w.sc.escapeSlot(f.Origin(), x.Pos())
			}
			w.baseExpr(x.X, held)
		default: // method value
			if f, ok := sel.Obj().(*types.Func); ok {
				w.sc.markRoot(w.sc.funcNode[f.Origin()], "method value")
			}
			w.baseExpr(x.X, held)
		}
	case *ast.IndexExpr:
		w.expr(x.X, held)
		w.expr(x.Index, held)
	case *ast.IndexListExpr:
		w.expr(x.X, held)
	case *ast.StarExpr:
		w.expr(x.X, held)
	case *ast.ParenExpr:
		w.expr(x.X, held)
	case *ast.UnaryExpr:
		if x.Op == token.AND {
			if w.syncLoc(x.X) != "" {
				w.syncUse(x.X, held)
				return
			}
			if se, ok := ast.Unparen(x.X).(*ast.SelectorExpr); ok {
				if sel := w.info.Selections[se]; sel != nil && sel.Kind() == types.FieldVal && w.inScanned(sel.Obj().(*types.Var)) {
					w.sc.residual(x.Pos(), "address of field %s taken: aliases are not tracked", w.fieldKey(se, sel))
				}
			}
			if cl, ok := ast.Unparen(x.X).(*ast.CompositeLit); ok {
				w.expr(cl, held)
				return
			}
		}
		w.expr(x.X, held)
	case *ast.BinaryExpr:
		// comparison of a function value with nil is a read, not an escape
		for _, pair := range [][2]ast.Expr{{x.X, x.Y}, {x.Y, x.X}} {
			if id, ok := ast.Unparen(pair[1]).(*ast.Ident); ok && id.Name == "nil" && (x.Op == token.EQL || x.Op == token.NEQ) {
				if s := w.slotOf(pair[0]); s != nil {
					w.readSlotExpr(pair[0], held)
					return
				}
			}
		}
		w.expr(x.X, held)
		w.expr(x.Y, held)
	case *ast.KeyValueExpr:
		w.expr(x.Key, held)
		w.expr(x.Value, held)
	case *ast.CompositeLit:
		w.composite(x, held)
	case *ast.SliceExpr:
		w.expr(x.X, held)
		w.expr(x.Low, held)
		w.expr(x.High, held)
		w.expr(x.Max, held)
	case *ast.TypeAssertExpr:
		w.expr(x.X, held)
	case *ast.FuncLit:
		w.sc.markRoot(w.closure(x, "lit"), "function literal used as a value")
	case *ast.CallExpr:
		w.call(x, held)
	}
}

func (w *walker) composite(x *ast.CompositeLit, held set) {
	t := w.info.TypeOf(x)
	var st *types.Struct
	if t != nil {
		st, _ = deref(t).Underlying().(*types.Struct)
	}
	for i, el := range x.Elts {
		if kv, ok := el.(*ast.KeyValueExpr); ok {
			if st != nil {
				if id, ok := kv.Key.(*ast.Ident); ok {
					if f, ok := w.info.Uses[id].(*types.Var); ok && f.IsField() {
						if w.inScanned(f) {
							key := ownerName(t) + "." + f.Name()
							kind := "field"
							if isSyncValue(f.Type()) {
								kind = "syncobj"
							}
							a := &access{loc: key, write: true, pos: id.Pos(), effPos: id.Pos(), held: set{}, n: w.cur, construct: true, expr: kv, fd: w.fd}
							w.sc.loc(key, kind).accs = append(w.sc.loc(key, kind).accs, a)
							w.cur.accs = append(w.cur.accs, a)
						}
						if isFuncType(f.Type()) {
							w.flow(kv.Value, f.Origin(), held, "field")
						} else {
							w.expr(kv.Value, held)
						}
						continue
					}
				}
			} else {
				w.expr(kv.Key, held)
			}
			if tv := w.info.TypeOf(kv.Value); tv != nil && isFuncType(tv) {
				w.flow(kv.Value, nil, held, "stored")
			} else {
				w.expr(kv.Value, held)
			}
			continue
		}
		if st != nil && i < st.NumFields() && isFuncType(st.Field(i).Type()) {
			w.flow(el, st.Field(i).Origin(), held, "field")
			continue
		}
		if tv := w.info.TypeOf(el); tv != nil && isFuncType(tv) {
			w.flow(el, nil, held, "stored")
		} else {
			w.expr(el, held)
		}
	}
}

// lhs records a write to the location denoted by e (and reads of the path leading to it).
func (w *walker) lhs(e ast.Expr, held set, effEnd token.Pos, alsoRead bool) {
	switch x := ast.Unparen(e).(type) {
	case *ast.Ident:
		if x.Name == "_" {
			return
		}
		if v, ok := w.info.Uses[x].(*types.Var); ok && w.isLocalVar(v) {
			w.fd.assigned[v]++
			save := w.posOverride
			if save == token.NoPos {
				w.posOverride = effEnd
			}
			if alsoRead {
				w.recordVar(v, x, false, x.Pos(), held, false)
			}
			w.recordVar(v, x, true, x.Pos(), held, false)
			w.posOverride = save
		} else if v, ok := w.info.Defs[x].(*types.Var); ok && w.isLocalVar(v) {
			w.recordVar(v, x, true, x.Pos(), held, true)
		}
	case *ast.SelectorExpr:
		if sel := w.info.Selections[x]; sel != nil && sel.Kind() == types.FieldVal {
			save := w.posOverride
			if save == token.NoPos {
				w.posOverride = effEnd
			}
			if alsoRead {
				w.recordField(x, sel, false, x.Sel.Pos(), held, false)
			}
			w.recordField(x, sel, true, x.Sel.Pos(), held, false)
			w.posOverride = save
			w.baseExpr(x.X, held)
			return
		}
		w.expr(x, held)
	case *ast.IndexExpr:
		// m[k] = v / s[i] = v writes the container held in x.X
		w.lhs(x.X, held, effEnd, true)
		w.expr(x.Index, held)
	case *ast.StarExpr:
		w.expr(x.X, held)
	default:
		w.expr(e, held)
	}
}

func terminates(s ast.Stmt) bool {
	switch x := s.(type) {
	case *ast.ReturnStmt, *ast.BranchStmt:
		return true
	case *ast.ExprStmt:
		if c, ok := x.X.(*ast.CallExpr); ok {
			if id, ok := c.Fun.(*ast.Ident); ok && id.Name == "panic" {
				return true
			}
		}
	}
	return false
}

// block walks a statement list; returns the held set afterwards and whether control cannot fall out of its end.
func (w *walker) block(list []ast.Stmt, held set) (set, bool) {
	held = held.clone()
	for _, s := range list {
		var term bool
		held, term = w.stmt(s, held)
		if term {
			return held, true
		}
	}
	return held, false
}

func mergeHeld(rs []set) set {
	if len(rs) == 0 {
		return nil
	}
	m := rs[0].clone()
	for _, r := range rs[1:] {
		m = inter(m, r)
	}
	return m
}

func (w *walker) assignFlow(lhs, rhs ast.Expr, held set) bool {
	t := w.info.TypeOf(rhs)
	_, isLit := ast.Unparen(rhs).(*ast.FuncLit)
	if !isLit && (t == nil || !isFuncType(t)) {
		return false
	}
	if id, ok := ast.Unparen(rhs).(*ast.Ident); ok && id.Name == "nil" {
		return false
	}
	if _, isCall := ast.Unparen(rhs).(*ast.CallExpr); isCall {
		return false
	}
	var dst *types.Var
	switch l := ast.Unparen(lhs).(type) {
	case *ast.Ident:
		if v, ok := w.info.Defs[l].(*types.Var); ok {
			dst = v
		} else if v, ok := w.info.Uses[l].(*types.Var); ok {
			dst = v
		}
	case *ast.SelectorExpr:
		if sel := w.info.Selections[l]; sel != nil && sel.Kind() == types.FieldVal {
			dst = sel.Obj().(*types.Var).Origin()
		}
	}
	why := "stored"
	if dst != nil {
		why = "var:" + dst.Name()
	}
	w.flow(rhs, dst, held, why)
	return true
}

func (w *walker) stmt(s ast.Stmt, held set) (set, bool) {
	switch x := s.(type) {
	case *ast.ExprStmt:
		if cls, m, recv := w.lockCall(x.X); cls != "" {
			w.syncUse(recv, held)
			held = held.clone()
			switch m {
			case "Lock":
				held[cls] = true
			case "RLock":
				held[cls+rdSuffix] = true
			case "Unlock":
				delete(held, cls)
			case "RUnlock":
				delete(held, cls+rdSuffix)
			}
			return held, false
		}
		w.expr(x.X, held)
		return held, terminates(s)
	case *ast.DeferStmt:
		if cls, m, recv := w.lockCall(x.Call); cls != "" && (m == "Unlock" || m == "RUnlock") {
			w.syncUse(recv, held)
			held = held.clone()
			k := cls
			if m == "RUnlock" {
				k += rdSuffix
			}
			held[k] = true // unlocking an unlocked mutex is fatal: the lock is held from here to the return
			w.deferHeld = w.deferHeld.clone()
			w.deferHeld[k] = true
			return held, false
		}
		if fl, ok := x.Call.Fun.(*ast.FuncLit); ok {
			for _, a := range x.Call.Args {
				w.expr(a, held)
			}
			w.inline(fl, w.deferHeld, true)
			return held, false
		}
		// defer f(args): function value and arguments are evaluated now, the call runs at the return, when only
		// the locks released by earlier defers are still held
		w.deferredCall(x.Call, held)
		return held, false
	case *ast.GoStmt:
		w.goStmt(x, held)
		return held, false
	case *ast.AssignStmt:
		for i, r := range x.Rhs {
			if len(x.Lhs) == len(x.Rhs) && w.assignFlow(x.Lhs[i], r, held) {
				continue
			}
			w.expr(r, held)
		}
		for i, l := range x.Lhs {
			if x.Tok == token.DEFINE {
				if id, ok := l.(*ast.Ident); ok {
					if v, ok := w.info.Defs[id].(*types.Var); ok {
						w.recordVar(v, id, true, id.Pos(), held, true)
						if len(x.Lhs) == len(x.Rhs) {
							w.noteDef(v, x.Rhs[i])
						}
						continue
					}
				}
			}
			if id, ok := ast.Unparen(l).(*ast.Ident); ok && len(x.Lhs) == len(x.Rhs) {
				if v, ok := w.info.Uses[id].(*types.Var); ok {
					if fi := w.fd.fresh[v]; fi != nil {
						fi.bad = true
					}
					delete(w.fd.loadDef, v)
				}
			}
			w.lhs(l, held, x.End(), x.Tok != token.ASSIGN && x.Tok != token.DEFINE)
		}
		return held, false
	case *ast.IncDecStmt:
		w.lhs(x.X, held, x.End(), true)
		return held, false
	case *ast.ReturnStmt:
		for i, r := range x.Results {
			if t := w.info.TypeOf(r); t != nil && isFuncType(t) {
				w.flow(r, nil, held, "returned")
			} else if _, ok := ast.Unparen(r).(*ast.FuncLit); ok {
				w.flow(r, nil, held, "returned")
			} else {
				w.expr(r, held)
			}
			if len(w.namedRes) == len(x.Results) {
				w.recordVar(w.namedRes[i], r, true, r.Pos(), held, false)
			}
		}
		return held, true
	case *ast.IfStmt:
		if x.Init != nil {
			held, _ = w.stmt(x.Init, held)
		}
		bodyHeld, elseHeld := held, held
		cond := ast.Unparen(x.Cond)
		if cls, m, recv := w.lockCall(cond); cls != "" && (m == "TryLock" || m == "TryRLock") {
			w.syncUse(recv, held)
			bodyHeld = held.clone()
			if m == "TryLock" {
				bodyHeld[cls] = true
			} else {
				bodyHeld[cls+rdSuffix] = true
			}
		} else if u, ok := cond.(*ast.UnaryExpr); ok && u.Op == token.NOT {
			if cls, m, recv := w.lockCall(u.X); cls != "" && (m == "TryLock" || m == "TryRLock") {
				w.syncUse(recv, held)
				elseHeld = held.clone()
				if m == "TryLock" {
					elseHeld[cls] = true
				} else {
					elseHeld[cls+rdSuffix] = true
				}
			} else {
				w.expr(x.Cond, held)
			}
		} else {
			w.expr(x.Cond, held)
		}
		var outs []set
		h1, t1 := w.block(x.Body.List, bodyHeld)
		if !t1 {
			outs = append(outs, h1)
		}
		if x.Else != nil {
			h2, t2 := w.stmt(x.Else, elseHeld)
			if !t2 {
				outs = append(outs, h2)
			}
		} else {
			outs = append(outs, elseHeld)
		}
		if len(outs) == 0 {
			return held, true
		}
		return mergeHeld(outs), false
	case *ast.BlockStmt:
		return w.block(x.List, held)
	case *ast.ForStmt:
		if x.Init != nil {
			held, _ = w.stmt(x.Init, held)
		}
		w.loops = append(w.loops, x.Pos())
		w.expr(x.Cond, held)
		h, term := w.block(x.Body.List, held)
		if x.Post != nil {
			w.stmt(x.Post, h)
		}
		w.loops = w.loops[:len(w.loops)-1]
		if !term && !sameSet(h, held) {
			w.sc.residual(x.Pos(), "lock state differs between loop entry and the end of the loop body")
		}
		return held, false
	case *ast.RangeStmt:
		w.expr(x.X, held)
		w.loops = append(w.loops, x.Pos())
		for _, kv := range []ast.Expr{x.Key, x.Value} {
			if kv == nil {
				continue
			}
			if x.Tok == token.DEFINE {
				if id, ok := kv.(*ast.Ident); ok {
					if v, ok := w.info.Defs[id].(*types.Var); ok {
						w.recordVar(v, id, true, id.Pos(), held, true)
					}
				}
			} else {
				w.lhs(kv, held, kv.End(), false)
			}
		}
		h, term := w.block(x.Body.List, held)
		w.loops = w.loops[:len(w.loops)-1]
		if !term && !sameSet(h, held) {
			w.sc.residual(x.Pos(), "lock state differs between loop entry and the end of the loop body")
		}
		return held, false
	case *ast.SelectStmt:
		var outs []set
		for _, c := range x.Body.List {
			cc := c.(*ast.CommClause)
			h := held
			if cc.Comm != nil {
				h, _ = w.stmt(cc.Comm, held)
			}
			h2, t := w.block(cc.Body, h)
			if !t {
				outs = append(outs, h2)
			}
		}
		if len(outs) == 0 {
			return held, len(x.Body.List) > 0
		}
		return mergeHeld(outs), false
	case *ast.SwitchStmt:
		if x.Init != nil {
			held, _ = w.stmt(x.Init, held)
		}
		w.expr(x.Tag, held)
		return w.clauses(x.Body.List, held)
	case *ast.TypeSwitchStmt:
		if x.Init != nil {
			held, _ = w.stmt(x.Init, held)
		}
		w.stmt(x.Assign, held)
		return w.clauses(x.Body.List, held)
	case *ast.DeclStmt:
		if gd, ok := x.Decl.(*ast.GenDecl); ok {
			for _, sp := range gd.Specs {
				vs, ok := sp.(*ast.ValueSpec)
				if !ok {
					continue
				}
				for i, nm := range vs.Names {
					if i < len(vs.Values) && len(vs.Values) == len(vs.Names) {
						if !w.assignFlow(nm, vs.Values[i], held) {
							w.expr(vs.Values[i], held)
						}
					}
					if v, ok := w.info.Defs[nm].(*types.Var); ok {
						w.recordVar(v, nm, true, nm.Pos(), held, true)
						if i < len(vs.Values) && len(vs.Values) == len(vs.Names) {
							w.noteDef(v, vs.Values[i])
						}
					}
				}
				if len(vs.Values) != len(vs.Names) {
					for _, v := range vs.Values {
						w.expr(v, held)
					}
				}
			}
		}
		return held, false
	case *ast.SendStmt:
		w.expr(x.Chan, held)
		if t := w.info.TypeOf(x.Value); t != nil && isFuncType(t) {
			w.flow(x.Value, nil, held, "sent")
		} else {
			w.expr(x.Value, held)
		}
		return held, false
	case *ast.LabeledStmt:
		return w.stmt(x.Stmt, held)
	case *ast.BranchStmt:
		if x.Tok == token.GOTO {
			w.sc.residual(x.Pos(), "goto is not supported")
		}
		return held, true
	}
	return held, false
}

func sameSet(a, b set) bool {
	if len(a) != len(b) {
		return false
	}
	for k := range a {
		if !b[k] {
			return false
		}
	}
	return true
}

func (w *walker) clauses(list []ast.Stmt, held set) (set, bool) {
	outs := []set{}
	hasDefault := false
	for _, c := range list {
		cc := c.(*ast.CaseClause)
		if cc.List == nil {
			hasDefault = true
		}
		for _, e := range cc.List {
			w.expr(e, held)
		}
		h, t := w.block(cc.Body, held)
		if !t {
			outs = append(outs, h)
		}
	}
	if !hasDefault {
		outs = append(outs, held)
	}
	if len(outs) == 0 {
		return held, true
	}
	return mergeHeld(outs), false
}

// noteDef: definitions the shape analysis looks at (fresh objects, v := S.Load())
func (w *walker) noteDef(v *types.Var, rhs ast.Expr) {
	rhs = ast.Unparen(rhs)
	if c, ok := rhs.(*ast.CallExpr); ok {
		if se, ok := c.Fun.(*ast.SelectorExpr); ok && se.Sel.Name == "Load" && len(c.Args) == 0 {
			if s := w.syncLoc(se.X); s != "" {
				w.fd.loadDef[v] = s
			}
		}
	}
}

func (w *walker) deferredCall(c *ast.CallExpr, held set) {
	saveCur := w.cur
	// evaluate now: function expression and arguments
	tmp := &walker{sc: w.sc, fd: w.fd, info: w.info, cur: w.cur, frames: w.frames, loops: w.loops, posOverride: w.posOverride, deferHeld: w.deferHeld, namedRes: w.namedRes}
	// the call edge itself gets the locks that are still held at the return
	nCalls, nSlots := len(w.cur.calls), len(w.sc.slotCalls)
	tmp.call(c, held)
	for _, e := range w.cur.calls[nCalls:] {
		e.held = effHeld(w.deferHeld, true)
	}
	for i := nSlots; i < len(w.sc.slotCalls); i++ {
		if w.sc.slotCalls[i].from == saveCur {
			w.sc.slotCalls[i].held = effHeld(w.deferHeld, true)
		}
	}
}

func (w *walker) goStmt(g *ast.GoStmt, held set) {
	c := g.Call
	if fl, ok := c.Fun.(*ast.FuncLit); ok {
		for _, a := range c.Args {
			w.expr(a, held)
		}
		n := w.closure(fl, "go")
		w.sc.markRoot(n, "go statement")
		n.goParent, n.goHeld = w.cur, effHeld(held, true)
		return
	}
	// go f(args): receiver and arguments are evaluated by the spawning goroutine; f runs with no locks
	saved := w.cur
	gn := w.sc.newNode(fmt.Sprintf("%s$gostmt@%d", w.fd.name, w.sc.fset.Position(g.Pos()).Line), g.Pos())
	w.sc.markRoot(gn, "go statement")
	gn.goParent, gn.goHeld = saved, effHeld(held, true)
	nAcc := len(saved.accs)
	_ = nAcc
	// walk the call in the spawner to record the reads, then move the call edges to the new goroutine's node
	nCalls, nSlots := len(saved.calls), len(w.sc.slotCalls)
	w.call(c, held)
	moved := saved.calls[nCalls:]
	saved.calls = saved.calls[:nCalls:nCalls]
	for _, e := range moved {
		// only the call of f itself belongs to the new goroutine; calls made while evaluating arguments stay
		if e.pos == c.Pos() {
			e.held = set{}
			e.freshRecv = nil
			e.from = gn
			gn.calls = append(gn.calls, e)
		} else {
			saved.calls = append(saved.calls, e)
		}
	}
	for i := nSlots; i < len(w.sc.slotCalls); i++ {
		if w.sc.slotCalls[i].from == saved && w.sc.slotCalls[i].pos == c.Pos() {
			w.sc.slotCalls[i].from = gn
			w.sc.slotCalls[i].held = set{}
		}
	}
}

// ---------------------------------------------------------------------------------------------

func buildParents(root ast.Node) map[ast.Node]ast.Node {
	parents := map[ast.Node]ast.Node{}
	var stack []ast.Node
	ast.Inspect(root, func(n ast.Node) bool {
		if n == nil {
			stack = stack[:len(stack)-1]
			return true
		}
		if len(stack) > 0 {
			parents[n] = stack[len(stack)-1]
		}
		stack = append(stack, n)
		return true
	})
	return parents
}

// freshCandidates: local variables that hold a freshly allocated object of a struct type of the scanned packages from
// their (single) definition on:   v := &T{...}   v := new(T)   v := T{...}   var v T   var v = &T{...}   and
// v := f(...) where f is a function of the scanned files that returns a fresh object on every path (returnsFresh).
// What happens to the object afterwards (construction phase until the first escape, publication by an atomic
// operation) is decided by the flow analysis of objflow.go, not by the shape of the statements.
func (sc *scanner) freshCandidates(fi *funcInfo) {
	info := fi.pkg.TypesInfo
	add := func(id *ast.Ident, rhs ast.Expr, end token.Pos) {
		v, ok := info.Defs[id].(*types.Var)
		if !ok || id.Name == "_" || !sc.scannedStruct(v.Type()) {
			return
		}
		if pt, isPtr := v.Type().(*types.Pointer); isPtr {
			if _, twice := pt.Elem().(*types.Pointer); twice {
				return
			}
		}
		var via *types.Func
		if rhs != nil {
			ok, f := sc.allocExpr(info, rhs)
			if !ok {
				return
			}
			via = f
		} else if _, isPtr := v.Type().(*types.Pointer); isPtr {
			return // var v *T: nil
		}
		fi.fresh[v] = &freshInfo{v: v, declPos: end, viaCall: via}
	}
	ast.Inspect(fi.decl.Body, func(n ast.Node) bool {
		switch x := n.(type) {
		case *ast.AssignStmt:
			if x.Tok != token.DEFINE || len(x.Lhs) != len(x.Rhs) {
				return true
			}
			for i, l := range x.Lhs {
				if id, ok := l.(*ast.Ident); ok {
					add(id, x.Rhs[i], x.End())
				}
			}
		case *ast.DeclStmt:
			gd, ok := x.Decl.(*ast.GenDecl)
			if !ok || gd.Tok != token.VAR {
				return true
			}
			for _, sp := range gd.Specs {
				vs, ok := sp.(*ast.ValueSpec)
				if !ok {
					continue
				}
				for i, nm := range vs.Names {
					switch {
					case len(vs.Values) == 0:
						add(nm, nil, x.End())
					case len(vs.Values) == len(vs.Names):
						add(nm, vs.Values[i], x.End())
					}
				}
			}
		}
		return true
	})
}

// a (pointer to a) named struct type declared in the scanned packages
func (sc *scanner) scannedStruct(t types.Type) bool {
	nt, ok := deref(t).(*types.Named)
	if !ok || nt.Obj().Pkg() == nil || !sc.pkgPaths[nt.Obj().Pkg().Path()] {
		return false
	}
	_, ok = nt.Underlying().(*types.Struct)
	return ok
}

// allocExpr: e evaluates to a freshly allocated object nobody else can reach: &T{...}, T{...}, new(T), or a call of
// a returns-fresh function (which is then returned too)
func (sc *scanner) allocExpr(info *types.Info, e ast.Expr) (bool, *types.Func) {
	switch r := ast.Unparen(e).(type) {
	case *ast.CompositeLit:
		return true, nil
	case *ast.UnaryExpr:
		if _, ok := ast.Unparen(r.X).(*ast.CompositeLit); ok && r.Op == token.AND {
			return true, nil
		}
	case *ast.CallExpr:
		if fid, ok := r.Fun.(*ast.Ident); ok {
			if b, isB := info.Uses[fid].(*types.Builtin); isB && b.Name() == "new" {
				return true, nil
			}
		}
		if f := staticCallee(info, r); f != nil && sc.returnsFresh(f) {
			return true, f
		}
	}
	return false, nil
}

// staticCallee: the function or method a call expression calls directly (nil for calls through values / interfaces)
func staticCallee(info *types.Info, c *ast.CallExpr) *types.Func {
	fun := ast.Unparen(c.Fun)
	switch f := fun.(type) {
	case *ast.IndexExpr:
		fun = ast.Unparen(f.X)
	case *ast.IndexListExpr:
		fun = ast.Unparen(f.X)
	}
	switch f := fun.(type) {
	case *ast.Ident:
		if o, ok := info.Uses[f].(*types.Func); ok {
			return o.Origin()
		}
	case *ast.SelectorExpr:
		if sel := info.Selections[f]; sel != nil {
			if sel.Kind() != types.MethodVal {
				return nil
			}
			if _, isIface := sel.Recv().Underlying().(*types.Interface); isIface {
				return nil
			}
		}
		if o, ok := info.Uses[f.Sel].(*types.Func); ok {
			return o.Origin()
		}
	}
	return nil
}

// syntactically inline literals: immediately invoked, deferred, the body of HoldLock / TryHoldLock / Wait on a Broadcast,
// the argument of sync.Once.Do
func syntacticInline(info *types.Info, parents map[ast.Node]ast.Node, fl *ast.FuncLit) bool {
	c, ok := parents[fl].(*ast.CallExpr)
	if !ok {
		return false
	}
	if ast.Unparen(c.Fun) == ast.Expr(fl) {
		_, isGo := parents[c].(*ast.GoStmt)
		return !isGo
	}
	return syncCallbackCall(info, c) != ""
}

// syncCallbackCall: c is a call of a function that runs its callback argument synchronously on the calling goroutine
// before it returns: "lock" for Broadcast.HoldLock / TryHoldLock / Wait (the callback runs under the Broadcast's lock),
// "once" for sync.Once.Do, "" otherwise (HoldLockMaybeAsync may run it on another goroutine)
func syncCallbackCall(info *types.Info, c *ast.CallExpr) string {
	se, ok := c.Fun.(*ast.SelectorExpr)
	if !ok {
		return ""
	}
	t := info.TypeOf(se.X)
	if t == nil {
		return ""
	}
	if lockClosureMethods[se.Sel.Name] && se.Sel.Name != "HoldLockMaybeAsync" && isBroadcast(t) {
		return "lock"
	}
	if se.Sel.Name == "Do" && len(c.Args) == 1 && typeName(t) == "sync.Once" {
		return "once"
	}
	return ""
}

func (sc *scanner) inlineLocals(fi *funcInfo) {
	info := fi.pkg.TypesInfo
	bind := map[*types.Var][]*ast.FuncLit{}
	ast.Inspect(fi.decl.Body, func(n ast.Node) bool {
		switch x := n.(type) {
		case *ast.AssignStmt:
			if len(x.Lhs) != len(x.Rhs) {
				return true
			}
			for i, l := range x.Lhs {
				id, ok := l.(*ast.Ident)
				if !ok {
					continue
				}
				v, _ := info.Defs[id].(*types.Var)
				if v == nil {
					v, _ = info.Uses[id].(*types.Var)
				}
				if v == nil || !isFuncType(v.Type()) {
					continue
				}
				if fl, ok := ast.Unparen(x.Rhs[i]).(*ast.FuncLit); ok {
					bind[v] = append(bind[v], fl)
				} else {
					bind[v] = append(bind[v], nil)
				}
			}
		case *ast.ValueSpec:
			for i, nm := range x.Names {
				if v, ok := info.Defs[nm].(*types.Var); ok && isFuncType(v.Type()) && i < len(x.Values) {
					if fl, ok := ast.Unparen(x.Values[i]).(*ast.FuncLit); ok {
						bind[v] = append(bind[v], fl)
					} else {
						bind[v] = append(bind[v], nil)
					}
				}
			}
		}
		return true
	})
	cand := map[*types.Var]*ast.FuncLit{}
	lockArg := map[*types.Var]bool{}
	for v, ls := range bind {
		if len(ls) == 1 && ls[0] != nil {
			cand[v] = ls[0]
		}
	}
	litOf := func(fl *ast.FuncLit) *types.Var {
		for v, l := range cand {
			if l == fl {
				return v
			}
		}
		return nil
	}
	for changed := true; changed; {
		changed = false
		ast.Inspect(fi.decl.Body, func(n ast.Node) bool {
			id, ok := n.(*ast.Ident)
			if !ok {
				return true
			}
			v, _ := info.Uses[id].(*types.Var)
			if v == nil || cand[v] == nil {
				return true
			}
			good := false
			if c, ok := fi.parents[id].(*ast.CallExpr); ok {
				_, isGo := fi.parents[c].(*ast.GoStmt)
				switch {
				case isGo:
					// `go f()` and `go b.HoldLock(f)`: f runs on another goroutine
				case c.Fun == ast.Expr(id):
					good = true
				case syncCallbackCall(info, c) != "":
					// handed, in call position, to a function that invokes its callback synchronously on the calling
					// goroutine: the same functions whose literal arguments run inline (syntacticInline)
					for _, a := range c.Args {
						if ast.Unparen(a) == ast.Expr(id) {
							good = true
						}
					}
					if good && syncCallbackCall(info, c) == "lock" {
						lockArg[v] = true
					}
				}
			}
			for p := fi.parents[ast.Node(id)]; p != nil && good; p = fi.parents[p] {
				if fl, ok := p.(*ast.FuncLit); ok && (v.Pos() < fl.Pos() || v.Pos() > fl.End()) {
					if !syntacticInline(info, fi.parents, fl) {
						if o := litOf(fl); o == nil || cand[o] == nil {
							good = false
						}
					}
				}
			}
			if !good {
				delete(cand, v)
				changed = true
			}
			return true
		})
	}
	for v, fl := range cand {
		fi.inlineLocal[fl] = true
		if lockArg[v] {
			fi.lockCbLocal[fl] = true
		}
	}
}

// declare registers the functions of the scanned files of p (phase 1: before any body is walked, so that summaries
// of callees - returns-fresh constructors, helpers that receive a fresh object - are available for every caller)
func (sc *scanner) declare(p *packages.Package) {
	for _, f := range p.Syntax {
		fname := sc.fset.Position(f.Pos()).Filename
		if !sc.inScope[fname] {
			continue
		}
		for _, d := range f.Decls {
			fd, ok := d.(*ast.FuncDecl)
			if !ok || fd.Body == nil {
				continue
			}
			obj, _ := p.TypesInfo.Defs[fd.Name].(*types.Func)
			if obj == nil {
				continue
			}
			name := short(p.PkgPath) + "."
			if fd.Recv != nil && len(fd.Recv.List) > 0 {
				name += strings.TrimPrefix(ownerName(p.TypesInfo.TypeOf(fd.Recv.List[0].Type)), short(p.PkgPath)+".") + "."
			}
			name += fd.Name.Name
			n := sc.newNode(name, fd.Pos())
			if fd.Name.IsExported() {
				sc.markRoot(n, "exported")
			} else if fd.Name.Name == "init" || fd.Name.Name == "main" {
				sc.markRoot(n, "entry point")
			}
			sc.funcNode[obj] = n
			fi := &funcInfo{decl: fd, name: name, pkg: p, fresh: map[*types.Var]*freshInfo{}, loadDef: map[*types.Var]string{},
				assigned: map[*types.Var]int{}, varEsc: map[*types.Var]token.Pos{}, varNames: map[*types.Var]string{}, nameCnt: map[string]int{}, end: fd.End(),
				inlineLocal: map[*ast.FuncLit]bool{}, lockCbLocal: map[*ast.FuncLit]bool{}, node: n, obj: obj}
			fi.parents = buildParents(fd)
			sc.funcs = append(sc.funcs, fi)
			sc.fdOfFunc[obj] = fi
			sc.fdOfNode[n] = fi
			sc.nFuncs++
		}
	}
}

// scanFunc walks one function body (phase 2)
func (sc *scanner) scanFunc(fi *funcInfo) {
	sc.freshCandidates(fi)
	sc.inlineLocals(fi)
	w := &walker{sc: sc, fd: fi, info: fi.pkg.TypesInfo, cur: fi.node, deferHeld: set{}}
	if fi.decl.Recv != nil {
		w.declParams(&ast.FuncType{Params: fi.decl.Recv})
	}
	w.declParams(fi.decl.Type)
	w.block(fi.decl.Body.List, set{})
}
