// objflow.go: what happens to a freshly allocated object.
//
// For every local variable v that holds a fresh object (freshCandidates) a small abstract interpretation of the
// function body follows the OBJECT, not the shape of the statements.  At every program point it knows whether the
// object
//
//	esc   may have escaped: returned, assigned or stored anywhere, sent, compared, passed to a function that is not
//	      followed (see below), used by a go / defer statement or mentioned in a closure that does not run inline;
//	pub   may have been published by an atomic operation: it was the new value of a SUCCESSFUL S.CompareAndSwap(old, v)
//	      or of S.Store(v) on a tabled atomic cell S.  A compare-and-swap publishes only on its true outcome: in
//	      `if S.CompareAndSwap(o, v) {A} else {B}`, `if !S.CompareAndSwap(o, v) {continue}`, `for !try(v) {}`,
//	      `ok := S.CompareAndSwap(o, v); if ok {..}` and `return S.CompareAndSwap(o, v)` (through the caller's test
//	      of the result) the object is still private where the operation failed.
//
// Loops are iterated to a fixpoint, break / continue / return carry their states to where they lead, so "written in a
// retry loop before the publishing compare-and-swap, never after it" is a fact about the paths of the program, whatever
// the loop looks like.  Direct calls f(.., v, ..) and v.m(..) of functions of the scanned files are FOLLOWED (the
// callee's body is interpreted with its parameter standing for the object; not recursive, depth <= 4): a helper that
// only writes fields leaves the object private, one that stores or publishes it changes the caller's state, and one that
// returns the outcome of the compare-and-swap carries the true / false distinction back to the caller's test.  Accesses
// to the object's fields inside such a helper get the state the object has there, provided EVERY call of the helper in
// the scanned files was followed from a tracked object (helperEligible) - otherwise the helper may be reached with an
// object that is already shared and its accesses keep the default (Shared, no shape).
//
// Results, used by table.go:
//
//	phase Construct   the object is certainly private (neither esc nor pub) at the access, and the access lies before
//	                  the first statement of the allocating function that can let it out (evPos; a loop that contains
//	                  such a statement counts from its head) - the second condition is implied by the first in
//	                  structured code and is kept as a cross-check;
//	shape SPreCAS s   the object is certainly private at the access, every way out of its allocating goroutine is a
//	                  CompareAndSwap / Store on the ONE cell s (no esc anywhere, also not in followed helpers): the
//	                  hypothesis of Soundness.cas_publish_sound "written by the allocating goroutine before the
//	                  publishing operation";
//	construct-phase calls (callEdge.construct): the receiver is certainly private at the call.
//
// Anything the interpretation does not understand (goto, fallthrough, a labelled jump it cannot resolve, recursion,
// calls through values) counts as an escape; an access it never reaches gets no Construct phase and no shape.  So every
// imprecision is on the rejecting side.
package main

import (
	"go/ast"
	"go/token"
	"go/types"
)

type ostate struct {
	reach bool       // false: no execution gets here
	pub   bool       // may have been published by an atomic operation
	esc   bool       // may have escaped in another way
	pubIf *types.Var // additionally: published if (and only if, as far as this operation goes) this boolean variable is true
}

func (s ostate) private() bool { return s.reach && !s.pub && !s.esc && s.pubIf == nil }

func (s ostate) settle() ostate {
	if s.pubIf != nil {
		s.pub, s.pubIf = true, nil
	}
	return s
}

func joinState(a, b ostate) ostate {
	if !a.reach {
		return b
	}
	if !b.reach {
		return a
	}
	r := ostate{reach: true, pub: a.pub || b.pub, esc: a.esc || b.esc}
	if a.pubIf == b.pubIf {
		r.pubIf = a.pubIf
	} else {
		r.pub = true
	}
	return r
}

// one visit of a field access inside a followed helper
type helperVisit struct {
	ot      *objTrack
	st      ostate
	rootPos token.Pos // position, in the allocating function, of the call through which the helper was reached
}

// the flow analysis of one fresh object
type objTrack struct {
	sc      *scanner
	fd      *funcInfo
	fi      *freshInfo
	evPos   token.Pos // first (loop adjusted) position in fd of something that can let the object out; NoPos: nothing does
	hasEsc  bool      // some non-atomic escape exists (anywhere, also in followed helpers)
	pubLocs map[string]bool
	giveUp  bool
	acc     map[ast.Node]ostate        // field accesses / calls in fd: state of the object there
	hacc    map[ast.Node]*helperVisit  // the same inside followed helpers
	retSt   map[*ast.ReturnStmt]ostate // state before `return v`
	loops   []token.Pos                // loops of fd around the current point
	stack   []*funcInfo                // followed helpers (recursion check)
}

// the object leaves only through CompareAndSwap / Store on one atomic cell: that cell
func (ot *objTrack) casCell() string {
	if ot.giveUp || ot.hasEsc || ot.fi.bad || len(ot.pubLocs) != 1 {
		return ""
	}
	for l := range ot.pubLocs {
		return l
	}
	return ""
}

type obreak struct {
	label    string
	isLoop   bool
	brk, cnt ostate
}

type oframe struct {
	ot      *objTrack
	fd      *funcInfo
	info    *types.Info
	w       *walker // for location keys of atomic cells
	v       *types.Var
	root    bool
	rootPos token.Pos
	depth   int
	boolRes bool
	isLit   bool // the body of an inline literal: its returns leave the literal only
	retT    ostate
	retF    ostate
	targets []*obreak
	label   string
	parent  *oframe
}

func (fr *oframe) isV(e ast.Expr) bool {
	id, ok := ast.Unparen(e).(*ast.Ident)
	if !ok {
		return false
	}
	if u, ok := fr.info.Uses[id].(*types.Var); ok && u == fr.v {
		return true
	}
	return false
}

func (fr *oframe) mentions(n ast.Node) bool {
	if n == nil {
		return false
	}
	found := false
	ast.Inspect(n, func(x ast.Node) bool {
		if id, ok := x.(*ast.Ident); ok {
			if u, ok := fr.info.Uses[id].(*types.Var); ok && u == fr.v {
				found = true
			}
		}
		return !found
	})
	return found
}

// something that can let the object out happens at p
func (fr *oframe) event(p token.Pos) {
	ot := fr.ot
	if !fr.root {
		p = fr.rootPos
	}
	p = loopAdjust(p, ot.loops, ot.fi.declPos)
	if ot.evPos == token.NoPos || p < ot.evPos {
		ot.evPos = p
	}
}

func (fr *oframe) escape(st ostate, p token.Pos) ostate {
	if !st.reach {
		return st
	}
	fr.ot.hasEsc = true
	fr.event(p)
	st.esc = true
	return st
}

func (fr *oframe) record(n ast.Node, st ostate) {
	if !st.reach {
		return
	}
	ot := fr.ot
	if fr.root {
		ot.acc[n] = joinState(ot.acc[n], st)
		return
	}
	hv := ot.hacc[n]
	if hv == nil {
		hv = &helperVisit{ot: ot, rootPos: fr.rootPos}
		ot.hacc[n] = hv
	}
	hv.st = joinState(hv.st, st)
	if fr.rootPos > hv.rootPos {
		hv.rootPos = fr.rootPos
	}
}

// ------------------------------------------------------------------ expressions

func (fr *oframe) exprs(es []ast.Expr, st ostate) ostate {
	for _, e := range es {
		st = fr.expr(e, st)
	}
	return st
}

func (fr *oframe) expr(e ast.Expr, st ostate) ostate {
	if !st.reach {
		return st
	}
	switch x := e.(type) {
	case nil:
	case *ast.Ident:
		if fr.isV(x) {
			return fr.escape(st, x.Pos())
		}
	case *ast.ParenExpr:
		return fr.expr(x.X, st)
	case *ast.SelectorExpr:
		if fr.isV(x.X) {
			if sel := fr.info.Selections[x]; sel != nil && sel.Kind() == types.FieldVal {
				fr.record(x, st)
				return st
			}
			return fr.escape(st, x.Pos()) // method value
		}
		return fr.expr(x.X, st)
	case *ast.CallExpr:
		t, f := fr.call(x, st)
		return joinState(t, f)
	case *ast.FuncLit:
		if fr.mentions(x) {
			return fr.escape(st, x.Pos())
		}
	case *ast.UnaryExpr:
		if x.Op == token.AND {
			if se, ok := ast.Unparen(x.X).(*ast.SelectorExpr); ok && fr.isV(se.X) {
				if fr.w.syncLoc(se) != "" {
					fr.record(se, st) // address of a synchronisation object field: used through its methods
					return st
				}
				fr.record(se, st)
				return fr.escape(st, x.Pos()) // an interior pointer leaves
			}
		}
		if x.Op == token.NOT {
			t, f := fr.cond(x, st)
			return joinState(t, f)
		}
		return fr.expr(x.X, st)
	case *ast.BinaryExpr:
		if x.Op == token.LAND || x.Op == token.LOR {
			t, f := fr.cond(x, st)
			return joinState(t, f)
		}
		return fr.expr(x.Y, fr.expr(x.X, st))
	case *ast.CompositeLit:
		for _, el := range x.Elts {
			if kv, ok := el.(*ast.KeyValueExpr); ok {
				if _, isId := kv.Key.(*ast.Ident); !isId {
					st = fr.expr(kv.Key, st)
				} else if fr.isV(kv.Key) {
					st = fr.escape(st, kv.Key.Pos())
				}
				st = fr.expr(kv.Value, st)
			} else {
				st = fr.expr(el, st)
			}
		}
	case *ast.KeyValueExpr:
		return fr.expr(x.Value, fr.expr(x.Key, st))
	case *ast.IndexExpr:
		return fr.expr(x.Index, fr.expr(x.X, st))
	case *ast.IndexListExpr:
		return fr.expr(x.X, st)
	case *ast.SliceExpr:
		st = fr.expr(x.X, st)
		st = fr.expr(x.Low, st)
		st = fr.expr(x.High, st)
		return fr.expr(x.Max, st)
	case *ast.StarExpr:
		return fr.expr(x.X, st)
	case *ast.TypeAssertExpr:
		return fr.expr(x.X, st)
	case *ast.BasicLit, *ast.ArrayType, *ast.MapType, *ast.ChanType, *ast.FuncType, *ast.StructType, *ast.InterfaceType, *ast.Ellipsis:
	default:
		if fr.mentions(e) {
			return fr.escape(st, e.Pos())
		}
	}
	return st
}

// cond evaluates a boolean expression: the states in which it is true / false
func (fr *oframe) cond(e ast.Expr, st ostate) (ostate, ostate) {
	if !st.reach {
		return st, st
	}
	switch x := e.(type) {
	case *ast.ParenExpr:
		return fr.cond(x.X, st)
	case *ast.UnaryExpr:
		if x.Op == token.NOT {
			t, f := fr.cond(x.X, st)
			return f, t
		}
	case *ast.BinaryExpr:
		switch x.Op {
		case token.LAND:
			t1, f1 := fr.cond(x.X, st)
			t2, f2 := fr.cond(x.Y, t1)
			return t2, joinState(f1, f2)
		case token.LOR:
			t1, f1 := fr.cond(x.X, st)
			t2, f2 := fr.cond(x.Y, f1)
			return joinState(t1, t2), f2
		}
	case *ast.CallExpr:
		return fr.call(x, st)
	case *ast.Ident:
		if c, ok := fr.info.Uses[x].(*types.Const); ok && c.Parent() == types.Universe {
			switch c.Name() {
			case "true":
				return st, ostate{}
			case "false":
				return ostate{}, st
			}
		}
		if u, ok := fr.info.Uses[x].(*types.Var); ok && st.pubIf != nil && u == st.pubIf {
			t, f := st, st
			t.pub, t.pubIf = true, nil
			f.pubIf = nil
			return t, f
		}
	}
	s := fr.expr(e, st)
	return s, s
}

// the receiver variable / parameter variable number i of a declared function (nil: unnamed or blank)
func paramVar(fd *funcInfo, recv bool, i int) (*types.Var, bool) {
	info := fd.pkg.TypesInfo
	if recv {
		if fd.decl.Recv == nil || len(fd.decl.Recv.List) == 0 {
			return nil, false
		}
		ns := fd.decl.Recv.List[0].Names
		if len(ns) == 0 || ns[0].Name == "_" {
			return nil, true
		}
		v, _ := info.Defs[ns[0]].(*types.Var)
		return v, v != nil
	}
	k := 0
	sig, _ := fd.obj.Type().(*types.Signature)
	if sig == nil {
		return nil, false
	}
	for _, f := range fd.decl.Type.Params.List {
		if len(f.Names) == 0 {
			if k == i {
				return nil, !(sig.Variadic() && i == sig.Params().Len()-1)
			}
			k++
			continue
		}
		for _, nm := range f.Names {
			if k == i {
				if sig.Variadic() && i == sig.Params().Len()-1 {
					return nil, false
				}
				if nm.Name == "_" {
					return nil, true
				}
				v, _ := info.Defs[nm].(*types.Var)
				return v, v != nil
			}
			k++
		}
	}
	return nil, false
}

const maxFollow = 4

// call: the states after the call when it returned true / false (equal unless the result is boolean and tells)
func (fr *oframe) call(c *ast.CallExpr, st ostate) (ostate, ostate) {
	if !st.reach {
		return st, st
	}
	both := func(s ostate) (ostate, ostate) { return s, s }
	fun := ast.Unparen(c.Fun)

	// builtins, conversions: the operands are plain uses
	if id, ok := fun.(*ast.Ident); ok {
		if _, isB := fr.info.Uses[id].(*types.Builtin); isB {
			if id.Name == "panic" {
				fr.exprs(c.Args, st)
				return ostate{}, ostate{}
			}
			return both(fr.exprs(c.Args, st))
		}
	}
	if tv, ok := fr.info.Types[c.Fun]; ok && tv.IsType() {
		return both(fr.exprs(c.Args, st))
	}

	// immediately invoked literal: its body runs here, once
	if fl, ok := fun.(*ast.FuncLit); ok {
		st = fr.exprs(c.Args, st)
		return both(fr.inlineLit(fl, st, false))
	}

	se, _ := fun.(*ast.SelectorExpr)

	// the callback of Broadcast.HoldLock / TryHoldLock / Wait and of sync.Once.Do runs here, synchronously, any number of times
	if syncCallbackCall(fr.info, c) != "" {
		st = fr.expr(se.X, st)
		for _, a := range c.Args {
			if fl, ok := ast.Unparen(a).(*ast.FuncLit); ok {
				st = fr.inlineLit(fl, st, true)
			} else {
				st = fr.expr(a, st)
			}
		}
		return both(st)
	}

	// S.CompareAndSwap(old, v) / S.Store(v) on a tabled atomic cell
	if se != nil && (se.Sel.Name == "CompareAndSwap" || se.Sel.Name == "Store") && len(c.Args) > 0 && fr.isV(c.Args[len(c.Args)-1]) {
		if cell := fr.w.syncLoc(se.X); cell != "" && !fr.mentions(se.X) {
			st = fr.exprs(c.Args[:len(c.Args)-1], st)
			if !st.reach {
				return st, st
			}
			fr.ot.pubLocs[cell] = true
			fr.event(c.Pos())
			fr.record(c, st)
			t := st
			t.pub = true
			if se.Sel.Name == "Store" {
				return t, t
			}
			return t, st
		}
	}

	// a direct call of a function of the scanned files with the object as receiver or argument: follow it
	callee := staticCallee(fr.info, c)
	var cfd *funcInfo
	if callee != nil {
		cfd = fr.ot.sc.fdOfFunc[callee]
	}
	nV, recvIsV, argIdx := 0, false, -1
	if se != nil && fr.isV(se.X) {
		if sel := fr.info.Selections[se]; sel != nil && sel.Kind() == types.MethodVal {
			recvIsV = true
			nV++
		}
	}
	for i, a := range c.Args {
		if fr.isV(a) {
			nV++
			argIdx = i
		}
	}
	if nV == 0 {
		// nothing of ours is handed over directly; nested uses are ordinary expressions
		return both(fr.exprs(c.Args, fr.expr(fun, st)))
	}
	// evaluate the other operands first
	if !recvIsV {
		st = fr.expr(fun, st)
	}
	for _, a := range c.Args {
		if !fr.isV(a) {
			st = fr.expr(a, st)
		}
	}
	if !st.reach {
		return st, st
	}
	fr.record(c, st)
	follow := cfd != nil && nV == 1 && fr.depth < maxFollow
	if follow {
		for _, f := range fr.ot.stack {
			if f == cfd {
				follow = false
			}
		}
		if cfd == fr.ot.fd {
			follow = false
		}
	}
	var pv *types.Var
	if follow {
		var ok bool
		pv, ok = paramVar(cfd, recvIsV, argIdx)
		if !ok {
			follow = false
		} else if pv == nil {
			return both(st) // the callee cannot name the object
		}
	}
	if !follow {
		return both(fr.escape(st, c.Pos()))
	}
	sc := fr.ot.sc
	n := cfd.node
	if sc.descents[n] == nil {
		sc.descents[n] = map[*ast.CallExpr]bool{}
	}
	sc.descents[n][c] = true
	sub := &oframe{ot: fr.ot, fd: cfd, info: cfd.pkg.TypesInfo, v: pv, depth: fr.depth + 1, parent: fr}
	sub.w = &walker{sc: sc, fd: cfd, info: sub.info}
	if fr.root {
		sub.rootPos = c.Pos()
	} else {
		sub.rootPos = fr.rootPos
	}
	if sig, ok := cfd.obj.Type().(*types.Signature); ok && sig.Results().Len() == 1 {
		if b, ok := sig.Results().At(0).Type().Underlying().(*types.Basic); ok && b.Kind() == types.Bool {
			sub.boolRes = true
		}
	}
	fr.ot.stack = append(fr.ot.stack, cfd)
	end := sub.block(cfd.decl.Body.List, st)
	fr.ot.stack = fr.ot.stack[:len(fr.ot.stack)-1]
	// falling off the end of the body is a return without a value
	sub.retT = joinState(sub.retT, end)
	sub.retF = joinState(sub.retF, end)
	t, f := sub.retT, sub.retF
	// a correlation with a boolean variable of the callee means nothing here
	return t.settle(), f.settle()
}

// the body of a literal that runs inline at this point; many: any number of times (including none)
func (fr *oframe) inlineLit(fl *ast.FuncLit, st ostate, many bool) ostate {
	sub := &oframe{ot: fr.ot, fd: fr.fd, info: fr.info, w: fr.w, v: fr.v, root: fr.root, rootPos: fr.rootPos, depth: fr.depth, isLit: true, parent: fr}
	if !many {
		end := sub.block(fl.Body.List, st)
		return joinState(joinState(sub.retT, sub.retF), end)
	}
	head := st
	for i := 0; i < 8; i++ {
		sub.retT, sub.retF = ostate{}, ostate{}
		end := sub.block(fl.Body.List, head)
		out := joinState(joinState(sub.retT, sub.retF), end)
		nh := joinState(head, out)
		if nh == head {
			break
		}
		head = nh
	}
	return head
}

// ------------------------------------------------------------------ statements

func (fr *oframe) block(list []ast.Stmt, st ostate) ostate {
	for _, s := range list {
		st = fr.stmt(s, st)
	}
	return st
}

// the statement a break / continue leads out of (a jump cannot leave a function body or an inline literal)
func (fr *oframe) target(label string, cont bool) *obreak {
	for i := len(fr.targets) - 1; i >= 0; i-- {
		t := fr.targets[i]
		if label != "" {
			if t.label == label && (!cont || t.isLoop) {
				return t
			}
			continue
		}
		if !cont || t.isLoop {
			return t
		}
	}
	return nil
}

func (fr *oframe) lhs(e ast.Expr, st ostate) ostate {
	switch x := ast.Unparen(e).(type) {
	case *ast.Ident:
		if fr.isV(x) {
			fr.ot.fi.bad = true // the variable no longer names the one object
			fr.ot.giveUp = true
			return fr.escape(st, x.Pos())
		}
		if u, ok := fr.info.Uses[x].(*types.Var); ok && st.pubIf != nil && u == st.pubIf {
			return st.settle()
		}
		return st
	case *ast.SelectorExpr:
		if fr.isV(x.X) {
			if sel := fr.info.Selections[x]; sel != nil && sel.Kind() == types.FieldVal {
				fr.record(x, st)
				return st
			}
		}
		return fr.expr(x, st)
	case *ast.IndexExpr:
		return fr.expr(x.Index, fr.lhs(x.X, st))
	case *ast.StarExpr:
		return fr.expr(x.X, st)
	}
	return fr.expr(e, st)
}

// the definition of the tracked variable of the allocating function: from here on the object exists and is private
func (fr *oframe) defines(id *ast.Ident) bool {
	if !fr.root {
		return false
	}
	d, ok := fr.info.Defs[id].(*types.Var)
	return ok && d == fr.v
}

func (fr *oframe) boolVarOf(e ast.Expr) *types.Var {
	id, ok := ast.Unparen(e).(*ast.Ident)
	if !ok || id.Name == "_" {
		return nil
	}
	var v *types.Var
	if d, ok := fr.info.Defs[id].(*types.Var); ok {
		v = d
	} else if u, ok := fr.info.Uses[id].(*types.Var); ok {
		v = u
	}
	if v == nil || v.IsField() || v.Pkg() == nil || v.Parent() == v.Pkg().Scope() {
		return nil
	}
	if b, ok := v.Type().Underlying().(*types.Basic); !ok || b.Kind() != types.Bool {
		return nil
	}
	// only variables nobody else can write: declared inside the function under analysis and not captured by a closure
	if v.Pos() < fr.fd.decl.Pos() || v.Pos() > fr.fd.decl.End() {
		return nil
	}
	captured := false
	ast.Inspect(fr.fd.decl.Body, func(n ast.Node) bool {
		if fl, ok := n.(*ast.FuncLit); ok && !(v.Pos() >= fl.Pos() && v.Pos() <= fl.End()) {
			ast.Inspect(fl, func(m ast.Node) bool {
				if i2, ok := m.(*ast.Ident); ok {
					if u, ok := fr.info.Uses[i2].(*types.Var); ok && u == v {
						captured = true
					}
				}
				return !captured
			})
			return false
		}
		return !captured
	})
	if captured {
		return nil
	}
	return v
}

func (fr *oframe) stmt(s ast.Stmt, st ostate) ostate {
	if !st.reach {
		return st
	}
	ot := fr.ot
	switch x := s.(type) {
	case nil, *ast.EmptyStmt:
	case *ast.ExprStmt:
		return fr.expr(x.X, st)
	case *ast.AssignStmt:
		// ok := S.CompareAndSwap(o, v) / ok := try(v): remember which value of ok means "published"
		if len(x.Lhs) == 1 && len(x.Rhs) == 1 && (x.Tok == token.DEFINE || x.Tok == token.ASSIGN) {
			if bv := fr.boolVarOf(x.Lhs[0]); bv != nil {
				if st.pubIf == bv {
					st = st.settle()
				}
				t, f := fr.cond(x.Rhs[0], st)
				if t.reach && f.reach && t.pub && !f.pub && f.pubIf == nil && t.pubIf == nil && t.esc == f.esc {
					f.pubIf = bv
					return f
				}
				return joinState(t, f)
			}
		}
		st = fr.exprs(x.Rhs, st)
		for _, l := range x.Lhs {
			if id, ok := l.(*ast.Ident); ok && x.Tok == token.DEFINE {
				if fr.defines(id) {
					st = ostate{reach: st.reach}
					continue
				}
				if _, isDef := fr.info.Defs[id]; isDef {
					continue
				}
			}
			st = fr.lhs(l, st)
		}
		return st
	case *ast.IncDecStmt:
		return fr.lhs(x.X, st)
	case *ast.DeclStmt:
		gd, ok := x.Decl.(*ast.GenDecl)
		if !ok {
			return st
		}
		for _, sp := range gd.Specs {
			vs, ok := sp.(*ast.ValueSpec)
			if !ok {
				continue
			}
			st = fr.exprs(vs.Values, st)
			for _, nm := range vs.Names {
				if fr.defines(nm) {
					st = ostate{reach: st.reach}
				}
			}
		}
		return st
	case *ast.GoStmt:
		if fr.mentions(x.Call) {
			return fr.escape(st, x.Pos())
		}
		return st
	case *ast.DeferStmt:
		// defer v.f.m(): a method of a field (Unlock); the object itself is not handed over
		if se, ok := x.Call.Fun.(*ast.SelectorExpr); ok {
			if in, ok := ast.Unparen(se.X).(*ast.SelectorExpr); ok && fr.isV(in.X) && !fr.mentionsAny(x.Call.Args) {
				if sel := fr.info.Selections[in]; sel != nil && sel.Kind() == types.FieldVal {
					fr.record(in, st)
					return st
				}
			}
		}
		if fr.mentions(x.Call) {
			return fr.escape(st, x.Pos())
		}
		return st
	case *ast.SendStmt:
		return fr.expr(x.Value, fr.expr(x.Chan, st))
	case *ast.ReturnStmt:
		if fr.root && !fr.isLit && len(x.Results) == 1 && fr.isV(x.Results[0]) {
			ot.retSt[x] = joinState(ot.retSt[x], st)
		}
		if fr.boolRes && !fr.isLit && len(x.Results) == 1 {
			t, f := fr.cond(x.Results[0], st)
			fr.retT = joinState(fr.retT, t)
			fr.retF = joinState(fr.retF, f)
			return ostate{}
		}
		st = fr.exprs(x.Results, st)
		fr.retT = joinState(fr.retT, st)
		fr.retF = joinState(fr.retF, st)
		return ostate{}
	case *ast.BlockStmt:
		return fr.block(x.List, st)
	case *ast.IfStmt:
		st = fr.stmt(x.Init, st)
		t, f := fr.cond(x.Cond, st)
		a := fr.block(x.Body.List, t)
		b := f
		if x.Else != nil {
			b = fr.stmt(x.Else, f)
		}
		return joinState(a, b)
	case *ast.ForStmt:
		st = fr.stmt(x.Init, st)
		tg := &obreak{label: fr.label, isLoop: true}
		fr.label = ""
		fr.targets = append(fr.targets, tg)
		if fr.root {
			ot.loops = append(ot.loops, x.Pos())
		}
		head := st
		var exit ostate
		for i := 0; i < 10; i++ {
			t, f := head, ostate{}
			if x.Cond != nil {
				t, f = fr.cond(x.Cond, head)
			}
			exit = f
			body := fr.block(x.Body.List, t)
			body = joinState(body, tg.cnt)
			body = fr.stmt(x.Post, body)
			nh := joinState(head, body)
			if nh == head {
				break
			}
			head = nh
			if i == 9 {
				ot.giveUp = true
			}
		}
		if fr.root {
			ot.loops = ot.loops[:len(ot.loops)-1]
		}
		fr.targets = fr.targets[:len(fr.targets)-1]
		return joinState(exit, tg.brk)
	case *ast.RangeStmt:
		st = fr.expr(x.X, st)
		tg := &obreak{label: fr.label, isLoop: true}
		fr.label = ""
		fr.targets = append(fr.targets, tg)
		if fr.root {
			ot.loops = append(ot.loops, x.Pos())
		}
		head := st
		for i := 0; i < 10; i++ {
			t := head
			if x.Tok != token.DEFINE {
				if x.Key != nil {
					t = fr.lhs(x.Key, t)
				}
				if x.Value != nil {
					t = fr.lhs(x.Value, t)
				}
			}
			body := fr.block(x.Body.List, t)
			body = joinState(body, tg.cnt)
			nh := joinState(head, body)
			if nh == head {
				break
			}
			head = nh
			if i == 9 {
				ot.giveUp = true
			}
		}
		if fr.root {
			ot.loops = ot.loops[:len(ot.loops)-1]
		}
		fr.targets = fr.targets[:len(fr.targets)-1]
		return joinState(head, tg.brk)
	case *ast.SwitchStmt:
		st = fr.stmt(x.Init, st)
		st = fr.expr(x.Tag, st)
		return fr.clauses(x.Body.List, st, x.Tag == nil)
	case *ast.TypeSwitchStmt:
		st = fr.stmt(x.Init, st)
		st = fr.stmt(x.Assign, st)
		return fr.typeClauses(x.Body.List, st)
	case *ast.SelectStmt:
		tg := &obreak{label: fr.label}
		fr.label = ""
		fr.targets = append(fr.targets, tg)
		var out ostate
		for _, c := range x.Body.List {
			cc := c.(*ast.CommClause)
			h := fr.stmt(cc.Comm, st)
			out = joinState(out, fr.block(cc.Body, h))
		}
		fr.targets = fr.targets[:len(fr.targets)-1]
		return joinState(out, tg.brk)
	case *ast.LabeledStmt:
		fr.label = x.Label.Name
		r := fr.stmt(x.Stmt, st)
		fr.label = ""
		return r
	case *ast.BranchStmt:
		lbl := ""
		if x.Label != nil {
			lbl = x.Label.Name
		}
		switch x.Tok {
		case token.BREAK:
			if t := fr.target(lbl, false); t != nil {
				t.brk = joinState(t.brk, st)
				return ostate{}
			}
		case token.CONTINUE:
			if t := fr.target(lbl, true); t != nil {
				t.cnt = joinState(t.cnt, st)
				return ostate{}
			}
		}
		// goto, fallthrough, a jump we cannot resolve
		ot.giveUp = true
		return fr.escape(st, x.Pos())
	default:
		if fr.mentions(s) {
			return fr.escape(st, s.Pos())
		}
	}
	return st
}

func (fr *oframe) mentionsAny(es []ast.Expr) bool {
	for _, e := range es {
		if fr.mentions(e) {
			return true
		}
	}
	return false
}

// the clauses of a switch: the case expressions are evaluated in source order until one matches (in a switch without
// a tag a clause is entered where its condition is true and the later ones are reached where it was false); the
// default clause is entered when none matched
func (fr *oframe) clauses(list []ast.Stmt, st ostate, tagless bool) ostate {
	tg := &obreak{label: fr.label}
	fr.label = ""
	fr.targets = append(fr.targets, tg)
	var out ostate
	cur := st
	entry := make([]ostate, len(list))
	def := -1
	for i, c := range list {
		cc := c.(*ast.CaseClause)
		if cc.List == nil {
			def = i
			continue
		}
		for _, e := range cc.List {
			if tagless {
				t, f := fr.cond(e, cur)
				entry[i] = joinState(entry[i], t)
				cur = f
			} else {
				cur = fr.expr(e, cur)
				entry[i] = joinState(entry[i], cur)
			}
		}
	}
	if def >= 0 {
		entry[def] = cur
	} else {
		out = cur
	}
	for i, c := range list {
		out = joinState(out, fr.block(c.(*ast.CaseClause).Body, entry[i]))
	}
	fr.targets = fr.targets[:len(fr.targets)-1]
	return joinState(out, tg.brk)
}

func (fr *oframe) typeClauses(list []ast.Stmt, st ostate) ostate {
	tg := &obreak{label: fr.label}
	fr.label = ""
	fr.targets = append(fr.targets, tg)
	out := st
	for _, c := range list {
		out = joinState(out, fr.block(c.(*ast.CaseClause).Body, st))
	}
	fr.targets = fr.targets[:len(fr.targets)-1]
	return joinState(out, tg.brk)
}

// ------------------------------------------------------------------ driver and queries

func (sc *scanner) objFlowAll() {
	for _, fd := range sc.funcs {
		for _, fi := range fd.fresh {
			ot := &objTrack{sc: sc, fd: fd, fi: fi, pubLocs: map[string]bool{}, acc: map[ast.Node]ostate{}, hacc: map[ast.Node]*helperVisit{}, retSt: map[*ast.ReturnStmt]ostate{}}
			fi.track = ot
			fr := &oframe{ot: ot, fd: fd, info: fd.pkg.TypesInfo, v: fi.v, root: true}
			fr.w = &walker{sc: sc, fd: fd, info: fr.info}
			// before its definition the variable does not exist: the state is reset where it is defined
			fr.block(fd.decl.Body.List, ostate{reach: true})
			for n, hv := range ot.hacc {
				sc.helperVisits[n] = append(sc.helperVisits[n], *hv)
			}
		}
	}
	// constructors that were taken to return a fresh object: confirm (greatest fixpoint), demote the others together
	// with the variables defined from them
	for changed := true; changed; {
		changed = false
		for f, st := range sc.retFresh {
			if st == 2 && !sc.confirmFresh(f) {
				sc.retFresh[f] = 3
				changed = true
			}
		}
	}
	for _, fd := range sc.funcs {
		for _, fi := range fd.fresh {
			if fi.viaCall != nil && sc.retFresh[fi.viaCall] != 2 {
				fi.bad = true
			}
		}
	}
}

// returnsFresh (candidate): f is a function of the scanned files with one result, a pointer to a struct of the scanned
// packages, and every return statement returns &T{..}, new(T), a local variable that is itself a fresh-object
// candidate, or the result of such a function.  Whether the returned variable is still private at the return is
// confirmed after the flow analysis (confirmFresh).
func (sc *scanner) returnsFresh(f *types.Func) bool {
	switch sc.retFresh[f] {
	case 1, 3:
		return false // recursion: no
	case 2:
		return true
	}
	fd := sc.fdOfFunc[f]
	sig, _ := f.Type().(*types.Signature)
	if fd == nil || sig == nil || sig.Results().Len() != 1 {
		sc.retFresh[f] = 3
		return false
	}
	if _, isPtr := sig.Results().At(0).Type().(*types.Pointer); !isPtr || !sc.scannedStruct(sig.Results().At(0).Type()) {
		sc.retFresh[f] = 3
		return false
	}
	sc.retFresh[f] = 1
	info := fd.pkg.TypesInfo
	ok, nret := true, 0
	ast.Inspect(fd.decl.Body, func(n ast.Node) bool {
		switch x := n.(type) {
		case *ast.FuncLit:
			return false
		case *ast.ReturnStmt:
			nret++
			if len(x.Results) != 1 {
				ok = false
				return false
			}
			r := ast.Unparen(x.Results[0])
			if id, isId := r.(*ast.Ident); isId {
				v, _ := info.Uses[id].(*types.Var)
				if v == nil || !sc.definedFresh(fd, v) {
					ok = false
				}
				return false
			}
			if a, _ := sc.allocExpr(info, r); !a {
				ok = false
			}
			return false
		}
		return ok
	})
	if ok && nret > 0 {
		sc.retFresh[f] = 2
		return true
	}
	sc.retFresh[f] = 3
	return false
}

// v is defined in fd by a single allocation (the same test freshCandidates applies; fd may not have been scanned yet)
func (sc *scanner) definedFresh(fd *funcInfo, v *types.Var) bool {
	info := fd.pkg.TypesInfo
	found, ndef := false, 0
	ast.Inspect(fd.decl.Body, func(n ast.Node) bool {
		switch x := n.(type) {
		case *ast.AssignStmt:
			for i, l := range x.Lhs {
				id, ok := l.(*ast.Ident)
				if !ok {
					continue
				}
				if d, ok := info.Defs[id].(*types.Var); ok && d == v {
					ndef++
					if len(x.Lhs) == len(x.Rhs) {
						if a, _ := sc.allocExpr(info, x.Rhs[i]); a {
							found = true
						}
					}
				} else if u, ok := info.Uses[id].(*types.Var); ok && u == v {
					ndef += 2 // assigned again
				}
			}
		case *ast.ValueSpec:
			for i, nm := range x.Names {
				if d, ok := info.Defs[nm].(*types.Var); ok && d == v {
					ndef++
					if len(x.Values) == len(x.Names) {
						if a, _ := sc.allocExpr(info, x.Values[i]); a {
							found = true
						}
					}
				}
			}
		}
		return true
	})
	return found && ndef == 1
}

func (sc *scanner) confirmFresh(f *types.Func) bool {
	fd := sc.fdOfFunc[f]
	info := fd.pkg.TypesInfo
	ok := true
	ast.Inspect(fd.decl.Body, func(n ast.Node) bool {
		switch x := n.(type) {
		case *ast.FuncLit:
			return false
		case *ast.ReturnStmt:
			r := ast.Unparen(x.Results[0])
			if id, isId := r.(*ast.Ident); isId {
				v, _ := info.Uses[id].(*types.Var)
				fi := fd.fresh[v]
				if fi == nil || fi.bad || fi.track == nil || fi.track.giveUp {
					ok = false
					return false
				}
				if st, seen := fi.track.retSt[x]; !seen || !st.private() {
					ok = false
				}
				if fi.viaCall != nil && sc.retFresh[fi.viaCall] != 2 {
					ok = false
				}
				return false
			}
			if c, isCall := r.(*ast.CallExpr); isCall {
				if g := staticCallee(info, c); g != nil && sc.retFresh[g] != 2 {
					ok = false
				}
			}
			return false
		}
		return ok
	})
	return ok
}

// every call of the helper n in the scanned files was followed from a tracked object
func (sc *scanner) helperEligible(n *node) bool {
	if n == nil || n.root || n.assume != nil || n.isLit {
		return false
	}
	if sc.incoming == nil {
		sc.incoming = map[*node][]*callEdge{}
		for _, m := range sc.nodes {
			for _, e := range m.calls {
				sc.incoming[e.callee] = append(sc.incoming[e.callee], e)
			}
		}
	}
	in := sc.incoming[n]
	if len(in) == 0 {
		return false
	}
	for _, e := range in {
		if e.call == nil || !sc.descents[n][e.call] {
			return false
		}
	}
	return true
}

// objFacts: for a field access through a variable: is the object certainly private there (construction phase), and
// the atomic cell it is published through if the access precedes that publication (shape SPreCAS)
func (sc *scanner) objFacts(a *access) (construct bool, cell string) {
	if a.base == nil || a.fd == nil || a.expr == nil {
		return false, ""
	}
	key := ast.Node(a.expr)
	if fi := a.fd.fresh[a.base]; fi != nil {
		ot := fi.track
		if ot == nil || fi.bad || ot.giveUp {
			return false, ""
		}
		st, seen := ot.acc[key]
		if !seen || !st.private() {
			return false, ""
		}
		construct = ot.evPos == token.NoPos || a.effPos < ot.evPos
		return construct, ot.casCell()
	}
	vs := sc.helperVisits[key]
	if len(vs) == 0 || a.n != a.fd.node || !sc.helperEligible(a.n) {
		return false, ""
	}
	construct = true
	for i, hv := range vs {
		ot := hv.ot
		if ot.fi.bad || ot.giveUp || !hv.st.private() {
			return false, ""
		}
		if !(ot.evPos == token.NoPos || hv.rootPos < ot.evPos) {
			construct = false
		}
		c := ot.casCell()
		if i == 0 {
			cell = c
		} else if c != cell {
			cell = ""
		}
	}
	return construct, cell
}

// callConstruct: the call edge e is made on a receiver that is certainly private at the call
func (sc *scanner) callConstruct(e *callEdge) bool {
	if e.freshRecv == nil || e.fd == nil || e.call == nil {
		return false
	}
	fi := e.fd.fresh[e.freshRecv]
	if fi == nil || fi.bad || fi.track == nil || fi.track.giveUp {
		return false
	}
	st, seen := fi.track.acc[ast.Node(e.call)]
	if !seen || !st.private() {
		return false
	}
	return fi.track.evPos == token.NoPos || e.pos < fi.track.evPos
}
