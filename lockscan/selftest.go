// selftest.go: the translator's self-test.  Seeded discipline violations, each applied (as a go/packages
// overlay; the mutated copy is also written under the self-test directory for inspection) to the first file of its
// candidate list on which the syntactic rewrite applies:
//
//	1 moved-out         an Unlock() is moved up to directly after its Lock(): the accesses between them leave the section
//	2 wrong-lock        a second mutex is added to a struct and one method locks that one instead
//	3 late-write        the field assignment before a close(ch) is repeated after it: a write after publication
//
// and the racy twins of the three idioms the translator recognises semantically (each looks like the accepted form):
//
//	4 closure-to-go     the callback of a Broadcast.HoldLock is bound to a local variable (accepted: it runs inline) and
//	                    the HoldLock call is then made by a `go` statement: the closure's captured variables are shared
//	5 write-after-escape  a constructor hands its fresh object to a goroutine and writes one of its fields afterwards:
//	                    the write is no longer in the construction phase
//	6 write-after-cas   the outcome of the compare-and-swap that publishes a fresh node is kept in a variable and a
//	                    field of the node is written when it succeeded: a write after publication
//
// The rewrites are on the syntax tree, not on text, so that harmless edits of /repo do not invalidate them.
// Output: <dir>/SelfTables.v (Definition seed1 .. seedN : table) and <dir>/selftest.json (N results, in that order).
// ./check then proves check_table seedK = false in Coq for each K; a translator that accepts one of them makes the check
// report itself broken.
package main

import (
	"bytes"
	"encoding/json"
	"fmt"
	"go/ast"
	"go/format"
	"go/parser"
	"go/token"
	"os"
	"path/filepath"
	"strings"

	"golang.org/x/tools/go/ast/astutil"
)

type seed struct {
	name  string
	what  string
	files []string
	apply func(f *ast.File) (string, bool)
}

func exprString(e ast.Expr) string {
	var b bytes.Buffer
	format.Node(&b, token.NewFileSet(), e)
	return b.String()
}

// X.m() as an expression statement: returns X's text
func methodStmt(s ast.Stmt, m string) (string, bool) {
	es, ok := s.(*ast.ExprStmt)
	if !ok {
		return "", false
	}
	c, ok := es.X.(*ast.CallExpr)
	if !ok || len(c.Args) != 0 {
		return "", false
	}
	se, ok := c.Fun.(*ast.SelectorExpr)
	if !ok || se.Sel.Name != m {
		return "", false
	}
	return exprString(se.X), true
}

func seedMovedOut(f *ast.File) (string, bool) {
	done := ""
	ast.Inspect(f, func(n ast.Node) bool {
		if done != "" {
			return false
		}
		fd, ok := n.(*ast.FuncDecl)
		if !ok || fd.Body == nil {
			return true
		}
		l := fd.Body.List
		for i := range l {
			x, ok := methodStmt(l[i], "Lock")
			if !ok {
				continue
			}
			for j := i + 2; j < len(l); j++ {
				if y, ok := methodStmt(l[j], "Unlock"); ok && y == x {
					un := l[j]
					nl := append([]ast.Stmt{}, l[:i+1]...)
					nl = append(nl, un)
					nl = append(nl, l[i+1:j]...)
					nl = append(nl, l[j+1:]...)
					fd.Body.List = nl
					done = fmt.Sprintf("func %s: %s.Unlock() moved up to directly after %s.Lock()", fd.Name.Name, x, x)
					return false
				}
			}
		}
		return true
	})
	return done, done != ""
}

func seedWrongLock(f *ast.File) (string, bool) {
	// a struct with a sync.Mutex field
	var st *ast.StructType
	mtxField := ""
	ast.Inspect(f, func(n ast.Node) bool {
		ts, ok := n.(*ast.TypeSpec)
		if !ok || st != nil {
			return true
		}
		s, ok := ts.Type.(*ast.StructType)
		if !ok {
			return true
		}
		for _, fl := range s.Fields.List {
			if exprString(fl.Type) == "sync.Mutex" && len(fl.Names) == 1 {
				st, mtxField = s, fl.Names[0].Name
				return false
			}
		}
		return true
	})
	if st == nil {
		return "", false
	}
	done := ""
	for _, d := range f.Decls {
		fd, ok := d.(*ast.FuncDecl)
		if !ok || fd.Body == nil || fd.Recv == nil {
			continue
		}
		uses := false
		ast.Inspect(fd.Body, func(n ast.Node) bool {
			if c, ok := n.(*ast.CallExpr); ok {
				if se, ok := c.Fun.(*ast.SelectorExpr); ok && se.Sel.Name == "Lock" {
					if in, ok := se.X.(*ast.SelectorExpr); ok && in.Sel.Name == mtxField {
						uses = true
					}
				}
			}
			return true
		})
		if !uses {
			continue
		}
		ast.Inspect(fd.Body, func(n ast.Node) bool {
			if se, ok := n.(*ast.SelectorExpr); ok && se.Sel.Name == mtxField {
				se.Sel = ast.NewIdent("seedMtx")
			}
			return true
		})
		done = fmt.Sprintf("func %s locks the added mutex seedMtx instead of %s", fd.Name.Name, mtxField)
		break
	}
	if done == "" {
		return "", false
	}
	st.Fields.List = append(st.Fields.List, &ast.Field{Names: []*ast.Ident{ast.NewIdent("seedMtx")}, Type: &ast.SelectorExpr{X: ast.NewIdent("sync"), Sel: ast.NewIdent("Mutex")}})
	return done, true
}

func seedLateWrite(f *ast.File) (string, bool) {
	done := ""
	ast.Inspect(f, func(n ast.Node) bool {
		if done != "" {
			return false
		}
		b, ok := n.(*ast.BlockStmt)
		if !ok {
			return true
		}
		for k := 1; k < len(b.List); k++ {
			es, ok := b.List[k].(*ast.ExprStmt)
			if !ok {
				continue
			}
			c, ok := es.X.(*ast.CallExpr)
			if !ok {
				continue
			}
			if id, ok := c.Fun.(*ast.Ident); !ok || id.Name != "close" {
				continue
			}
			as, ok := b.List[k-1].(*ast.AssignStmt)
			if !ok || len(as.Lhs) != 1 || as.Tok != token.ASSIGN {
				continue
			}
			if _, ok := as.Lhs[0].(*ast.SelectorExpr); !ok {
				continue
			}
			cp := &ast.AssignStmt{Lhs: as.Lhs, Tok: as.Tok, Rhs: as.Rhs}
			nl := append([]ast.Stmt{}, b.List[:k+1]...)
			nl = append(nl, cp)
			nl = append(nl, b.List[k+1:]...)
			b.List = nl
			done = fmt.Sprintf("%s repeated after %s", exprString(as.Lhs[0])+" = ...", exprString(c))
			return false
		}
		return true
	})
	return done, done != ""
}

// ---- 4: closure-to-go

// names assigned (=) in the body of fl that fl neither declares nor takes as a parameter
func assignsOuter(fl *ast.FuncLit) bool {
	own := map[string]bool{}
	if fl.Type.Params != nil {
		for _, f := range fl.Type.Params.List {
			for _, n := range f.Names {
				own[n.Name] = true
			}
		}
	}
	ast.Inspect(fl.Body, func(n ast.Node) bool {
		switch x := n.(type) {
		case *ast.AssignStmt:
			if x.Tok == token.DEFINE {
				for _, l := range x.Lhs {
					if id, ok := l.(*ast.Ident); ok {
						own[id.Name] = true
					}
				}
			}
		case *ast.ValueSpec:
			for _, n := range x.Names {
				own[n.Name] = true
			}
		}
		return true
	})
	found := false
	ast.Inspect(fl.Body, func(n ast.Node) bool {
		if as, ok := n.(*ast.AssignStmt); ok && as.Tok == token.ASSIGN {
			for _, l := range as.Lhs {
				if id, ok := l.(*ast.Ident); ok && id.Name != "_" && !own[id.Name] {
					found = true
				}
			}
		}
		return !found
	})
	return found
}

// the statement lists of a function body (blocks, case and select clauses), each with a setter
func stmtLists(body *ast.BlockStmt, visit func(list []ast.Stmt, set func([]ast.Stmt)) bool) {
	stop := false
	ast.Inspect(body, func(n ast.Node) bool {
		if stop {
			return false
		}
		switch x := n.(type) {
		case *ast.BlockStmt:
			stop = visit(x.List, func(l []ast.Stmt) { x.List = l })
		case *ast.CaseClause:
			stop = visit(x.Body, func(l []ast.Stmt) { x.Body = l })
		case *ast.CommClause:
			stop = visit(x.Body, func(l []ast.Stmt) { x.Body = l })
		}
		return !stop
	})
}

func seedClosureToGo(f *ast.File) (string, bool) {
	done := ""
	for _, d := range f.Decls {
		fd, ok := d.(*ast.FuncDecl)
		if !ok || fd.Body == nil || done != "" {
			continue
		}
		// closures bound to local variables of this function
		bound := map[string]*ast.FuncLit{}
		ast.Inspect(fd.Body, func(n ast.Node) bool {
			if as, ok := n.(*ast.AssignStmt); ok && len(as.Lhs) == len(as.Rhs) {
				for i, l := range as.Lhs {
					if id, ok := l.(*ast.Ident); ok {
						if fl, ok := as.Rhs[i].(*ast.FuncLit); ok {
							bound[id.Name] = fl
						}
					}
				}
			}
			return true
		})
		stmtLists(fd.Body, func(list []ast.Stmt, set func([]ast.Stmt)) bool {
			for i, s := range list {
				es, ok := s.(*ast.ExprStmt)
				if !ok {
					continue
				}
				c, ok := es.X.(*ast.CallExpr)
				if !ok || len(c.Args) != 1 {
					continue
				}
				se, ok := c.Fun.(*ast.SelectorExpr)
				if !ok || se.Sel.Name != "HoldLock" {
					continue
				}
				switch a := c.Args[0].(type) {
				case *ast.FuncLit:
					if !assignsOuter(a) {
						continue
					}
					bind := &ast.AssignStmt{Lhs: []ast.Expr{ast.NewIdent("seedCb")}, Tok: token.DEFINE, Rhs: []ast.Expr{a}}
					c.Args[0] = ast.NewIdent("seedCb")
					nl := append([]ast.Stmt{}, list[:i]...)
					nl = append(nl, bind, &ast.GoStmt{Call: c})
					nl = append(nl, list[i+1:]...)
					set(nl)
					done = fmt.Sprintf("func %s: the callback of %s.HoldLock is bound to a local variable and the call is made by a go statement", fd.Name.Name, exprString(se.X))
					return true
				case *ast.Ident:
					if fl := bound[a.Name]; fl == nil || !assignsOuter(fl) {
						continue
					}
					nl := append([]ast.Stmt{}, list...)
					nl[i] = &ast.GoStmt{Call: c}
					set(nl)
					done = fmt.Sprintf("func %s: %s.HoldLock(%s) is made by a go statement", fd.Name.Name, exprString(se.X), a.Name)
					return true
				}
			}
			return false
		})
	}
	return done, done != ""
}

// ---- 5: write-after-escape

func seedWriteAfterEscape(f *ast.File) (string, bool) {
	for _, d := range f.Decls {
		fd, ok := d.(*ast.FuncDecl)
		if !ok || fd.Body == nil || len(fd.Body.List) < 2 {
			continue
		}
		l := fd.Body.List
		rs, ok := l[len(l)-1].(*ast.ReturnStmt)
		if !ok || len(rs.Results) != 1 {
			continue
		}
		id, ok := rs.Results[0].(*ast.Ident)
		if !ok {
			continue
		}
		field := ""
		for _, s := range l[:len(l)-1] {
			as, ok := s.(*ast.AssignStmt)
			if !ok {
				continue
			}
			if as.Tok == token.DEFINE && len(as.Lhs) == 1 && len(as.Rhs) == 1 {
				if lid, ok := as.Lhs[0].(*ast.Ident); ok && lid.Name == id.Name && field == "" {
					rhs := as.Rhs[0]
					if u, ok := rhs.(*ast.UnaryExpr); ok && u.Op == token.AND {
						rhs = u.X
					}
					if cl, ok := rhs.(*ast.CompositeLit); ok {
						for _, el := range cl.Elts {
							if kv, ok := el.(*ast.KeyValueExpr); ok {
								if k, ok := kv.Key.(*ast.Ident); ok {
									field = k.Name
									break
								}
							}
						}
					}
				}
			}
			if as.Tok == token.ASSIGN && field == "" {
				for _, lh := range as.Lhs {
					if se, ok := lh.(*ast.SelectorExpr); ok {
						if x, ok := se.X.(*ast.Ident); ok && x.Name == id.Name {
							field = se.Sel.Name
							break
						}
					}
				}
			}
		}
		if field == "" {
			continue
		}
		sel := func() ast.Expr { return &ast.SelectorExpr{X: ast.NewIdent(id.Name), Sel: ast.NewIdent(field)} }
		leak := &ast.GoStmt{Call: &ast.CallExpr{Fun: &ast.FuncLit{Type: &ast.FuncType{Params: &ast.FieldList{}}, Body: &ast.BlockStmt{List: []ast.Stmt{
			&ast.AssignStmt{Lhs: []ast.Expr{ast.NewIdent("_")}, Tok: token.ASSIGN, Rhs: []ast.Expr{sel()}},
		}}}}}
		write := &ast.AssignStmt{Lhs: []ast.Expr{sel()}, Tok: token.ASSIGN, Rhs: []ast.Expr{sel()}}
		nl := append([]ast.Stmt{}, l[:len(l)-1]...)
		nl = append(nl, leak, write, rs)
		fd.Body.List = nl
		return fmt.Sprintf("func %s: before `return %s`, a goroutine that reads %s.%s is started and %s.%s is written again", fd.Name.Name, id.Name, id.Name, field, id.Name, field), true
	}
	return "", false
}

// ---- 6: write-after-cas

func seedWriteAfterCAS(f *ast.File) (string, bool) {
	for _, d := range f.Decls {
		fd, ok := d.(*ast.FuncDecl)
		if !ok || fd.Body == nil {
			continue
		}
		// n.f = e somewhere in the function
		fields := map[string]string{}
		ast.Inspect(fd.Body, func(n ast.Node) bool {
			if as, ok := n.(*ast.AssignStmt); ok && as.Tok == token.ASSIGN {
				for _, lh := range as.Lhs {
					if se, ok := lh.(*ast.SelectorExpr); ok {
						if x, ok := se.X.(*ast.Ident); ok && fields[x.Name] == "" {
							fields[x.Name] = se.Sel.Name
						}
					}
				}
			}
			return true
		})
		done := ""
		stmtLists(fd.Body, func(list []ast.Stmt, set func([]ast.Stmt)) bool {
			for i, s := range list {
				var host ast.Node // the part of the statement that is evaluated exactly once, before anything else of it
				switch x := s.(type) {
				case *ast.IfStmt:
					if x.Init == nil {
						host = x.Cond
					}
				case *ast.ReturnStmt, *ast.ExprStmt, *ast.AssignStmt:
					host = x
				}
				if host == nil {
					continue
				}
				var cas *ast.CallExpr
				var node, field string
				ast.Inspect(host, func(n ast.Node) bool {
					if _, isLit := n.(*ast.FuncLit); isLit {
						return false
					}
					if c, ok := n.(*ast.CallExpr); ok && cas == nil && len(c.Args) == 2 {
						if se, ok := c.Fun.(*ast.SelectorExpr); ok && se.Sel.Name == "CompareAndSwap" {
							if id, ok := c.Args[1].(*ast.Ident); ok && fields[id.Name] != "" {
								cas, node, field = c, id.Name, fields[id.Name]
							}
						}
					}
					return cas == nil
				})
				if cas == nil {
					continue
				}
				astutil.Apply(s, func(c *astutil.Cursor) bool {
					if c.Node() == ast.Node(cas) {
						c.Replace(ast.NewIdent("seedSwapped"))
						return false
					}
					return true
				}, nil)
				sel := func() ast.Expr { return &ast.SelectorExpr{X: ast.NewIdent(node), Sel: ast.NewIdent(field)} }
				hoist := &ast.AssignStmt{Lhs: []ast.Expr{ast.NewIdent("seedSwapped")}, Tok: token.DEFINE, Rhs: []ast.Expr{cas}}
				late := &ast.IfStmt{Cond: ast.NewIdent("seedSwapped"), Body: &ast.BlockStmt{List: []ast.Stmt{
					&ast.AssignStmt{Lhs: []ast.Expr{sel()}, Tok: token.ASSIGN, Rhs: []ast.Expr{sel()}},
				}}}
				nl := append([]ast.Stmt{}, list[:i]...)
				nl = append(nl, hoist, late, s)
				nl = append(nl, list[i+1:]...)
				set(nl)
				done = fmt.Sprintf("func %s: seedSwapped := %s; if seedSwapped { %s.%s = %s.%s }", fd.Name.Name, exprString(cas), node, field, node, field)
				return true
			}
			return false
		})
		if done != "" {
			return done, true
		}
	}
	return "", false
}

var seeds = []seed{
	{"moved-out", "an access moved out of its critical section", []string{"linkedlist/linkedlist.go", "iocloser/read-closer.go", "keyed/keyed-refcount.go", "refcount/refcount.go"}, seedMovedOut},
	{"wrong-lock", "a method that takes a different lock than the other accessors", []string{"iocloser/write-closer.go", "iocloser/read-closer.go", "keyed/keyed-refcount.go", "promise/once.go"}, seedWrongLock},
	{"late-write", "a write after publication (after close)", []string{"promise/promise.go"}, seedLateWrite},
	{"closure-to-go", "a lock callback bound to a local variable whose HoldLock call is made by a go statement", []string{"broadcast/broadcast.go", "ccontainer/ccontainer.go", "routine/state.go", "conc/queue.go", "promise/container.go"}, seedClosureToGo},
	{"write-after-escape", "a field of a fresh object written after the object was handed to a goroutine", []string{"promise/promise.go", "promise/container.go", "keyed/keyed-refcount.go", "linkedlist/linkedlist.go", "conc/queue.go", "refcount/refcount.go"}, seedWriteAfterEscape},
	{"write-after-cas", "a field of a fresh node written after the compare-and-swap that published it succeeded", []string{"cqueue/lifo.go"}, seedWriteAfterCAS},
}

type seedResult struct {
	Seed     string   `json:"seed"`
	What     string   `json:"what"`
	File     string   `json:"file"`
	Edit     string   `json:"edit"`
	Copy     string   `json:"mutated_copy"`
	Rejected bool     `json:"rejected_by_go_mirror"`
	Entries  []string `json:"rejected_locations"`
}

func selfTest(repo, dir string) error {
	if err := os.MkdirAll(dir, 0o755); err != nil {
		return err
	}
	var coq strings.Builder
	coq.WriteString("(* GENERATED by /verif/lockscan -selftest: the tables of the seeded discipline violations.  Do not edit. *)\n")
	coq.WriteString("From Coq Require Import String List.\nFrom Util Require Import Lockset.Check.\nImport ListNotations.\nOpen Scope string_scope.\n\n")
	var results []seedResult
	for i, sd := range seeds {
		applied := false
		for _, rel := range sd.files {
			path := filepath.Join(repo, rel)
			src, err := os.ReadFile(path)
			if err != nil {
				continue
			}
			fset := token.NewFileSet()
			f, err := parser.ParseFile(fset, path, src, parser.ParseComments)
			if err != nil {
				continue
			}
			edit, ok := sd.apply(f)
			if !ok {
				continue
			}
			var buf bytes.Buffer
			if err := format.Node(&buf, fset, f); err != nil {
				return fmt.Errorf("seed %s: %v", sd.name, err)
			}
			cp := filepath.Join(dir, fmt.Sprintf("seed%d", i+1), rel)
			if err := os.MkdirAll(filepath.Dir(cp), 0o755); err != nil {
				return err
			}
			if err := os.WriteFile(cp, buf.Bytes(), 0o644); err != nil {
				return err
			}
			t, err := run(repo, map[string][]byte{path: buf.Bytes()})
			if err != nil {
				return fmt.Errorf("seed %s on %s: %v", sd.name, rel, err)
			}
			r := seedResult{Seed: sd.name, What: sd.what, File: rel, Edit: edit, Copy: cp, Rejected: !t.Ok}
			for _, e := range t.Entries {
				if e.Protocol == "REJECTED" {
					r.Entries = append(r.Entries, e.Loc)
				}
			}
			results = append(results, r)
			coq.WriteString(fmt.Sprintf("(* seed %d (%s): %s: %s *)\n", i+1, sd.name, rel, edit))
			coq.WriteString(coqTable(t, fmt.Sprintf("seed%d", i+1), false))
			fmt.Printf("lockscan: self-test seed %d (%s) %s: %s -> rejected=%v %v\n", i+1, sd.name, rel, edit, !t.Ok, r.Entries)
			applied = true
			break
		}
		if !applied {
			return fmt.Errorf("seed %s does not apply to any of %v", sd.name, sd.files)
		}
	}
	if err := os.WriteFile(filepath.Join(dir, "SelfTables.v"), []byte(coq.String()), 0o644); err != nil {
		return err
	}
	js, _ := json.MarshalIndent(results, "", " ")
	return os.WriteFile(filepath.Join(dir, "selftest.json"), js, 0o644)
}
