// selftest.go: the translator's self-test.  Three seeded discipline violations, each applied (as a go/packages
// overlay; the mutated copy is also written under the self-test directory for inspection) to the first file of its
// candidate list on which the syntactic rewrite applies:
//
//	1 moved-out     an Unlock() is moved up to directly after its Lock(): the accesses between them leave the section
//	2 wrong-lock    a second mutex is added to a struct and one method locks that one instead
//	3 late-write    the field assignment before a close(ch) is repeated after it: a write after publication
//
// The rewrites are on the syntax tree, not on text, so that harmless edits of /repo do not invalidate them.
// Output: <dir>/SelfTables.v (Definition seed1 seed2 seed3 : table) and <dir>/selftest.json.  ./check then proves
// check_table seedN = false in Coq for each N; a translator that accepts one of them makes the check report itself broken.
package main

import (
	"bytes"
	"encoding/json"
	"fmt"
	"go/ast"
	"go/format"
	"go/parser"
	"go/token"
	"os"
	"path/filepath"
	"strings"
)

type seed struct {
	name  string
	what  string
	files []string
	apply func(f *ast.File) (string, bool)
}

func exprString(e ast.Expr) string {
	var b bytes.Buffer
	format.Node(&b, token.NewFileSet(), e)
	return b.String()
}

// X.m() as an expression statement: returns X's text
func methodStmt(s ast.Stmt, m string) (string, bool) {
	es, ok := s.(*ast.ExprStmt)
	if !ok {
		return "", false
	}
	c, ok := es.X.(*ast.CallExpr)
	if !ok || len(c.Args) != 0 {
		return "", false
	}
	se, ok := c.Fun.(*ast.SelectorExpr)
	if !ok || se.Sel.Name != m {
		return "", false
	}
	return exprString(se.X), true
}

func seedMovedOut(f *ast.File) (string, bool) {
	done := ""
	ast.Inspect(f, func(n ast.Node) bool {
		if done != "" {
			return false
		}
		fd, ok := n.(*ast.FuncDecl)
		if !ok || fd.Body == nil {
			return true
		}
		l := fd.Body.List
		for i := range l {
			x, ok := methodStmt(l[i], "Lock")
			if !ok {
				continue
			}
			for j := i + 2; j < len(l); j++ {
				if y, ok := methodStmt(l[j], "Unlock"); ok && y == x {
					un := l[j]
					nl := append([]ast.Stmt{}, l[:i+1]...)
					nl = append(nl, un)
					nl = append(nl, l[i+1:j]...)
					nl = append(nl, l[j+1:]...)
					fd.Body.List = nl
					done = fmt.Sprintf("func %s: %s.Unlock() moved up to directly after %s.Lock()", fd.Name.Name, x, x)
					return false
				}
			}
		}
		return true
	})
	return done, done != ""
}

func seedWrongLock(f *ast.File) (string, bool) {
	// a struct with a sync.Mutex field
	var st *ast.StructType
	mtxField := ""
	ast.Inspect(f, func(n ast.Node) bool {
		ts, ok := n.(*ast.TypeSpec)
		if !ok || st != nil {
			return true
		}
		s, ok := ts.Type.(*ast.StructType)
		if !ok {
			return true
		}
		for _, fl := range s.Fields.List {
			if exprString(fl.Type) == "sync.Mutex" && len(fl.Names) == 1 {
				st, mtxField = s, fl.Names[0].Name
				return false
			}
		}
		return true
	})
	if st == nil {
		return "", false
	}
	done := ""
	for _, d := range f.Decls {
		fd, ok := d.(*ast.FuncDecl)
		if !ok || fd.Body == nil || fd.Recv == nil {
			continue
		}
		uses := false
		ast.Inspect(fd.Body, func(n ast.Node) bool {
			if c, ok := n.(*ast.CallExpr); ok {
				if se, ok := c.Fun.(*ast.SelectorExpr); ok && se.Sel.Name == "Lock" {
					if in, ok := se.X.(*ast.SelectorExpr); ok && in.Sel.Name == mtxField {
						uses = true
					}
				}
			}
			return true
		})
		if !uses {
			continue
		}
		ast.Inspect(fd.Body, func(n ast.Node) bool {
			if se, ok := n.(*ast.SelectorExpr); ok && se.Sel.Name == mtxField {
				se.Sel = ast.NewIdent("seedMtx")
			}
			return true
		})
		done = fmt.Sprintf("func %s locks the added mutex seedMtx instead of %s", fd.Name.Name, mtxField)
		break
	}
	if done == "" {
		return "", false
	}
	st.Fields.List = append(st.Fields.List, &ast.Field{Names: []*ast.Ident{ast.NewIdent("seedMtx")}, Type: &ast.SelectorExpr{X: ast.NewIdent("sync"), Sel: ast.NewIdent("Mutex")}})
	return done, true
}

func seedLateWrite(f *ast.File) (string, bool) {
	done := ""
	ast.Inspect(f, func(n ast.Node) bool {
		if done != "" {
			return false
		}
		b, ok := n.(*ast.BlockStmt)
		if !ok {
			return true
		}
		for k := 1; k < len(b.List); k++ {
			es, ok := b.List[k].(*ast.ExprStmt)
			if !ok {
				continue
			}
			c, ok := es.X.(*ast.CallExpr)
			if !ok {
				continue
			}
			if id, ok := c.Fun.(*ast.Ident); !ok || id.Name != "close" {
				continue
			}
			as, ok := b.List[k-1].(*ast.AssignStmt)
			if !ok || len(as.Lhs) != 1 || as.Tok != token.ASSIGN {
				continue
			}
			if _, ok := as.Lhs[0].(*ast.SelectorExpr); !ok {
				continue
			}
			cp := &ast.AssignStmt{Lhs: as.Lhs, Tok: as.Tok, Rhs: as.Rhs}
			nl := append([]ast.Stmt{}, b.List[:k+1]...)
			nl = append(nl, cp)
			nl = append(nl, b.List[k+1:]...)
			b.List = nl
			done = fmt.Sprintf("%s repeated after %s", exprString(as.Lhs[0])+" = ...", exprString(c))
			return false
		}
		return true
	})
	return done, done != ""
}

var seeds = []seed{
	{"moved-out", "an access moved out of its critical section", []string{"linkedlist/linkedlist.go", "iocloser/read-closer.go", "keyed/keyed-refcount.go", "refcount/refcount.go"}, seedMovedOut},
	{"wrong-lock", "a method that takes a different lock than the other accessors", []string{"iocloser/write-closer.go", "iocloser/read-closer.go", "keyed/keyed-refcount.go", "promise/once.go"}, seedWrongLock},
	{"late-write", "a write after publication (after close)", []string{"promise/promise.go"}, seedLateWrite},
}

type seedResult struct {
	Seed     string   `json:"seed"`
	What     string   `json:"what"`
	File     string   `json:"file"`
	Edit     string   `json:"edit"`
	Copy     string   `json:"mutated_copy"`
	Rejected bool     `json:"rejected_by_go_mirror"`
	Entries  []string `json:"rejected_locations"`
}

func selfTest(repo, dir string) error {
	if err := os.MkdirAll(dir, 0o755); err != nil {
		return err
	}
	var coq strings.Builder
	coq.WriteString("(* GENERATED by /verif/lockscan -selftest: the tables of three seeded discipline violations.  Do not edit. *)\n")
	coq.WriteString("From Coq Require Import String List.\nFrom Util Require Import Lockset.Check.\nImport ListNotations.\nOpen Scope string_scope.\n\n")
	var results []seedResult
	for i, sd := range seeds {
		applied := false
		for _, rel := range sd.files {
			path := filepath.Join(repo, rel)
			src, err := os.ReadFile(path)
			if err != nil {
				continue
			}
			fset := token.NewFileSet()
			f, err := parser.ParseFile(fset, path, src, parser.ParseComments)
			if err != nil {
				continue
			}
			edit, ok := sd.apply(f)
			if !ok {
				continue
			}
			var buf bytes.Buffer
			if err := format.Node(&buf, fset, f); err != nil {
				return fmt.Errorf("seed %s: %v", sd.name, err)
			}
			cp := filepath.Join(dir, fmt.Sprintf("seed%d", i+1), rel)
			if err := os.MkdirAll(filepath.Dir(cp), 0o755); err != nil {
				return err
			}
			if err := os.WriteFile(cp, buf.Bytes(), 0o644); err != nil {
				return err
			}
			t, err := run(repo, map[string][]byte{path: buf.Bytes()})
			if err != nil {
				return fmt.Errorf("seed %s on %s: %v", sd.name, rel, err)
			}
			r := seedResult{Seed: sd.name, What: sd.what, File: rel, Edit: edit, Copy: cp, Rejected: !t.Ok}
			for _, e := range t.Entries {
				if e.Protocol == "REJECTED" {
					r.Entries = append(r.Entries, e.Loc)
				}
			}
			results = append(results, r)
			coq.WriteString(fmt.Sprintf("(* seed %d (%s): %s: %s *)\n", i+1, sd.name, rel, edit))
			coq.WriteString(coqTable(t, fmt.Sprintf("seed%d", i+1), false))
			fmt.Printf("lockscan: self-test seed %d (%s) %s: %s -> rejected=%v %v\n", i+1, sd.name, rel, edit, !t.Ok, r.Entries)
			applied = true
			break
		}
		if !applied {
			return fmt.Errorf("seed %s does not apply to any of %v", sd.name, sd.files)
		}
	}
	if err := os.WriteFile(filepath.Join(dir, "SelfTables.v"), []byte(coq.String()), 0o644); err != nil {
		return err
	}
	js, _ := json.MarshalIndent(results, "", " ")
	return os.WriteFile(filepath.Join(dir, "selftest.json"), js, 0o644)
}
