#!/usr/bin/env python3
# usage: python3 /verif/lockscan/validate_mutations.py [names...]
# validation of C13: seeded racy edits (must be rejected) and harmless refactors (must pass), each in a scratch worktree
import os, subprocess, sys, re
def sh(c, **k): return subprocess.run(c, shell=True, stdout=subprocess.PIPE, stderr=subprocess.STDOUT, text=True, **k).stdout

def rep(path, old, new, count=1):
    s = open(path).read()
    assert s.count(old) >= 1, "anchor not found in %s: %r" % (path, old[:60])
    s = s.replace(old, new, count)
    open(path, "w").write(s)

MUTS = {
 # ---- racy edits
 "M1_keyed_read_outside_lock": lambda w: rep(w+"/keyed/keyed.go",
    "func (k *Keyed[K, V]) GetKey(key K) (V, bool) {\n\tk.mtx.Lock()\n\tdefer k.mtx.Unlock()\n\n\tv, existed := k.routines[key]\n",
    "func (k *Keyed[K, V]) GetKey(key K) (V, bool) {\n\tv, existed := k.routines[key]\n\tk.mtx.Lock()\n\tdefer k.mtx.Unlock()\n\n"),
 "M2_conc_unlocked_fast_path": lambda w: rep(w+"/conc/queue.go",
    "func (s *ConcurrentQueue) WaitIdle(ctx context.Context, errCh <-chan error) error {\n\tfor {\n",
    "func (s *ConcurrentQueue) WaitIdle(ctx context.Context, errCh <-chan error) error {\n\tif s.running == 0 && s.jobQueueSize == 0 {\n\t\treturn nil\n\t}\n\tfor {\n"),
 "M3_csync_unlocked_fast_path": lambda w: rep(w+"/csync/mutex.go",
    "func (m *Mutex) TryLock() (func(), bool) {\n",
    "func (m *Mutex) TryLock() (func(), bool) {\n\tif m.locked {\n\t\treturn nil, false\n\t}\n"),
 "M4_refcount_len_before_lock": lambda w: rep(w+"/refcount/refcount.go",
    "\tr.mtx.Lock()\n\tlenBefore := len(r.refs)\n", "\tlenBefore := len(r.refs)\n\tr.mtx.Lock()\n"),
 "M5_captured_written_after_go": lambda w: rep(w+"/refcount/refcount.go",
    "\t\t\t\t\tcbCancel()\n\t\t\t\t}\n\t\t\t}()\n", "\t\t\t\t\tcbCancel()\n\t\t\t\t}\n\t\t\t}()\n\t\t\twaitCh = nil\n"),
 "M6_keyed_timer_read_before_lock": lambda w: rep(w+"/keyed/routine.go",
    "\t\tr.k.mtx.Lock()\n\t\tif r.k.routines[r.key] == r && r.deferRemove != nil && r.deferRemove == timer {",
    "\t\tt := timer\n\t\tr.k.mtx.Lock()\n\t\tif r.k.routines[r.key] == r && r.deferRemove != nil && r.deferRemove == t {"),
 "M7_state_getstate_no_lock": lambda w: rep(w+"/routine/state.go",
    "\tvar state T\n\ts.rc.bcast.HoldLock(func(broadcast func(), getWaitCh func() <-chan struct{}) {\n\t\tstate = s.s\n\t})\n\treturn state\n",
    "\treturn s.s\n"),
 "M8_promise_no_first_swap_guard": lambda w: rep(w+"/promise/promise.go",
    "\tif p.isDone.Swap(true) {\n\t\treturn false\n\t}\n", "\tif p.isDone.Load() {\n\t\treturn false\n\t}\n\tp.isDone.Store(true)\n"),
 "M9_keyedrefcount_refs_before_lock": lambda w: rep(w+"/keyed/keyed-refcount.go",
    "\tk.rc.mtx.Lock()\n\trefs := k.rc.refs[k.key]\n", "\trefs := k.rc.refs[k.key]\n\tk.rc.mtx.Lock()\n"),
 "M10_lifo_write_after_cas": lambda w: rep(w+"/cqueue/lifo.go",
    "\t\tif q.top.CompareAndSwap(oldTop, newNode) {\n\t\t\tbreak\n\t\t}\n\t}\n", "\t\tif q.top.CompareAndSwap(oldTop, newNode) {\n\t\t\tbreak\n\t\t}\n\t}\n\tnewNode.next = nil\n"),
 "M11_routine_wrong_lock_object": lambda w: rep(w+"/routine/routine.go",
    "func (k *RoutineContainer) RestartRoutine() bool {\n\tvar restarted bool\n\tk.bcast.HoldLock(", "func (k *RoutineContainer) RestartRoutine() bool {\n\tvar restarted bool\n\tvar other broadcast.Broadcast\n\tother.HoldLock("),
 "M12_memo_read_before_recv": lambda w: rep(w+"/memo/memo.go",
    "\t\t\t<-done\n\t\t\treturn result, doneErr\n", "\t\t\tr := result\n\t\t\t<-done\n\t\t\treturn r, doneErr\n"),
 "M13_once_prom_written_in_goroutine": lambda w: rep(w+"/promise/once.go",
    "\t\t\t\tresult, err := o.cb(ctx)\n", "\t\t\t\tresult, err := o.cb(ctx)\n\t\t\t\tif err == nil && result == empty {\n\t\t\t\t\tprom = NewPromise[T]()\n\t\t\t\t}\n"),
 # ---- harmless refactors
 "H1_extract_locked_helper": lambda w: (rep(w+"/keyed/keyed.go",
    "func (k *Keyed[K, V]) GetKey(key K) (V, bool) {\n\tk.mtx.Lock()\n\tdefer k.mtx.Unlock()\n\n\tv, existed := k.routines[key]\n",
    "func (k *Keyed[K, V]) GetKey(key K) (V, bool) {\n\tk.mtx.Lock()\n\tdefer k.mtx.Unlock()\n\treturn k.getKeyLocked(key)\n}\n\n// getKeyLocked looks up key while mtx is locked.\nfunc (k *Keyed[K, V]) getKeyLocked(key K) (V, bool) {\n\tv, existed := k.routines[key]\n")),
 "H2_reorder_inside_section": lambda w: (rep(w+"/refcount/refcount.go",
    "\tr.resolved = true\n\tr.value, r.valueErr = val, err\n\tr.valueRel = valRel\n", "\tr.valueRel = valRel\n\tr.value, r.valueErr = val, err\n\tr.resolved = true\n"),
    rep(w+"/routine/routine.go", "\tr.err = nil\n\tr.success, r.exited = false, false\n\tr.exitedCh = exitedCh\n", "\tr.exitedCh = exitedCh\n\tr.success, r.exited = false, false\n\tr.err = nil\n")),
 "H3_rename_field": lambda w: sh("sed -i 's/jobQueueSize/pendingJobs/g' %s/conc/queue.go && sed -i 's/\\bnreaders\\b/readerCount/g' %s/csync/rwmutex.go" % (w, w)),
 "H4_explicit_unlock_instead_of_defer": lambda w: rep(w+"/keyed/keyed.go",
    "\tk.mtx.Lock()\n\tdefer k.mtx.Unlock()\n\n\tv, existed := k.routines[key]\n\tif existed {\n\t\tv.remove()\n\t}\n\treturn existed\n",
    "\tk.mtx.Lock()\n\tv, existed := k.routines[key]\n\tif existed {\n\t\tv.remove()\n\t}\n\tk.mtx.Unlock()\n\treturn existed\n"),
 "H5_holdlock_body_to_named_closure": lambda w: rep(w+"/ccontainer/ccontainer.go",
    "\tvar val T\n\tc.bcast.HoldLock(func(broadcast func(), getWaitCh func() <-chan struct{}) {\n\t\tval = c.val\n\t})\n\treturn val\n",
    "\tvar val T\n\tread := func() { val = c.val }\n\tc.bcast.HoldLock(func(broadcast func(), getWaitCh func() <-chan struct{}) {\n\t\tread()\n\t})\n\treturn val\n"),
}
names = sys.argv[1:] or list(MUTS)
for n in names:
    wt = "/tmp/wt_c13_" + n.split("_")[0]
    sh("git -C /repo worktree remove --force %s" % wt)
    sh("git -C /repo worktree add -q %s HEAD" % wt)
    try:
        MUTS[n](wt)
        bo = sh("cd %s && GOFLAGS=-mod=mod GOPROXY=off go build ./... 2>&1 | head -5" % wt)
        out = sh("cd /verif && VERIF_REPO=%s ./check C13 quick" % wt)
        lines = [l for l in out.strip().split("\n") if l.startswith("VIOLATION") or l.startswith("C13 ")]
        print("=== %s %s" % (n, ("(build: %s)" % bo.strip()) if bo.strip() else ""))
        for l in lines: print("   ", l)
        m = re.search(r"replay=(\S+)", out)
        if m:
            for l in open(m.group(1)).read().split("\n"):
                if l.startswith("LOCATION") or l.startswith("  unordered") or l.startswith("RESIDUAL") or l.startswith("WARNING: DATA RACE") or "no race reported" in l or l.startswith("RACE DETECTOR") or ": " in l and l.split(":")[0] in ("self-test","mirror","generated","translator-run"):
                    print("      ", l[:260])
    finally:
        sh("git -C /repo worktree remove --force %s" % wt)
