// lockscan: the translator of property C13.
//
//	lockscan -repo <dir> -out <dir> [-selftest <dir>]
//
// loads the packages of the 21 files below from <dir> (go/packages, Dir = <dir>), and writes
//
//	<out>/RaceTable.v     the race table as a Coq definition (Lockset/Check.v types; interned numbers)
//	<out>/racetable.json  the same content with names, the protocol the Go-side mirror of the check found for every
//	                      location, the offending accesses of rejected ones, entry lock sets, roots, statistics
//
// With -selftest <dir> it additionally applies the seeded discipline violations of selftest.go (one at a time, as
// go/packages overlays; the mutated copies are written under <dir>) and writes <dir>/SelfTables.v with their tables
// (seed1 .. seedN) and <dir>/selftest.json; ./check proves in Coq that check_table rejects each of them.
//
// Exit status: 0 table written (whether or not it passes), 2 loading / internal error.
package main

import (
	"encoding/json"
	"flag"
	"fmt"
	"go/ast"
	"go/token"
	"go/types"
	"os"
	"path/filepath"
	"sort"
	"strings"

	"golang.org/x/tools/go/packages"
)

var scanFiles = []string{
	"broadcast/broadcast.go", "csync/mutex.go", "csync/rwmutex.go", "ccontainer/ccontainer.go", "ccall/ccall.go",
	"conc/queue.go", "cqueue/lifo.go", "linkedlist/linkedlist.go", "keyed/keyed.go", "keyed/routine.go",
	"keyed/keyed-refcount.go", "routine/routine.go", "routine/state.go", "refcount/refcount.go", "promise/promise.go",
	"promise/container.go", "promise/once.go", "memo/memo.go", "iocloser/read-closer.go", "iocloser/write-closer.go",
	"iosizer/iosizer.go",
}

func load(repo string, overlay map[string][]byte) (*scanner, error) {
	dirs := map[string]bool{}
	for _, f := range scanFiles {
		dirs["./"+filepath.Dir(f)] = true
	}
	var pats []string
	for d := range dirs {
		pats = append(pats, d)
	}
	sort.Strings(pats)
	cfg := &packages.Config{
		Mode:    packages.NeedName | packages.NeedSyntax | packages.NeedTypes | packages.NeedTypesInfo | packages.NeedFiles | packages.NeedImports | packages.NeedDeps,
		Dir:     repo,
		Overlay: overlay,
		Env:     append(os.Environ(), "GOFLAGS=-mod=mod", "GOPROXY=off", "GOSUMDB=off", "GOWORK=off"),
	}
	pkgs, err := packages.Load(cfg, pats...)
	if err != nil {
		return nil, err
	}
	return newScanner(repo, pkgs)
}

var scanAll bool

func newScanner(repo string, pkgs []*packages.Package) (*scanner, error) {
	sc := &scanner{
		inScope: map[string]bool{}, pkgPaths: map[string]bool{}, funcNode: map[*types.Func]*node{},
		flowNodes: map[*types.Var][]*node{}, flowSlots: map[*types.Var][]*types.Var{}, slotEsc: map[*types.Var]token.Pos{},
		bcastArgs: map[*types.Var]bool{}, locs: map[string]*locInfo{},
		fdOfFunc: map[*types.Func]*funcInfo{}, fdOfNode: map[*node]*funcInfo{}, retFresh: map[*types.Func]int{},
		helperVisits: map[ast.Node][]helperVisit{}, descents: map[*node]map[*ast.CallExpr]bool{},
	}
	for _, f := range scanFiles {
		sc.inScope[filepath.Join(repo, f)] = true
	}
	sort.Slice(pkgs, func(i, j int) bool { return pkgs[i].PkgPath < pkgs[j].PkgPath })
	nerr := 0
	for _, p := range pkgs {
		for _, e := range p.Errors {
			fmt.Fprintf(os.Stderr, "lockscan: %s: %v\n", p.PkgPath, e)
			nerr++
		}
		sc.pkgPaths[p.PkgPath] = true
		if sc.fset == nil {
			sc.fset = p.Fset
		}
	}
	if nerr > 0 {
		return nil, fmt.Errorf("%d load errors", nerr)
	}
	found := 0
	for _, p := range pkgs {
		for _, f := range p.Syntax {
			if sc.inScope[sc.fset.Position(f.Pos()).Filename] {
				found++
			}
		}
	}
	if scanAll {
		for _, p := range pkgs {
			for _, f := range p.Syntax {
				sc.inScope[sc.fset.Position(f.Pos()).Filename] = true
			}
		}
	} else if found != len(scanFiles) {
		return nil, fmt.Errorf("found %d of the %d files to scan under %s", found, len(scanFiles), repo)
	}
	for _, p := range pkgs {
		sc.declare(p)
	}
	for _, fi := range sc.funcs {
		sc.scanFunc(fi)
	}
	sc.objFlowAll()
	sc.resolve()
	return sc, nil
}

func run(repo string, overlay map[string][]byte) (*tTable, error) {
	sc, err := load(repo, overlay)
	if err != nil {
		return nil, err
	}
	t := sc.buildTable()
	t.Stats["files"] = len(scanFiles)
	return t, nil
}

func main() {
	repo := flag.String("repo", "/repo", "root of the repository to scan")
	out := flag.String("out", "", "output directory")
	self := flag.String("selftest", "", "directory for the seeded self-test (mutated copies, SelfTables.v)")
	verbose := flag.Bool("v", false, "print every location with its protocol")
	flag.BoolVar(&scanAll, "all", false, "diagnostic: scan every non-test file of the packages, not only the 21 files of the property")
	flag.Parse()
	abs, err := filepath.Abs(*repo)
	if err != nil {
		fmt.Fprintln(os.Stderr, err)
		os.Exit(2)
	}
	if r, err := filepath.EvalSymlinks(abs); err == nil {
		abs = r
	}
	repoRoot = abs
	t, err := run(abs, nil)
	if err != nil {
		fmt.Fprintln(os.Stderr, "lockscan:", err)
		os.Exit(2)
	}
	if *out != "" {
		if err := os.MkdirAll(*out, 0o755); err != nil {
			fmt.Fprintln(os.Stderr, err)
			os.Exit(2)
		}
		if err := os.WriteFile(filepath.Join(*out, "RaceTable.v"), []byte(coqTable(t, "table", true)), 0o644); err != nil {
			fmt.Fprintln(os.Stderr, err)
			os.Exit(2)
		}
		js, _ := json.MarshalIndent(t, "", " ")
		if err := os.WriteFile(filepath.Join(*out, "racetable.json"), js, 0o644); err != nil {
			fmt.Fprintln(os.Stderr, err)
			os.Exit(2)
		}
	}
	if *verbose {
		for _, e := range t.Entries {
			g := ""
			if e.Guard != "" {
				g = " by " + e.Guard
			}
			fmt.Printf("  %-52s %-9s %s%s\n", e.Loc, e.Kind, e.Protocol, g)
			for _, o := range e.Offend {
				fmt.Printf("      %s\n", o)
			}
		}
		for _, r := range t.Residuals {
			fmt.Println("  residual:", r)
		}
	}
	var ps []string
	for k, v := range t.ByProtocol {
		ps = append(ps, fmt.Sprintf("%s=%d", k, v))
	}
	sort.Strings(ps)
	fmt.Printf("lockscan: files=%d functions=%d closures=%d locations=%d accesses=%d shared=%d residuals=%d %s ok=%v\n",
		t.Stats["files"], t.Stats["functions"], t.Stats["closures"], t.Stats["locations"], t.Stats["accesses"], t.Stats["shared_accesses"], len(t.Residuals), strings.Join(ps, " "), t.Ok)
	if *self != "" {
		if err := selfTest(abs, *self); err != nil {
			fmt.Fprintln(os.Stderr, "lockscan: self-test:", err)
			os.Exit(2)
		}
	}
}
