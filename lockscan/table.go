// table.go: call-graph resolution, entry lock sets (greatest fixpoint), phases, publish shapes, the table and the
// Go-side mirror of Lockset/Check.v (used only for messages; the Coq check is the authority).
package main

import (
	"fmt"
	"go/ast"
	"go/token"
	"go/types"
	"sort"
	"strings"
)

// ------------------------------------------------------------------ call graph

func (sc *scanner) nodesInto(s *types.Var, seen map[*types.Var]bool, out *[]*node) {
	if seen[s] {
		return
	}
	seen[s] = true
	*out = append(*out, sc.flowNodes[s]...)
	for _, src := range sc.flowSlots[s] {
		sc.nodesInto(src, seen, out)
	}
}

func (sc *scanner) resolve() {
	// closures reaching an escaped slot may be called by anybody
	for s, pos := range sc.slotEsc {
		var ns []*node
		sc.nodesInto(s, map[*types.Var]bool{}, &ns)
		for _, n := range ns {
			sc.markRoot(n, "escapes through "+s.Name()+" at "+sc.posStr(pos))
		}
	}
	// broadcast / getWaitCh handed to a lock callback must not outlive it
	bset := map[*types.Var]bool{}
	for v := range sc.bcastArgs {
		bset[v] = true
	}
	for changed := true; changed; {
		changed = false
		for dst, srcs := range sc.flowSlots {
			if bset[dst] {
				continue
			}
			for _, s := range srcs {
				if bset[s] {
					bset[dst] = true
					changed = true
				}
			}
		}
	}
	for v := range bset {
		if pos, ok := sc.slotEsc[v]; ok {
			sc.residual(pos, "the broadcast/getWaitCh function %s of a lock callback escapes the callback", v.Name())
		}
	}
	// calls through slots
	for _, c := range sc.slotCalls {
		var ns []*node
		sc.nodesInto(c.slot, map[*types.Var]bool{}, &ns)
		for _, n := range ns {
			c.from.calls = append(c.from.calls, &callEdge{callee: n, held: c.held, pos: c.pos, from: c.from})
		}
	}
	// construct-phase calls: the receiver is a fresh object that has not escaped yet
	for _, n := range sc.nodes {
		for _, e := range n.calls {
			if e.freshRecv != nil && e.fd != nil {
				e.construct = sc.callConstruct(e)
			}
		}
	}
	for _, n := range sc.nodes {
		for _, e := range n.calls {
			if e.construct {
				e.callee.hasConstr = true
			} else {
				e.callee.hasIn = true
			}
		}
	}
	for _, n := range sc.nodes {
		if n.isLit && !n.root && n.assume == nil && !n.hasIn {
			sc.markRoot(n, "closure with no visible call site")
		}
	}
	// entry lock sets: greatest fixpoint of the intersection over all call sites
	for _, n := range sc.nodes {
		if n.root {
			n.entry = set{}
		} else if n.assume != nil {
			n.entry = n.assume.clone()
		}
	}
	for changed := true; changed; {
		changed = false
		for _, n := range sc.nodes {
			if n.entry == nil {
				continue
			}
			for _, e := range n.calls {
				c := e.callee
				if e.construct || c.root || c.assume != nil {
					continue
				}
				in := union(n.entry, e.held)
				if c.entry == nil {
					c.entry = in
					changed = true
				} else if x := inter(c.entry, in); len(x) != len(c.entry) {
					c.entry = x
					changed = true
				}
			}
		}
	}
}

func (sc *scanner) posStr(p token.Pos) string {
	q := sc.fset.Position(p)
	return fmt.Sprintf("%s:%d", sc.relFile(q.Filename), q.Line)
}

var repoRoot string

func (sc *scanner) relFile(f string) string {
	if strings.HasPrefix(f, repoRoot+"/") {
		return f[len(repoRoot)+1:]
	}
	return f
}

// ------------------------------------------------------------------ shapes

type level struct {
	list []ast.Stmt
	idx  int
}

func stmtList(n ast.Node) []ast.Stmt {
	switch x := n.(type) {
	case *ast.BlockStmt:
		return x.List
	case *ast.CaseClause:
		return x.Body
	case *ast.CommClause:
		return x.Body
	}
	return nil
}

// climb from an expression to the boundary of its function: statement levels (innermost first) and ancestors
func climb(parents map[ast.Node]ast.Node, n ast.Node) (levels []level, anc []ast.Node, child []ast.Node) {
	cur := n
	for {
		p := parents[cur]
		if p == nil {
			return
		}
		if _, ok := p.(*ast.FuncLit); ok {
			return
		}
		if _, ok := p.(*ast.FuncDecl); ok {
			return
		}
		if l := stmtList(p); l != nil {
			for i, s := range l {
				if ast.Node(s) == cur {
					levels = append(levels, level{l, i})
				}
			}
		}
		anc = append(anc, p)
		child = append(child, cur)
		cur = p
	}
}

func (sc *scanner) helper(a *access) *walker {
	return &walker{sc: sc, fd: a.fd, info: a.fd.pkg.TypesInfo}
}

// the expression e (a channel / atomic) belongs to the same object as the access a
func (w *walker) sameBase(e ast.Expr, a *access) bool {
	switch x := ast.Unparen(e).(type) {
	case *ast.SelectorExpr:
		if id, ok := ast.Unparen(x.X).(*ast.Ident); ok {
			v, _ := w.info.Uses[id].(*types.Var)
			return v != nil && a.base == v
		}
	case *ast.Ident:
		v, _ := w.info.Uses[x].(*types.Var)
		return v != nil && a.v != nil && w.isLocalVar(v)
	}
	return false
}

// location key of a channel expression (field or captured variable)
func (w *walker) chanLoc(e ast.Expr) string {
	switch x := ast.Unparen(e).(type) {
	case *ast.SelectorExpr:
		if sel := w.info.Selections[x]; sel != nil && sel.Kind() == types.FieldVal && w.inScanned(sel.Obj().(*types.Var)) {
			if _, ok := sel.Obj().Type().Underlying().(*types.Chan); ok {
				return w.fieldKey(x, sel)
			}
		}
	case *ast.Ident:
		if v, ok := w.info.Uses[x].(*types.Var); ok && w.isLocalVar(v) {
			if _, ok := v.Type().Underlying().(*types.Chan); ok {
				return w.varKey(v)
			}
		}
	}
	return ""
}

func closeArg(s ast.Stmt) ast.Expr {
	var c *ast.CallExpr
	switch x := s.(type) {
	case *ast.ExprStmt:
		c, _ = x.X.(*ast.CallExpr)
	case *ast.DeferStmt:
		c = x.Call
	}
	if c == nil || len(c.Args) != 1 {
		return nil
	}
	if id, ok := c.Fun.(*ast.Ident); ok && id.Name == "close" {
		return c.Args[0]
	}
	return nil
}

func recvArg(s ast.Stmt) ast.Expr {
	var e ast.Expr
	switch x := s.(type) {
	case *ast.ExprStmt:
		e = x.X
	case *ast.AssignStmt:
		if len(x.Rhs) == 1 {
			e = x.Rhs[0]
		}
	}
	if u, ok := ast.Unparen(e).(*ast.UnaryExpr); ok && u.Op == token.ARROW {
		return u.X
	}
	return nil
}

func containsExit(s ast.Stmt) bool {
	found := false
	ast.Inspect(s, func(n ast.Node) bool {
		switch n.(type) {
		case *ast.ReturnStmt, *ast.BranchStmt:
			found = true
		case *ast.FuncLit:
			return false
		}
		return true
	})
	return found
}

// cond is the test of a first-caller guard on an atomic.Bool: returns the atomic and whether cond = true means "first"
func (w *walker) firstSwap(cond ast.Expr) (g ast.Expr, first bool, ok bool) {
	neg := false
	cond = ast.Unparen(cond)
	if u, isU := cond.(*ast.UnaryExpr); isU && u.Op == token.NOT {
		neg = true
		cond = ast.Unparen(u.X)
	}
	c, isC := cond.(*ast.CallExpr)
	if !isC {
		return
	}
	se, isS := c.Fun.(*ast.SelectorExpr)
	if !isS || w.syncLoc(se.X) == "" || typeName(w.info.TypeOf(se.X)) != "sync/atomic.Bool" {
		return
	}
	isTrue := func(e ast.Expr) bool { id, ok := e.(*ast.Ident); return ok && id.Name == "true" }
	isFalse := func(e ast.Expr) bool { id, ok := e.(*ast.Ident); return ok && id.Name == "false" }
	switch {
	case se.Sel.Name == "Swap" && len(c.Args) == 1 && isTrue(c.Args[0]):
		return se.X, neg, true // Swap(true) returns the OLD value: false for the first caller
	case se.Sel.Name == "CompareAndSwap" && len(c.Args) == 2 && isFalse(c.Args[0]) && isTrue(c.Args[1]):
		return se.X, !neg, true
	}
	return
}

func endsWithExit(list []ast.Stmt) bool {
	return len(list) > 0 && terminates(list[len(list)-1])
}

// shapeOf: the publish shape of an access; when the access is made through a parameter of a helper function, the shape
// its callers establish for the object they pass (inherited)
func (sc *scanner) shapeOf(a *access) shape {
	if s := sc.shapeHere(a); s.kind != "" {
		return s
	}
	return sc.shapeFromCallers(a, 0)
}

// shapeFromCallers: the access is made through the receiver / a parameter p of a function that is not a root (all its
// callers are in the scanned files), and EVERY call of that function is a plain synchronous call (not go, not defer)
// that passes a variable b for p at a point where an access through b would have the same shape S "after a receive on
// b's channel c" / "in the first-Swap region before close(c)" / "b was loaded from the atomic cell s".  The helper runs
// between that point and the caller's next statement, on the caller's goroutine, on the same object: its accesses
// through p have shape S too.  (Not for SPreCAS: the state of a fresh object inside helpers is followed by objflow.go.)
func (sc *scanner) shapeFromCallers(a *access, depth int) shape {
	if depth > 3 || a.base == nil || a.fd == nil || a.n == nil || a.n != a.fd.node {
		return shape{}
	}
	n := a.n
	if n.root || n.assume != nil {
		return shape{}
	}
	isRecv, idx, found := false, -1, false
	info := a.fd.pkg.TypesInfo
	if r := a.fd.decl.Recv; r != nil && len(r.List) > 0 && len(r.List[0].Names) > 0 {
		if v, _ := info.Defs[r.List[0].Names[0]].(*types.Var); v != nil && v == a.base {
			isRecv, found = true, true
		}
	}
	if !found {
		k := 0
		for _, f := range a.fd.decl.Type.Params.List {
			for _, nm := range f.Names {
				if v, _ := info.Defs[nm].(*types.Var); v != nil && v == a.base {
					idx, found = k, true
				}
				k++
			}
			if len(f.Names) == 0 {
				k++
			}
		}
	}
	if !found || a.fd.assigned[a.base] > 0 {
		return shape{} // not a parameter, or one that is assigned in the helper: it may name another object there
	}
	if sig, ok := a.fd.obj.Type().(*types.Signature); ok && !isRecv && sig.Variadic() && idx == sig.Params().Len()-1 {
		return shape{}
	}
	sc.helperEligible(nil) // builds the incoming-edge index
	in := sc.incoming[n]
	if len(in) == 0 {
		return shape{}
	}
	var res shape
	for i, e := range in {
		if e.call == nil || e.fd == nil || e.from == nil {
			return shape{}
		}
		switch e.fd.parents[ast.Node(e.call)].(type) {
		case *ast.GoStmt, *ast.DeferStmt:
			return shape{}
		}
		var arg ast.Expr
		if isRecv {
			se, ok := ast.Unparen(e.call.Fun).(*ast.SelectorExpr)
			if !ok {
				return shape{}
			}
			arg = se.X
		} else if idx < len(e.call.Args) {
			arg = e.call.Args[idx]
		}
		id, ok := ast.Unparen(arg).(*ast.Ident)
		if !ok {
			return shape{}
		}
		b, _ := e.fd.pkg.TypesInfo.Uses[id].(*types.Var)
		if b == nil {
			return shape{}
		}
		pa := &access{loc: a.loc, write: a.write, pos: e.call.Pos(), effPos: e.call.Pos(), n: e.from, base: b, expr: e.call, fd: e.fd}
		s := sc.shapeHere(pa)
		if s.kind == "" {
			s = sc.shapeFromCallers(pa, depth+1)
		}
		if s.kind == "" || s.kind == "precas" {
			return shape{}
		}
		if i == 0 {
			res = s
		} else if s != res {
			return shape{}
		}
	}
	return res
}

func (sc *scanner) shapeHere(a *access) shape {
	if a.expr == nil || a.fd == nil {
		return shape{}
	}
	if a.base != nil && a.fd.assigned[a.base] > 0 {
		return shape{} // the variable is assigned again: it need not name the object whose channel / cell the shape is about
	}
	w := sc.helper(a)
	levels, anc, child := climb(a.fd.parents, a.expr)

	// --- published by an atomic operation on a pointer cell
	if a.base != nil {
		// through a fresh object that is still private here and leaves its goroutine only as the new value of a
		// CompareAndSwap / Store on one cell (objflow.go)
		if _, cell := sc.objFacts(a); cell != "" {
			return shape{kind: "precas", c: cell}
		}
		if s, ok := a.fd.loadDef[a.base]; ok && a.fd.assigned[a.base] == 0 {
			return shape{kind: "postload", c: s}
		}
	}

	// --- after a receive on a channel of the same object
	for i, p := range anc {
		if cc, ok := p.(*ast.CommClause); ok && cc.Comm != nil && ast.Node(cc.Comm) != child[i] {
			if r := recvArg(cc.Comm); r != nil && w.sameBase(r, a) {
				if c := w.chanLoc(r); c != "" {
					return shape{kind: "postrecv", c: c}
				}
			}
		}
	}
	for _, lv := range levels {
		for j := 0; j < lv.idx; j++ {
			if es, ok := lv.list[j].(*ast.ExprStmt); ok {
				if r := recvArg(es); r != nil && w.sameBase(r, a) {
					if c := w.chanLoc(r); c != "" {
						return shape{kind: "postrecv", c: c}
					}
				}
			}
		}
	}

	// --- before close(c), inside the region only the first Swap(true) on an atomic.Bool enters
	guard, guardDepth := "", -1
	for i, p := range anc {
		if is, ok := p.(*ast.IfStmt); ok {
			if g, first, ok := w.firstSwap(is.Cond); ok && w.sameBase(g, a) {
				inBody := ast.Node(is.Body) == child[i]
				inElse := is.Else != nil && ast.Node(is.Else) == child[i]
				if (first && inBody) || (!first && inElse) {
					guard, guardDepth = w.syncLoc(g), i
				}
			}
		}
	}
	if guard == "" {
		for d, lv := range levels {
			for j := 0; j < lv.idx; j++ {
				if is, ok := lv.list[j].(*ast.IfStmt); ok && is.Else == nil && endsWithExit(is.Body.List) {
					if g, first, ok := w.firstSwap(is.Cond); ok && !first && w.sameBase(g, a) {
						guard, guardDepth = w.syncLoc(g), 1<<30-d // any level at or inside this one
						_ = guardDepth
					}
				}
			}
		}
	}
	if guard != "" {
		for _, lv := range levels {
			// a deferred close earlier in an enclosing list
			for j := 0; j < lv.idx; j++ {
				if ds, ok := lv.list[j].(*ast.DeferStmt); ok {
					if c := closeArg(ds); c != nil && w.sameBase(c, a) {
						if cl := w.chanLoc(c); cl != "" {
							return shape{kind: "preclose", c: cl, g: guard}
						}
					}
				}
			}
			// a close later in the same list, with no way out in between
			for j := lv.idx + 1; j < len(lv.list); j++ {
				if es, ok := lv.list[j].(*ast.ExprStmt); ok {
					if c := closeArg(es); c != nil && w.sameBase(c, a) {
						if cl := w.chanLoc(c); cl != "" {
							return shape{kind: "preclose", c: cl, g: guard}
						}
					}
				}
				if containsExit(lv.list[j]) {
					break
				}
			}
		}
	}
	return shape{}
}

// ------------------------------------------------------------------ the table

type tAccess struct {
	Site    string   `json:"site"`
	Func    string   `json:"func"`
	Wr      bool     `json:"write"`
	Held    []string `json:"held"`
	Phase   string   `json:"phase"`
	Own     bool     `json:"own,omitempty"`
	Forked  []string `json:"forked,omitempty"`
	Shape   string   `json:"shape,omitempty"`
	ShapeC  string   `json:"shape_chan_or_cell,omitempty"`
	ShapeG  string   `json:"shape_guard,omitempty"`
	pos     token.Pos
	col     int
	siteKey string
}

type tEntry struct {
	Loc      string     `json:"loc"`
	Kind     string     `json:"kind"`
	Uses     int        `json:"sync_uses,omitempty"`
	Protocol string     `json:"protocol"`
	Guard    string     `json:"guard,omitempty"`
	Accs     []*tAccess `json:"accesses"`
	Offend   []string   `json:"offending,omitempty"`
}

type tTable struct {
	Entries     []*tEntry         `json:"entries"`
	Residuals   []string          `json:"residuals"`
	Stats       map[string]int    `json:"stats"`
	ByProtocol  map[string]int    `json:"locations_by_protocol"`
	TrustedArgs []string          `json:"trusted_method_value_arguments"`
	Roots       map[string]string `json:"roots"`
	EntrySets   map[string]string `json:"entry_lock_sets"`
	Ok          bool              `json:"ok"`
}

func (sc *scanner) buildTable() *tTable {
	t := &tTable{Stats: map[string]int{}, ByProtocol: map[string]int{}, Roots: map[string]string{}, EntrySets: map[string]string{}}
	keys := []string{}
	for k := range sc.locs {
		keys = append(keys, k)
	}
	sort.Strings(keys)
	unreachable := 0
	for _, k := range keys {
		li := sc.locs[k]
		// captured variables: only those reachable from a closure that may run elsewhere
		shared := true
		var esc token.Pos
		if len(li.accs) > 0 && li.accs[0].v != nil {
			v := li.accs[0].v
			e, ok := li.accs[0].fd.varEsc[v]
			shared, esc = ok, e
		} else if strings.Contains(k, "#") {
			// sync object variable with uses only
			shared = false
			for _, fi := range sc.funcs {
				for v, nm := range fi.varNames {
					if nm == k {
						if _, ok := fi.varEsc[v]; ok {
							shared = true
						}
					}
				}
			}
		}
		if !shared {
			continue
		}
		e := &tEntry{Loc: k, Kind: li.kind, Uses: li.uses}
		for _, a := range li.accs {
			n := a.n
			var held set
			phase := "Shared"
			switch {
			case a.construct:
				phase = "Construct"
				held = a.held
			case n.entry == nil && n.hasConstr:
				// reached through construct-phase calls only: what it does to the object under construction is
				// decided below (objFacts); anything else it touches gets no lock from its callers
				held = a.held
			case n.entry == nil:
				unreachable++
				continue
			default:
				held = union(n.entry, a.held)
			}
			if phase == "Shared" {
				if a.v != nil && a.own && a.effPos < esc {
					phase = "Construct"
				}
				if a.base != nil {
					// a field of an object that is certainly still private to its allocating goroutine here
					if c, _ := sc.objFacts(a); c {
						phase = "Construct"
					}
				}
			}
			p := sc.fset.Position(a.pos)
			ta := &tAccess{Site: fmt.Sprintf("%s:%d", sc.relFile(p.Filename), p.Line), Func: n.name, Wr: a.write, Held: held.keys(), Phase: phase, Own: a.own && a.v != nil, pos: a.pos, col: p.Column}
			ta.siteKey = fmt.Sprintf("%s:%d:%d", sc.relFile(p.Filename), p.Line, p.Column)
			if n.goParent != nil && n.isLit {
				f := n.goHeld
				if n.goParent.entry != nil {
					f = union(n.goParent.entry, n.goHeld)
				}
				ta.Forked = f.keys()
			}
			if phase == "Shared" {
				a.shp = sc.shapeOf(a)
				ta.Shape, ta.ShapeC, ta.ShapeG = a.shp.kind, a.shp.c, a.shp.g
			}
			e.Accs = append(e.Accs, ta)
		}
		sort.SliceStable(e.Accs, func(i, j int) bool {
			if e.Accs[i].siteKey != e.Accs[j].siteKey {
				return e.Accs[i].pos < e.Accs[j].pos
			}
			return !e.Accs[i].Wr && e.Accs[j].Wr
		})
		t.Entries = append(t.Entries, e)
	}
	for _, r := range sc.residuals {
		t.Residuals = append(t.Residuals, sc.posStr(r.pos)+": "+r.msg)
	}
	sort.Strings(t.Residuals)
	sort.Strings(sc.trustedArgs)
	t.TrustedArgs = sc.trustedArgs
	for _, n := range sc.nodes {
		if n.root {
			t.Roots[n.name] = n.rootWhy
		} else if n.entry != nil {
			t.EntrySets[n.name] = strings.Join(n.entry.keys(), ",")
		} else if n.hasConstr {
			t.EntrySets[n.name] = "(construct-phase calls only)"
		} else {
			t.EntrySets[n.name] = "(no call site: unreachable)"
		}
	}
	t.Stats["functions"] = sc.nFuncs
	t.Stats["closures"] = sc.nLits
	t.Stats["inline_closures"] = sc.nInline
	t.Stats["nodes"] = len(sc.nodes)
	t.Stats["accesses_in_unreachable_functions"] = unreachable
	sc.check(t)
	return t
}

// ------------------------------------------------------------------ mirror of Lockset/Check.v

var allowList = map[string]string{
	"promise.Promise.result":                 "close",
	"promise.Promise.err":                    "close",
	"memo.MemoizeFunc#result":                "close",
	"memo.MemoizeFunc#doneErr":               "close",
	"cqueue.atomicLIFONode.value":            "cas",
	"cqueue.atomicLIFONode.next":             "cas",
	"refcount.RefCount.WaitWithReleased#ref": "fork",
}

func has(l []string, x string) bool {
	for _, y := range l {
		if x == y {
			return true
		}
	}
	return false
}

func sharedAccs(e *tEntry) []*tAccess {
	var r []*tAccess
	for _, a := range e.Accs {
		if a.Phase == "Shared" {
			r = append(r, a)
		}
	}
	return r
}

func immutable(e *tEntry) bool {
	for _, a := range sharedAccs(e) {
		if a.Wr {
			return false
		}
	}
	return true
}

func (sc *scanner) check(t *tTable) {
	byLoc := map[string]*tEntry{}
	for _, e := range t.Entries {
		byLoc[e.Loc] = e
	}
	stable := func(l string) bool { e := byLoc[l]; return e != nil && immutable(e) }
	syncobj := func(l string) bool { e := byLoc[l]; return e != nil && e.Kind == "syncobj" && immutable(e) }
	ok := len(t.Residuals) == 0
	naccs, nshared := 0, 0
	for _, e := range t.Entries {
		sh := sharedAccs(e)
		naccs += len(e.Accs)
		nshared += len(sh)
		writesOwn := true
		confined := true
		for _, a := range sh {
			if a.Wr && !a.Own {
				writesOwn = false
			}
			if !a.Own {
				confined = false
			}
		}
		exempt := func(a *tAccess) bool { return a.Own && !a.Wr && writesOwn }
		cands := []string{}
		for _, a := range sh {
			for _, h := range a.Held {
				if !has(cands, h) {
					cands = append(cands, h)
				}
			}
		}
		guard := ""
		for _, g := range cands {
			all := true
			for _, a := range sh {
				if !has(a.Held, g) && !exempt(a) {
					all = false
				}
			}
			if all {
				guard = g
				break
			}
		}
		published := func() bool {
			switch allowList[e.Loc] {
			case "close":
				c, g := "", ""
				for _, a := range sh {
					if a.Shape == "preclose" {
						c, g = a.ShapeC, a.ShapeG
						break
					}
				}
				if c == "" {
					return false
				}
				for _, a := range sh {
					if !(a.Shape == "preclose" && a.ShapeC == c && a.ShapeG == g) && !(a.Shape == "postrecv" && a.ShapeC == c && !a.Wr) {
						return false
					}
				}
				return stable(c) && syncobj(g)
			case "cas":
				s := ""
				for _, a := range sh {
					if a.Shape == "precas" {
						s = a.ShapeC
						break
					}
				}
				if s == "" {
					return false
				}
				for _, a := range sh {
					if !(a.Shape == "precas" && a.ShapeC == s) && !(a.Shape == "postload" && a.ShapeC == s && !a.Wr) {
						return false
					}
				}
				return syncobj(s)
			case "fork":
				for _, l := range cands {
					all := true
					for _, a := range sh {
						if a.Wr {
							if !(a.Own && has(a.Held, l)) {
								all = false
							}
						} else if !(a.Own || has(a.Held, l) || has(a.Forked, l)) {
							all = false
						}
					}
					if all {
						return true
					}
				}
			}
			return false
		}
		switch {
		case e.Kind == "syncobj":
			if immutable(e) {
				e.Protocol = "syncobj"
			}
		case immutable(e):
			e.Protocol = "immutable"
		case confined:
			e.Protocol = "confined"
		case guard != "":
			e.Protocol, e.Guard = "guarded", guard
		case published():
			e.Protocol = "published-" + allowList[e.Loc]
		}
		if e.Protocol == "" {
			e.Protocol = "REJECTED"
			ok = false
			e.Offend = offending(e, sh, exempt)
		}
		t.ByProtocol[e.Protocol]++
	}
	t.Stats["locations"] = len(t.Entries)
	t.Stats["accesses"] = naccs
	t.Stats["shared_accesses"] = nshared
	t.Ok = ok
}

// concrete unordered pairs: two Shared accesses, one of them a write, with no common lock class
func offending(e *tEntry, sh []*tAccess, exempt func(*tAccess) bool) []string {
	var out []string
	desc := func(a *tAccess) string {
		rw := "read"
		if a.Wr {
			rw = "write"
		}
		h := "{" + strings.Join(a.Held, ", ") + "}"
		return fmt.Sprintf("%s at %s in %s holding %s", rw, a.Site, a.Func, h)
	}
	if e.Kind == "syncobj" {
		for _, a := range sh {
			if a.Wr {
				out = append(out, "plain assignment to a synchronisation object after construction: "+desc(a))
			}
		}
		return out
	}
	seen := map[string]bool{}
	for i, a := range sh {
		for _, b := range sh[i:] {
			if !a.Wr && !b.Wr {
				continue
			}
			if a.Own && b.Own {
				continue
			}
			common := false
			for _, h := range a.Held {
				if has(b.Held, h) {
					common = true
				}
			}
			if common {
				continue
			}
			k := desc(a) + " || " + desc(b)
			if !seen[k] {
				seen[k] = true
				out = append(out, "unordered pair: "+desc(a)+"  ||  "+desc(b))
			}
			if len(out) >= 12 {
				return out
			}
		}
	}
	return out
}
