(* Generic integer-trace driver: reads histories, calls the extracted run_check_<model>,
   prints one line per issue and one summary line per history.
   File format:  H <id> <model>   C <ints>   E <ints>   O <ints>   (one E/O pair per step) *)
open Models

let rec pos_of_int n = if n = 1 then XH else if n land 1 = 0 then XO (pos_of_int (n lsr 1)) else XI (pos_of_int (n lsr 1))
let n_of_int n = if n = 0 then N0 else Npos (pos_of_int n)
(* decimal string -> N, without going through OCaml int (uint64 values exceed 2^62) *)
let n_of_string s =
  if String.length s <= 17 then n_of_int (int_of_string s)
  else begin
    (* binary conversion by repeated division of the decimal digit string by 2 *)
    let digits = Array.init (String.length s) (fun i -> Char.code s.[i] - 48) in
    let len = Array.length digits in
    let is_zero () = Array.for_all (fun d -> d = 0) digits in
    let bits = ref [] in
    while not (is_zero ()) do
      let carry = ref 0 in
      for i = 0 to len - 1 do
        let cur = !carry * 10 + digits.(i) in
        digits.(i) <- cur / 2; carry := cur mod 2
      done;
      bits := !carry :: !bits   (* most significant last pushed -> list is msb first *)
    done;
    (* !bits is msb first *)
    match !bits with
    | [] -> N0
    | _ :: rest -> Npos (List.fold_left (fun acc b -> if b = 1 then XI acc else XO acc) XH rest)
  end
let rec int_of_pos = function XH -> 1 | XO p -> 2 * int_of_pos p | XI p -> 2 * int_of_pos p + 1
let rec string_of_pos p =  (* decimal, via float-free big arithmetic on digit lists for large values *)
  let rec bits acc = function XH -> 1 :: acc | XO p -> bits (0 :: acc) p | XI p -> bits (1 :: acc) p in
  let bs = bits [] p in (* msb first *)
  if List.length bs <= 60 then string_of_int (int_of_pos p)
  else begin
    let digits = ref [0] in (* little endian decimal *)
    List.iter (fun b ->
      let carry = ref b in
      digits := List.map (fun d -> let v = d * 2 + !carry in carry := v / 10; v mod 10) !digits;
      if !carry > 0 then digits := !digits @ [!carry]) bs;
    String.concat "" (List.rev_map string_of_int !digits)
  end
let string_of_n = function N0 -> "0" | Npos p -> string_of_pos p
let rec int_of_nat = function O -> 0 | S n -> 1 + int_of_nat n
let ints s = List.filter_map (fun x -> if x = "" then None else Some (n_of_string x)) (String.split_on_char ' ' s)
let show l = String.concat " " (List.map string_of_n l)

let dispatch = Dispatch.dispatch

let () =
  let ic = open_in Sys.argv.(1) in
  let evs = ref [] and obs = ref [] and cfg = ref [] and id = ref "" and model = ref "" in
  let n = ref 0 and bad = ref 0 in
  let flush () =
    if !id <> "" then begin
      incr n;
      let issues = dispatch !model !cfg (List.rev !evs) (List.rev !obs) in
      if issues = [] then Printf.printf "%s AGREE\n" !id
      else begin
        incr bad;
        List.iter (function
          | BadEvent i -> Printf.printf "%s BADEVENT step=%d\n" !id (int_of_nat i)
          | Mismatch (i, e, g) -> Printf.printf "%s MISMATCH step=%d expected=[%s] got=[%s]\n" !id (int_of_nat i) (show e) (show g)
          | PropFalse (p, c, i) -> Printf.printf "%s PROPFALSE prop=%d clause=%d step=%d\n" !id (int_of_nat p) (int_of_nat c) (int_of_nat i)) issues
      end;
      evs := []; obs := []; cfg := []
    end in
  (try while true do
    let l = input_line ic in
    if String.length l > 0 then
      let rest () = String.sub l 1 (String.length l - 1) in
      match l.[0] with
      | 'H' -> flush ();
        (match List.filter (fun x -> x <> "") (String.split_on_char ' ' (rest ())) with
         | i :: m :: _ -> id := i; model := m
         | _ -> failwith "bad H line")
      | 'C' -> cfg := ints (rest ())
      | 'E' -> evs := ints (rest ()) :: !evs
      | 'O' -> obs := ints (rest ()) :: !obs
      | _ -> ()
  done with End_of_file -> flush ());
  Printf.printf "TOTAL %d histories, %d with issues\n" !n !bad
