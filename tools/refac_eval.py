#!/usr/bin/env python3
"""tools/refac_eval.py <name> <patch.diff> <PROP> [PROP ...]
Applies a behaviour-preserving refactoring in a scratch worktree and runs the checks against it; files the result under
/verif/seeded/harmless/<name>.json (+ the patch).  A VIOLATION with a failing input is a FALSE ALARM; a
no-failing-input-found alarm is recorded (the brief allows it for a broken correspondence, but it is unwanted)."""
import json, os, re, shutil, subprocess, sys, time
ENV = dict(os.environ, GOFLAGS="-mod=mod", GOPROXY="off", GOSUMDB="off")
def sh(cmd, cwd=None, timeout=2400, env=None):
    p = subprocess.run(cmd, cwd=cwd, shell=True, stdout=subprocess.PIPE, stderr=subprocess.STDOUT, text=True, timeout=timeout, env=env or ENV)
    return p.returncode, p.stdout
name, patch = sys.argv[1:3]; props = sys.argv[3:]
wt = "/tmp/refeval_%s" % name
sh("git -C /repo worktree remove --force %s" % wt)
rc, out = sh("git -C /repo worktree add -q %s HEAD" % wt); assert rc == 0, out
meta = dict(name=name, at=time.strftime("%Y-%m-%d %H:%M:%S"))
try:
    rc, out = sh("git apply --whitespace=nowarn %s" % os.path.abspath(patch), cwd=wt)
    meta["patch_applies"] = rc == 0
    rcb, outb = sh("go build ./... && GOTOOLCHAIN=local go1.26.8 build -tags verif ./...", cwd=wt)
    meta["builds"] = rcb == 0
    res = {}
    for p in props:
        rc, out = sh("VERIF_REPO=%s ./check %s quick" % (wt, p), cwd="/verif", env=dict(os.environ))
        lines = [l[:260] for l in out.split("\n") if l.startswith("VIOLATION") or re.match(r"^C\d\d quick", l)]
        kind = "silent" if rc == 0 else ("no-failing-input-found" if any("no-failing-input-found" in l for l in lines) else "FALSE-ALARM-with-input")
        res[p] = dict(exit=rc, outcome=kind, lines=lines)
    meta["checks"] = res
finally:
    sh("git -C /repo worktree remove --force %s" % wt)
d = "/verif/seeded/harmless"; os.makedirs(d, exist_ok=True)
if os.path.abspath(patch) != os.path.join(d, name + ".diff"):
    shutil.copy(patch, os.path.join(d, name + ".diff"))
json.dump(meta, open(os.path.join(d, name + ".json"), "w"), indent=1)
print(name, {p: r["outcome"] for p, r in meta.get("checks", {}).items()}, "" if meta.get("builds") else "BUILD-FAILED")
