#!/usr/bin/env python3
"""tools/seed_recheck.py <lanes> <Cxx> [<Cxx> ...]: re-run the quick check of the OWN property of every stored seeded change
of the given properties against the current machinery (scratch worktree of /repo + patch.diff; no demo, no suite) and
compare with what meta.json recorded.  Prints one line per seed and a list of regressions; writes nothing under seeded/."""
import glob, json, os, subprocess, sys
from concurrent.futures import ThreadPoolExecutor

def one(d):
    name = os.path.basename(d)
    m = json.load(open(os.path.join(d, "meta.json")))
    prop = m["property"]
    p = subprocess.run(["/verif/tools/with_patch.sh", os.path.join(d, "patch.diff"), "rc_" + name, prop, "quick"], stdout=subprocess.PIPE, stderr=subprocess.STDOUT, text=True)
    lines = [l for l in p.stdout.splitlines() if l.startswith("VIOLATION")]
    now = "silent" if p.returncode == 0 else ("no-input" if any("no-failing-input-found" in l for l in lines) else "input")
    rec = m.get("checks", {}).get(prop)
    if rec is None:
        was = "?"
    else:
        ls = " ".join(rec["lines"])
        was = "silent" if rec["exit"] == 0 else ("no-input" if "no-failing-input-found" in ls else "input")
    return name, was, now

def main():
    lanes = int(sys.argv[1]); props = sys.argv[2:]
    ds = [d for pr in props for d in sorted(glob.glob("/verif/seeded/%s_*" % pr)) if os.path.exists(os.path.join(d, "patch.diff"))]
    rank = {"silent": 0, "no-input": 1, "input": 2, "?": -1}
    regress = []
    with ThreadPoolExecutor(lanes) as ex:
        for name, was, now in ex.map(one, ds):
            flag = ""
            if rank[now] < rank[was]:
                flag = "  <-- REGRESSION"; regress.append(name)
            elif rank[now] > rank[was] and was != "?":
                flag = "  (improved)"
            print("%-10s was %-8s now %-8s%s" % (name, was, now, flag), flush=True)
    print("regressions:", regress)

main()
