#!/usr/bin/env python3
"""tools/seed_table.py [round]: markdown table of the seeded changes under /verif/seeded from their meta.json files."""
import glob, json, os, sys
rnd = int(sys.argv[1]) if len(sys.argv) > 1 else None
rows = []
for p in sorted(glob.glob('/verif/seeded/C*/meta.json')):
    m = json.load(open(p))
    if rnd is not None and m.get('round', 1) != rnd:
        continue
    own = m['property']
    res = m.get('checks', {})
    def outcome(r):
        if r['exit'] == 0: return 'silent'
        ls = ' '.join(r['lines'])
        if 'no-failing-input-found' in ls: return 'violation, no failing input'
        if '-free-' in ls: return 'observed trace (free-running search)'
        if 'table' in ls or own == 'C13' and r['exit'] == 1: return 'table rejected'
        return 'failing history'
    o = outcome(res[own]) if own in res else '?'
    others = [k for k, r in res.items() if k != own and r['exit'] != 0]
    rows.append('| %s | %s | %s | `%s`: %s%s |' % (m['name'], m.get('breaks', ''), m.get('needs_to_manifest', ''), own, o, (' (also: ' + ', '.join(others) + ')') if others else ''))
print('| id | change | needs | caught by |\n|---|---|---|---|')
print('\n'.join(rows))
