#!/bin/sh
# usage: tools/revert_test.sh <commit> <prop> [more props]   -- run checks against a scratch worktree with one fix reverted
c=$1; shift
wt=/tmp/wt_rev_$c
git -C /repo worktree remove --force $wt >/dev/null 2>&1
git -C /repo worktree add -q $wt HEAD || exit 2
(cd $wt && git revert --no-commit $c >/dev/null 2>&1 || { echo "revert of $c does not apply cleanly"; git -C /repo worktree remove --force $wt; exit 2; })
for p in "$@"; do VERIF_REPO=$wt ./check $p quick | tail -2; done
git -C /repo worktree remove --force $wt
