#!/usr/bin/env python3
"""tools/cov_gaps.py <dir with *.out cover profiles>: statements of the anchored library files that NO harness executes.
A generator-quality diagnostic (Cedar's lesson): it says nothing about correctness, it shows what the correspondence never exercised."""
import collections, glob, json, os, sys
anch = set()
for l in open('/verif/properties.jsonl'):
    d = json.loads(l)
    for f in d['anchors'].get('files', []):
        anch.add(f)
cnt = collections.defaultdict(int)
for p in glob.glob(os.path.join(sys.argv[1], '*.out')):
    for l in open(p):
        if l.startswith('mode:'): continue
        loc, n, c = l.rsplit(' ', 2)
        cnt[loc] = max(cnt[loc], int(c))
byfile = collections.defaultdict(list)
for loc, c in cnt.items():
    f, rng = loc.split(':')
    f = f.replace('github.com/aperturerobotics/util/', '')
    if f in anch and c == 0:
        a, b = rng.split(',')
        byfile[f].append((int(a.split('.')[0]), int(b.split('.')[0])))
tot = 0
for f in sorted(byfile):
    src = open('/repo/' + f).read().split('\n')
    print('==', f)
    for a, b in sorted(byfile[f]):
        tot += 1
        print('  %d-%d: %s' % (a, b, ' | '.join(s.strip() for s in src[a-1:min(b, a+3)])[:170]))
print('uncovered blocks in anchored files:', tot, ' anchored files:', len(anch))
