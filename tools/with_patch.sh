#!/bin/bash
# tools/with_patch.sh <patch.diff> <tag> <check args...> : run ./check against a scratch worktree of /repo with the patch applied
p=$(realpath $1); tag=$2; shift 2
wt=/tmp/wp_$tag
git -C /repo worktree remove --force $wt >/dev/null 2>&1
git -C /repo worktree add -q $wt HEAD || exit 2
( cd $wt && git apply --whitespace=nowarn $p ) || { git -C /repo worktree remove --force $wt; exit 2; }
cd /verif && VERIF_REPO=$wt ./check "$@"; rc=$?
git -C /repo worktree remove --force $wt
exit $rc
