#!/usr/bin/env python3
"""tools/seed_eval.py <PROP> <patch.diff> <demo_test.go> <name> [other props to run ...]

Confirms a seeded change (a change to aperturerobotics/util meant to break <PROP> while compiling and passing the
existing suite) in a scratch worktree outside /repo and /verif, runs our checks against it, and files it under
/verif/seeded/<name>/ (patch.diff, the demonstration, meta.json).  The worktree is removed afterwards."""
import json
import os
import re
import shutil
import subprocess
import sys
import time

ENV = dict(os.environ, GOFLAGS="-mod=mod", GOPROXY="off", GOSUMDB="off")


def sh(cmd, cwd=None, timeout=1800, env=None):
    p = subprocess.run(cmd, cwd=cwd, shell=True, stdout=subprocess.PIPE, stderr=subprocess.STDOUT, text=True, timeout=timeout, env=env or ENV)
    return p.returncode, p.stdout


def demo_cmd(demo_path):
    first = open(demo_path).readline()
    m = re.search(r"(GOTOOLCHAIN=\S+\s+)?go(1\.26\.8)?\s+test[^\n]*", first)
    pkgdir = None
    m2 = re.search(r"(?:package directory|belongs? (?:in|to)|dir(?:ectory)?:?)\s*[`'\"]?\.?/?([a-z0-9_/-]+)", first)
    if m2:
        pkgdir = m2.group(1).strip("/")
    return (m.group(0) if m else None), pkgdir, first.strip()


def main():
    prop, patch, demo, name = sys.argv[1:5]
    others = sys.argv[5:]
    wt = "/tmp/seedeval_%s" % name
    sh("git -C /repo worktree remove --force %s" % wt)
    rc, out = sh("git -C /repo worktree add -q %s HEAD" % wt)
    assert rc == 0, out
    meta = dict(name=name, property=prop, at=time.strftime("%Y-%m-%d %H:%M:%S"), repo_head=sh("git -C /repo rev-parse --short HEAD")[1].strip())
    try:
        cmd, pkgdir, first = demo_cmd(demo)
        if pkgdir is None or not os.path.isdir(os.path.join(wt, pkgdir)):
            # fall back: the package clause
            pk = re.search(r"^package (\w+)", open(demo).read(), re.M).group(1)
            pkgdir = pk[:-5] if pk.endswith("_test") else pk
        dst = os.path.join(wt, pkgdir, os.path.basename(demo))
        shutil.copy(demo, dst)
        use126 = "synctest" in open(demo).read() or (cmd and "1.26" in cmd)
        gobin = "GODEBUG=asynctimerchan=0 GOTOOLCHAIN=local go1.26.8" if use126 else "go"
        runname = re.findall(r"^func (Test\w+)", open(demo).read(), re.M)
        tags = "-tags verif " if re.search(r"^//go:build .*verif", open(demo).read(), re.M) else ""
        race = "-race " if prop == "C13" else ""
        if race:
            gobin = "CGO_ENABLED=1 " + gobin
        tcmd = "%s test %s%s-vet=off -count=1 -run '^(%s)$' ./%s" % (gobin, race, tags, "|".join(runname), pkgdir)
        # 1. demonstration passes on the unchanged tree
        rc0, out0 = sh(tcmd, cwd=wt, timeout=900)
        meta["demo_cmd"] = tcmd
        meta["demo_passes_without_change"] = rc0 == 0
        # 2. apply the change
        rc, out = sh("git apply --whitespace=nowarn %s" % os.path.abspath(patch), cwd=wt)
        meta["patch_applies"] = rc == 0
        if rc != 0:
            meta["patch_error"] = out[-400:]
        rc1, out1 = sh(tcmd, cwd=wt, timeout=900)
        meta["demo_fails_with_change"] = rc1 != 0
        meta["demo_output_tail_with_change"] = out1[-600:]
        # 3. builds and the existing suite passes (without the demo file)
        os.remove(dst)
        rcb, outb = sh("go build ./... ", cwd=wt, timeout=900)
        rcs, outs = sh("go test -vet=off -count=1 -timeout 20m ./...", cwd=wt, timeout=1500)
        meta["builds"] = rcb == 0
        meta["suite_passes_with_change"] = rcs == 0
        if rcs != 0:
            meta["suite_output_tail"] = "\n".join(l for l in outs.split("\n") if not l.startswith("ok") and "no test files" not in l)[-800:]
        # 4. our checks
        res = {}
        for p in [prop] + others:
            t0 = time.time()
            rc, out = sh("VERIF_REPO=%s ./check %s quick" % (wt, p), cwd="/verif", timeout=2400, env=dict(os.environ))
            lines = [l for l in out.split("\n") if l.startswith("VIOLATION") or l.startswith("KNOWN-FINDING") or re.match(r"^C\d\d quick", l)]
            res[p] = dict(exit=rc, lines=[l[:300] for l in lines], wall_s=round(time.time() - t0, 1))
        meta["checks"] = res
        meta["caught_by_own_property"] = res[prop]["exit"] == 1 and any(l.startswith("VIOLATION") for l in res[prop]["lines"])
        meta["caught_with_failing_input"] = meta["caught_by_own_property"] and not any("no-failing-input-found" in l for l in res[prop]["lines"])
    finally:
        sh("git -C /repo worktree remove --force %s" % wt)
        tag_dirs = os.path.join("/verif/build/alt")
    d = os.path.join("/verif/seeded", name)
    os.makedirs(d, exist_ok=True)
    for src, dst in ((patch, os.path.join(d, "patch.diff")), (demo, os.path.join(d, os.path.basename(demo)))):
        if os.path.abspath(src) != os.path.abspath(dst):
            shutil.copy(src, dst)
    json.dump(meta, open(os.path.join(d, "meta.json"), "w"), indent=1)
    print(json.dumps({k: meta[k] for k in meta if k not in ("demo_output_tail_with_change",)}, indent=1)[:3000])


if __name__ == "__main__":
    main()
