#!/usr/bin/env python3
"""Regenerate /verif/MANIFEST.json from vlib/config.py (checks) and vlib/manifest_meta.py (texts)."""
import json, os, sys
ROOT = os.path.dirname(os.path.dirname(os.path.abspath(__file__)))
sys.path.insert(0, ROOT)
from vlib.config import PROPS
from vlib.manifest_meta import HOOK_COMMITS, PENDING_REASON, NOT_APPLICABLE, READY
META = {p: PROPS[p]['meta'] for p in PROPS if 'meta' in PROPS[p]}

allp = [json.loads(l)["id"] for l in open(os.path.join(ROOT, "properties.jsonl"))]
checks = []
for p in allp:
    if p not in PROPS or p not in META or p not in READY:
        continue
    m = META[p]
    checks.append({
        "property_id": p,
        "quick_cmd": "./check %s quick" % p,
        "thorough_cmd": "./check %s thorough" % p,
        "evidence_file": "/verif/evidence/%s.json" % p,
        "replay_cmd_template": "./check replay {path}",
        "engine": "coq+harness",
        "level_claimed": {"category": "proof", "text": m["text"], "design_ref": "DESIGN.md §4 " + p},
        "level_note": m["note"],
        "technique": m["technique"],
    })
claimed = [c["property_id"] for c in checks]
na = []
for p in allp:
    if p in claimed:
        continue
    na.append({"property_id": p, "reason": NOT_APPLICABLE.get(p, PENDING_REASON)})
man = {
    "version": 1,
    "setup_cmd": "./setup",
    "hooks": {
        "guard": "verif",
        "enable": "go1.26.8 test -tags verif (GOTOOLCHAIN=local GOFLAGS=-mod=mod GOPROXY=off); the harness module /verif/harness replaces github.com/aperturerobotics/util with /repo",
        "baseline_off_cmd": "cd /repo && GOFLAGS=-mod=mod go test -json -vet=off -count=1 -timeout 25m ./...",
        "source_commits": HOOK_COMMITS,
        "add_only": True,
    },
    "engines": [
        {"name": "coq", "path": "/verif/coq", "serves_properties": claimed,
         "kind_free_text": "Coq 8.16.1 development (stdlib only, no axioms): executable Gallina models, boolean property monitors, theorems over all inputs / event lists"},
        {"name": "harness", "path": "/verif/harness", "serves_properties": claimed,
         "kind_free_text": "Go correspondence harness (build tag verif, Go 1.26.8 testing/synctest): drives the real code from /repo's working tree along generated inputs and explicitly scheduled histories; the extracted model (OCaml) replays them, the monitors are evaluated on the implementation's observations"},
        {"name": "check", "path": "/verif/check", "serves_properties": claimed,
         "kind_free_text": "orchestrator: Coq build + grep gate + Print Assumptions, harness build from /repo, extracted checker, vm_compute cross-check of the extraction, decision, evidence"},
    ],
    "checks": checks,
    "not_applicable": na,
    "notes": "See DESIGN.md. KNOWN_FINDINGS.txt lists repaired defects (fixed:) and known findings.",
}
json.dump(man, open(os.path.join(ROOT, "MANIFEST.json"), "w"), indent=1, ensure_ascii=False)
print("claimed:", claimed)
