(* Extraction of every run_check_<model>.  ExtrOcamlBasic only: bool, option, unit, list, prod,
   sumbool, sumor -> native; andb/orb inlined.  nat, positive, N, Z stay the extracted
   inductive types.  No Extract Constant of our own. *)
From Coq Require Import Extraction ExtrOcamlBasic.
From Util Require Import Common.Base Pure.Spec.
From Util Require CSync.RWSpec CSync.MSpec.
Extraction Language OCaml.
Extraction "models.ml" Pure.Spec.run_check_pure
  CSync.RWSpec.run_check_rwmutex CSync.MSpec.run_check_mutex.
