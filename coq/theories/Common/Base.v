(* Shared small definitions: list update, counting, verdicts of the correspondence checker.
   Stdlib only; no axioms. *)
From Coq Require Export List Arith NArith ZArith Lia Bool PeanoNat.
Export ListNotations.

Fixpoint set_nth {A} (l : list A) (k : nat) (v : A) : list A :=
  match l, k with
  | [], _ => []
  | _ :: t, 0 => v :: t
  | h :: t, S k' => h :: set_nth t k' v
  end.

Definition cnt {A} (P : A -> bool) (l : list A) : nat := length (filter P l).
Definition b2n (x : bool) : nat := if x then 1 else 0.

Fixpoint list_eqb (a b : list N) : bool :=
  match a, b with
  | [], [] => true
  | x :: a', y :: b' => N.eqb x y && list_eqb a' b'
  | _, _ => false
  end.

Fixpoint lists_eqb (a b : list (list N)) : bool :=
  match a, b with
  | [], [] => true
  | x :: a', y :: b' => list_eqb x y && lists_eqb a' b'
  | _, _ => false
  end.

(* ------------------------------------------------------------------ *)
(* Result of replaying one history: the first disagreement between the
   model's observation and the implementation's, and for each property
   monitor the first step at which the predicate is false on the
   OBSERVED trace (monitors never look at the model). *)

Inductive issue :=
| BadEvent (i : nat)                                  (* event not decodable / not enabled in the model *)
| Mismatch (i : nat) (expected got : list N)          (* model vs implementation observation *)
| PropFalse (pid : nat) (clause : nat) (i : nat).     (* property pid, clause number, step *)

Section Checker.
  Variable state : Type.
  Variable step : state -> list N -> option (state * list N).
  (* monitor: own state, fed (event, observed obs); returns failing (pid, clause) list and next state *)
  Variable mstate : Type.
  Variable mon : mstate -> list N -> list N -> mstate * list (nat * nat).

  (* replay events in the model until the first BadEvent/Mismatch *)
  Fixpoint replay (i : nat) (s : state) (evs obss : list (list N)) : list issue :=
    match evs, obss with
    | [], _ => []
    | e :: evs', o :: obss' =>
      match step s e with
      | None => [BadEvent i]
      | Some (s', o') =>
        if list_eqb o' o then replay (S i) s' evs' obss' else [Mismatch i o' o]
      end
    | _ :: _, [] => [BadEvent i]
    end.

  (* run the monitors on the observed trace; report each (pid,clause) once, at its first step *)
  Definition seen (l : list (nat * nat)) (p : nat * nat) : bool :=
    existsb (fun q => Nat.eqb (fst p) (fst q) && Nat.eqb (snd p) (snd q)) l.

  Fixpoint monitor (i : nat) (m : mstate) (reported : list (nat * nat)) (evs obss : list (list N)) : list issue :=
    match evs, obss with
    | e :: evs', o :: obss' =>
      let '(m', fails) := mon m e o in
      let fresh := filter (fun p => negb (seen reported p)) fails in
      map (fun p => PropFalse (fst p) (snd p) i) fresh ++ monitor (S i) m' (fresh ++ reported) evs' obss'
    | _, _ => []
    end.

  Definition run_check (s0 : state) (m0 : mstate) (evs obss : list (list N)) : list issue :=
    replay 0 s0 evs obss ++ monitor 0 m0 [] evs obss.
End Checker.

Arguments replay {state} step i s evs obss.
Arguments monitor {mstate} mon i m reported evs obss.
Arguments run_check {state} step {mstate} mon s0 m0 evs obss.

(* model-side run: observations the model produces for a list of events *)
Section Run.
  Variable state : Type.
  Variable step : state -> list N -> option (state * list N).
  Fixpoint run_obs (s : state) (evs : list (list N)) : list (list N) :=
    match evs with
    | [] => []
    | e :: evs' => match step s e with
                   | None => []
                   | Some (s', o) => o :: run_obs s' evs'
                   end
    end.
End Run.
Arguments run_obs {state} step s evs.
