(* Lemmas about set_nth / cnt used by every interleaving model. *)
From Util Require Import Common.Base.

Section L.
  Context {A : Type}.
  Implicit Types (l : list A) (P : A -> bool).

  Lemma cnt_cons P a l : cnt P (a :: l) = b2n (P a) + cnt P l.
  Proof. unfold cnt. simpl. destruct (P a); reflexivity. Qed.

  Lemma cnt_nil P : cnt P [] = 0.
  Proof. reflexivity. Qed.

  Lemma cnt_app P l1 l2 : cnt P (l1 ++ l2) = cnt P l1 + cnt P l2.
  Proof. unfold cnt. now rewrite filter_app, app_length. Qed.

  Lemma cnt_set_nth P l k v d : k < length l ->
    cnt P (set_nth l k v) + b2n (P (nth k l d)) = cnt P l + b2n (P v).
  Proof.
    revert k. induction l as [|h t IH]; intros k Hk; simpl in *; [lia|].
    destruct k; simpl; rewrite !cnt_cons; [lia|]. specialize (IH k ltac:(lia)). lia.
  Qed.

  Lemma nth_set_nth_same l k v d : k < length l -> nth k (set_nth l k v) d = v.
  Proof. revert k; induction l; intros [|k] H; simpl in *; try lia; auto. apply IHl; lia. Qed.

  Lemma nth_set_nth_other l k v d x : x <> k -> nth x (set_nth l k v) d = nth x l d.
  Proof. revert k x; induction l; intros [|k] [|x] H; simpl in *; try lia; auto. Qed.

  Lemma length_set_nth l k v : length (set_nth l k v) = length l.
  Proof. revert k; induction l; intros [|k]; simpl; auto. Qed.

  Lemma nth_error_set_nth_same l k v : k < length l -> nth_error (set_nth l k v) k = Some v.
  Proof. revert k; induction l; intros [|k] H; simpl in *; try lia; auto. apply IHl; lia. Qed.

  Lemma nth_error_set_nth_other l k v x : x <> k -> nth_error (set_nth l k v) x = nth_error l x.
  Proof. revert k x; induction l; intros [|k] [|x] H; simpl in *; try lia; auto. Qed.

  Lemma nth_error_nth_len l k a : nth_error l k = Some a -> k < length l.
  Proof. intros H. apply nth_error_Some. congruence. Qed.

  Lemma set_nth_oob l k v : length l <= k -> set_nth l k v = l.
  Proof. revert k; induction l; intros [|k] H; simpl in *; try lia; auto. f_equal. apply IHl. lia. Qed.

  Lemma cnt_zero_forall P l : cnt P l = 0 <-> forall a, In a l -> P a = false.
  Proof.
    induction l as [|h t [IH1 IH2]]; [split; [intros _ a [] | reflexivity]|].
    rewrite cnt_cons. split.
    - intros H a [<-|Hin].
      + destruct (P h); unfold b2n in H; [exfalso; lia | reflexivity].
      + apply IH1; [destruct (P h); unfold b2n in H; lia | exact Hin].
    - intros H. rewrite (H h (or_introl eq_refl)). simpl. apply IH2. intros a Ha. apply H. now right.
  Qed.

  Lemma cnt_pos_exists P l : 0 < cnt P l -> exists k a, nth_error l k = Some a /\ P a = true.
  Proof.
    induction l as [|h t IH]; [unfold cnt; simpl; lia|]. rewrite cnt_cons. destruct (P h) eqn:E.
    - intros _. exists 0, h. now split.
    - simpl. intros H. destruct (IH H) as [k [a [Hk Ha]]]. exists (S k), a. now split.
  Qed.

  Lemma nth_error_cnt_pos P l k a : nth_error l k = Some a -> P a = true -> 0 < cnt P l.
  Proof.
    revert k; induction l as [|h t IH]; intros [|k] H Ha; simpl in H; try discriminate.
    - inversion H; subst. rewrite cnt_cons, Ha. simpl. lia.
    - rewrite cnt_cons. specialize (IH k H Ha). lia.
  Qed.
End L.

(* Broadcast: a lazily created wait channel; channels are generation numbers. *)
Record bc := { cur : option nat; nxt : nat }.
Definition bc0 : bc := {| cur := None; nxt := 0 |}.
Definition getch (b : bc) : bc * nat :=
  match cur b with
  | Some c => (b, c)
  | None => ({| cur := Some (nxt b); nxt := S (nxt b) |}, nxt b)
  end.
Definition bcast (b : bc) : bc := {| cur := None; nxt := nxt b |}.
Definition closed (b : bc) (c : nat) : bool :=
  Nat.ltb c (nxt b) && negb (match cur b with Some c' => Nat.eqb c c' | None => false end).
(* well-formed: the current channel, if any, has been allocated *)
Definition bc_wf (b : bc) : Prop := match cur b with Some c => c < nxt b | None => True end.

Lemma bc0_wf : bc_wf bc0. Proof. exact I. Qed.
Lemma getch_wf b : bc_wf b -> bc_wf (fst (getch b)).
Proof. unfold bc_wf, getch. destruct (cur b) eqn:E; simpl; [now rewrite E | lia]. Qed.
Lemma bcast_wf b : bc_wf (bcast b). Proof. exact I. Qed.

(* the channel returned by getch is allocated and open *)
Lemma getch_open b : bc_wf b -> let '(b', c) := getch b in c < nxt b' /\ closed b' c = false /\ cur b' = Some c.
Proof.
  unfold bc_wf, getch, closed. destruct (cur b) as [c|] eqn:E; simpl; intros H.
  - rewrite E. rewrite Nat.eqb_refl. simpl. now rewrite andb_false_r.
  - rewrite Nat.eqb_refl. simpl. rewrite andb_false_r. auto.
Qed.

(* getch never changes the status of previously allocated channels *)
Lemma getch_closed_same b c : bc_wf b -> c < nxt b -> closed (fst (getch b)) c = closed b c.
Proof.
  unfold bc_wf, getch, closed. destruct (cur b) as [c'|] eqn:E; simpl; intros H Hc; [now rewrite E|].
  destruct (Nat.ltb_spec c (nxt b)); [|lia]. destruct (Nat.ltb_spec c (S (nxt b))); [|lia].
  destruct (Nat.eqb_spec c (nxt b)); [lia|]. reflexivity.
Qed.

Lemma getch_nxt_mono b : nxt b <= nxt (fst (getch b)).
Proof. unfold getch. destruct (cur b); simpl; lia. Qed.

(* a broadcast closes every channel handed out so far *)
Lemma bcast_closes b c : c < nxt b -> closed (bcast b) c = true.
Proof. unfold closed, bcast. simpl. intros H. destruct (Nat.ltb_spec c (nxt b)); [reflexivity | lia]. Qed.

(* closing is monotone under both operations *)
Lemma closed_mono_getch b c : bc_wf b -> closed b c = true -> closed (fst (getch b)) c = true.
Proof.
  intros Hwf H. rewrite getch_closed_same; auto.
  unfold closed in H. apply andb_true_iff in H as [H _]. now apply Nat.ltb_lt in H.
Qed.
Lemma closed_mono_bcast b c : closed b c = true -> closed (bcast b) c = true.
Proof.
  intros H. apply bcast_closes. unfold closed in H. apply andb_true_iff in H as [H _]. now apply Nat.ltb_lt in H.
Qed.

Lemma fold_inv {S E} (P : S -> Prop) (f : S -> E -> S) :
  (forall s e, P s -> P (f s e)) -> forall es s, P s -> P (fold_left f es s).
Proof. intros H es; induction es as [|e es IH]; intros s Hs; cbn; auto. Qed.

Lemma cnt_le {A} (P Q : A -> bool) l : (forall x, P x = true -> Q x = true) -> cnt P l <= cnt Q l.
Proof.
  intros H. induction l as [|h t IH]; [unfold cnt; simpl; lia|]. rewrite !cnt_cons.
  destruct (P h) eqn:E; [rewrite (H _ E); simpl; lia | simpl; lia].
Qed.

Lemma nth_error_app_inv {A} (l : list A) y a x : nth_error (l ++ [y]) a = Some x -> nth_error l a = Some x \/ x = y.
Proof.
  intros H. destruct (Nat.lt_ge_cases a (length l)) as [Hl|Hl].
  - left. now rewrite nth_error_app1 in H.
  - right. rewrite nth_error_app2 in H by lia. destruct (a - length l) as [|k]; simpl in H; [congruence | destruct k; discriminate].
Qed.
