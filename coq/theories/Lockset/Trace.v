(* C13 — executions as event lists, well-formedness, happens-before.

   This file has definitions only; the theorems are in Soundness.v and Check.v.

   An execution of a Go program is abstracted to the list of its synchronisation-relevant events in the order
   in which they took effect:

     Acq t l / Rel t l    goroutine t acquires / releases the (exclusive) lock instance l
                          (sync.Mutex.Lock / Unlock, TryLock that succeeded, the Lock of a sync.RWMutex;
                           reader-mode RLock is not modelled here: the 21 files do not use it)
     Rd t x / Wr t x      plain (non-atomic) read / write of the memory location instance x by t
     Fork t u             t executes a `go` statement (or arms a timer) whose new goroutine is u
     Close t c            t closes channel c
     Recv t c             a receive by t on c that completed BECAUSE c was closed
     AtomicOp t x w       a sync/atomic operation on x; w = true for Store/Swap/Add/successful CompareAndSwap
                          (operations whose effect later operations observe), w = false for Load / failed CAS

   Happens-before is the least transitive relation containing program order, release -> later acquire of the
   same lock, fork -> every event of the forked goroutine, close -> receive-of-close, write-like atomic ->
   later atomic on the same location (The Go Memory Model, 2022: "behave as though executed in some sequentially
   consistent order", like Java volatiles).  A data race is a pair of conflicting accesses (same location, one of
   them a write) that is not ordered by happens-before. *)
From Util Require Import Common.Base Common.ListLemmas.

Inductive ev :=
| Acq (t l : nat)
| Rel (t l : nat)
| Rd (t x : nat)
| Wr (t x : nat)
| Fork (t u : nat)
| Close (t c : nat)
| Recv (t c : nat)
| AtomicOp (t x : nat) (w : bool).

Definition tid (e : ev) : nat :=
  match e with
  | Acq t _ | Rel t _ | Rd t _ | Wr t _ | Fork t _ | Close t _ | Recv t _ | AtomicOp t _ _ => t
  end.

(* lock state: who owns which lock *)
Definition lockst := nat -> option nat.
Definition linit : lockst := fun _ => None.
Definition upd (o : lockst) (e : ev) : lockst :=
  match e with
  | Acq t l => fun k => if Nat.eqb k l then Some t else o k
  | Rel t l => fun k => if Nat.eqb k l then None else o k
  | _ => o
  end.
Definition lock_ok (o : lockst) (e : ev) : Prop :=
  match e with
  | Acq t l => o l = None
  | Rel t l => o l = Some t
  | _ => True
  end.

(* the lock state in which the event at index i executes *)
Definition state_at (tr : list ev) (i : nat) : lockst := fold_left upd (firstn i tr) linit.
(* goroutine t holds lock l when the event at index i executes *)
Definition holds (tr : list ev) (i l t : nat) : Prop := state_at tr i l = Some t.

(* well-formed executions *)
Record wf (tr : list ev) : Prop := {
  (* mutual exclusion: a lock is acquired only when free and released only by its owner *)
  wf_locks : forall i e, nth_error tr i = Some e -> lock_ok (state_at tr i) e;
  (* a forked goroutine runs only after its fork *)
  wf_fork : forall k t u i e, nth_error tr k = Some (Fork t u) -> nth_error tr i = Some e -> tid e = u -> k < i;
  (* a receive-of-close happens only after the close *)
  wf_recv : forall j t c, nth_error tr j = Some (Recv t c) -> exists i t', i < j /\ nth_error tr i = Some (Close t' c);
  (* a channel is closed at most once (a second close panics: the execution has ended before it) *)
  wf_close_once : forall i j t1 t2 c, nth_error tr i = Some (Close t1 c) -> nth_error tr j = Some (Close t2 c) -> i = j
}.

Inductive hb (tr : list ev) : nat -> nat -> Prop :=
| hb_po i j e1 e2 : i < j -> nth_error tr i = Some e1 -> nth_error tr j = Some e2 -> tid e1 = tid e2 -> hb tr i j
| hb_sw i j t1 t2 l : i < j -> nth_error tr i = Some (Rel t1 l) -> nth_error tr j = Some (Acq t2 l) -> hb tr i j
| hb_fork k i t u e : nth_error tr k = Some (Fork t u) -> nth_error tr i = Some e -> tid e = u -> k < i -> hb tr k i
| hb_close i j t1 t2 c : i < j -> nth_error tr i = Some (Close t1 c) -> nth_error tr j = Some (Recv t2 c) -> hb tr i j
| hb_atomic i j t1 t2 x w : i < j -> nth_error tr i = Some (AtomicOp t1 x true) -> nth_error tr j = Some (AtomicOp t2 x w) -> hb tr i j
| hb_trans i j k : hb tr i j -> hb tr j k -> hb tr i k.

(* the event at index i is a plain access by t to x; w says whether it writes *)
Definition acc_at (tr : list ev) (i t x : nat) (w : bool) : Prop :=
  nth_error tr i = Some (if w then Wr t x else Rd t x).

(* two accesses are ordered *)
Definition ordered (tr : list ev) (i j : nat) : Prop := hb tr i j \/ hb tr j i.
