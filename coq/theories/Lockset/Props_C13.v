(* C13 — no data races inside the library under any concurrent use of its concurrent APIs.        PARTIAL BY NATURE.

   Property text.  Calling the methods of the concurrency-safe types (Broadcast, csync locks, CContainer,
   CallConcurrently, ConcurrentQueue, AtomicLIFO, LinkedList, Keyed, KeyedRefCount, RoutineContainer,
   StateRoutineContainer, RefCount, Promise, PromiseContainer, Once, MemoizeFunc, iocloser wrappers, SizeReadWriter)
   from any number of goroutines never makes two memory accesses, at least one of them performed by library code,
   conflict without synchronization: no Go data race originates inside the library.  Quantifier: every client program
   that uses these APIs concurrently as documented and every schedule of it.

   How the claim is assembled, and what is NOT proved.
     proved here (Coq, no axioms)   for every well-formed execution (Lockset.Trace.wf: mutual exclusion of locks,
                                    fork-before-run, receive-of-close after the close, single close) that CONFORMS to a
                                    table accepted by check_table: conflicting accesses after publication to a location
                                    whose entry is lock-guarded are ordered by happens-before; locations without a write
                                    after publication have no conflicting pair; thread-confined locations are accessed
                                    by one goroutine.  Plus the instance-level protocol lemmas (publish by close, publish
                                    by atomic, fork under lock) with their ordering hypotheses explicit.
     proved on every run (Coq)      gen/TableOk.v: check_table RaceTable.table = true, for the table regenerated from
                                    /repo's sources by /verif/lockscan; gen/SelfTestOk.v: check_table rejects the tables
                                    of three seeded violations.
     TRUSTED                        (1) the translator /verif/lockscan: that every execution of every client program
                                        conforms to the table it prints (held-set inference, escape / construction
                                        analysis, callback-field derivation, the idioms of this code base, not
                                        arbitrary Go);
                                    (2) lock classes, not instances (guard_of below is the ownership assumption);
                                    (3) construct-phase accesses are ordered before shared ones by publication;
                                    (4) the ordering hypotheses of the seven allow-listed publish-pattern locations,
                                        which come from the fine-grained models: Promise.Props_C11.
                                        c11_fields_published_before_close, Once.Props_C16.c16_memo_publish_before_close,
                                        Lifo.Props_C12.c12_lifo_repr, and the refcount model for WaitWithReleased's ref;
                                    (5) races inside user callbacks are out of scope by the property's wording.
   Statements only; proofs are in Soundness.v and Check.v. *)
From Coq Require Import String.
From Util Require Import Common.Base Common.ListLemmas Lockset.Trace Lockset.Soundness Lockset.Check.

(* ------------------------------------------------------------------ the table check *)

(* an accepted table: every entry satisfies the hypothesis of one protocol *)
Theorem c13_check_sound : forall t, check_table t = true -> forall e, In e (entries t) -> entry_ok t e.
Proof. exact check_sound. Qed.
Print Assumptions c13_check_sound.

(* lock-guarded locations: every two conflicting accesses after publication are ordered by happens-before, in every
   well-formed execution that conforms to an accepted table *)
Theorem c13_race_free_under_table :
  forall (T : table) (tr : list ev) (cls : nat -> option nat) (guard_of : nat -> nat -> nat) (owner : nat -> nat)
         (lab : nat -> option access),
  wf tr -> check_table T = true -> conforms T tr cls guard_of owner lab ->
  forall e g, In e (entries T) -> find_guard e = Some g ->
  forall i j t1 t2 x w1 w2, i <> j -> cls x = Some (loc e) ->
    acc_at tr i t1 x w1 -> acc_at tr j t2 x w2 -> (w1 = true \/ w2 = true) ->
    shared_at lab i -> shared_at lab j ->
    ordered tr i j.
Proof. exact race_free_under_table. Qed.
Print Assumptions c13_race_free_under_table.

(* locations without a write after publication (this includes the synchronisation objects themselves, which are
   never assigned after construction): accesses after publication never conflict *)
Theorem c13_immutable_under_table :
  forall (T : table) (tr : list ev) (cls : nat -> option nat) (guard_of : nat -> nat -> nat) (owner : nat -> nat)
         (lab : nat -> option access),
  check_table T = true -> conforms T tr cls guard_of owner lab ->
  forall e, In e (entries T) -> immutable_b e = true ->
  forall i j t1 t2 x w1 w2, cls x = Some (loc e) ->
    acc_at tr i t1 x w1 -> acc_at tr j t2 x w2 -> shared_at lab i -> shared_at lab j ->
    w1 = false /\ w2 = false.
Proof. exact immutable_under_table. Qed.
Print Assumptions c13_immutable_under_table.

(* thread-confined captured variables *)
Theorem c13_confined_under_table :
  forall (T : table) (tr : list ev) (cls : nat -> option nat) (guard_of : nat -> nat -> nat) (owner : nat -> nat)
         (lab : nat -> option access),
  check_table T = true -> conforms T tr cls guard_of owner lab ->
  forall e, In e (entries T) -> confined_b e = true ->
  forall i j t1 t2 x w1 w2, i <> j -> cls x = Some (loc e) ->
    acc_at tr i t1 x w1 -> acc_at tr j t2 x w2 -> shared_at lab i -> shared_at lab j ->
    ordered tr i j.
Proof. exact confined_under_table. Qed.
Print Assumptions c13_confined_under_table.

(* ------------------------------------------------------------------ the protocols, on instances *)

Theorem c13_lockset_sound : forall tr l i j e1 e2,
  wf tr -> i < j -> nth_error tr i = Some e1 -> nth_error tr j = Some e2 ->
  holds tr i l (tid e1) -> holds tr j l (tid e2) -> hb tr i j.
Proof. exact lockset_sound. Qed.
Print Assumptions c13_lockset_sound.

Theorem c13_guarded_race_free : forall tr x l, wf tr -> guarded tr x l ->
  forall i j t1 t2 w1 w2, i <> j -> acc_at tr i t1 x w1 -> acc_at tr j t2 x w2 -> ordered tr i j.
Proof. exact guarded_race_free. Qed.
Print Assumptions c13_guarded_race_free.

Theorem c13_immutable_sound : forall tr x (sh : nat -> Prop),
  (forall i t, sh i -> ~ acc_at tr i t x true) ->
  forall i j t1 t2 w1 w2, sh i -> sh j -> acc_at tr i t1 x w1 -> acc_at tr j t2 x w2 -> w1 = false /\ w2 = false.
Proof. exact immutable_sound. Qed.
Print Assumptions c13_immutable_sound.

(* Promise.result/err, memo's result/doneErr.  The two hypotheses are what c11_fields_published_before_close and
   c16_memo_publish_before_close establish in the models of those types (TRUSTED link (4)). *)
Theorem c13_publish_by_close_sound : forall tr x c,
  wf tr ->
  (forall i t, acc_at tr i t x true -> exists k, i < k /\ nth_error tr k = Some (Close t c)) ->
  (forall j t, acc_at tr j t x false ->
     (exists k, j < k /\ nth_error tr k = Some (Close t c)) \/
     (exists m, m < j /\ nth_error tr m = Some (Recv t c))) ->
  forall i j t1 t2 w1 w2, i <> j -> (w1 = true \/ w2 = true) ->
    acc_at tr i t1 x w1 -> acc_at tr j t2 x w2 -> ordered tr i j.
Proof. exact publish_by_close_sound. Qed.
Print Assumptions c13_publish_by_close_sound.

(* cqueue's node fields (c12_lifo_repr: a node is written by its pusher before the successful CAS and read only through
   a pointer loaded from top afterwards) *)
Theorem c13_cas_publish_sound : forall tr x s k t0,
  wf tr ->
  nth_error tr k = Some (AtomicOp t0 s true) ->
  (forall i t, acc_at tr i t x true -> t = t0 /\ i < k) ->
  (forall j t, acc_at tr j t x false ->
     (t = t0 /\ j < k) \/ (exists m w, k < m /\ m < j /\ nth_error tr m = Some (AtomicOp t s w))) ->
  forall i j t1 t2 w1 w2, i <> j -> (w1 = true \/ w2 = true) ->
    acc_at tr i t1 x w1 -> acc_at tr j t2 x w2 -> ordered tr i j.
Proof. exact cas_publish_sound. Qed.
Print Assumptions c13_cas_publish_sound.

(* WaitWithReleased's ref: written under RefCount.mtx, read by a goroutine forked under RefCount.mtx later *)
Theorem c13_fork_under_lock_sound : forall tr l i k j t1 t2 u x w1 e,
  wf tr -> i < k ->
  acc_at tr i t1 x w1 -> holds tr i l t1 ->
  nth_error tr k = Some (Fork t2 u) -> holds tr k l t2 ->
  nth_error tr j = Some e -> tid e = u ->
  hb tr i j.
Proof. exact fork_under_lock_sound. Qed.
Print Assumptions c13_fork_under_lock_sound.

(* ------------------------------------------------------------------ non-vacuity *)
Open Scope string_scope.

(* a small table that passes: a field written and read under lock class 9, an immutable field, a mutex *)
Definition ex_good : table := mkTable [
  mkEntry 0 "ex.T.n" KField [
    mkAcc 0 true [] Construct false [] SNone;
    mkAcc 1 true [9] Shared false [] SNone;
    mkAcc 2 false [9; 4] Shared false [] SNone ];
  mkEntry 1 "ex.T.cfg" KField [
    mkAcc 0 true [] Construct false [] SNone;
    mkAcc 3 false [] Shared false [] SNone ];
  mkEntry 9 "ex.T.mtx" KSyncObj [] ] [].

Example c13_example_good_table_passes : check_table ex_good = true.
Proof. vm_compute. reflexivity. Qed.
Example c13_example_good_table_guard : map find_guard (entries ex_good) = [Some 9; None; None].
Proof. vm_compute. reflexivity. Qed.

(* the same table with one more write of n that holds no lock: rejected *)
Definition ex_bad : table := mkTable [
  mkEntry 0 "ex.T.n" KField [
    mkAcc 0 true [] Construct false [] SNone;
    mkAcc 1 true [9] Shared false [] SNone;
    mkAcc 2 false [9; 4] Shared false [] SNone;
    mkAcc 5 true [] Shared false [] SNone ];
  mkEntry 1 "ex.T.cfg" KField [
    mkAcc 0 true [] Construct false [] SNone;
    mkAcc 3 false [] Shared false [] SNone ];
  mkEntry 9 "ex.T.mtx" KSyncObj [] ] [].

Example c13_example_unguarded_write_rejected : check_table ex_bad = false.
Proof. vm_compute. reflexivity. Qed.

(* a wrong lock (no class common to all accesses), a write to a mutex, a residual, a duplicate id: all rejected *)
Example c13_example_wrong_lock_rejected :
  check_table (mkTable [mkEntry 0 "ex.T.n" KField [mkAcc 1 true [9] Shared false [] SNone; mkAcc 2 false [4] Shared false [] SNone]] []) = false.
Proof. vm_compute. reflexivity. Qed.
Example c13_example_mutex_copy_rejected :
  check_table (mkTable [mkEntry 9 "ex.T.mtx" KSyncObj [mkAcc 1 true [9] Shared false [] SNone]] []) = false.
Proof. vm_compute. reflexivity. Qed.
Example c13_example_residual_rejected : check_table (mkTable [] [0]) = false.
Proof. vm_compute. reflexivity. Qed.
Example c13_example_duplicate_rejected :
  check_table (mkTable [mkEntry 0 "a" KField []; mkEntry 0 "b" KField []] []) = false.
Proof. vm_compute. reflexivity. Qed.

(* a publish-by-close shape is accepted only for an allow-listed name *)
Definition ex_pub (nm : string) : table := mkTable [
  mkEntry 0 nm KField [
    mkAcc 1 true [] Shared false [] (SPreClose 1 2);
    mkAcc 2 false [] Shared false [] (SPostRecv 1) ];
  mkEntry 1 "promise.Promise.done" KField [mkAcc 0 true [] Construct false [] SNone; mkAcc 3 false [] Shared false [] SNone];
  mkEntry 2 "promise.Promise.isDone" KSyncObj [] ] [].
Example c13_example_publish_allow_listed : check_table (ex_pub "promise.Promise.err") = true.
Proof. vm_compute. reflexivity. Qed.
Example c13_example_publish_not_allow_listed : check_table (ex_pub "keyed.Keyed.ctx") = false.
Proof. vm_compute. reflexivity. Qed.
(* ... and a write after the close (no shape) breaks it *)
Example c13_example_write_after_publication_rejected :
  check_table (mkTable [
    mkEntry 0 "promise.Promise.err" KField [
      mkAcc 1 true [] Shared false [] (SPreClose 1 2);
      mkAcc 4 true [] Shared false [] SNone;
      mkAcc 2 false [] Shared false [] (SPostRecv 1) ];
    mkEntry 1 "promise.Promise.done" KField [mkAcc 3 false [] Shared false [] SNone];
    mkEntry 2 "promise.Promise.isDone" KSyncObj [] ] []) = false.
Proof. vm_compute. reflexivity. Qed.

(* The hypotheses of c13_race_free_under_table are satisfiable: goroutine 1 writes location 5 (class 0) under lock
   instance 3 (class 9), goroutine 2 reads it under the same lock; the execution is well-formed, conforms to ex_good1, and
   the theorem orders the two accesses. *)
Definition ex_tr : list ev := [Acq 1 3; Wr 1 5; Rel 1 3; Acq 2 3; Rd 2 5; Rel 2 3].
Definition ex_cls (x : nat) : option nat := if Nat.eqb x 5 then Some 0 else None.
(* class 9 -> lock instance 3; class 0 -> location instance 5 *)
Definition ex_good1 : table := mkTable [
  mkEntry 0 "ex.T.n" KField [
    mkAcc 0 true [] Construct false [] SNone;
    mkAcc 1 true [9] Shared false [] SNone;
    mkAcc 2 false [9] Shared false [] SNone ] ] [].
Definition ex_lab1 (i : nat) : option access :=
  match i with
  | 1 => Some (mkAcc 1 true [9] Shared false [] SNone)
  | 4 => Some (mkAcc 2 false [9] Shared false [] SNone)
  | _ => None
  end.

Example c13_example_trace_wf : wf ex_tr.
Proof.
  constructor.
  - intros i e H. do 6 (destruct i as [|i]; [inversion H; subst; vm_compute; reflexivity|]). destruct i; discriminate.
  - intros k t u i e H. do 6 (destruct k as [|k]; [discriminate|]). destruct k; discriminate.
  - intros j t c H. do 6 (destruct j as [|j]; [discriminate|]). destruct j; discriminate.
  - intros i j t1 t2 c H. do 6 (destruct i as [|i]; [discriminate|]). destruct i; discriminate.
Qed.

Example c13_example_trace_conforms : conforms ex_good1 ex_tr ex_cls (fun _ _ => 3) (fun _ => 0) ex_lab1.
Proof.
  intros i t x w L H C. unfold acc_at in H.
  destruct i as [|[|[|[|[|[|i]]]]]]; simpl in H; try (destruct i; simpl in H); destruct w; try discriminate; inversion H; subst.
  - (* the write at index 1 *)
    inversion C; subst L.
    exists (mkEntry 0 "ex.T.n" KField [mkAcc 0 true [] Construct false [] SNone; mkAcc 1 true [9] Shared false [] SNone; mkAcc 2 false [9] Shared false [] SNone]),
           (mkAcc 1 true [9] Shared false [] SNone).
    split; [left; reflexivity|]. split; [reflexivity|]. split; [simpl; auto|]. split; [reflexivity|]. split; [reflexivity|].
    intros _. split; [intros c [<-|[]]; vm_compute; reflexivity|discriminate].
  - (* the read at index 4 *)
    inversion C; subst L.
    exists (mkEntry 0 "ex.T.n" KField [mkAcc 0 true [] Construct false [] SNone; mkAcc 1 true [9] Shared false [] SNone; mkAcc 2 false [9] Shared false [] SNone]),
           (mkAcc 2 false [9] Shared false [] SNone).
    split; [left; reflexivity|]. split; [reflexivity|]. split; [simpl; auto|]. split; [reflexivity|]. split; [reflexivity|].
    intros _. split; [intros c [<-|[]]; vm_compute; reflexivity|discriminate].
Qed.

Example c13_example_ordered : ordered ex_tr 1 4.
Proof.
  eapply (c13_race_free_under_table ex_good1 ex_tr ex_cls (fun _ _ => 3) (fun _ => 0) ex_lab1
            c13_example_trace_wf eq_refl c13_example_trace_conforms
            (mkEntry 0 "ex.T.n" KField [mkAcc 0 true [] Construct false [] SNone; mkAcc 1 true [9] Shared false [] SNone; mkAcc 2 false [9] Shared false [] SNone])
            9 (or_introl eq_refl) eq_refl 1 4 1 2 5 true false).
  - discriminate.
  - reflexivity.
  - reflexivity.
  - reflexivity.
  - left. reflexivity.
  - intros a H. inversion H. reflexivity.
  - intros a H. inversion H. reflexivity.
Qed.

(* ... and without the lock the same two accesses are NOT ordered by anything in the definition of hb that the
   discipline provides: the unguarded variant of the table is rejected (c13_example_unguarded_write_rejected). *)
