(* C13 — the race table, its boolean check, and what a checked table means.

   THE TABLE.  The translator /verif/lockscan (Go; go/packages + go/types; run on /repo's working tree by every
   ./check C13) emits gen/RaceTable.v: one [entry] per location CLASS

       field of a struct type declared in the scanned packages          "pkg.Type.field"         KField / KSyncObj
       local variable captured by a closure that may run elsewhere      "pkg.Func#var"           KCaptured / KSyncObj

   with every syntactic read / write of it in the 21 files as an [access]:

       held    the lock CLASSES certainly held there: inferred entry lock set of the enclosing function
               (greatest fixpoint of the intersection over all call sites; exported functions, go statements,
               timer callbacks and escaping closures start from the empty set) united with the locks taken locally
       ph      Construct: before the object / variable can be reached by another goroutine; Shared otherwise.
               For a field of a locally allocated object (&T{..}, new(T), T{..}, var x T, the result of a constructor
               of the scanned files that returns a fresh object on every path) this is decided by a flow analysis of
               the allocating function (lockscan/objflow.go), not by the shape of its statements: Construct iff on
               every path to the access the object has neither escaped (returned, stored, sent, captured by a go
               statement or by a closure that does not run inline, passed to a function that is not followed) nor been
               published by an atomic operation; helpers that receive the object in a direct call are followed
       own     the access is in the body of the function that declares the captured variable (not inside a closure
               that may run elsewhere): all such accesses to one variable instance are by one goroutine
       forked  for an access in the body of a `go func(){..}()` literal: the locks held at the go statement
       shp     the syntactic shape the publish patterns look at (see below)

   KSyncObj locations are values of type sync.Mutex / sync.RWMutex / sync.Once / atomic.* / broadcast.Broadcast: uses
   through their methods are synchronisation operations, not accesses; the table lists only plain reads (copies)
   and plain assignments, and the check demands that there is no plain assignment after construction.
   Numbers are interned by the translator; strings are for messages and for the allow-list below.

   THE CHECK.  [check_entry] accepts an entry iff

     SyncObj     it is KSyncObj and has no Shared write; otherwise one of
     immutable   no Shared write;
     confined    every Shared access is [own];
     guarded     one lock class is in [held] of every Shared access, except that reads by the owner need no lock when
                 every Shared write is by the owner;
     published   the location is named in [allow_list] and its Shared accesses have the shape of that pattern.

   [check_table] additionally demands that location ids are unique and that the translator reported no residual
   (constructs it cannot treat soundly).  gen/TableOk.v proves [check_table RaceTable.table = true] by vm_compute;
   that compile is the obligation a racy edit of /repo breaks.

   WHAT IS PROVED (this file, no axioms): check_sound (an accepted table satisfies the Prop-level protocol
   hypotheses) and race_free_under_table / immutable_under_table / confined_under_table (c13_... in Props_C13.v): in every
   well-formed execution (Trace.wf) that CONFORMS to the table, conflicting Shared accesses to a location whose
   entry is guarded are ordered by happens-before, Shared accesses to an immutable location never conflict, and
   Shared accesses to a confined location are by one goroutine.  The publish patterns have their own instance-level
   theorems in Soundness.v (publish_by_close_sound, cas_publish_sound, fork_under_lock_sound) whose ordering
   hypotheses (single closer and "fields written before close"; "node fields written before the publishing CAS and
   read after a load that observed it"; "the callback forks only in a later critical section than the one that
   assigned ref") are NOT consequences of the lock discipline: they are discharged in the fine-grained models
   of those types - Promise.Props_C11.c11_fields_published_before_close, Once.Props_C16.c16_memo_publish_before_close,
   Lifo.Props_C12.c12_lifo_repr, and for WaitWithReleased's `ref` the refcount model (callback invocations of C09/C10:
   the only invocation that can run inside addRefLocked sees currResolved = false and does not reach the go statement).

   WHAT IS TRUSTED (the claim is PARTIAL by nature).
   (1) The link between "executions of the Go program" and "conforming executions": [conforms] below says that
       every run-time access to a tabled location is an instance of one of its table accesses (same read/write
       kind) and that, for Shared ones, the goroutine holds an instance of every tabled lock class and [own]
       accesses are by the owner goroutine.  That every execution of every client program that uses the APIs as
       documented conforms is exactly the correctness of the translator (its held-set inference, escape /
       construction analysis, callback-field derivation and idiom coverage); it is NOT proved.  It is validated on
       every run by the translator's seeded self-test and, in the thorough tier, by free-running -race workloads.
   (2) Lock classes, not instances: [guard_of] maps a run-time location and a lock class to THE lock instance of
       that class protecting it ("a guarded field is reached only through the owner whose lock is held").
   (3) Construct-phase accesses are ordered before Shared ones by publication (the store that makes the object
       reachable is itself a tabled access or a go statement); not formalised here.
   (4) Races inside user callbacks are out of scope by the property's own wording. *)
From Coq Require Import String.
From Util Require Import Common.Base Common.ListLemmas Lockset.Trace Lockset.Soundness.

Inductive kind := KField | KCaptured | KSyncObj.
Inductive phase := Construct | Shared.
Inductive shape :=
| SNone
| SPreClose (c g : nat)   (* in a region entered only by the first Swap on atomic g, before close(c) on every path *)
| SPostRecv (c : nat)     (* after a receive on c (SPreClose / SPostRecv / SPostLoad are inherited by a helper function from its
                             call sites when ALL of them are plain calls that establish the same shape for the object passed) *)
| SPreCAS (s : nat)       (* through a pointer to a fresh object whose only escape is as the new value of a CAS/Store on s,
                             at a point where, on every path, no such CAS has succeeded / Store has executed yet (flow analysis
                             of the allocating function, through the helpers it hands the object to): "written by the
                             allocating goroutine before the publishing operation", the hypothesis of cas_publish_sound *)
| SPostLoad (s : nat).    (* through a pointer obtained from s.Load() *)

Record access := mkAcc { site : nat; wr : bool; held : list nat; ph : phase; own : bool; forked : list nat; shp : shape }.
Record entry := mkEntry { loc : nat; name : string; knd : kind; accs : list access }.
Record table := mkTable { entries : list entry; residuals : list nat }.

Inductive pattern := PubClose | PubCAS | PubFork.

(* The publish patterns are admitted for these locations only. *)
Definition allow_list : list (string * pattern) := [
  ("promise.Promise.result"%string, PubClose);
  ("promise.Promise.err"%string, PubClose);
  ("memo.MemoizeFunc#result"%string, PubClose);
  ("memo.MemoizeFunc#doneErr"%string, PubClose);
  ("cqueue.atomicLIFONode.value"%string, PubCAS);
  ("cqueue.atomicLIFONode.next"%string, PubCAS);
  ("refcount.RefCount.WaitWithReleased#ref"%string, PubFork) ].

(* ------------------------------------------------------------------ boolean check *)
Definition is_shared (a : access) : bool := match ph a with Shared => true | Construct => false end.
Definition shared_accs (e : entry) : list access := filter is_shared (accs e).
Definition memb (n : nat) (l : list nat) : bool := existsb (Nat.eqb n) l.
Definition is_sync (k : kind) : bool := match k with KSyncObj => true | _ => false end.

Definition immutable_b (e : entry) : bool := forallb (fun a => negb (wr a)) (shared_accs e).
Definition confined_b (e : entry) : bool := forallb own (shared_accs e).
Definition writes_own_b (e : entry) : bool := forallb (fun a => implb (wr a) (own a)) (shared_accs e).
Definition guarded_by (e : entry) (g : nat) : bool :=
  forallb (fun a => memb g (held a) || (own a && negb (wr a) && writes_own_b e)) (shared_accs e).
Definition candidates (e : entry) : list nat := flat_map held (shared_accs e).
Definition find_guard (e : entry) : option nat := find (guarded_by e) (candidates e).

Definition lookup (t : table) (l : nat) : option entry := find (fun e => Nat.eqb (loc e) l) (entries t).
Definition stable_b (t : table) (l : nat) : bool :=
  match lookup t l with Some e => immutable_b e | None => false end.
Definition syncobj_b (t : table) (l : nat) : bool :=
  match lookup t l with Some e => is_sync (knd e) && immutable_b e | None => false end.

Definition close_shape (c g : nat) (a : access) : bool :=
  match shp a with
  | SPreClose c' g' => Nat.eqb c' c && Nat.eqb g' g
  | SPostRecv c' => Nat.eqb c' c && negb (wr a)
  | _ => false
  end.
Definition first_pre_close (l : list access) : option (nat * nat) :=
  match find (fun a => match shp a with SPreClose _ _ => true | _ => false end) l with
  | Some a => match shp a with SPreClose c g => Some (c, g) | _ => None end
  | None => None
  end.
Definition pub_close_b (t : table) (e : entry) : bool :=
  match first_pre_close (shared_accs e) with
  | Some (c, g) => forallb (close_shape c g) (shared_accs e) && stable_b t c && syncobj_b t g
  | None => false
  end.

Definition cas_shape (s : nat) (a : access) : bool :=
  match shp a with
  | SPreCAS s' => Nat.eqb s' s
  | SPostLoad s' => Nat.eqb s' s && negb (wr a)
  | _ => false
  end.
Definition first_pre_cas (l : list access) : option nat :=
  match find (fun a => match shp a with SPreCAS _ => true | _ => false end) l with
  | Some a => match shp a with SPreCAS s => Some s | _ => None end
  | None => None
  end.
Definition pub_cas_b (t : table) (e : entry) : bool :=
  match first_pre_cas (shared_accs e) with
  | Some s => forallb (cas_shape s) (shared_accs e) && syncobj_b t s
  | None => false
  end.

Definition fork_shape (l : nat) (a : access) : bool :=
  if wr a then own a && memb l (held a) else own a || memb l (held a) || memb l (forked a).
Definition pub_fork_b (e : entry) : bool :=
  existsb (fun l => forallb (fork_shape l) (shared_accs e)) (candidates e).

Definition pattern_of (e : entry) : option pattern :=
  match find (fun p => String.eqb (fst p) (name e)) allow_list with Some p => Some (snd p) | None => None end.
Definition published_b (t : table) (e : entry) : bool :=
  match pattern_of e with
  | Some PubClose => pub_close_b t e
  | Some PubCAS => pub_cas_b t e
  | Some PubFork => pub_fork_b e
  | None => false
  end.

Definition is_some {A} (o : option A) : bool := match o with Some _ => true | None => false end.

Definition check_entry (t : table) (e : entry) : bool :=
  if is_sync (knd e) then immutable_b e
  else immutable_b e || confined_b e || is_some (find_guard e) || published_b t e.

Fixpoint nodup_b (l : list nat) : bool :=
  match l with [] => true | x :: r => negb (memb x r) && nodup_b r end.

Definition check_table (t : table) : bool :=
  forallb (check_entry t) (entries t)
  && match residuals t with [] => true | _ => false end
  && nodup_b (map loc (entries t)).

(* which protocol accepted the entry (for the evidence file / messages; 0 = rejected) *)
Definition protocol_of (t : table) (e : entry) : nat :=
  if is_sync (knd e) then (if immutable_b e then 1 else 0)
  else if immutable_b e then 2
  else if confined_b e then 3
  else if is_some (find_guard e) then 4
  else if published_b t e then 5
  else 0.

(* ------------------------------------------------------------------ Prop-level meaning *)
Definition shared_in (e : entry) (a : access) : Prop := In a (accs e) /\ ph a = Shared.
Definition immutable_ok (e : entry) : Prop := forall a, shared_in e a -> wr a = false.
Definition confined_ok (e : entry) : Prop := forall a, shared_in e a -> own a = true.
Definition writes_own (e : entry) : Prop := forall b, shared_in e b -> wr b = true -> own b = true.
Definition guarded_with (e : entry) (g : nat) : Prop :=
  forall a, shared_in e a -> In g (held a) \/ (own a = true /\ wr a = false /\ writes_own e).
Definition guarded_ok (e : entry) : Prop := exists g, guarded_with e g.

Definition stable_ok (t : table) (l : nat) : Prop := exists e, In e (entries t) /\ loc e = l /\ immutable_ok e.
Definition syncobj_ok (t : table) (l : nat) : Prop := exists e, In e (entries t) /\ loc e = l /\ knd e = KSyncObj /\ immutable_ok e.

Definition close_ok (t : table) (e : entry) : Prop :=
  exists c g, (forall a, shared_in e a -> shp a = SPreClose c g \/ (shp a = SPostRecv c /\ wr a = false))
              /\ stable_ok t c /\ syncobj_ok t g.
Definition cas_ok (t : table) (e : entry) : Prop :=
  exists s, (forall a, shared_in e a -> shp a = SPreCAS s \/ (shp a = SPostLoad s /\ wr a = false)) /\ syncobj_ok t s.
Definition fork_ok (e : entry) : Prop :=
  exists l, forall a, shared_in e a ->
    (wr a = true -> own a = true /\ In l (held a)) /\
    (wr a = false -> own a = true \/ In l (held a) \/ In l (forked a)).
Definition published_ok (t : table) (e : entry) : Prop :=
  exists p, In (name e, p) allow_list /\
    match p with PubClose => close_ok t e | PubCAS => cas_ok t e | PubFork => fork_ok e end.

Definition entry_ok (t : table) (e : entry) : Prop :=
  (knd e = KSyncObj /\ immutable_ok e) \/
  (knd e <> KSyncObj /\ (immutable_ok e \/ confined_ok e \/ guarded_ok e \/ published_ok t e)).

(* ------------------------------------------------------------------ reflection lemmas *)
Lemma memb_In n l : memb n l = true <-> In n l.
Proof.
  unfold memb. rewrite existsb_exists. split.
  - intros (x & Hin & Heq). apply Nat.eqb_eq in Heq. subst. exact Hin.
  - intros Hin. exists n. split; [exact Hin|apply Nat.eqb_refl].
Qed.

Lemma shared_accs_In e a : In a (shared_accs e) <-> shared_in e a.
Proof.
  unfold shared_accs, shared_in, is_shared. rewrite filter_In. split.
  - intros (Hin & Hs). split; [exact Hin|]. destruct (ph a); [discriminate|reflexivity].
  - intros (Hin & Hs). split; [exact Hin|]. rewrite Hs. reflexivity.
Qed.

Lemma immutable_b_ok e : immutable_b e = true -> immutable_ok e.
Proof.
  unfold immutable_b, immutable_ok. rewrite forallb_forall. intros H a Ha.
  apply shared_accs_In in Ha. specialize (H a Ha). destruct (wr a); [discriminate|reflexivity].
Qed.

Lemma confined_b_ok e : confined_b e = true -> confined_ok e.
Proof.
  unfold confined_b, confined_ok. rewrite forallb_forall. intros H a Ha.
  apply shared_accs_In in Ha. exact (H a Ha).
Qed.

Lemma writes_own_b_ok e : writes_own_b e = true -> writes_own e.
Proof.
  unfold writes_own_b, writes_own. rewrite forallb_forall. intros H b Hb Wb.
  apply shared_accs_In in Hb. specialize (H b Hb). rewrite Wb in H. exact H.
Qed.

Lemma guarded_by_ok e g : guarded_by e g = true -> guarded_with e g.
Proof.
  unfold guarded_by, guarded_with. rewrite forallb_forall. intros H a Ha.
  apply shared_accs_In in Ha. specialize (H a Ha).
  apply orb_true_iff in H. destruct H as [H|H].
  - left. apply memb_In. exact H.
  - right. apply andb_true_iff in H. destruct H as [H H3]. apply andb_true_iff in H. destruct H as [H1 H2].
    split; [exact H1|]. split; [destruct (wr a); [discriminate|reflexivity]|]. apply writes_own_b_ok. exact H3.
Qed.

Lemma find_guard_ok e g : find_guard e = Some g -> guarded_with e g.
Proof. unfold find_guard. intros H. apply find_some in H. apply guarded_by_ok. exact (proj2 H). Qed.

Lemma lookup_ok t l e : lookup t l = Some e -> In e (entries t) /\ loc e = l.
Proof. unfold lookup. intros H. apply find_some in H. destruct H as [H1 H2]. apply Nat.eqb_eq in H2. auto. Qed.

Lemma stable_b_ok t l : stable_b t l = true -> stable_ok t l.
Proof.
  unfold stable_b, stable_ok. destruct (lookup t l) as [e|] eqn:L; [|discriminate].
  intros H. apply lookup_ok in L. exists e. split; [exact (proj1 L)|]. split; [exact (proj2 L)|]. apply immutable_b_ok. exact H.
Qed.

Lemma syncobj_b_ok t l : syncobj_b t l = true -> syncobj_ok t l.
Proof.
  unfold syncobj_b, syncobj_ok. destruct (lookup t l) as [e|] eqn:L; [|discriminate].
  intros H. apply andb_true_iff in H. destruct H as [H1 H2]. apply lookup_ok in L.
  exists e. split; [exact (proj1 L)|]. split; [exact (proj2 L)|].
  split; [destruct (knd e); try discriminate; reflexivity|]. apply immutable_b_ok. exact H2.
Qed.

Lemma close_shape_ok c g a : close_shape c g a = true -> shp a = SPreClose c g \/ (shp a = SPostRecv c /\ wr a = false).
Proof.
  unfold close_shape. destruct (shp a) as [|c' g'|c'|s|s]; try discriminate.
  - intros H. apply andb_true_iff in H. destruct H as [H1 H2]. apply Nat.eqb_eq in H1, H2. subst. left. reflexivity.
  - intros H. apply andb_true_iff in H. destruct H as [H1 H2]. apply Nat.eqb_eq in H1. subst. right.
    split; [reflexivity|]. destruct (wr a); [discriminate|reflexivity].
Qed.

Lemma pub_close_b_ok t e : pub_close_b t e = true -> close_ok t e.
Proof.
  unfold pub_close_b, close_ok. destruct (first_pre_close (shared_accs e)) as [[c g]|]; [|discriminate].
  intros H. apply andb_true_iff in H. destruct H as [H H3]. apply andb_true_iff in H. destruct H as [H1 H2].
  exists c, g. split; [|split; [apply stable_b_ok; exact H2|apply syncobj_b_ok; exact H3]].
  rewrite forallb_forall in H1. intros a Ha. apply shared_accs_In in Ha. apply close_shape_ok. exact (H1 a Ha).
Qed.

Lemma cas_shape_ok s a : cas_shape s a = true -> shp a = SPreCAS s \/ (shp a = SPostLoad s /\ wr a = false).
Proof.
  unfold cas_shape. destruct (shp a) as [|c' g'|c'|s'|s']; try discriminate.
  - intros H. apply Nat.eqb_eq in H. subst. left. reflexivity.
  - intros H. apply andb_true_iff in H. destruct H as [H1 H2]. apply Nat.eqb_eq in H1. subst. right.
    split; [reflexivity|]. destruct (wr a); [discriminate|reflexivity].
Qed.

Lemma pub_cas_b_ok t e : pub_cas_b t e = true -> cas_ok t e.
Proof.
  unfold pub_cas_b, cas_ok. destruct (first_pre_cas (shared_accs e)) as [s|]; [|discriminate].
  intros H. apply andb_true_iff in H. destruct H as [H1 H2].
  exists s. split; [|apply syncobj_b_ok; exact H2].
  rewrite forallb_forall in H1. intros a Ha. apply shared_accs_In in Ha. apply cas_shape_ok. exact (H1 a Ha).
Qed.

Lemma pub_fork_b_ok e : pub_fork_b e = true -> fork_ok e.
Proof.
  unfold pub_fork_b, fork_ok. rewrite existsb_exists. intros (l & _ & H). exists l.
  rewrite forallb_forall in H. intros a Ha. apply shared_accs_In in Ha. specialize (H a Ha).
  unfold fork_shape in H. destruct (wr a).
  - apply andb_true_iff in H. destruct H as [H1 H2]. split; [intros _; split; [exact H1|apply memb_In; exact H2]|discriminate].
  - split; [discriminate|]. intros _. apply orb_true_iff in H. destruct H as [H|H].
    + apply orb_true_iff in H. destruct H as [H|H]; [left; exact H|right; left; apply memb_In; exact H].
    + right. right. apply memb_In. exact H.
Qed.

Lemma pattern_of_ok e p : pattern_of e = Some p -> In (name e, p) allow_list.
Proof.
  unfold pattern_of. destruct (find (fun p0 => String.eqb (fst p0) (name e)) allow_list) as [[s q]|] eqn:F; [|discriminate].
  intros H. inversion H. subst q. apply find_some in F. destruct F as [F1 F2]. simpl in F2.
  apply String.eqb_eq in F2. subst s. exact F1.
Qed.

Lemma published_b_ok t e : published_b t e = true -> published_ok t e.
Proof.
  unfold published_b, published_ok. destruct (pattern_of e) as [p|] eqn:P; [|discriminate].
  apply pattern_of_ok in P. intros H. exists p. split; [exact P|].
  destruct p; [apply pub_close_b_ok|apply pub_cas_b_ok|apply pub_fork_b_ok]; exact H.
Qed.

Lemma check_entry_ok t e : check_entry t e = true -> entry_ok t e.
Proof.
  unfold check_entry, entry_ok. destruct (knd e) eqn:K; simpl.
  - intros H. right. split; [discriminate|].
    apply orb_true_iff in H. destruct H as [H|H]; [|right; right; right; apply published_b_ok; exact H].
    apply orb_true_iff in H. destruct H as [H|H].
    + apply orb_true_iff in H. destruct H as [H|H]; [left; apply immutable_b_ok; exact H|right; left; apply confined_b_ok; exact H].
    + right. right. left. destruct (find_guard e) as [g|] eqn:G; [|discriminate]. exists g. apply find_guard_ok. exact G.
  - intros H. right. split; [discriminate|].
    apply orb_true_iff in H. destruct H as [H|H]; [|right; right; right; apply published_b_ok; exact H].
    apply orb_true_iff in H. destruct H as [H|H].
    + apply orb_true_iff in H. destruct H as [H|H]; [left; apply immutable_b_ok; exact H|right; left; apply confined_b_ok; exact H].
    + right. right. left. destruct (find_guard e) as [g|] eqn:G; [|discriminate]. exists g. apply find_guard_ok. exact G.
  - intros H. left. split; [reflexivity|apply immutable_b_ok; exact H].
Qed.

Lemma nodup_b_ok l : nodup_b l = true -> NoDup l.
Proof.
  induction l as [|x r IH]; simpl; intros H; [constructor|].
  apply andb_true_iff in H. destruct H as [H1 H2]. constructor; [|apply IH; exact H2].
  intros Hin. apply memb_In in Hin. rewrite Hin in H1. discriminate.
Qed.

Lemma check_table_parts t : check_table t = true ->
  (forall e, In e (entries t) -> check_entry t e = true) /\ residuals t = [] /\ NoDup (map loc (entries t)).
Proof.
  unfold check_table. intros H. apply andb_true_iff in H. destruct H as [H H3]. apply andb_true_iff in H. destruct H as [H1 H2].
  split; [rewrite forallb_forall in H1; exact H1|]. split; [destruct (residuals t); [reflexivity|discriminate]|apply nodup_b_ok; exact H3].
Qed.

(* an accepted table: every entry satisfies the hypothesis of one of the protocols *)
Theorem check_sound t : check_table t = true -> forall e, In e (entries t) -> entry_ok t e.
Proof. intros H e He. apply check_entry_ok. exact (proj1 (check_table_parts t H) e He). Qed.

Lemma NoDup_map_inj {A} (f : A -> nat) (l : list A) a b : NoDup (map f l) -> In a l -> In b l -> f a = f b -> a = b.
Proof.
  induction l as [|x r IH]; simpl; intros ND Ha Hb E; [contradiction|].
  inversion ND as [|y r' Nin ND']. subst.
  destruct Ha as [->|Ha]; destruct Hb as [->|Hb]; auto.
  - exfalso. apply Nin. rewrite E. apply in_map. exact Hb.
  - exfalso. apply Nin. rewrite <- E. apply in_map. exact Ha.
Qed.

(* ------------------------------------------------------------------ from the table to executions *)
Section Link.
  Variable T : table.
  Variable tr : list ev.
  (* the class (table location id) of a run-time location instance; None: not a tabled location *)
  Variable cls : nat -> option nat.
  (* the lock instance of class c that protects the run-time location x (ownership assumption, trusted (2)) *)
  Variable guard_of : nat -> nat -> nat.
  (* the goroutine that executes the declaring function invocation of the captured-variable instance x *)
  Variable owner : nat -> nat.
  (* the table access a run-time access (by trace index) is an instance of: THE TRANSLATOR'S CLAIM, trusted (1) *)
  Variable lab : nat -> option access.

  Definition conforms : Prop :=
    forall i t x w L, acc_at tr i t x w -> cls x = Some L ->
      exists e a, In e (entries T) /\ loc e = L /\ In a (accs e) /\ lab i = Some a /\ wr a = w /\
        (ph a = Shared ->
           (forall c, In c (held a) -> holds tr i (guard_of x c) t) /\
           (own a = true -> t = owner x)).

  (* the run-time access at index i is after publication *)
  Definition shared_at (i : nat) : Prop := forall a, lab i = Some a -> ph a = Shared.

  Lemma conforms_entry e i t x w :
    check_table T = true -> conforms -> In e (entries T) -> cls x = Some (loc e) -> acc_at tr i t x w -> shared_at i ->
    exists a, shared_in e a /\ lab i = Some a /\ wr a = w /\
      (forall c, In c (held a) -> holds tr i (guard_of x c) t) /\ (own a = true -> t = owner x).
  Proof.
    intros CT CF He Cx Ei Si.
    destruct (CF _ _ _ _ _ Ei Cx) as (e' & a & He' & Le' & Ha & La & Wa & Hsh).
    assert (e' = e).
    { destruct (check_table_parts T CT) as (_ & _ & ND). eapply NoDup_map_inj; eauto. }
    subst e'. pose proof (Si a La) as Pa. destruct (Hsh Pa) as [H1 H2].
    exists a. split; [split; [exact Ha|exact Pa]|]. auto.
  Qed.

  (* C13, guarded locations: conflicting Shared accesses are ordered by happens-before *)
  Theorem race_free_under_table :
    wf tr -> check_table T = true -> conforms ->
    forall e g, In e (entries T) -> find_guard e = Some g ->
    forall i j t1 t2 x w1 w2, i <> j -> cls x = Some (loc e) ->
      acc_at tr i t1 x w1 -> acc_at tr j t2 x w2 -> (w1 = true \/ w2 = true) ->
      shared_at i -> shared_at j ->
      ordered tr i j.
  Proof.
    intros W CT CF e g He G i j t1 t2 x w1 w2 NE Cx Ei Ej Wr Si Sj.
    pose proof (find_guard_ok e g G) as GW.
    destruct (conforms_entry e i t1 x w1 CT CF He Cx Ei Si) as (a1 & Sh1 & _ & W1 & H1 & O1).
    destruct (conforms_entry e j t2 x w2 CT CF He Cx Ej Sj) as (a2 & Sh2 & _ & W2 & H2 & O2).
    assert (OWN : own a1 = true -> own a2 = true -> ordered tr i j).
    { intros P1 P2. rewrite (O1 P1) in Ei. rewrite (O2 P2) in Ej. eapply confined_sound; eauto. }
    destruct (GW a1 Sh1) as [G1|(P1 & R1 & WO1)]; destruct (GW a2 Sh2) as [G2|(P2 & R2 & WO2)].
    - (* both hold the guard *)
      pose proof (H1 g G1) as L1. pose proof (H2 g G2) as L2. unfold ordered.
      destruct (Nat.lt_ge_cases i j) as [Lt|Ge].
      + left. eapply (lockset_sound tr (guard_of x g) i j); eauto; rewrite tid_acc; assumption.
      + right. eapply (lockset_sound tr (guard_of x g) j i); eauto; [lia|rewrite tid_acc; assumption|rewrite tid_acc; assumption].
    - (* a2 is an exempt owner read: the other one writes, and all Shared writes are by the owner *)
      apply OWN; [|exact P2]. apply WO2; [exact Sh1|]. rewrite W1. destruct Wr as [Wr|Wr]; [exact Wr|congruence].
    - apply OWN; [exact P1|]. apply WO1; [exact Sh2|]. rewrite W2. destruct Wr as [Wr|Wr]; [congruence|exact Wr].
    - apply OWN; assumption.
  Qed.

  (* C13, immutable (and SyncObj) locations: Shared accesses never conflict *)
  Theorem immutable_under_table :
    check_table T = true -> conforms ->
    forall e, In e (entries T) -> immutable_b e = true ->
    forall i j t1 t2 x w1 w2, cls x = Some (loc e) ->
      acc_at tr i t1 x w1 -> acc_at tr j t2 x w2 -> shared_at i -> shared_at j ->
      w1 = false /\ w2 = false.
  Proof.
    intros CT CF e He IM i j t1 t2 x w1 w2 Cx Ei Ej Si Sj.
    pose proof (immutable_b_ok e IM) as IO.
    destruct (conforms_entry e i t1 x w1 CT CF He Cx Ei Si) as (a1 & Sh1 & _ & W1 & _).
    destruct (conforms_entry e j t2 x w2 CT CF He Cx Ej Sj) as (a2 & Sh2 & _ & W2 & _).
    rewrite <- W1, <- W2. split; apply IO; assumption.
  Qed.

  (* C13, confined locations: Shared accesses are by one goroutine, hence ordered *)
  Theorem confined_under_table :
    check_table T = true -> conforms ->
    forall e, In e (entries T) -> confined_b e = true ->
    forall i j t1 t2 x w1 w2, i <> j -> cls x = Some (loc e) ->
      acc_at tr i t1 x w1 -> acc_at tr j t2 x w2 -> shared_at i -> shared_at j ->
      ordered tr i j.
  Proof.
    intros CT CF e He CB i j t1 t2 x w1 w2 NE Cx Ei Ej Si Sj.
    pose proof (confined_b_ok e CB) as CO.
    destruct (conforms_entry e i t1 x w1 CT CF He Cx Ei Si) as (a1 & Sh1 & _ & _ & _ & O1).
    destruct (conforms_entry e j t2 x w2 CT CF He Cx Ej Sj) as (a2 & Sh2 & _ & _ & _ & O2).
    rewrite (O1 (CO a1 Sh1)) in Ei. rewrite (O2 (CO a2 Sh2)) in Ej. eapply confined_sound; eauto.
  Qed.
End Link.
