(* C13 — soundness of the synchronisation protocols the race table relies on, over the executions of Trace.v.

   lockset_sound            two events that both execute while their goroutines hold the same lock are ordered
   guarded_race_free        a location all of whose accesses hold one lock has no unordered pair of accesses
   immutable_sound          a location without a write after publication has no conflicting pair at all
   publish_by_close_sound   writes before close(c) by the closing goroutine, reads after a receive-of-close on c
   cas_publish_sound        writes before the publishing atomic operation, reads after a later atomic on the same cell
   fork_under_lock_sound    a write under l, then a fork executed under l, then an access by the forked goroutine
   confined_sound           accesses by one goroutine are ordered

   All statements are about ONE location instance x and lock/channel/atomic INSTANCES; the step from classes
   (the table) to instances is in Check.v (race_free_under_table) and is where the trusted link is stated. *)
From Util Require Import Common.Base Common.ListLemmas Lockset.Trace.

Lemma acc_at_tid tr i t x w e : acc_at tr i t x w -> nth_error tr i = Some e -> tid e = t.
Proof. unfold acc_at. intros H1 H2. rewrite H1 in H2. inversion H2. destruct w; reflexivity. Qed.

Lemma acc_at_fun tr i t1 t2 x1 x2 w1 w2 : acc_at tr i t1 x1 w1 -> acc_at tr i t2 x2 w2 -> t1 = t2 /\ x1 = x2 /\ w1 = w2.
Proof. unfold acc_at. intros H1 H2. rewrite H1 in H2. destruct w1, w2; inversion H2; auto. Qed.

Lemma tid_acc (t x : nat) (w : bool) : tid (if w then Wr t x else Rd t x) = t.
Proof. destruct w; reflexivity. Qed.

Lemma hb_po_aa tr i j t x1 x2 w1 w2 : i < j -> acc_at tr i t x1 w1 -> acc_at tr j t x2 w2 -> hb tr i j.
Proof. unfold acc_at. intros L E1 E2. apply (hb_po tr i j _ _ L E1 E2). rewrite !tid_acc. reflexivity. Qed.

Lemma hb_po_ae tr i k t x w e : i < k -> acc_at tr i t x w -> nth_error tr k = Some e -> tid e = t -> hb tr i k.
Proof. unfold acc_at. intros L E1 E2 T. apply (hb_po tr i k _ _ L E1 E2). rewrite tid_acc. auto. Qed.

Lemma hb_po_ea tr m j t x w e : m < j -> nth_error tr m = Some e -> tid e = t -> acc_at tr j t x w -> hb tr m j.
Proof. unfold acc_at. intros L E1 T E2. apply (hb_po tr m j _ _ L E1 E2). rewrite tid_acc. auto. Qed.

Lemma opt_nat_dec (a b : option nat) : {a = b} + {a <> b}.
Proof. decide equality. apply Nat.eq_dec. Qed.

Lemma firstn_S_nth {A} (l : list A) i x : nth_error l i = Some x -> firstn (S i) l = firstn i l ++ [x].
Proof.
  revert i; induction l as [|a l IH]; intros [|i] H; simpl in *; try discriminate.
  - inversion H; reflexivity.
  - f_equal. apply IH; auto.
Qed.

Lemma state_S tr i e : nth_error tr i = Some e -> state_at tr (S i) = upd (state_at tr i) e.
Proof. intros H. unfold state_at. rewrite (firstn_S_nth _ _ _ H), fold_left_app. reflexivity. Qed.

(* if t1 owns l at i and no longer owns it at j >= i, t1 released l somewhere in [i, j) *)
Lemma released_between tr l t1 i j : wf tr -> j <= length tr -> i <= j ->
  state_at tr i l = Some t1 -> state_at tr j l <> Some t1 ->
  exists m, i <= m < j /\ nth_error tr m = Some (Rel t1 l).
Proof.
  intros W. induction j as [|j IH]; intros Lj Le Si Sj.
  - assert (i = 0) by lia. subst. congruence.
  - destruct (Nat.eq_dec i (S j)) as [->|N]; [congruence|].
    destruct (nth_error tr j) as [e|] eqn:E; [|apply nth_error_None in E; lia].
    rewrite (state_S _ _ _ E) in Sj.
    destruct (opt_nat_dec (state_at tr j l) (Some t1)) as [Q|Q].
    + pose proof (wf_locks _ W _ _ E) as OK.
      destruct e as [t l'|t l'|t x|t x|t u|t c|t c|t x w]; simpl in Sj, OK; try contradiction.
      * destruct (Nat.eqb_spec l l') as [->|]; [congruence|contradiction].
      * destruct (Nat.eqb_spec l l') as [->|]; [|contradiction]. exists j. split; [lia|]. congruence.
    + destruct (IH ltac:(lia) ltac:(lia) Si Q) as (m & Hm & Em). exists m. split; [lia|auto].
Qed.

(* if t2 does not own l at i and owns it at j >= i, t2 acquired l somewhere in [i, j) *)
Lemma acquired_between tr l t2 i j : wf tr -> j <= length tr -> i <= j ->
  state_at tr i l <> Some t2 -> state_at tr j l = Some t2 ->
  exists k, i <= k < j /\ nth_error tr k = Some (Acq t2 l).
Proof.
  intros W. induction j as [|j IH]; intros Lj Le Si Sj.
  - assert (i = 0) by lia. subst. congruence.
  - destruct (Nat.eq_dec i (S j)) as [->|N]; [congruence|].
    destruct (nth_error tr j) as [e|] eqn:E; [|apply nth_error_None in E; lia].
    rewrite (state_S _ _ _ E) in Sj.
    destruct (opt_nat_dec (state_at tr j l) (Some t2)) as [Q|Q].
    + destruct (IH ltac:(lia) ltac:(lia) Si Q) as (k & Hk & Ek). exists k. split; [lia|auto].
    + destruct e as [t l'|t l'|t x|t x|t u|t c|t c|t x w]; simpl in Sj; try contradiction.
      * destruct (Nat.eqb_spec l l') as [->|]; [|contradiction]. exists j. split; [lia|]. congruence.
      * destruct (Nat.eqb_spec l l') as [->|]; [discriminate|contradiction].
Qed.

(* Lockset soundness: two events whose goroutines hold lock l when they execute are ordered by happens-before
   (through the first release of l by the earlier goroutine and the next acquire by the later one). *)
Theorem lockset_sound tr l i j e1 e2 :
  wf tr -> i < j ->
  nth_error tr i = Some e1 -> nth_error tr j = Some e2 ->
  holds tr i l (tid e1) -> holds tr j l (tid e2) ->
  hb tr i j.
Proof.
  unfold holds. intros W Lt Ei Ej Si Sj.
  destruct (Nat.eq_dec (tid e1) (tid e2)) as [EQ|NE]; [eapply hb_po; eauto|].
  assert (Lj : j <= length tr) by (apply Nat.lt_le_incl, nth_error_Some; congruence).
  assert (Sj' : state_at tr j l <> Some (tid e1)) by congruence.
  destruct (released_between tr l (tid e1) i j W Lj ltac:(lia) Si Sj') as (m & Hm & Em).
  assert (Sm : state_at tr (S m) l <> Some (tid e2)).
  { rewrite (state_S _ _ _ Em). simpl. rewrite Nat.eqb_refl. discriminate. }
  destruct (acquired_between tr l (tid e2) (S m) j W Lj ltac:(lia) Sm Sj) as (k & Hk & Ek).
  assert (Hmk : hb tr m j).
  { eapply hb_trans; [apply (hb_sw tr m k (tid e1) (tid e2) l); [lia|exact Em|exact Ek]|].
    apply (hb_po tr k j (Acq (tid e2) l) e2); [lia|exact Ek|exact Ej|reflexivity]. }
  destruct (Nat.eq_dec i m) as [->|Nim]; [exact Hmk|].
  eapply hb_trans; [|exact Hmk].
  apply (hb_po tr i m e1 (Rel (tid e1) l)); [lia|exact Ei|exact Em|reflexivity].
Qed.

(* every access to x is made while holding (the instance) l *)
Definition guarded (tr : list ev) (x l : nat) : Prop :=
  forall i t w, acc_at tr i t x w -> holds tr i l t.

Corollary guarded_race_free tr x l : wf tr -> guarded tr x l ->
  forall i j t1 t2 w1 w2, i <> j -> acc_at tr i t1 x w1 -> acc_at tr j t2 x w2 -> ordered tr i j.
Proof.
  intros W G i j t1 t2 w1 w2 NE Ei Ej. unfold ordered.
  pose proof (G _ _ _ Ei) as Hi. pose proof (G _ _ _ Ej) as Hj.
  destruct (Nat.lt_ge_cases i j).
  - left. eapply (lockset_sound tr l i j); eauto; [rewrite (acc_at_tid _ _ _ _ _ _ Ei Ei)|rewrite (acc_at_tid _ _ _ _ _ _ Ej Ej)]; auto.
  - right. eapply (lockset_sound tr l j i); eauto; [lia|rewrite (acc_at_tid _ _ _ _ _ _ Ej Ej)|rewrite (acc_at_tid _ _ _ _ _ _ Ei Ei)]; auto.
Qed.

(* accesses by the same goroutine are ordered by program order *)
Lemma confined_sound tr i j t x1 x2 w1 w2 : i <> j -> acc_at tr i t x1 w1 -> acc_at tr j t x2 w2 -> ordered tr i j.
Proof.
  intros NE Ei Ej. unfold ordered. destruct (Nat.lt_ge_cases i j).
  - left. eapply hb_po_aa; eauto.
  - right. eapply hb_po_aa; eauto. lia.
Qed.

(* A location with no write among the accesses of the phase under consideration ([sh] selects the trace indices
   that are after publication) has no conflicting pair at all there. *)
Theorem immutable_sound tr x (sh : nat -> Prop) :
  (forall i t, sh i -> ~ acc_at tr i t x true) ->
  forall i j t1 t2 w1 w2, sh i -> sh j -> acc_at tr i t1 x w1 -> acc_at tr j t2 x w2 -> w1 = false /\ w2 = false.
Proof.
  intros NW i j t1 t2 w1 w2 Si Sj Ei Ej. split.
  - destruct w1; [exfalso; exact (NW _ _ Si Ei)|reflexivity].
  - destruct w2; [exfalso; exact (NW _ _ Sj Ej)|reflexivity].
Qed.

(* Publish by close.  Every write of x, and every read of x that is not after a receive, is performed by a goroutine
   that later closes c (so, by wf_close_once, by THE closing goroutine before its close); every other read is
   program-ordered after a receive-of-close on c by the reading goroutine.  Then all conflicting accesses of x
   are ordered. *)
Theorem publish_by_close_sound tr x c :
  wf tr ->
  (forall i t, acc_at tr i t x true -> exists k, i < k /\ nth_error tr k = Some (Close t c)) ->
  (forall j t, acc_at tr j t x false ->
     (exists k, j < k /\ nth_error tr k = Some (Close t c)) \/
     (exists m, m < j /\ nth_error tr m = Some (Recv t c))) ->
  forall i j t1 t2 w1 w2, i <> j -> (w1 = true \/ w2 = true) ->
    acc_at tr i t1 x w1 -> acc_at tr j t2 x w2 -> ordered tr i j.
Proof.
  intros W HW HR.
  (* classification of an access: before the close by the closer, or after a receive *)
  assert (CL : forall i t w, acc_at tr i t x w ->
            (exists k, i < k /\ nth_error tr k = Some (Close t c)) \/ (w = false /\ exists m, m < i /\ nth_error tr m = Some (Recv t c))).
  { intros i t w E. destruct w; [left; eauto|]. destruct (HR _ _ E) as [H|H]; [left; exact H|right; split; [reflexivity|exact H]]. }
  assert (PRE_POST : forall i j t1 t2 w1 w2 k m, acc_at tr i t1 x w1 -> acc_at tr j t2 x w2 ->
            i < k -> nth_error tr k = Some (Close t1 c) -> m < j -> nth_error tr m = Some (Recv t2 c) -> hb tr i j).
  { intros i j t1 t2 w1 w2 k m Ei Ej Lik Ek Lmj Em.
    destruct (wf_recv _ W _ _ _ Em) as (n & t' & Lnm & En).
    assert (n = k) by (eapply (wf_close_once _ W); eauto). subst n.
    eapply hb_trans; [apply (hb_po_ae tr i k t1 x w1 (Close t1 c)); [exact Lik|exact Ei|exact Ek|reflexivity]|].
    eapply hb_trans; [apply (hb_close tr k m t1 t2 c); [exact Lnm|exact Ek|exact Em]|].
    apply (hb_po_ea tr m j t2 x w2 (Recv t2 c)); [exact Lmj|exact Em|reflexivity|exact Ej]. }
  intros i j t1 t2 w1 w2 NE Wr Ei Ej.
  destruct (CL _ _ _ Ei) as [(k1 & L1 & K1)|(F1 & m1 & L1 & M1)];
  destruct (CL _ _ _ Ej) as [(k2 & L2 & K2)|(F2 & m2 & L2 & M2)].
  - (* both before the close: same goroutine *)
    assert (k1 = k2) by (eapply (wf_close_once _ W); eauto). subst k2.
    rewrite K1 in K2. inversion K2. subst t2. eapply confined_sound; eauto.
  - left. eapply PRE_POST; eauto.
  - right. eapply PRE_POST; eauto.
  - subst. destruct Wr; discriminate.
Qed.

(* Publish by an atomic operation (compare-and-swap of a pointer to a freshly allocated object).  t0 performs the
   publishing operation at index k on the atomic cell s.  Every write of x, and every read not covered by the
   second clause, is by t0 before k; every other read is program-ordered after an atomic operation on s that comes
   after k in the execution (the load that returned the pointer).  Then all conflicting accesses of x are ordered. *)
Theorem cas_publish_sound tr x s k t0 :
  wf tr ->
  nth_error tr k = Some (AtomicOp t0 s true) ->
  (forall i t, acc_at tr i t x true -> t = t0 /\ i < k) ->
  (forall j t, acc_at tr j t x false ->
     (t = t0 /\ j < k) \/ (exists m w, k < m /\ m < j /\ nth_error tr m = Some (AtomicOp t s w))) ->
  forall i j t1 t2 w1 w2, i <> j -> (w1 = true \/ w2 = true) ->
    acc_at tr i t1 x w1 -> acc_at tr j t2 x w2 -> ordered tr i j.
Proof.
  intros W K HW HR.
  assert (CL : forall i t w, acc_at tr i t x w ->
            (t = t0 /\ i < k) \/ (w = false /\ exists m w', k < m /\ m < i /\ nth_error tr m = Some (AtomicOp t s w'))).
  { intros i t w E. destruct w; [left; eauto|]. destruct (HR _ _ E) as [H|H]; [left; exact H|right; split; [reflexivity|exact H]]. }
  assert (PRE_POST : forall i j t2 w1 w2 m w', acc_at tr i t0 x w1 -> acc_at tr j t2 x w2 ->
            i < k -> k < m -> m < j -> nth_error tr m = Some (AtomicOp t2 s w') -> hb tr i j).
  { intros i j t2 w1 w2 m w' Ei Ej Lik Lkm Lmj Em.
    eapply hb_trans; [apply (hb_po_ae tr i k t0 x w1 (AtomicOp t0 s true)); [exact Lik|exact Ei|exact K|reflexivity]|].
    eapply hb_trans; [apply (hb_atomic tr k m t0 t2 s w'); [exact Lkm|exact K|exact Em]|].
    apply (hb_po_ea tr m j t2 x w2 (AtomicOp t2 s w')); [exact Lmj|exact Em|reflexivity|exact Ej]. }
  intros i j t1 t2 w1 w2 NE Wr Ei Ej.
  destruct (CL _ _ _ Ei) as [(T1 & L1)|(F1 & m1 & w1' & A1 & B1 & M1)];
  destruct (CL _ _ _ Ej) as [(T2 & L2)|(F2 & m2 & w2' & A2 & B2 & M2)].
  - subst. eapply confined_sound; eauto.
  - subst t1. left. eapply PRE_POST; eauto.
  - subst t2. right. eapply PRE_POST; eauto.
  - subst. destruct Wr; discriminate.
Qed.

(* Fork under a lock.  An access at i made while holding l, a fork at k > i executed while holding l, an access at j by
   the forked goroutine: i happens before j.  (Whether the fork comes after the write in the execution is a property
   of the code, not of the lock discipline: it is a hypothesis here.) *)
Theorem fork_under_lock_sound tr l i k j t1 t2 u x w1 e :
  wf tr -> i < k ->
  acc_at tr i t1 x w1 -> holds tr i l t1 ->
  nth_error tr k = Some (Fork t2 u) -> holds tr k l t2 ->
  nth_error tr j = Some e -> tid e = u ->
  hb tr i j.
Proof.
  intros W Lik Ei Hi Ek Hk Ej Tu.
  assert (Lkj : k < j) by (eapply (wf_fork _ W); eauto).
  eapply hb_trans; [|eapply (hb_fork tr k j); eauto].
  eapply (lockset_sound tr l i k); eauto.
  rewrite (acc_at_tid _ _ _ _ _ _ Ei Ei). exact Hi.
Qed.
