(* refcount: the monitors tied to the model: for ALL event lists, the monitor clauses listed in [proved] are never false on
   the model's own observations. *)
From Util Require Import Common.Base Common.ListLemmas RefCount.Model RefCount.Spec RefCount.Proofs RefCount.ProofsC08 RefCount.ProofsC08b
  RefCount.ProofsC09 RefCount.ProofsC10 RefCount.ProofsC10a RefCount.ProofsC10b RefCount.ProofsCodec RefCount.ProofsMon RefCount.ProofsMon2 RefCount.ProofsMon3
  RefCount.ProofsMon4 RefCount.ProofsMon5 RefCount.ProofsMon6 RefCount.ProofsMon7 RefCount.ProofsMonG RefCount.ProofsMon17 RefCount.ProofsMonE RefCount.ProofsMon18 RefCount.ProofsMon8 RefCount.ProofsMon9 RefCount.ProofsMon10 RefCount.ProofsMon11 RefCount.ProofsMon12 RefCount.ProofsMon13 RefCount.ProofsMon14 RefCount.ProofsMon15 RefCount.ProofsMon16.
Open Scope nat_scope.

(* the monitor restricted to a set of clauses *)
Definition mon_only (keep : nat * nat -> bool) (m : option mst) (e o : list N) : option mst * list (nat * nat) :=
  let '(m', f) := mon m e o in (m', filter keep f).

(* the clauses proved so far (property, clause); (p, 9) = the observation does not parse *)
Definition proved (pc : nat * nat) : bool :=
  match pc with
  | (8, 1) | (8, 2) | (8, 3) | (8, 4) | (8, 9) | (9, 1) | (9, 2) | (9, 3) | (9, 4) | (9, 5) | (9, 9) | (10, 1) | (10, 2) | (10, 3) | (10, 9) => true
  | _ => false
  end.

(* ... and, for the configurations with generation-unique resolver values, the Access clauses 10.4 and 10.5 *)
Definition proved_acc (pc : nat * nat) : bool :=
  proved pc || match pc with (10, 4) | (10, 5) => true | _ => false end.

(* the relation between the monitors' books and the model state *)
Record Rn (m : mst) (h : hst) : Prop := {
  rn_called : m_called m = map idn (rellog (hs h));
  rn_cur : m_cur m = cur_of (hs h);
  rn_out : Rout m (hs h);
  rn_empty : Rempty m (hs h);
  rn_inval : Rinval m (hs h);
}.
Definition R (m : mst) (h : hst) : Prop := Rproj m h /\ (hconst h = false -> Rn m h).

Lemma fails_in p c ok pc : In pc (fails p c ok) -> pc = (p, c).
Proof. unfold fails. destruct ok; [intros [] | intros [<-|[]]; reflexivity]. Qed.

Lemma judge_clauses m e p row pc : In pc (let '(_, _, _, _, f) := u_judge m e p row in f) -> fst pc = 10 /\ 4 <= snd pc <= 7.
Proof.
  unfold u_judge. destruct row as [i [[[[[acb acanc] ainv] ccb] adec] [[k r] [ccn [[[[[code v] e1] hh] f1] f2]]]]].
  destruct (negb (N.eqb k 2)); [intros []|]. intros H.
  repeat (apply in_app_or in H; destruct H as [H|H]); apply fails_in in H; subst pc; cbn; lia.
Qed.

Lemma facc_clauses m e p pc : In pc (u_facc m e p) -> fst pc = 10 /\ 4 <= snd pc <= 7.
Proof.
  unfold u_facc, u_judged. intros H. apply in_concat in H. destruct H as [l [Hl Hin]]. apply in_map_iff in Hl. destruct Hl as [j [<- Hj]].
  apply in_map_iff in Hj. destruct Hj as [row [<- _]]. exact (judge_clauses m e p row pc Hin).
Qed.

Lemma Rproj_step m h e e0 rets :
  HR h -> Rproj m h -> dec h e e0 rets ->
  Rproj (u_mst m e (pobs_of rets (settle (step repaired (hs h) e0)) (hrel h))) (fst (fin_of h (step repaired (hs h) e0) rets)).
Proof.
  intros HRh HP Hd. unfold fin_of. cbn [fst]. constructor; cbn [hs hconst u_mst m_keep m_const m_ctx m_rootc m_in m_kind m_raref m_cref m_ckind m_ccanc m_ng m_gs].
  - exact (upd_keep m h e e0 rets HP Hd).
  - exact (rp_const m h HP).
  - exact (upd_ctx m h e e0 rets HP Hd).
  - exact (upd_rootc m h e e0 rets HP Hd).
  - exact (upd_in m h e e0 rets HP Hd).
  - exact (upd_kind m h e e0 rets HP Hd).
  - apply upd_raref.
  - exact (upd_cref m h e e0 rets HP Hd).
  - exact (upd_ckind m h e e0 rets HP Hd).
  - exact (upd_ccanc m h e e0 rets HP Hd).
  - apply upd_ng.
  - apply upd_ng.
Qed.

Lemma mon_step m h e h' o :
  HR h -> R m h -> hstep h e = Some (h', o) ->
  exists m' f, mon (Some m) e o = (Some m', f) /\
    (forall pc, In pc f -> proved pc = false) /\ R m' h' /\ HR h' /\ hconst h' = hconst h.
Proof.
  intros HRh [HP HN] H. destruct (hstep_dec h e h' o H) as [e0 [rets [Hd Hfin]]].
  assert (Eh : h' = fst (fin_of h (step repaired (hs h) e0) rets)) by (now rewrite <- Hfin).
  assert (Eo : o = obs_of rets (settle (step repaired (hs h) e0)) (hrel h)) by (unfold fin_of in Hfin; now inversion Hfin).
  assert (Hr : length rets = nrets e) by (destruct Hd; reflexivity).
  set (p := pobs_of rets (settle (step repaired (hs h) e0)) (hrel h)).
  unfold mon. rewrite Eo, (parse_obs e rets _ _ Hr). fold p. rewrite mon1_eq.
  eexists _, _. split; [reflexivity|]. split; [|split; [|split]].
  - intros pc Hin. rewrite (clause_10_8 p rets _ _ eq_refl), app_nil_r in Hin. apply in_app_or in Hin. destruct Hin as [Hin|Hin].
    2:{ destruct (facc_clauses m e p pc Hin) as [A B].
        destruct pc as [a b]. cbn in A, B. subst a. destruct b as [|[|[|[|[|[|[|[|b]]]]]]]]; try reflexivity; exfalso; lia. }
    rewrite (rp_const m h HP) in Hin. destruct (hconst h) eqn:Hc; [destruct Hin|]. destruct (HN eq_refl) as [Hcalled Hcur Hout Hem Hinv].
    unfold u_all in Hin. unfold p in Hin.
    rewrite (clause_8_1 m h e e0 rets HRh Hd Hc Hcalled), (clause_8_2 h e e0 rets HRh Hd Hc), (clause_8_3 m h e e0 rets HRh HP Hd Hc),
      (clause_8_4 m h e e0 rets HRh HP Hd Hc Hout Hcur Hem), (clause_9_3 m h e e0 rets HRh HP Hd Hc Hcur Hem),
      (clause_9_1 h e e0 rets HRh Hd), (clause_9_2 h e e0 rets HRh Hd), (clause_9_4 m h e e0 rets HRh HP Hd Hc Hcur),
      (clause_9_5 m h e e0 rets HRh HP Hd Hc), (clause_10_1 m h e e0 rets HRh HP Hd Hc),
      (clause_10_2 h e e0 rets HRh Hd), (clause_10_3 m h e e0 rets HRh HP Hd Hc Hcur Hem Hinv) in Hin.
    destruct Hin.
  - rewrite Eh. split; [exact (Rproj_step m h e e0 rets HRh HP Hd)|]. unfold fin_of. cbn [fst hs hconst]. intros Hc. destruct (HN Hc) as [Hcalled Hcur Hout Hem Hinv].
    constructor; cbn [hs].
    + exact (upd_called m h e0 rets HRh Hc Hcalled).
    + exact (upd_cur_c m h e e0 rets (HR_HRc h HRh Hc) HP Hd Hcur Hem).
    + exact (upd_out m h e e0 rets HRh Hd Hc Hout).
    + exact (upd_empty m h e e0 rets (HR_HRc h HRh Hc) Hd Hem).
    + exact (upd_inval m h e e0 rets HRh HP Hd Hc Hcur Hem Hinv).
  - rewrite Eh. exact (HR_step h e e0 rets HRh Hd).
  - rewrite Eh. reflexivity.
Qed.

Lemma filter_none {A} (P : A -> bool) (l : list A) : (forall x, In x l -> P x = false) -> filter P l = [].
Proof.
  induction l as [|a l IH]; intros H; [reflexivity|]. cbn [filter]. rewrite (H a (or_introl eq_refl)). apply IH. intros x Hx. apply H. now right.
Qed.

Lemma mon_only_nil m h e h' o :
  HR h -> R m h -> hstep h e = Some (h', o) -> exists m', mon_only proved (Some m) e o = (Some m', []) /\ R m' h' /\ HR h'.
Proof.
  intros HRh HRm H. destruct (mon_step m h e h' o HRh HRm H) as [m' [f [Em [Hf [HR' [HH' _]]]]]].
  exists m'. split; [|split; assumption]. unfold mon_only. rewrite Em. f_equal. apply filter_none. intros pc Hpc. apply (Hf pc Hpc).
Qed.

Theorem model_satisfies_monitors_gen evs : forall h m i rep, HR h -> R m h ->
  monitor (mon_only proved) i (Some m) rep evs (run_obs step_opt (Some h) evs) = [].
Proof.
  induction evs as [|e evs IH]; intros h m i rep Hh Hm; [reflexivity|].
  cbn [run_obs step_opt]. destruct (hstep h e) as [[h' o]|] eqn:E; [|reflexivity].
  destruct (mon_only_nil m h e h' o Hh Hm E) as [m' [Em [Hm' Hh']]].
  cbn [monitor]. rewrite Em. cbn [filter map app]. apply IH; assumption.
Qed.

Lemma Rn_init m h :
  m_called m = [] -> m_cur m = None -> m_out m = [] -> m_empty m = [] -> m_emptyok m = [] -> m_inval m = [] ->
  rellog (hs h) = [] -> resolved (hs h) = false -> gs (hs h) = [] -> Rn m h.
Proof.
  intros E1 E2 E3 E4 E4' E5 F1 F2 F3. constructor.
  - now rewrite E1, F1.
  - unfold cur_of. now rewrite E2, F2.
  - intros g Hg. rewrite E3 in Hg. discriminate.
  - constructor; constructor.
    + intros g Hg. rewrite E4 in Hg. discriminate.
    + intros i v hr e [x [Hx _]]. rewrite F3 in Hx. destruct i; discriminate.
    + intros Er. congruence.
    + intros g Hg. rewrite E4' in Hg. discriminate.
    + intros i v hr e [x [Hx _]]. rewrite F3 in Hx. destruct i; discriminate.
    + intros Er. congruence.
  - intros c Hcn. rewrite E5 in Hcn. destruct c; discriminate.
Qed.

Lemma R_init cfg h m : hinit cfg = Some h -> minit cfg = Some m -> R m h.
Proof.
  unfold hinit, minit. intros Hh Hm.
  destruct cfg as [|k [|c [|? ?]]]; try discriminate; inversion Hh; inversion Hm; subst h m;
    (split; [constructor; reflexivity | intros _; apply Rn_init; reflexivity]).
Qed.

(* for every configuration the codec accepts and every event list: on the observations the model itself produces (eager
   schedule of Spec.hstep; the run stops at the first event the model does not accept) none of the [proved] clauses is false *)
Theorem model_satisfies_monitors_clauses cfg evs :
  monitor (mon_only proved) 0 (minit cfg) [] evs (run_obs step_opt (hinit cfg) evs) = [].
Proof.
  destruct (hinit cfg) as [h|] eqn:Eh.
  - destruct (minit cfg) as [m|] eqn:Em.
    + apply model_satisfies_monitors_gen; [exact (HR_init cfg h Eh) | exact (R_init cfg h m Eh Em)].
    + exfalso. unfold hinit, minit in *. destruct cfg as [|k [|c [|? ?]]]; discriminate.
  - destruct evs; reflexivity.
Qed.

Lemma list_eqb_refl l : list_eqb l l = true.
Proof. induction l as [|x t IH]; [reflexivity|]. cbn [list_eqb]. now rewrite N.eqb_refl, IH. Qed.

Lemma replay_own evs : forall s i, length (run_obs step_opt s evs) = length evs -> replay step_opt i s evs (run_obs step_opt s evs) = [].
Proof.
  induction evs as [|e evs IH]; intros s i Hl; [reflexivity|]. cbn [run_obs replay] in *.
  destruct (step_opt s e) as [[s' o]|]; [|discriminate Hl]. cbn [length] in Hl. rewrite list_eqb_refl. apply IH. lia.
Qed.

(* hence the extracted checker, with the monitors restricted to the proved clauses, reports nothing at all on any history that
   the model accepts completely *)
Theorem model_run_check_clean_clauses cfg evs :
  length (run_obs step_opt (hinit cfg) evs) = length evs ->
  run_check step_opt (mon_only proved) (hinit cfg) (minit cfg) evs (run_obs step_opt (hinit cfg) evs) = [].
Proof. intros Hl. unfold run_check. rewrite (replay_own evs _ 0 Hl), model_satisfies_monitors_clauses. reflexivity. Qed.
