(* refcount: the monitors tied to the model, part 3: what one model event and the eager schedule do to the projections of the
   state the monitors keep books on (membership and kind of the references, kind / reference / cancellation of the
   consumers, context, cancelled root contexts, release log). *)
From Util Require Import Common.Base Common.ListLemmas RefCount.Model RefCount.Spec RefCount.Proofs RefCount.ProofsC08 RefCount.ProofsC08b
  RefCount.ProofsC09 RefCount.ProofsC10 RefCount.ProofsC10a RefCount.ProofsC10b RefCount.ProofsMon.
Open Scope nat_scope.

(* ------------------------------------------------------------------ *)
(* lists *)
Lemma map_ext_nth {A B} (f : A -> B) (l l' : list A) d :
  length l' = length l -> (forall i, f (nth i l' d) = f (nth i l d)) -> map f l' = map f l.
Proof.
  intros HL H. apply (nth_ext _ _ (f d) (f d)); [now rewrite !map_length|].
  intros i _. rewrite !map_nth. apply H.
Qed.

Lemma map_set_nth_keep {A B} (f : A -> B) (l : list A) c y d :
  (c < length l -> f y = f (nth c l d)) -> map f (set_nth l c y) = map f l.
Proof.
  intros H. destruct (Nat.lt_ge_cases c (length l)) as [Hl|Hl]; [|now rewrite set_nth_oob].
  apply (map_ext_nth f _ _ d); [apply length_set_nth|]. intros i. destruct (Nat.eq_dec i c) as [->|Hne].
  - rewrite nth_set_nth_same by exact Hl. auto.
  - now rewrite nth_set_nth_other.
Qed.

(* ------------------------------------------------------------------ *)
(* the views *)
Definition kfr (s : st) := (kctx s, keep s, rootc s).
Record view := { v_rin : list bool; v_rkind : list cbkind; v_ck : list ckind; v_cref : list nat; v_ccanc : list bool }.
Definition vw (s : st) : view :=
  {| v_rin := map rin (refs s); v_rkind := map rkind (refs s); v_ck := map ck (conss s); v_cref := map cref (conss s);
     v_ccanc := map ccanc (conss s) |}.

Lemma fp_vw s s' : fp s s' -> vw s' = vw s /\ map cpcv (conss s') = map cpcv (conss s) /\ relacts s' = relacts s.
Proof.
  intros [A1 [A2 [A3 [A4 [A5 A6]]]]]. split; [|split; [|exact A1]].
  - unfold vw. f_equal.
    + apply (map_ext_nth rin _ _ ref0 A2). intros i. apply (A4 i).
    + apply (map_ext_nth rkind _ _ ref0 A2). intros i. apply (A4 i).
    + apply (map_ext_nth ck _ _ cons0 A3). intros i. apply (A5 i).
    + apply (map_ext_nth cref _ _ cons0 A3). intros i. apply (A5 i).
    + apply (map_ext_nth ccanc _ _ cons0 A3). intros i. apply (A5 i).
  - apply (map_ext_nth cpcv _ _ cons0 A3). intros i. apply (A5 i).
Qed.

Lemma fp_start_resolve s : fp s (start_resolve s).
Proof. apply (S_start_resolve (fp s) (fp_Qext s) (fp_Qinv s)). apply fp_refl. Qed.
Lemma fp_shutdown s : fp s (shutdown s).
Proof. apply (S_shutdown (fp s) (fp_Qext s) (fp_Qinv s)). apply fp_refl. Qed.
Lemma fp_container s e :
  match e with ESetCtx _ | EReleased _ | EAsync _ | EProceed _ _ | EResReturn _ _ _ _ | EStore _ => True | _ => False end ->
  fp s (step repaired s e).
Proof. intros He. apply (S_step_container (fp s) (fp_Qext s) (fp_Qinv s) s e He). apply fp_refl. Qed.

(* context, keep flag, cancelled roots *)
Lemma kfr_invoke s r n : kfr (invoke s r n) = kfr s.
Proof. destruct (rest_fields s _ (rest_invoke s r n)) as [A [B [_ [_ [_ [_ [_ [_ [_ [_ [_ [_ [_ [_ [_ [_ C]]]]]]]]]]]]]]]]. unfold kfr. now rewrite A, B, C. Qed.
Lemma kfr_shutdown s : kfr (shutdown s) = kfr s.
Proof. destruct (shutdown_spec s) as [A [B [_ [_ [_ [_ [_ [_ [_ [_ [_ [_ [_ [_ [_ [_ C]]]]]]]]]]]]]]]]. unfold kfr. now rewrite A, B, C. Qed.
Lemma kfr_start_resolve s : kfr (start_resolve s) = kfr s.
Proof.
  unfold start_resolve. pose proof (kfr_shutdown s) as H. set (s1 := shutdown s) in *.
  destruct (Nat.eqb (kctx s1) 0 || Nat.eqb (nrefs s1) 0); exact H.
Qed.
Lemma kfr_add_ref s k : kfr (add_ref repaired s k) = kfr s.
Proof.
  unfold add_ref. set (s1 := set_refs s _). change (kfr s) with (kfr s1).
  destruct (Nat.eqb (nrefs s1) 1 && negb (resolved s1)); [apply kfr_start_resolve|].
  destruct (resolved s1); [|reflexivity]. destruct k; cbn [fx_nilcb repaired]; try reflexivity; apply kfr_invoke.
Qed.
Lemma kfr_remove_ref s r : kfr (remove_ref s r) = kfr s.
Proof.
  unfold remove_ref. destruct (nth_error (refs s) r) as [x|]; [|reflexivity]. destruct (rin x); [|reflexivity].
  set (s1 := set_refs s _). change (kfr s) with (kfr s1). destruct (Nat.eqb (nrefs s1) 0 && _); [apply kfr_shutdown | reflexivity].
Qed.
Lemma kfr_release_call_by s r oc : kfr (fst (release_call_by s r oc)) = kfr s.
Proof. unfold release_call_by. destruct (nth_error (refs s) r) as [x|]; [|reflexivity]. destruct (rflag x); reflexivity. Qed.
Lemma kfr_cons_fail s c x e : kfr (cons_fail s c x e) = kfr s.
Proof.
  unfold cons_fail. pose proof (kfr_release_call_by (setc s c (with_cpc x (CRel e))) (cref x) (Some c)) as G.
  destruct (release_call_by (setc s c (with_cpc x (CRel e))) (cref x) (Some c)) as [s1 parked]. cbn [fst] in G. destruct parked; exact G.
Qed.
Lemma kfr_acc_ret s c x e : kfr (acc_ret s c x e) = kfr s.
Proof.
  unfold acc_ret. pose proof (kfr_release_call_by (setc s c (with_cpc x (CRel e))) (cref x) (Some c)) as G.
  destruct (release_call_by (setc s c (with_cpc x (CRel e))) (cref x) (Some c)) as [s1 parked]. cbn [fst] in G. destruct parked; exact G.
Qed.
Lemma kfr_acc_s1 s c x : kfr (acc_s1 s c x) = kfr s.
Proof.
  unfold acc_s1. destruct (negb (Nat.eqb (ac_err x) 0)); [apply kfr_acc_ret|].
  destruct (ac_res x); [reflexivity|]. destruct (ccanc x); [apply kfr_acc_ret | reflexivity].
Qed.
Lemma kfr_cons_step s c : kfr (cons_step s c) = kfr s.
Proof.
  unfold cons_step. destruct (nth_error (conss s) c) as [x|]; [|reflexivity].
  destruct (ck x), (cpcv x); try reflexivity; try apply kfr_acc_s1.
  3:{ destruct (negb (Nat.eqb (ac_nonce x) (ac_snap x))); [apply kfr_acc_s1|]. destruct (ccanc x); [apply kfr_acc_ret | reflexivity]. }
  - destruct (cw_res x) as [[v e]|]; [destruct (Nat.eqb e 0); [reflexivity | apply kfr_cons_fail] | destruct (ccanc x); [apply kfr_cons_fail | reflexivity]].
  - destruct (ww_prom x) as [[v e]|]; [destruct (Nat.eqb e 0); [reflexivity | apply kfr_cons_fail] | destruct (ccanc x); [apply kfr_cons_fail | reflexivity]].
Qed.
Lemma kfr_cb_return fx s c res : kfr (cb_return fx s c res) = kfr s.
Proof.
  unfold cb_return. destruct (nth_error (conss s) c) as [x|]; [|reflexivity].
  destruct (ck x); try reflexivity. destruct (cpcv x); try reflexivity.
  destruct (ccanc x); [apply kfr_acc_ret|].
  match goal with |- _ (if ?b then _ else _) = _ => destruct b end; [apply kfr_acc_ret | reflexivity].
Qed.
Lemma kfr_proceed s g en : kfr (proceed repaired s g en) = kfr s.
Proof.
  unfold proceed. destruct (nth_error (gs s) g) as [x|]; [|reflexivity].
  destruct (gpcv x); try reflexivity.
  - destruct (gwait x); [|reflexivity]. destruct (pred_done s x && gcanc x); [destruct en; reflexivity|].
    destruct (pred_done s x); [reflexivity|]. destruct (gcanc x); reflexivity.
  - destruct (pred_done s x || gcanc x); [|reflexivity].
    destruct (gwait x); [|reflexivity]. destruct (pred_done s x && gcanc x); [destruct en; reflexivity|].
    destruct (pred_done s x); [reflexivity|]. destruct (gcanc x); reflexivity.
  - destruct (pred_done s x); reflexivity.
Qed.
Lemma kfr_store s g : kfr (store s g) = kfr s.
Proof.
  unfold store. destruct (nth_error (gs s) g) as [x|]; [|reflexivity]. destruct (gpcv x); try reflexivity.
  set (s0 := setg s g (with_gpc x GDone)). destruct (negb (Nat.eqb (nonce s0) (gnonce x))); [destruct hasrel; reflexivity|].
  match goal with |- kfr (call_cbs ?a ?n) = _ =>
    destruct (rest_fields a _ (rest_call_cbs a n)) as [A [B [_ [_ [_ [_ [_ [_ [_ [_ [_ [_ [_ [_ [_ [_ C]]]]]]]]]]]]]]]]; unfold kfr; rewrite A, B, C end.
  destruct (Nat.eqb e 0); reflexivity.
Qed.

Lemma cancel_root_kfr s c : kctx (cancel_root s c) = kctx s /\ keep (cancel_root s c) = keep s /\ rootc (cancel_root s c) = c :: rootc s.
Proof.
  apply (cancel_root_ind (fun s0 => kctx s0 = kctx s /\ keep s0 = keep s /\ rootc s0 = c :: rootc s)).
  - intros s0 og H. destruct (cancel_g_rest s0 og) as [G1 [G2 [_ [_ [_ [_ [_ [_ [_ [_ [_ [_ [_ [_ [_ [_ [_ [_ G19]]]]]]]]]]]]]]]]]].
    now rewrite G1, G2, G19.
  - repeat split; reflexivity.
Qed.

(* one model event: context, keep flag and cancelled roots *)
Lemma step_kfr s e :
  kfr (step repaired s e) =
  match e with
  | ESetCtx c => (c, keep s, rootc s)
  | ECancelRoot c => if Nat.eqb c 0 then kfr s else (kctx s, keep s, c :: rootc s)
  | _ => kfr s
  end.
Proof.
  destruct e; cbn [step].
  - unfold set_context. destruct (Nat.eqb_spec (kctx s) c) as [E|E]; cbn [fst]; [unfold kfr; now rewrite E|]. now rewrite kfr_start_resolve.
  - apply kfr_add_ref.
  - destruct (rkind (nth r (refs s) ref0)); try reflexivity; apply kfr_release_call_by.
  - unfold release_section. destruct (nth_error (relacts s) a) as [x|]; [|reflexivity]. destruct (ra_pc x); [|reflexivity].
    set (s1 := remove_ref _ (ra_ref x)). assert (E : kfr s1 = kfr s) by (unfold s1; now rewrite kfr_remove_ref).
    destruct (ra_cons x) as [c|]; [|exact E]. destruct (cpcv (getc s1 c)); exact E.
  - destruct (nth_error (gs s) g) as [x|]; [|reflexivity]. unfold released_section.
    destruct (Nat.eqb (nonce s) (gnonce x)); [apply kfr_start_resolve | reflexivity].
  - unfold async_section. destruct (nth_error (asyncs s) a) as [x|]; [|reflexivity]. destruct (as_pc x); [|reflexivity].
    unfold released_section. set (sa := set_asyncs s _). destruct (Nat.eqb (nonce sa) (as_nonce x)); [now rewrite kfr_start_resolve | reflexivity].
  - apply kfr_proceed.
  - unfold resolver_return. destruct (nth_error (gs s) g) as [x|]; [|reflexivity]. destruct (gpcv x); reflexivity.
  - apply kfr_store.
  - unfold start_consumer. now rewrite kfr_add_ref.
  - apply kfr_cons_step.
  - destruct (nth_error (conss s) c); reflexivity.
  - unfold fire_section. destruct (nth_error (conss s) c) as [x|]; [|reflexivity]. destruct (ww_firepc x) as [[|]|]; try reflexivity.
    now rewrite kfr_remove_ref.
  - apply kfr_cb_return.
  - destruct (Nat.eqb c 0); [reflexivity|]. destruct (cancel_root_kfr s c) as [A [B C]]. unfold kfr. now rewrite A, B, C.
  - destruct (watch_step_spec s c) as [->|[x [y [_ [-> _]]]]]; reflexivity.
Qed.

Lemma internal_kfr e s : internal_ev e -> kfr (step repaired s e) = kfr s.
Proof. intros H. rewrite step_kfr. destruct e; try contradiction; reflexivity. Qed.

Lemma run_internal (P : st -> Prop) es : forall s,
  Forall internal_ev es -> (forall s0 e, internal_ev e -> P s0 -> P (step repaired s0 e)) -> P s -> P (run repaired s es).
Proof.
  induction es as [|e es IH]; intros s F Hs H; [exact H|]. inversion F; subst. rewrite run_cons. apply IH; auto.
Qed.

Lemma settle_kfr s : kfr (settle s) = kfr s.
Proof.
  destruct (settle_run s) as [es [-> F]]. apply (run_internal (fun s0 => kfr s0 = kfr s)); auto.
  intros s0 e He H. now rewrite internal_kfr.
Qed.

(* ------------------------------------------------------------------ *)
(* one model event: references and consumers *)
Definition vw_rem (v : view) (r : nat) : view :=
  {| v_rin := set_nth (v_rin v) r false; v_rkind := v_rkind v; v_ck := v_ck v; v_cref := v_cref v; v_ccanc := v_ccanc v |}.
Definition vw_addref (v : view) (k : cbkind) : view :=
  {| v_rin := v_rin v ++ [true]; v_rkind := v_rkind v ++ [k]; v_ck := v_ck v; v_cref := v_cref v; v_ccanc := v_ccanc v |}.

Lemma vw_ext s s' : refs s' = refs s -> conss s' = conss s -> vw s' = vw s.
Proof. intros E1 E2. unfold vw. now rewrite E1, E2. Qed.

Lemma vw_add_ref s k : vw (add_ref repaired s k) = vw_addref (vw s) k.
Proof.
  assert (F : fp (set_refs s (refs s ++ [newref k])) (add_ref repaired s k)).
  { apply (S_add_ref (fp (set_refs s (refs s ++ [newref k]))) (fp_Qext _) (fp_Qinv _)). apply fp_refl. }
  destruct (fp_vw _ _ F) as [-> _]. unfold vw, vw_addref. cbn [refs conss set_refs v_rin v_rkind v_ck v_cref v_ccanc].
  now rewrite !map_app.
Qed.

Lemma vw_remove_ref s r : vw (remove_ref s r) = vw_rem (vw s) r.
Proof.
  assert (Hsame : forall x, nth_error (refs s) r = Some x -> rin x = false -> vw_rem (vw s) r = vw s).
  { intros x Hx Hin. unfold vw_rem, vw. cbn [v_rin v_rkind v_ck v_cref v_ccanc]. f_equal.
    rewrite <- Hin. apply set_nth_same_val. now apply nth_error_map_some. }
  unfold remove_ref. destruct (nth_error (refs s) r) as [x|] eqn:Ex.
  2:{ unfold vw_rem, vw. cbn [v_rin v_rkind v_ck v_cref v_ccanc]. f_equal. rewrite set_nth_oob; [reflexivity|].
      rewrite map_length. now apply nth_error_None. }
  destruct (rin x) eqn:Ein; [|symmetry; now apply (Hsame x)].
  set (y := {| rin := false; rflag := rflag x; rkind := rkind x; rlast := rlast x |}).
  set (s1 := set_refs s (set_nth (refs s) r y)).
  assert (E1 : vw s1 = vw_rem (vw s) r).
  { unfold vw, vw_rem, s1. cbn [refs conss set_refs v_rin v_rkind v_ck v_cref v_ccanc]. f_equal.
    - now rewrite map_set_nth.
    - apply (map_set_nth_keep rkind _ _ _ ref0). intros _. now rewrite (nth_error_nth_d _ _ ref0 _ Ex). }
  destruct (Nat.eqb (nrefs s1) 0 && _); [|exact E1]. destruct (fp_vw _ _ (fp_shutdown s1)) as [-> _]. exact E1.
Qed.

Lemma vw_release_call_by s r oc : vw (fst (release_call_by s r oc)) = vw s.
Proof.
  unfold release_call_by. destruct (nth_error (refs s) r) as [x|] eqn:Ex; [|reflexivity]. destruct (rflag x); [reflexivity|].
  cbn [fst]. unfold vw. cbn [refs conss set_relacts set_refs]. f_equal.
  - apply (map_set_nth_keep rin _ _ _ ref0). intros _. now rewrite (nth_error_nth_d _ _ ref0 _ Ex).
  - apply (map_set_nth_keep rkind _ _ _ ref0). intros _. now rewrite (nth_error_nth_d _ _ ref0 _ Ex).
Qed.

Lemma vw_setc_keep s c y : ck y = ck (getc s c) -> cref y = cref (getc s c) -> ccanc y = ccanc (getc s c) -> vw (setc s c y) = vw s.
Proof.
  intros K1 K2 K3. unfold vw. rewrite refs_setc, conss_setc. unfold getc in *. f_equal.
  - apply (map_set_nth_keep ck _ _ _ cons0). auto.
  - apply (map_set_nth_keep cref _ _ _ cons0). auto.
  - apply (map_set_nth_keep ccanc _ _ _ cons0). auto.
Qed.

Lemma getc_x s c x : nth_error (conss s) c = Some x -> getc s c = x.
Proof. intros H. unfold getc. now apply nth_error_nth. Qed.

Lemma vw_own_release s c x p e' :
  nth_error (conss s) c = Some x -> ck p = ck x -> cref p = cref x -> ccanc p = ccanc x ->
  vw (let '(s1, parked) := release_call_by (setc s c (with_cpc p (CRel e'))) (cref p) (Some c) in
      if parked then s1 else setc s1 c (with_cpc p (CRet 0 e' false))) = vw s /\
  vw (let '(s1, parked) := release_call_by (setc s c (with_cpc p (CRel e'))) (cref p) (Some c) in
      if parked then s1 else setc s1 c (with_cpc p (CAccRet e'))) = vw s.
Proof.
  intros Hx K1 K2 K3. pose proof (getc_x s c x Hx) as Eg.
  assert (E0 : vw (setc s c (with_cpc p (CRel e'))) = vw s) by (apply vw_setc_keep; rewrite Eg; cbn; auto).
  pose proof (vw_release_call_by (setc s c (with_cpc p (CRel e'))) (cref p) (Some c)) as G.
  pose proof (conss_release_call_by (setc s c (with_cpc p (CRel e'))) (cref p) (Some c)) as Gc.
  destruct (release_call_by (setc s c (with_cpc p (CRel e'))) (cref p) (Some c)) as [s1 parked]. cbn [fst] in G, Gc.
  assert (Hl : c < length (conss s)) by (eapply nth_error_nth_len; eauto).
  assert (Eg1 : getc s1 c = with_cpc p (CRel e')) by (unfold getc; rewrite Gc, conss_setc; now apply nth_set_nth_same).
  destruct parked; [split; congruence|].
  split; (rewrite vw_setc_keep; [congruence | rewrite Eg1; reflexivity..]).
Qed.

Lemma vw_cons_fail s c x e' : nth_error (conss s) c = Some x -> vw (cons_fail s c x e') = vw s.
Proof. intros Hx. unfold cons_fail. now apply (vw_own_release s c x x e' Hx). Qed.

Lemma vw_acc_ret s c x y e' : nth_error (conss s) c = Some x -> ck y = ck x -> cref y = cref x -> ccanc y = ccanc x -> vw (acc_ret s c y e') = vw s.
Proof. intros Hx K1 K2 K3. unfold acc_ret. now apply (vw_own_release s c x y e' Hx). Qed.

Lemma vw_acc_s1 s c x : nth_error (conss s) c = Some x -> vw (acc_s1 s c x) = vw s.
Proof.
  intros Hx. pose proof (getc_x s c x Hx) as Eg. unfold acc_s1.
  destruct (negb (Nat.eqb (ac_err x) 0)); [apply (vw_acc_ret s c x); auto|].
  destruct (ac_res x); [apply vw_setc_keep; rewrite Eg; reflexivity|].
  destruct (ccanc x); [apply (vw_acc_ret s c x); auto | apply vw_setc_keep; rewrite Eg; reflexivity].
Qed.

Lemma vw_cons_step s c : vw (cons_step s c) = vw s.
Proof.
  unfold cons_step. destruct (nth_error (conss s) c) as [x|] eqn:Ex; [|reflexivity]. pose proof (getc_x s c x Ex) as Eg.
  destruct (ck x), (cpcv x); try reflexivity; try (now apply vw_acc_s1).
  3:{ destruct (negb (Nat.eqb (ac_nonce x) (ac_snap x))); [now apply vw_acc_s1|]. destruct (ccanc x); [apply (vw_acc_ret s c x); auto | reflexivity]. }
  - destruct (cw_res x) as [[v e]|]; [destruct (Nat.eqb e 0); [apply vw_setc_keep; rewrite Eg; reflexivity | now apply vw_cons_fail]
                                     | destruct (ccanc x); [now apply vw_cons_fail | reflexivity]].
  - destruct (ww_prom x) as [[v e]|]; [destruct (Nat.eqb e 0); [apply vw_setc_keep; rewrite Eg; reflexivity | now apply vw_cons_fail]
                                      | destruct (ccanc x); [now apply vw_cons_fail | reflexivity]].
Qed.

Lemma vw_cb_return fx s c res : vw (cb_return fx s c res) = vw s.
Proof.
  unfold cb_return. destruct (nth_error (conss s) c) as [x|] eqn:Ex; [|reflexivity]. pose proof (getc_x s c x Ex) as Eg.
  destruct (ck x); try reflexivity. destruct (cpcv x); try reflexivity.
  destruct (ccanc x); [apply (vw_acc_ret s c x); auto|].
  match goal with |- _ (if ?b then _ else _) = _ => destruct b end; [apply (vw_acc_ret s c x); auto | apply vw_setc_keep; rewrite Eg; reflexivity].
Qed.

Definition vw_newcons (v : view) (k : ckind) : view :=
  {| v_rin := v_rin v ++ [true]; v_rkind := v_rkind v ++ [ref_of_kind k (length (v_ck v))]; v_ck := v_ck v ++ [k];
     v_cref := v_cref v ++ [length (v_rin v)]; v_ccanc := v_ccanc v ++ [false] |}.
Definition vw_cancel (v : view) (c : nat) : view :=
  {| v_rin := v_rin v; v_rkind := v_rkind v; v_ck := v_ck v; v_cref := v_cref v; v_ccanc := set_nth (v_ccanc v) c true |}.

Lemma step_vw s e :
  vw (step repaired s e) =
  match e with
  | EAddRef k => vw_addref (vw s) (kind_of k)
  | ERelSect a => match nth_error (relacts s) a with
                  | Some x => match ra_pc x with RGate => vw_rem (vw s) (ra_ref x) | RDone => vw s end
                  | None => vw s
                  end
  | EStartCons k => vw_newcons (vw s) (match k with 0 => CKWait | 1 => CKWwr | _ => CKAccess end)
  | EConsCancel c => vw_cancel (vw s) c
  | EFire c => match nth_error (conss s) c with
               | Some x => match ww_firepc x with Some RGate => vw_rem (vw s) (cref x) | _ => vw s end
               | None => vw s
               end
  | _ => vw s
  end.
Proof.
  destruct e; try (match goal with |- vw (step repaired s ?e0) = _ => exact (proj1 (fp_vw s _ (fp_container s e0 I))) end); cbn [step].
  - apply vw_add_ref.
  - destruct (rkind (nth r (refs s) ref0)); try reflexivity; apply vw_release_call_by.
  - unfold release_section. destruct (nth_error (relacts s) a) as [x|]; [|reflexivity]. destruct (ra_pc x); [|reflexivity].
    set (sa := set_relacts s _). set (s1 := remove_ref sa (ra_ref x)).
    assert (E : vw s1 = vw_rem (vw s) (ra_ref x)) by (unfold s1; rewrite vw_remove_ref; reflexivity).
    destruct (ra_cons x) as [c|]; [|exact E]. destruct (cpcv (getc s1 c)) eqn:Ep; try exact E.
    rewrite <- E. change (set_conss s1 (set_nth (conss s1) c ?y)) with (setc s1 c y). apply vw_setc_keep; reflexivity.
  - unfold start_consumer. rewrite vw_add_ref. unfold vw_addref, vw_newcons, vw. cbn [refs conss set_conss v_rin v_rkind v_ck v_cref v_ccanc].
    rewrite !map_app, !map_length. cbn [map new_cons ck cref ccanc]. destruct k as [|[|k]]; reflexivity.
  - apply vw_cons_step.
  - destruct (nth_error (conss s) c) as [x|] eqn:Ex.
    + unfold vw, vw_cancel. rewrite refs_setc, conss_setc. cbn [v_rin v_rkind v_ck v_cref v_ccanc]. pose proof (getc_x s c x Ex) as Eg. unfold getc in Eg. f_equal.
      * apply (map_set_nth_keep ck _ _ _ cons0). intros _. now rewrite Eg.
      * apply (map_set_nth_keep cref _ _ _ cons0). intros _. now rewrite Eg.
      * now rewrite map_set_nth.
    + unfold vw_cancel, vw. cbn [v_rin v_rkind v_ck v_cref v_ccanc]. f_equal. rewrite set_nth_oob; [reflexivity|].
      rewrite map_length. now apply nth_error_None.
  - unfold fire_section. destruct (nth_error (conss s) c) as [x|] eqn:Ex; [|reflexivity]. destruct (ww_firepc x) as [[|]|]; try reflexivity.
    rewrite vw_remove_ref. f_equal. apply vw_setc_keep; rewrite (getc_x s c x Ex); reflexivity.
  - apply vw_cb_return.
  - destruct (Nat.eqb c 0); [reflexivity|]. destruct (cancel_root_frame s c) as [E1 [_ [E3 _]]]. now apply vw_ext.
  - destruct (watch_step_spec s c) as [->|[x [y [Hx [-> Hy]]]]]; [reflexivity|]. wsplit Hy. apply vw_setc_keep; rewrite (getc_x s c x Hx); assumption.
Qed.

Lemma internal_vw e s : internal_ev e -> vw (step repaired s e) = vw s.
Proof. intros H. rewrite step_vw. destruct e; try contradiction; reflexivity. Qed.

Lemma settle_vw s : vw (settle s) = vw s.
Proof.
  destruct (settle_run s) as [es [-> F]]. apply (run_internal (fun s0 => vw s0 = vw s)); auto.
  intros s0 e He H. now rewrite internal_vw.
Qed.

(* ------------------------------------------------------------------ *)
(* anything that consumer bookkeeping, reference flags and release actors do not touch is untouched by a consumer's steps *)
Section ConsFrame.
  Context {A : Type}.
  Variable f : st -> A.
  Hypothesis f_conss : forall s x, f (set_conss s x) = f s.
  Hypothesis f_refs : forall s x, f (set_refs s x) = f s.
  Hypothesis f_relacts : forall s x, f (set_relacts s x) = f s.

  Lemma cf_setc s c y : f (setc s c y) = f s. Proof. apply f_conss. Qed.
  Lemma cf_release_call_by s r oc : f (fst (release_call_by s r oc)) = f s.
  Proof.
    unfold release_call_by. destruct (nth_error (refs s) r) as [x|]; [|reflexivity]. destruct (rflag x); [reflexivity|].
    cbn [fst]. now rewrite f_relacts, f_refs.
  Qed.
  Lemma cf_cons_fail s c x e : f (cons_fail s c x e) = f s.
  Proof.
    unfold cons_fail. pose proof (cf_release_call_by (setc s c (with_cpc x (CRel e))) (cref x) (Some c)) as G.
    destruct (release_call_by (setc s c (with_cpc x (CRel e))) (cref x) (Some c)) as [s1 parked]. cbn [fst] in G.
    destruct parked; rewrite ?cf_setc, G; apply cf_setc.
  Qed.
  Lemma cf_acc_ret s c x e : f (acc_ret s c x e) = f s.
  Proof.
    unfold acc_ret. pose proof (cf_release_call_by (setc s c (with_cpc x (CRel e))) (cref x) (Some c)) as G.
    destruct (release_call_by (setc s c (with_cpc x (CRel e))) (cref x) (Some c)) as [s1 parked]. cbn [fst] in G.
    destruct parked; rewrite ?cf_setc, G; apply cf_setc.
  Qed.
  Lemma cf_acc_s1 s c x : f (acc_s1 s c x) = f s.
  Proof.
    unfold acc_s1. destruct (negb (Nat.eqb (ac_err x) 0)); [apply cf_acc_ret|].
    destruct (ac_res x); [apply cf_setc|]. destruct (ccanc x); [apply cf_acc_ret | apply cf_setc].
  Qed.
  Lemma cf_cons_step s c : f (cons_step s c) = f s.
  Proof.
    unfold cons_step. destruct (nth_error (conss s) c) as [x|]; [|reflexivity].
    destruct (ck x), (cpcv x); try reflexivity; try apply cf_acc_s1.
    3:{ destruct (negb (Nat.eqb (ac_nonce x) (ac_snap x))); [apply cf_acc_s1|]. destruct (ccanc x); [apply cf_acc_ret | reflexivity]. }
    - destruct (cw_res x) as [[v e]|]; [destruct (Nat.eqb e 0); [apply cf_setc | apply cf_cons_fail] | destruct (ccanc x); [apply cf_cons_fail | reflexivity]].
    - destruct (ww_prom x) as [[v e]|]; [destruct (Nat.eqb e 0); [apply cf_setc | apply cf_cons_fail] | destruct (ccanc x); [apply cf_cons_fail | reflexivity]].
  Qed.
  Lemma cf_cb_return fx s c res : f (cb_return fx s c res) = f s.
  Proof.
    unfold cb_return. destruct (nth_error (conss s) c) as [x|]; [|reflexivity].
    destruct (ck x); try reflexivity. destruct (cpcv x); try reflexivity.
    destruct (ccanc x); [apply cf_acc_ret|].
    match goal with |- _ (if ?b then _ else _) = _ => destruct b end; [apply cf_acc_ret | apply cf_setc].
  Qed.
End ConsFrame.

Lemma gs_cons_step s c : gs (cons_step s c) = gs s.
Proof. apply (cf_cons_step gs); reflexivity. Qed.
Lemma asyncs_cons_step s c : asyncs (cons_step s c) = asyncs s.
Proof. apply (cf_cons_step asyncs); reflexivity. Qed.

Lemma proceed_len_gs s g en : length (gs (proceed repaired s g en)) = length (gs s).
Proof.
  unfold proceed. destruct (nth_error (gs s) g) as [x|]; [|reflexivity].
  destruct (gpcv x); try reflexivity.
  - destruct (gwait x); [|apply length_gs_setg]. destruct (pred_done s x && gcanc x); [destruct en; apply length_gs_setg|].
    destruct (pred_done s x); [apply length_gs_setg|]. destruct (gcanc x); apply length_gs_setg.
  - destruct (pred_done s x || gcanc x); [|reflexivity].
    destruct (gwait x); [|apply length_gs_setg]. destruct (pred_done s x && gcanc x); [destruct en; apply length_gs_setg|].
    destruct (pred_done s x); [apply length_gs_setg|]. destruct (gcanc x); apply length_gs_setg.
  - destruct (pred_done s x); [apply length_gs_setg | reflexivity].
Qed.

Lemma internal_len_gs e s : internal_ev e -> length (gs (step repaired s e)) = length (gs s).
Proof. destruct e; try contradiction; intros _; cbn [step]; [apply proceed_len_gs | now rewrite gs_cons_step]. Qed.

Lemma settle_len_gs s : length (gs (settle s)) = length (gs s).
Proof.
  destruct (settle_run s) as [es [-> F]]. apply (run_internal (fun s0 => length (gs s0) = length (gs s))); auto.
  intros s0 e He H. now rewrite internal_len_gs.
Qed.
