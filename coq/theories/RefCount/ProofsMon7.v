(* refcount: the monitors tied to the model, part 7: clause 9.4 (released() of the stored generation drops it and resolves afresh).
   (That the monitors' idea of the stored generation ([m_cur]) is the model's (resolved, generation, error): ProofsMon18.v.) *)
From Util Require Import Common.Base Common.ListLemmas RefCount.Model RefCount.Spec RefCount.Proofs RefCount.ProofsC08 RefCount.ProofsC08b
  RefCount.ProofsC09 RefCount.ProofsC10 RefCount.ProofsC10a RefCount.ProofsC10b RefCount.ProofsCodec RefCount.ProofsMon RefCount.ProofsMon2 RefCount.ProofsMon3
  RefCount.ProofsMon4 RefCount.ProofsMon5 RefCount.ProofsMon6.
Open Scope nat_scope.

Lemma cur_of_vf s s' : vf s' = vf s -> cur_of s' = cur_of s.
Proof. intros H. destruct (vf_fields _ _ H) as [A [_ [C [D _]]]]. unfold cur_of. now rewrite A, C, D. Qed.

Section C94.
  Variables (m : mst) (h : hst) (e : list N) (e0 : ev) (rets : list N).
  Hypothesis HRh : HR h.
  Hypothesis HP : Rproj m h.
  Hypothesis Hd : dec h e e0 rets.
  Hypothesis Hc : hconst h = false.
  Hypothesis Hcur : m_cur m = cur_of (hs h).
  Local Notation s := (hs h).
  Local Notation s1 := (step repaired (hs h) e0).
  Local Notation s' := (settle (step repaired (hs h) e0)).
  Local Notation p := (pobs_of rets (settle (step repaired (hs h) e0)) (hrel h)).

  (* 9.4: released() of the stored generation empties the target containers and, with a context and a reference, starts a
     new resolve goroutine *)
  Lemma clause_9_4 : u_f9_4 m e p = [].
  Proof.
    unfold u_f9_4. pose proof (upd_ctx m h e e0 rets HP Hd) as Ectx. pose proof (upd_in m h e e0 rets HP Hd) as Ein.
    pose proof (p_nin m h e e0 Ein) as Enin. pose proof (nrefs_settle h e0) as NS. pose proof (HR_inv h HRh Hc) as I0.
    pose proof (settle_vf s1) as V'. pose proof (settle_len_gs s1) as LG. pose proof (settle_kfr s1) as K'. pose proof (step_kfr s e0) as K1.
    destruct Hd; try reflexivity. rewrite Hcur. unfold cur_of. destruct (resolved s) eqn:Er; [|reflexivity].
    destruct (N.eqb_spec (nn (vgen s)) g) as [Eg|Eg]; [|reflexivity]. cbn [negb orb].
    assert (Evg : vgen s = n2n g) by (rewrite <- Eg; now rewrite n2n_nn).
    destruct I0 as [[HN [HS [HL [HL4 [HV HR']]]]] HLv]. destruct HV as [V1 HVr]. destruct (V1 Er) as [_ [A2 [_ A4]]].
    assert (Ex : getg s (vgen s) = x) by (rewrite Evg; apply (getg_nth_error s _ x H)).
    rewrite Ex in A4. cbn [step] in *. rewrite H in *. rewrite A4 in *.
    destruct (released_restarts s (conj (conj HN (conj HS (conj HL (conj HL4 (conj (conj V1 HVr) HR'))))) HLv)) as [B1 [B2 [B3 [_ B5]]]].
    cbv zeta in B5. cbn [po_target po_terr pobs_of].
    destruct (vf_fields _ _ V') as [_ [_ [_ [_ [Et Ee]]]]]. rewrite Et, Ee, B2, B3. change (nn 0) with 0%N. cbn [N.eqb andb].
    rewrite Ectx, Enin, NS. destruct (kfr_fields _ _ K') as [Ek _]. destruct (kfr_fields _ _ K1) as [Ek1 _]. rewrite Ek, Ek1, nz_nn.
    unfold released_section in *. rewrite Nat.eqb_refl in *. rewrite start_resolve_nrefs.
    destruct (Nat.eqb_spec (kctx s) 0) as [E0|E0]; [reflexivity|]. cbn [negb andb].
    destruct (Nat.ltb_spec 0 (nrefs s)) as [Hn|Hn]; [|reflexivity]. cbn [negb orb].
    destruct (B5 E0 Hn) as [BL _]. unfold u_spawned, u_ng. cbn [po_gs pobs_of]. rewrite map_length, LG, (rp_ng m h HP), BL.
    destruct (Nat.ltb_spec (length (gs s)) (S (length (gs s)))) as [_|Hx]; [reflexivity | lia].
  Qed.
End C94.
