(* refcount: the monitors tied to the model, part 7: the monitors' idea of the stored generation ([m_cur]) is the model's
   (resolved, generation, error), and clause 9.4 (released() of the stored generation drops it and resolves afresh). *)
From Util Require Import Common.Base Common.ListLemmas RefCount.Model RefCount.Spec RefCount.Proofs RefCount.ProofsC08 RefCount.ProofsC08b
  RefCount.ProofsC09 RefCount.ProofsC10 RefCount.ProofsC10a RefCount.ProofsC10b RefCount.ProofsCodec RefCount.ProofsMon RefCount.ProofsMon2 RefCount.ProofsMon3
  RefCount.ProofsMon4 RefCount.ProofsMon5 RefCount.ProofsMon6.
Open Scope nat_scope.

Definition cur_chk (s : st) (g e0 : N) : bool :=
  if N.eqb e0 0 then N.eqb (nn (target s)) (g + 1) && N.eqb (nn (terr s)) 0 else N.eqb (nn (terr s)) e0.

Lemma cur_chk_resolved s : InvV s -> resolved s = true -> cur_chk s (nn (vgen s)) (nn (verr s)) = true.
Proof.
  intros [V1 [_ [_ V5]]] Er. destruct (V1 Er) as [Hv _]. destruct (V5 Er) as [T1 T2]. unfold cur_chk.
  change 0%N with (nn 0). rewrite nn_eqb. destruct (Nat.eqb_spec (verr s) 0) as [E|E].
  - destruct (T1 E) as [Et Ee]. destruct Hv as [Hv|[_ Hv]]; [|contradiction]. rewrite Et, Hv, Ee, nn_S, !N.eqb_refl. reflexivity.
  - destruct (T2 E) as [_ Ee]. rewrite Ee. apply N.eqb_refl.
Qed.

Lemma cur_chk_unresolved s g e0 : InvV s -> resolved s = false -> cur_chk s g e0 = false.
Proof.
  intros [_ [V2 _]] Er. destruct (V2 Er) as [_ [_ [_ [Et Ee]]]]. unfold cur_chk. rewrite Et, Ee. change (nn 0) with 0%N.
  destruct (N.eqb_spec e0 0) as [E|E].
  - destruct (N.eqb_spec 0 (g + 1)) as [E2|E2]; [exfalso; lia | reflexivity].
  - apply N.eqb_neq. auto.
Qed.

Lemma cur_of_vf s s' : vf s' = vf s -> cur_of s' = cur_of s.
Proof. intros H. destruct (vf_fields _ _ H) as [A [_ [C [D _]]]]. unfold cur_of. now rewrite A, C, D. Qed.

Lemma cur_chk_vf s s' g e0 : vf s' = vf s -> cur_chk s' g e0 = cur_chk s g e0.
Proof. intros H. destruct (vf_fields _ _ H) as [_ [_ [_ [_ [E F]]]]]. unfold cur_chk. now rewrite E, F. Qed.

Section Cur.
  Variables (m : mst) (h : hst) (e : list N) (e0 : ev) (rets : list N).
  Hypothesis HRh : HR h.
  Hypothesis HP : Rproj m h.
  Hypothesis Hd : dec h e e0 rets.
  Hypothesis Hc : hconst h = false.
  Hypothesis Hcur : m_cur m = cur_of (hs h).
  Local Notation s := (hs h).
  Local Notation s1 := (step repaired (hs h) e0).
  Local Notation s' := (settle (step repaired (hs h) e0)).
  Local Notation p := (pobs_of rets (settle (step repaired (hs h) e0)) (hrel h)).

  Lemma u_cur_unfold :
    u_cur m e p = match u_cur2 m e p with
                  | Some (g, e1) => if cur_chk s' g e1 then u_cur2 m e p else None
                  | None => None
                  end.
  Proof.
    unfold u_cur, cur_chk, u_vof. rewrite (rp_const m h HP), Hc. reflexivity.
  Qed.

  Lemma upd_cur : u_cur m e p = cur_of s'.
  Proof.
    rewrite u_cur_unfold. pose proof (HR_inv h HRh Hc) as I0. pose proof (HR_inv _ (HR_mid h e e0 rets HRh Hd) Hc) as I1. cbn [hs] in I1.
    pose proof (settle_vf s1) as V'. rewrite (cur_of_vf _ _ V').
    assert (CK : forall g e1, cur_chk s' g e1 = cur_chk s1 g e1) by (intros; now apply cur_chk_vf).
    destruct I0 as [[HN [HS [_ [_ [HV0 _]]]]] _]. destruct I1 as [[_ [_ [_ [_ [HV1 _]]]]] _].
    pose proof (HR_chain h HRh) as HCh.
    assert (NS : (forall g, e0 <> EStore g) -> u_cur2 m e p = cur_of s).
    { intros Hne. unfold u_cur2, u_stored_now. destruct Hd; try exact Hcur. exfalso. exact (Hne _ eq_refl). }
    assert (Gen : (forall g, e0 <> EStore g) ->
                  match u_cur2 m e p with Some (g, e1) => if cur_chk s' g e1 then u_cur2 m e p else None | None => None end = cur_of s1).
    { intros Hne. rewrite (NS Hne). destruct (vkeep_step s e0 Hne) as [Er|Ev].
      - unfold cur_of at 3. rewrite Er. unfold cur_of. destruct (resolved s); [|reflexivity]. now rewrite CK, (cur_chk_unresolved s1 _ _ HV1 Er).
      - rewrite (cur_of_vf _ _ Ev). unfold cur_of. destruct (resolved s) eqn:Er; [|reflexivity].
        now rewrite CK, (cur_chk_vf _ _ _ _ Ev), (cur_chk_resolved s HV0 Er). }
    destruct Hd; try (apply Gen; intros g0; discriminate).
    (* the store section *)
    assert (Hnd : gdone x = false) by (unfold gdone; now rewrite H0).
    pose proof (pending_unresolved s (n2n g) x HCh HN HV0 H Hnd) as Er.
    destruct (getg_nth_error s _ x H) as [Eg Hl]. destruct (HS _ Hl) as [S1 _]. rewrite Eg in S1. destruct (S1 v hr e H0) as [Hv _].
    pose proof (store_vf s (n2n g) x v hr e H H0) as SV. cbv zeta in SV. cbn [step] in *.
    assert (Hm : m_cur m = None) by (rewrite Hcur; unfold cur_of; now rewrite Er).
    destruct HV0 as [_ [V2 _]]. destruct (V2 Er) as [_ [_ [_ [Et Ee]]]].
    unfold u_cur2, u_stored_now, u_vof. rewrite (rp_const m h HP), Hc, Hm. cbn [po_target po_terr pobs_of].
    destruct (vf_fields _ _ V') as [_ [_ [_ [_ [Et' Ee']]]]]. rewrite Et', Ee'.
    destruct (Nat.eqb (nonce s) (gnonce x)).
    - destruct SV as [A [B [C [D [E F]]]]]. rewrite E, F. unfold cur_of. rewrite A, C, D, nn_n2n.
      destruct (Nat.eqb_spec e 0) as [E0|E0].
      + destruct Hv as [Hv|[_ Hv]]; [|contradiction]. rewrite Hv, nn_S, nn_n2n, !N.eqb_refl. cbn [andb].
        rewrite CK. unfold cur_chk. rewrite E, F. rewrite E0. cbn [Nat.eqb]. rewrite Hv, nn_S, nn_n2n, !N.eqb_refl. reflexivity.
      + rewrite Et. change (nn 0) with 0%N. assert (Hg : N.eqb 0 (g + 1) = false) by (apply N.eqb_neq; lia). rewrite Hg. cbn [andb].
        rewrite nz_nn. destruct (Nat.eqb_spec e 0) as [|_]; [contradiction|]. cbn [negb andb].
        rewrite CK. unfold cur_chk. rewrite F. destruct (Nat.eqb_spec e 0) as [|_]; [contradiction|].
        change 0%N with (nn 0). rewrite nn_eqb. destruct (Nat.eqb_spec e 0) as [|_]; [contradiction|]. rewrite N.eqb_refl. reflexivity.
    - destruct (vf_fields _ _ SV) as [A [_ [_ [_ [E F]]]]]. rewrite E, F, Et, Ee. change (nn 0) with 0%N.
      assert (Hg : N.eqb 0 (g + 1) = false) by (apply N.eqb_neq; lia). rewrite Hg. cbn. unfold cur_of. now rewrite A, Er.
  Qed.
End Cur.

Section C94.
  Variables (m : mst) (h : hst) (e : list N) (e0 : ev) (rets : list N).
  Hypothesis HRh : HR h.
  Hypothesis HP : Rproj m h.
  Hypothesis Hd : dec h e e0 rets.
  Hypothesis Hc : hconst h = false.
  Hypothesis Hcur : m_cur m = cur_of (hs h).
  Local Notation s := (hs h).
  Local Notation s1 := (step repaired (hs h) e0).
  Local Notation s' := (settle (step repaired (hs h) e0)).
  Local Notation p := (pobs_of rets (settle (step repaired (hs h) e0)) (hrel h)).

  (* 9.4: released() of the stored generation empties the target containers and, with a context and a reference, starts a
     new resolve goroutine *)
  Lemma clause_9_4 : u_f9_4 m e p = [].
  Proof.
    unfold u_f9_4. pose proof (upd_ctx m h e e0 rets HP Hd) as Ectx. pose proof (upd_in m h e e0 rets HP Hd) as Ein.
    pose proof (p_nin m h e e0 Ein) as Enin. pose proof (nrefs_settle h e0) as NS. pose proof (HR_inv h HRh Hc) as I0.
    pose proof (settle_vf s1) as V'. pose proof (settle_len_gs s1) as LG. pose proof (settle_kfr s1) as K'. pose proof (step_kfr s e0) as K1.
    destruct Hd; try reflexivity. rewrite Hcur. unfold cur_of. destruct (resolved s) eqn:Er; [|reflexivity].
    destruct (N.eqb_spec (nn (vgen s)) g) as [Eg|Eg]; [|reflexivity]. cbn [negb orb].
    assert (Evg : vgen s = n2n g) by (rewrite <- Eg; now rewrite n2n_nn).
    destruct I0 as [[HN [HS [HL [HL4 [HV HR']]]]] HLv]. destruct HV as [V1 HVr]. destruct (V1 Er) as [_ [A2 [_ A4]]].
    assert (Ex : getg s (vgen s) = x) by (rewrite Evg; apply (getg_nth_error s _ x H)).
    rewrite Ex in A4. cbn [step] in *. rewrite H in *. rewrite A4 in *.
    destruct (released_restarts s (conj (conj HN (conj HS (conj HL (conj HL4 (conj (conj V1 HVr) HR'))))) HLv)) as [B1 [B2 [B3 [_ B5]]]].
    cbv zeta in B5. cbn [po_target po_terr pobs_of].
    destruct (vf_fields _ _ V') as [_ [_ [_ [_ [Et Ee]]]]]. rewrite Et, Ee, B2, B3. change (nn 0) with 0%N. cbn [N.eqb andb].
    rewrite Ectx, Enin, NS. destruct (kfr_fields _ _ K') as [Ek _]. destruct (kfr_fields _ _ K1) as [Ek1 _]. rewrite Ek, Ek1, nz_nn.
    unfold released_section in *. rewrite Nat.eqb_refl in *. rewrite start_resolve_nrefs.
    destruct (Nat.eqb_spec (kctx s) 0) as [E0|E0]; [reflexivity|]. cbn [negb andb].
    destruct (Nat.ltb_spec 0 (nrefs s)) as [Hn|Hn]; [|reflexivity]. cbn [negb orb].
    destruct (B5 E0 Hn) as [BL _]. unfold u_spawned, u_ng. cbn [po_gs pobs_of]. rewrite map_length, LG, (rp_ng m h HP), BL.
    destruct (Nat.ltb_spec (length (gs s)) (S (length (gs s)))) as [_|Hx]; [reflexivity | lia].
  Qed.
End C94.
