(* refcount: the monitors tied to the model, part 15: the rows the Access judge works on, row by row. *)
From Util Require Import Common.Base Common.ListLemmas RefCount.Model RefCount.Spec RefCount.Proofs RefCount.ProofsC08 RefCount.ProofsC08b
  RefCount.ProofsC09 RefCount.ProofsC10 RefCount.ProofsC10a RefCount.ProofsC10b RefCount.ProofsCodec RefCount.ProofsMon RefCount.ProofsMon2 RefCount.ProofsMon3
  RefCount.ProofsMon4 RefCount.ProofsMon5 RefCount.ProofsMon6 RefCount.ProofsMon7 RefCount.ProofsMonG RefCount.ProofsMon8 RefCount.ProofsMon9 RefCount.ProofsMon10
  RefCount.ProofsMon11 RefCount.ProofsMon12 RefCount.ProofsMon13 RefCount.ProofsMon14.
Open Scope nat_scope.

Lemma nth_error_combine {A B} (a : list A) (b : list B) i :
  nth_error (combine a b) i = match nth_error a i, nth_error b i with Some x, Some y => Some (x, y) | _, _ => None end.
Proof.
  revert b i. induction a as [|x a IH]; intros [|y b] [|i]; cbn [combine nth_error]; try reflexivity.
  - destruct (nth_error a i); reflexivity.
  - apply IH.
Qed.

Lemma nth_error_zip5 {A B C D E} (a : list A) (b : list B) (c : list C) (d : list D) (e : list E) i :
  nth_error (zip5 a b c d e) i =
  match nth_error a i, nth_error b i, nth_error c i, nth_error d i, nth_error e i with
  | Some x, Some y, Some z, Some u, Some v => Some (x, y, z, u, v)
  | _, _, _, _, _ => None
  end.
Proof.
  revert b c d e i. induction a as [|x a IH]; intros [|y b] [|z c] [|u d] [|v e] [|i]; cbn [zip5 nth_error]; try reflexivity;
    try (destruct (nth_error a i); reflexivity); try (destruct (nth_error a i); destruct (nth_error b i); reflexivity);
    try (destruct (nth_error a i); destruct (nth_error b i); destruct (nth_error c i); reflexivity);
    try (destruct (nth_error a i); destruct (nth_error b i); destruct (nth_error c i); destruct (nth_error d i); reflexivity).
  apply IH.
Qed.

Lemma nth_error_padb l n i : i < n -> nth_error (padb l n) i = Some (nth i l false).
Proof.
  intros Hi. rewrite <- (padb_nth l n i). apply nth_error_nth'. unfold padb. rewrite app_length, repeat_length. lia.
Qed.

Lemma nth_error_pad_none {A} (l : list (option A)) n i : i < n -> nth_error (l ++ repeat None (n - length l)) i = Some (nth i l None).
Proof.
  intros Hi. destruct (Nat.lt_ge_cases i (length l)) as [Hl|Hl].
  - rewrite nth_error_app1 by exact Hl. now apply nth_error_nth'.
  - rewrite nth_error_app2 by exact Hl. rewrite (nth_overflow l None Hl). rewrite (nth_error_nth' _ None) by (rewrite repeat_length; lia). now rewrite nth_repeat.
Qed.

Lemma nth_error_seq0 n i : i < n -> nth_error (seq 0 n) i = Some i.
Proof. intros H. rewrite (nth_error_nth' _ 0) by (now rewrite seq_length). now rewrite seq_nth. Qed.

Section Rows.
  Variables (m : mst) (h : hst) (e : list N) (e0 : ev) (rets : list N).
  Hypothesis HRh : HR h.
  Hypothesis HP : Rproj m h.
  Hypothesis Hd : dec h e e0 rets.
  Local Notation s := (hs h).
  Local Notation s1 := (step repaired (hs h) e0).
  Local Notation s' := (settle (step repaired (hs h) e0)).
  Local Notation p := (pobs_of rets (settle (step repaired (hs h) e0)) (hrel h)).

  Definition row_of (i : nat) :=
    (i, ((nth i (m_acb m) false, nth i (m_acanc m) false, nth i (m_ainv m) false, nth i (m_ccanc m) false, nth i (m_adec m) None),
         ((ckcode (ck (getc s' i)), cref (getc s' i)), (ccanc (getc s' i), ccode6 (getc s' i))))).

  Lemma rows_nth i : i < length (conss s') -> nth_error (u_rows m e p) i = Some (row_of i).
  Proof.
    intros Hi. unfold u_rows, u_acb0, u_acanc0, u_ainv0, u_ccanc0, u_adec0. rewrite (p_ncons h e0 rets).
    rewrite (upd_ckind m h e e0 rets HP Hd), (upd_cref m h e e0 rets HP Hd), (upd_ccanc m h e e0 rets HP Hd). cbn [po_cons pobs_of].
    rewrite !nth_error_combine, nth_error_zip5, !nth_error_padb, nth_error_pad_none, nth_error_seq0 by exact Hi.
    rewrite map_map. rewrite !(nth_error_map_some _ _ _ _ (nth_error_getc s' i Hi)). reflexivity.
  Qed.

  Lemma rows_in row : In row (u_rows m e p) -> exists i, i < length (conss s') /\ row = row_of i.
  Proof.
    intros Hin. destruct (In_nth_error _ _ Hin) as [i Hi]. assert (Hl : i < length (u_rows m e p)) by (eapply nth_error_nth_len; eauto).
    assert (Hn : length (u_rows m e p) <= length (conss s')).
    { unfold u_rows. rewrite combine_length, seq_length, (p_ncons h e0 rets). lia. }
    exists i. split; [lia|]. rewrite (rows_nth i ltac:(lia)) in Hi. now inversion Hi.
  Qed.

  Lemma judged_nth i : i < length (conss s') -> nth_error (u_judged m e p) i = Some (u_judge m e p (row_of i)).
  Proof. intros Hi. unfold u_judged. apply nth_error_map_some. now apply rows_nth. Qed.

  Lemma judged_len : length (u_judged m e p) = length (conss s').
  Proof.
    unfold u_judged. rewrite map_length. apply Nat.le_antisymm.
    - unfold u_rows. rewrite combine_length, seq_length, (p_ncons h e0 rets). lia.
    - destruct (Nat.le_gt_cases (length (conss s')) (length (u_rows m e p))) as [H|H]; [exact H|].
      pose proof (rows_nth (length (u_rows m e p)) H) as E. apply nth_error_nth_len in E. lia.
  Qed.
End Rows.
