(* refcount: the monitors tied to the model, part 5: what one event does to the stored result (resolved flag, value, error,
   generation, target containers) and to the release log. *)
From Util Require Import Common.Base Common.ListLemmas RefCount.Model RefCount.Spec RefCount.Proofs RefCount.ProofsC08 RefCount.ProofsC08b
  RefCount.ProofsC09 RefCount.ProofsC10 RefCount.ProofsC10a RefCount.ProofsC10b RefCount.ProofsCodec RefCount.ProofsMon RefCount.ProofsMon2 RefCount.ProofsMon3
  RefCount.ProofsMon4.
Open Scope nat_scope.

Definition vf (s : st) := (resolved s, value s, verr s, vgen s, target s, terr s).

Lemma vf_rest s s' : rest s' = rest s -> vf s' = vf s.
Proof.
  intros H. destruct (rest_fields s s' H) as [_ [_ [_ [_ [_ [A [B [C [_ [D [E [F _]]]]]]]]]]]]. unfold vf. now rewrite A, B, C, D, E, F.
Qed.

Lemma vf_invoke s r n : vf (invoke s r n) = vf s. Proof. apply vf_rest, rest_invoke. Qed.
Lemma vf_call_cbs s n : vf (call_cbs s n) = vf s. Proof. apply vf_rest, rest_call_cbs. Qed.

Lemma start_resolve_resolved s : resolved (start_resolve s) = false.
Proof.
  unfold start_resolve. pose proof (shutdown_resolved s) as H. set (s1 := shutdown s) in *.
  destruct (Nat.eqb (kctx s1) 0 || Nat.eqb (nrefs s1) 0); exact H.
Qed.

Definition vkeep (s s' : st) : Prop := resolved s' = false \/ vf s' = vf s.

Lemma vkeep_refl s : vkeep s s. Proof. now right. Qed.
Lemma vkeep_eq s s' : vf s' = vf s -> vkeep s s'. Proof. now right. Qed.

Lemma vf_release_call_by s r oc : vf (fst (release_call_by s r oc)) = vf s.
Proof. unfold release_call_by. destruct (nth_error (refs s) r) as [x|]; [|reflexivity]. destruct (rflag x); reflexivity. Qed.
Lemma vf_cons_fail s c x e : vf (cons_fail s c x e) = vf s.
Proof.
  unfold cons_fail. pose proof (vf_release_call_by (setc s c (with_cpc x (CRel e))) (cref x) (Some c)) as G.
  destruct (release_call_by (setc s c (with_cpc x (CRel e))) (cref x) (Some c)) as [s1 parked]. cbn [fst] in G. destruct parked; exact G.
Qed.
Lemma vf_acc_ret s c x e : vf (acc_ret s c x e) = vf s.
Proof.
  unfold acc_ret. pose proof (vf_release_call_by (setc s c (with_cpc x (CRel e))) (cref x) (Some c)) as G.
  destruct (release_call_by (setc s c (with_cpc x (CRel e))) (cref x) (Some c)) as [s1 parked]. cbn [fst] in G. destruct parked; exact G.
Qed.
Lemma vf_acc_s1 s c x : vf (acc_s1 s c x) = vf s.
Proof.
  unfold acc_s1. destruct (negb (Nat.eqb (ac_err x) 0)); [apply vf_acc_ret|].
  destruct (ac_res x); [reflexivity|]. destruct (ccanc x); [apply vf_acc_ret | reflexivity].
Qed.
Lemma vf_cons_step s c : vf (cons_step s c) = vf s.
Proof.
  unfold cons_step. destruct (nth_error (conss s) c) as [x|]; [|reflexivity].
  destruct (ck x), (cpcv x); try reflexivity; try apply vf_acc_s1.
  3:{ destruct (negb (Nat.eqb (ac_nonce x) (ac_snap x))); [apply vf_acc_s1|]. destruct (ccanc x); [apply vf_acc_ret | reflexivity]. }
  - destruct (cw_res x) as [[v e]|]; [destruct (Nat.eqb e 0); [reflexivity | apply vf_cons_fail] | destruct (ccanc x); [apply vf_cons_fail | reflexivity]].
  - destruct (ww_prom x) as [[v e]|]; [destruct (Nat.eqb e 0); [reflexivity | apply vf_cons_fail] | destruct (ccanc x); [apply vf_cons_fail | reflexivity]].
Qed.
Lemma vf_cb_return fx s c res : vf (cb_return fx s c res) = vf s.
Proof.
  unfold cb_return. destruct (nth_error (conss s) c) as [x|]; [|reflexivity].
  destruct (ck x); try reflexivity. destruct (cpcv x); try reflexivity.
  destruct (ccanc x); [apply vf_acc_ret|].
  match goal with |- _ (if ?b then _ else _) = _ => destruct b end; [apply vf_acc_ret | reflexivity].
Qed.
Lemma vf_proceed s g en : vf (proceed repaired s g en) = vf s.
Proof.
  unfold proceed. destruct (nth_error (gs s) g) as [x|]; [|reflexivity].
  destruct (gpcv x); try reflexivity.
  - destruct (gwait x); [|reflexivity]. destruct (pred_done s x && gcanc x); [destruct en; reflexivity|].
    destruct (pred_done s x); [reflexivity|]. destruct (gcanc x); reflexivity.
  - destruct (pred_done s x || gcanc x); [|reflexivity].
    destruct (gwait x); [|reflexivity]. destruct (pred_done s x && gcanc x); [destruct en; reflexivity|].
    destruct (pred_done s x); [reflexivity|]. destruct (gcanc x); reflexivity.
  - destruct (pred_done s x); reflexivity.
Qed.

Lemma vkeep_remove_ref s r : vkeep s (remove_ref s r).
Proof.
  unfold remove_ref. destruct (nth_error (refs s) r) as [x|]; [|apply vkeep_refl]. destruct (rin x); [|apply vkeep_refl].
  set (s1 := set_refs s _). destruct (Nat.eqb (nrefs s1) 0 && _); [left; apply shutdown_resolved | now right].
Qed.

Lemma vkeep_add_ref s k : vkeep s (add_ref repaired s k).
Proof.
  unfold add_ref. set (s1 := set_refs s _).
  destruct (Nat.eqb (nrefs s1) 1 && negb (resolved s1)); [left; apply start_resolve_resolved|].
  destruct (resolved s1); [|now right]. destruct k; cbn [fx_nilcb repaired]; try (now right); right; now rewrite vf_invoke.
Qed.

Lemma vf_cancel_root s c : vf (cancel_root s c) = vf s.
Proof.
  apply (cancel_root_ind (fun s0 => vf s0 = vf s)); [|reflexivity].
  intros s0 og H. rewrite <- H. destruct (cancel_g_rest s0 og) as [_ [_ [_ [_ [_ [_ [G7 [G8 [G9 [_ [G11 [G12 [G13 _]]]]]]]]]]]]].
  unfold vf. now rewrite G7, G8, G9, G11, G12, G13.
Qed.

Lemma vkeep_step s e : (forall g, e <> EStore g) -> vkeep s (step repaired s e).
Proof.
  intros Hne. destruct e; cbn [step].
  - unfold set_context. destruct (Nat.eqb (kctx s) c); [apply vkeep_refl|]. cbn [fst]. left. apply start_resolve_resolved.
  - apply vkeep_add_ref.
  - destruct (rkind (nth r (refs s) ref0)); try apply vkeep_refl; right; apply vf_release_call_by.
  - unfold release_section. destruct (nth_error (relacts s) a) as [x|]; [|apply vkeep_refl]. destruct (ra_pc x); [|apply vkeep_refl].
    set (sa := set_relacts s _). set (s1 := remove_ref sa (ra_ref x)).
    assert (E : vkeep s s1) by (exact (vkeep_remove_ref sa (ra_ref x))).
    destruct (ra_cons x) as [c|]; [|exact E]. destruct (cpcv (getc s1 c)); exact E.
  - destruct (nth_error (gs s) g) as [x|]; [|apply vkeep_refl]. unfold released_section.
    destruct (Nat.eqb (nonce s) (gnonce x)); [left; apply start_resolve_resolved | apply vkeep_refl].
  - unfold async_section. destruct (nth_error (asyncs s) a) as [x|]; [|apply vkeep_refl]. destruct (as_pc x); [|apply vkeep_refl].
    unfold released_section. set (sa := set_asyncs s _). destruct (Nat.eqb (nonce sa) (as_nonce x)); [left; apply start_resolve_resolved | now right].
  - right. apply vf_proceed.
  - right. unfold resolver_return. destruct (nth_error (gs s) g) as [x|]; [|reflexivity]. destruct (gpcv x); reflexivity.
  - exfalso. exact (Hne g eq_refl).
  - unfold start_consumer. exact (vkeep_add_ref (set_conss s _) _).
  - right. apply vf_cons_step.
  - right. destruct (nth_error (conss s) c); reflexivity.
  - unfold fire_section. destruct (nth_error (conss s) c) as [x|]; [|apply vkeep_refl]. destruct (ww_firepc x) as [[|]|]; try apply vkeep_refl.
    exact (vkeep_remove_ref (setc s c _) (cref x)).
  - right. apply vf_cb_return.
  - right. destruct (Nat.eqb c 0); [reflexivity | apply vf_cancel_root].
  - right. destruct (watch_step_spec s c) as [->|[x [y [_ [-> _]]]]]; reflexivity.
Qed.

Lemma internal_vf e s : internal_ev e -> vf (step repaired s e) = vf s.
Proof. destruct e; try contradiction; intros _; cbn [step]; [apply vf_proceed | apply vf_cons_step]. Qed.

Lemma settle_vf s : vf (settle s) = vf s.
Proof.
  destruct (settle_run s) as [es [-> F]]. apply (run_internal (fun s0 => vf s0 = vf s)); auto.
  intros s0 e He H. now rewrite internal_vf.
Qed.

Lemma vf_fields s s' : vf s' = vf s ->
  resolved s' = resolved s /\ value s' = value s /\ verr s' = verr s /\ vgen s' = vgen s /\ target s' = target s /\ terr s' = terr s.
Proof. unfold vf. intros H. inversion H. repeat split; reflexivity. Qed.

(* the store section *)
Lemma store_vf s g x v hr e :
  nth_error (gs s) g = Some x -> gpcv x = GStore v hr e ->
  let s1 := store s g in
  if Nat.eqb (nonce s) (gnonce x)
  then resolved s1 = true /\ value s1 = v /\ verr s1 = e /\ vgen s1 = g /\
       target s1 = (if Nat.eqb e 0 then v else target s) /\ terr s1 = (if Nat.eqb e 0 then 0 else e)
  else vf s1 = vf s.
Proof.
  intros Hx Hp. unfold store. rewrite Hx, Hp. set (s0 := setg s g (with_gpc x GDone)). change (nonce s0) with (nonce s).
  destruct (Nat.eqb (nonce s) (gnonce x)); cbn [negb].
  - cbv zeta. match goal with |- context [call_cbs ?a ?n] => pose proof (vf_call_cbs a n) as V; set (s2 := a) in * end.
    destruct (vf_fields _ _ V) as [A [B [C [D [E F]]]]]. rewrite A, B, C, D, E, F. unfold s2.
    destruct (Nat.eqb e 0); cbn; repeat split; reflexivity.
  - cbv zeta. destruct hr; reflexivity.
Qed.
