(* refcount: the monitors tied to the model, part 23: the Access judge row by row: the books after one codec event satisfy the
   relation again, and no Access clause (10.4 - 10.7) fails, in every configuration. *)
From Util Require Import Common.Base Common.ListLemmas RefCount.Model RefCount.Spec RefCount.Proofs RefCount.ProofsC08 RefCount.ProofsC08b
  RefCount.ProofsC09 RefCount.ProofsC10 RefCount.ProofsC10a RefCount.ProofsC10b RefCount.ProofsCodec RefCount.ProofsMon RefCount.ProofsMon2 RefCount.ProofsMon3
  RefCount.ProofsMon4 RefCount.ProofsMon5 RefCount.ProofsMon6 RefCount.ProofsMon7 RefCount.ProofsMonG RefCount.ProofsMon8 RefCount.ProofsMon9 RefCount.ProofsMon10
  RefCount.ProofsMon11 RefCount.ProofsMon12 RefCount.ProofsMon13 RefCount.ProofsMon14 RefCount.ProofsMon15 RefCount.ProofsMon16 RefCount.ProofsMon17 RefCount.ProofsMonE
  RefCount.ProofsMon18 RefCount.ProofsMon19 RefCount.ProofsMon20 RefCount.ProofsMon21 RefCount.ProofsMon22.
Open Scope nat_scope.

Lemma concat_all_nil {A} (l : list (list A)) : (forall x, In x l -> x = []) -> concat l = [].
Proof.
  induction l as [|a l IH]; intros H; [reflexivity|]. cbn [concat]. rewrite (H a (or_introl eq_refl)). cbn [app]. apply IH. intros x Hx. apply H. now right.
Qed.

Section Rows2.
  Variables (m : mst) (h : hst) (e : list N) (e0 : ev) (rets : list N).
  Hypothesis HRh : HR h.
  Hypothesis HCh : HRc h.
  Hypothesis HP : Rproj m h.
  Hypothesis Hd : dec h e e0 rets.
  Hypothesis Hcur : m_cur m = cur_of (hs h).
  Hypothesis Hem : Rempty m (hs h).
  Hypothesis HA : Racc2 m (hs h).
  Local Notation s := (hs h).
  Local Notation s' := (settle (step repaired (hs h) e0)).
  Local Notation p := (pobs_of rets (settle (step repaired (hs h) e0)) (hrel h)).

  (* the judge's verdict on row i *)
  Definition verdict (i : nat) : bool * bool * bool * option (N * bool) * list (nat * nat) :=
    match ck (getc s' i) with
    | CKAccess =>
      (is_cb (cpcv (getc s' i)), is_cb (cpcv (getc s' i)) && (ac_cbcanc (getc s' i) || ccanc (getc s' i)),
       j_inv m e p i (nth i (m_acb m) false) (nth i (m_ainv m) false) (let '(code, _, _, _, _, _) := ccode6 (getc s' i) in code),
       j_adec m e p i (cref (getc s' i)) (nth i (m_acanc m) false) (nth i (m_ainv m) false) (nth i (m_ccanc m) false) (nth i (m_adec m) None)
              (let '(code, _, _, _, _, _) := ccode6 (getc s' i) in code), [])
    | _ => (false, false, false, None, [])
    end.

  Lemma judge_row i : i < length (conss s') -> u_judge m e p (row_of m h e0 i) = verdict i.
  Proof.
    intros Hi. unfold row_of, verdict. destruct (ccode6 (getc s' i)) as [[[[[code v] e1] hh] f1] f2] eqn:Ec. rewrite judge_full.
    destruct (ck (getc s' i)) eqn:Hk; cbn [ckcode N.eqb Pos.eqb negb]; try reflexivity.
    destruct (acc_row_c m h e e0 rets HRh HCh HP Hd Hcur Hem HA i Hi Hk code v e1 hh f1 f2 Ec) as [A1 [A2 [A3 [A4 _]]]].
    destruct (dec_row m h e e0 rets HRh HCh HP Hd Hcur Hem HA i Hi Hk code v e1 hh f1 f2 Ec) as [_ B2].
    rewrite A3, A4, B2, A1. cbn [app]. destruct (is_cb (cpcv (getc s' i))) eqn:Ecb; [rewrite (A2 eq_refl)|]; reflexivity.
  Qed.

  Lemma judged_nth2 i : i < length (conss s') -> nth_error (u_judged m e p) i = Some (verdict i).
  Proof. intros Hi. rewrite (judged_nth m h e e0 rets HP Hd i Hi). now rewrite judge_row. Qed.

  (* no Access clause fails *)
  Lemma facc_nil : u_facc m e p = [].
  Proof.
    unfold u_facc. apply concat_all_nil. intros l Hl. apply in_map_iff in Hl. destruct Hl as [j [<- Hj]].
    unfold u_judged in Hj. apply in_map_iff in Hj. destruct Hj as [row [<- Hrow]]. destruct (rows_in m h e e0 rets HP Hd row Hrow) as [i [Hi ->]].
    rewrite (judge_row i Hi). unfold verdict. destruct (ck (getc s' i)); reflexivity.
  Qed.

  Lemma upd_acc2 : Racc2 (u_mst m e p) s'.
  Proof.
    assert (OOB : forall i, length (conss s') <= i -> ck (getc s' i) = CKWait).
    { intros i Hi. unfold getc. now rewrite nth_overflow. }
    assert (InR : forall i, ck (getc s' i) = CKAccess -> i < length (conss s')).
    { intros i Hk. destruct (Nat.lt_ge_cases i (length (conss s'))) as [H|H]; [exact H|]. rewrite (OOB i H) in Hk. discriminate. }
    constructor; cbn [m_acb m_acanc m_ainv m_adec u_mst].
    - intros i. destruct (Nat.lt_ge_cases i (length (conss s'))) as [Hi|Hi].
      + rewrite (nth_error_nth_d _ _ false _ (nth_error_map_some _ _ _ _ (judged_nth2 i Hi))). unfold verdict. destruct (ck (getc s' i)); reflexivity.
      + rewrite nth_overflow by (rewrite map_length, (judged_len m h e e0 rets HP Hd); exact Hi). now rewrite (OOB i Hi).
    - intros i Hk Hp. pose proof (InR i Hk) as Hi.
      rewrite (nth_error_nth_d _ _ false _ (nth_error_map_some _ _ _ _ (judged_nth2 i Hi))). unfold verdict. rewrite Hk, Hp. reflexivity.
    - intros i Hk Hp. pose proof (InR i Hk) as Hi.
      rewrite (nth_error_nth_d _ _ false _ (nth_error_map_some _ _ _ _ (judged_nth2 i Hi))). unfold verdict. rewrite Hk.
      destruct (ccode6 (getc s' i)) as [[[[[code v] e1] hh] f1] f2] eqn:Ec.
      destruct (acc_row_c m h e e0 rets HRh HCh HP Hd Hcur Hem HA i Hi Hk code v e1 hh f1 f2 Ec) as [_ [_ [_ [_ A5]]]]. exact (A5 Hp).
    - intros i Hi Hk.
      rewrite (nth_error_nth_d _ _ None _ (nth_error_map_some _ _ _ _ (judged_nth2 i Hi))). unfold verdict. rewrite Hk.
      destruct (ccode6 (getc s' i)) as [[[[[code v] e1] hh] f1] f2] eqn:Ec.
      destruct (dec_row m h e e0 rets HRh HCh HP Hd Hcur Hem HA i Hi Hk code v e1 hh f1 f2 Ec) as [B1 _]. exact B1.
    - intros i Hi. apply nth_overflow. rewrite map_length, (judged_len m h e e0 rets HP Hd). exact Hi.
    - intros i Hi Hk. exact (settled_after h e0 i Hi Hk).
  Qed.
End Rows2.
