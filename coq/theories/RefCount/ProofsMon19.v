(* refcount: the monitors tied to the model, part 19: two more invariants for every event list:
   - release flags and release actors only grow: a flag that is set stays set, the references of the release actors are
     never forgotten, and a release actor's reference has its flag set ([InvF]);
   - Access's private copy of the container is empty whenever it says "not resolved" ([InvK2]). *)
From Util Require Import Common.Base Common.ListLemmas RefCount.Model RefCount.Spec RefCount.Proofs RefCount.ProofsC08 RefCount.ProofsC08b
  RefCount.ProofsC09 RefCount.ProofsC10 RefCount.ProofsC10a RefCount.ProofsC10b RefCount.ProofsMon RefCount.ProofsMon3 RefCount.ProofsMon12.
Open Scope nat_scope.

Definition raref (s : st) : list nat := map ra_ref (relacts s).

(* from s to s': flags and release actors only grow *)
Definition RG (s s' : st) : Prop :=
  length (refs s) <= length (refs s') /\
  (forall q, q < length (refs s) -> rflag (rref s q) = true -> rflag (rref s' q) = true) /\
  (forall r, In r (raref s) -> In r (raref s')) /\
  (forall r, In r (raref s') -> In r (raref s) \/ (r < length (refs s') /\ rflag (rref s' r) = true)).

Lemma RG_refl s : RG s s.
Proof. unfold RG. repeat split; auto. Qed.

Lemma RG_trans s1 s2 s3 : RG s1 s2 -> RG s2 s3 -> RG s1 s3.
Proof.
  intros [A1 [A2 [A3 A4]]] [B1 [B2 [B3 B4]]]. split; [lia|]. split; [|split].
  - intros q Hq Hf. apply B2; [lia|]. now apply A2.
  - intros r Hr. apply B3. now apply A3.
  - intros r Hr. destruct (B4 r Hr) as [H|H]; [|now right]. destruct (A4 r H) as [H'|[H1 H2]]; [now left|]. right. split; [lia|]. now apply B2.
Qed.

Lemma RG_ext s s' : refs s' = refs s -> relacts s' = relacts s -> RG s s'.
Proof. intros E1 E2. unfold RG, raref, rref. rewrite E1, E2. repeat split; auto. Qed.

Lemma RG_fp s s' : fp s s' -> RG s s'.
Proof.
  intros [F1 [F2 [_ [F4 _]]]]. unfold RG, raref. rewrite F1, F2. split; [lia|]. split; [|split; auto].
  intros q _ Hf. destruct (F4 q) as [_ [_ [Q3 _]]]. now apply Q3.
Qed.

Lemma RG_Qext s0 s s' : refs s' = refs s -> relacts s' = relacts s -> conss s' = conss s -> RG s0 s -> RG s0 s'.
Proof. intros E1 E2 _ H. apply (RG_trans s0 s); [exact H | now apply RG_ext]. Qed.
Lemma RG_Qinv s0 s r n : RG s0 s -> RG s0 (invoke s r n).
Proof. intros H. apply (RG_trans s0 s); [exact H | apply RG_fp, fp_invoke]. Qed.

Lemma RG_release_call_by s r oc : RG s (fst (release_call_by s r oc)).
Proof.
  unfold release_call_by. destruct (nth_error (refs s) r) as [x|] eqn:Ex; [|apply RG_refl]. destruct (rflag x); [apply RG_refl|]. cbn [fst].
  assert (Hl : r < length (refs s)) by (eapply nth_error_nth_len; eauto).
  set (y := {| rin := rin x; rflag := true; rkind := rkind x; rlast := rlast x |}).
  set (s' := set_relacts (set_refs s (set_nth (refs s) r y)) _).
  assert (R : forall q, rref s' q = if Nat.eqb q r then y else rref s q) by (intros q; apply (rref_set_nth s r y q Hl)).
  assert (L : length (refs s') = length (refs s)) by (unfold s'; cbn [refs set_relacts set_refs]; apply length_set_nth).
  assert (RA : raref s' = raref s ++ [r]) by (unfold raref, s'; cbn [relacts set_relacts]; now rewrite map_app).
  split; [lia|]. split; [|split].
  - intros q _ Hf. rewrite R. destruct (Nat.eqb q r); [reflexivity | exact Hf].
  - intros q Hq. rewrite RA. apply in_or_app. now left.
  - intros q Hq. rewrite RA in Hq. apply in_app_or in Hq. destruct Hq as [Hq|[<-|[]]]; [now left|]. right. split; [lia|].
    rewrite R, Nat.eqb_refl. reflexivity.
Qed.

Lemma RG_setc s0 s c y : RG s0 s -> RG s0 (setc s c y).
Proof. intros H. apply (RG_trans s0 s); [exact H | apply RG_ext; reflexivity]. Qed.

Lemma RG_own s c y z r :
  RG s (let '(s1, parked) := release_call_by (setc s c y) r (Some c) in if parked then s1 else setc s1 c z).
Proof.
  pose proof (RG_release_call_by (setc s c y) r (Some c)) as G.
  destruct (release_call_by (setc s c y) r (Some c)) as [s1 parked]. cbn [fst] in G.
  assert (G1 : RG s s1) by (apply (RG_trans s (setc s c y)); [apply RG_setc, RG_refl | exact G]).
  destruct parked; [exact G1 | now apply RG_setc].
Qed.

Lemma RG_acc_ret s c x e : RG s (acc_ret s c x e).
Proof. unfold acc_ret. apply RG_own. Qed.
Lemma RG_cons_fail s c x e : RG s (cons_fail s c x e).
Proof. unfold cons_fail. apply RG_own. Qed.

Lemma RG_acc_s1 s c x : RG s (acc_s1 s c x).
Proof.
  unfold acc_s1. destruct (negb (Nat.eqb (ac_err x) 0)); [apply RG_acc_ret|].
  destruct (ac_res x); [apply RG_setc, RG_refl|]. destruct (ccanc x); [apply RG_acc_ret | apply RG_setc, RG_refl].
Qed.

Lemma RG_cons_step s c : RG s (cons_step s c).
Proof.
  unfold cons_step. destruct (nth_error (conss s) c) as [x|]; [|apply RG_refl].
  destruct (ck x), (cpcv x); try apply RG_refl; try apply RG_acc_s1.
  3:{ destruct (negb (Nat.eqb (ac_nonce x) (ac_snap x))); [apply RG_acc_s1|]. destruct (ccanc x); [apply RG_acc_ret | apply RG_refl]. }
  - destruct (cw_res x) as [[v e]|]; [destruct (Nat.eqb e 0); [apply RG_setc, RG_refl | apply RG_cons_fail] | destruct (ccanc x); [apply RG_cons_fail | apply RG_refl]].
  - destruct (ww_prom x) as [[v e]|]; [destruct (Nat.eqb e 0); [apply RG_setc, RG_refl | apply RG_cons_fail] | destruct (ccanc x); [apply RG_cons_fail | apply RG_refl]].
Qed.

Lemma RG_cb_return fx s c res : RG s (cb_return fx s c res).
Proof.
  unfold cb_return. destruct (nth_error (conss s) c) as [x|]; [|apply RG_refl].
  destruct (ck x); try apply RG_refl. destruct (cpcv x); try apply RG_refl.
  destruct (ccanc x); [apply RG_acc_ret|].
  match goal with |- RG _ (if ?b then _ else _) => destruct b end; [apply RG_acc_ret | apply RG_setc, RG_refl].
Qed.

Lemma RG_newref s0 s k : RG s0 s -> RG s0 (set_refs s (refs s ++ [newref k])).
Proof.
  intros H. apply (RG_trans s0 s); [exact H|]. unfold RG, raref. cbn [refs relacts set_refs]. rewrite app_length. cbn [length].
  split; [lia|]. split; [|split; auto]. intros q Hq Hf. now rewrite rref_app_old.
Qed.

Lemma RG_add_ref s0 s k : RG s0 s -> RG s0 (add_ref repaired s k).
Proof. intros H. apply (S_add_ref (RG s0) (RG_Qext s0) (RG_Qinv s0)). now apply RG_newref. Qed.

Lemma RG_remove_ref s0 s r : RG s0 s -> RG s0 (remove_ref s r).
Proof.
  intros H. apply (S_remove_ref (RG s0) (RG_Qext s0) (RG_Qinv s0)); [exact H|]. intros x Hx _.
  assert (Hl : r < length (refs s)) by (eapply nth_error_nth_len; eauto).
  assert (Exx : rref s r = x) by (unfold rref; now apply nth_error_nth).
  apply (RG_trans s0 s); [exact H|]. unfold RG, raref. cbn [refs relacts set_refs]. rewrite length_set_nth.
  split; [lia|]. split; [|split; auto]. intros q _ Hf. rewrite rref_set_nth by exact Hl.
  destruct (Nat.eqb_spec q r) as [->|_]; [cbn [rflag]; now rewrite <- Exx | exact Hf].
Qed.

Lemma map_ra_ref_set l a x y : nth_error l a = Some x -> ra_ref y = ra_ref x -> map ra_ref (set_nth l a y) = map ra_ref l.
Proof. intros Hx E. apply (map_set_nth_keep ra_ref _ _ _ x). intros _. rewrite E. now rewrite (nth_error_nth_d _ _ x _ Hx). Qed.

Lemma RG_step s e : RG s (step repaired s e).
Proof.
  destruct e; try (apply (S_step_container (RG s) (RG_Qext s) (RG_Qinv s)); [exact I | apply RG_refl]); cbn [step].
  - apply RG_add_ref, RG_refl.
  - destruct (rkind (nth r (refs s) ref0)); try apply RG_refl; apply RG_release_call_by.
  - unfold release_section. destruct (nth_error (relacts s) a) as [x|] eqn:Ex; [|apply RG_refl]. destruct (ra_pc x); [|apply RG_refl].
    set (sa := set_relacts s _).
    assert (Ha : RG s sa).
    { unfold RG, raref, sa. cbn [refs relacts set_relacts]. rewrite (map_ra_ref_set _ _ x) by (auto). repeat split; auto. }
    assert (H1 : RG s (remove_ref sa (ra_ref x))) by (now apply RG_remove_ref).
    set (s1 := remove_ref sa (ra_ref x)) in *. destruct (ra_cons x) as [c|]; [|exact H1].
    destruct (cpcv (getc s1 c)); try exact H1; (apply (RG_trans s s1); [exact H1 | apply RG_ext; reflexivity]).
  - unfold start_consumer. apply RG_add_ref. apply RG_ext; reflexivity.
  - apply RG_cons_step.
  - destruct (nth_error (conss s) c); [apply RG_setc|]; apply RG_refl.
  - unfold fire_section. destruct (nth_error (conss s) c) as [x|]; [|apply RG_refl]. destruct (ww_firepc x) as [[|]|]; try apply RG_refl.
    apply RG_remove_ref, RG_setc, RG_refl.
  - apply RG_cb_return.
  - destruct (Nat.eqb c 0); [apply RG_refl|]. destruct (cancel_root_frame s c) as [E1 [E2 _]]. now apply RG_ext.
  - destruct (watch_step_spec s c) as [->|[x [y [_ [-> _]]]]]; [apply RG_refl | apply RG_setc, RG_refl].
Qed.

Lemma RG_run es : forall s, RG s (run repaired s es).
Proof.
  induction es as [|e es IH]; intros s; [apply RG_refl|]. rewrite run_cons. apply (RG_trans s (step repaired s e)); [apply RG_step | apply IH].
Qed.

Lemma RG_settle s : RG s (settle s).
Proof. destruct (settle_run s) as [es [-> _]]. apply RG_run. Qed.

(* ------------------------------------------------------------------ *)
(* the reference of a release actor has its release flag set, for ever *)
Definition InvF (s : st) : Prop := forall r, In r (raref s) -> r < length (refs s) /\ rflag (rref s r) = true.

Lemma InvF_RG s s' : RG s s' -> InvF s -> InvF s'.
Proof.
  intros [A1 [A2 [_ A4]]] H r Hr. destruct (A4 r Hr) as [H0|H0]; [|exact H0]. destruct (H r H0) as [P1 P2]. split; [lia|]. now apply A2.
Qed.

Theorem run_InvF k es : InvF (run repaired (init k) es).
Proof. apply (InvF_RG (init k)); [apply RG_run|]. intros r []. Qed.

(* ------------------------------------------------------------------ *)
(* Access's private copy: "not resolved" comes with the empty value and no error *)
Definition acc_ok2 (a : bool * nat * nat) : Prop := let '(r, v, e) := a in r = false -> v = 0 /\ e = 0.
Definition InvK2 (l : list cons) : Prop := forall c x, nth_error l c = Some x -> acc_ok2 (acont x).

Lemma InvK2_map l l' : map acont l' = map acont l -> InvK2 l -> InvK2 l'.
Proof.
  intros E H c x' Hx'. pose proof (nth_error_map_some acont _ _ _ Hx') as M. rewrite E in M.
  destruct (nth_error l c) as [x|] eqn:Ex; [|rewrite (proj2 (nth_error_None (map acont l) c)) in M; [discriminate | rewrite map_length; now apply nth_error_None]].
  rewrite (nth_error_map_some acont _ _ _ Ex) in M. assert (M1 : acont x' = acont x) by congruence. rewrite M1. exact (H c x Ex).
Qed.

Lemma InvK2_set l c y : InvK2 l -> acc_ok2 (acont y) -> InvK2 (set_nth l c y).
Proof.
  intros H Hy k x Hk. destruct (Nat.lt_ge_cases c (length l)) as [Hl|Hl].
  - destruct (Nat.eq_dec k c) as [->|Hne].
    + rewrite nth_error_set_nth_same in Hk by exact Hl. now inversion Hk; subst.
    + rewrite nth_error_set_nth_other in Hk by exact Hne. exact (H k x Hk).
  - rewrite set_nth_oob in Hk by exact Hl. exact (H k x Hk).
Qed.

Lemma InvK2_getc s c : InvK2 (conss s) -> acc_ok2 (acont (getc s c)).
Proof.
  intros H. unfold getc. destruct (nth_error (conss s) c) as [x|] eqn:E.
  - rewrite (nth_error_nth_d _ _ cons0 _ E). exact (H c x E).
  - rewrite nth_overflow by (now apply nth_error_None). cbn. auto.
Qed.

Lemma invoke_InvK2 s r n : InvK2 (conss s) -> InvK2 (conss (invoke s r n)).
Proof.
  intros H c x' Hx'. destruct (getc_nth_error _ c x' Hx') as [Eg _]. rewrite <- Eg.
  destruct (invoke_acont s r n c) as [[E|E] _]; rewrite E; [now apply InvK2_getc|]. destruct n; cbn; [auto | discriminate].
Qed.

Lemma step_InvK2 s e : InvK2 (conss s) -> InvK2 (conss (step repaired s e)).
Proof.
  intros H. destruct e; try (apply (Q_step_container InvK2 invoke_InvK2); [exact I | exact H]); cbn [step].
  - unfold release_section. destruct (nth_error (relacts s) a) as [x|]; [|exact H]. destruct (ra_pc x); [|exact H].
    set (s1 := remove_ref _ (ra_ref x)). assert (H1 : InvK2 (conss s1)) by (apply (Q_remove_ref InvK2 invoke_InvK2); exact H).
    destruct (ra_cons x) as [c|]; [|exact H1]. destruct (cpcv (getc s1 c)) eqn:Ec; try exact H1.
    cbn [conss set_conss]. apply InvK2_set; [exact H1|]. change (acont (with_cpc ?y ?p)) with (acont y). now apply InvK2_getc.
  - unfold start_consumer. apply (Q_add_ref InvK2 invoke_InvK2). cbn [conss set_conss].
    intros c x Hx. destruct (nth_error_snoc_cases _ _ _ _ Hx) as [[_ H0]|[_ ->]]; [exact (H c x H0)|]. cbn. auto.
  - apply (InvK2_map (conss s)); [apply (cfd_cons_step acont); reflexivity | exact H].
  - destruct (nth_error (conss s) c) as [x|] eqn:Ex; [|exact H]. rewrite conss_setc. apply InvK2_set; [exact H|]. exact (H c x Ex).
  - unfold fire_section. destruct (nth_error (conss s) c) as [x|] eqn:Ex; [|exact H].
    destruct (ww_firepc x) as [[|]|]; try exact H. apply (Q_remove_ref InvK2 invoke_InvK2). rewrite conss_setc. apply InvK2_set; [exact H|]. exact (H c x Ex).
  - apply (InvK2_map (conss s)); [apply (cfd_cb_return acont); reflexivity | exact H].
  - destruct (watch_step_spec s c) as [->|[x [y [Hx [-> Hy]]]]]; [exact H|]. wsplit Hy. rewrite conss_setc. apply InvK2_set; [exact H|].
    pose proof (H c x Hx) as K. unfold acont in *. now rewrite Wares, Waval, Waerr.
Qed.

Theorem run_InvK2 k es : InvK2 (conss (run repaired (init k) es)).
Proof. unfold run. apply fold_inv; [intros s e; apply step_InvK2 | intros [|c] x H; discriminate]. Qed.

(* ------------------------------------------------------------------ *)
(* a parked watcher of the running invocation exists only while the consumer is inside its callback *)
Definition wp_ok (x : cons) : Prop := ac_wpark x = true -> exists v, cpcv x = CAccCb v.
Definition InvW (l : list cons) : Prop := forall c x, nth_error l c = Some x -> wp_ok x.

Lemma InvW_set l c y : InvW l -> wp_ok y -> InvW (set_nth l c y).
Proof.
  intros H Hy k x Hk. destruct (Nat.lt_ge_cases c (length l)) as [Hl|Hl].
  - destruct (Nat.eq_dec k c) as [->|Hne].
    + rewrite nth_error_set_nth_same in Hk by exact Hl. now inversion Hk; subst.
    + rewrite nth_error_set_nth_other in Hk by exact Hne. exact (H k x Hk).
  - rewrite set_nth_oob in Hk by exact Hl. exact (H k x Hk).
Qed.

Lemma InvW_getc s c : InvW (conss s) -> wp_ok (getc s c).
Proof.
  intros H. unfold getc. destruct (nth_error (conss s) c) as [x|] eqn:E.
  - rewrite (nth_error_nth_d _ _ cons0 _ E). exact (H c x E).
  - rewrite nth_overflow by (now apply nth_error_None). intros Hx. discriminate Hx.
Qed.

Lemma wp_ok_same x y : wp_ok x -> cpcv y = cpcv x -> (ac_wpark y = true -> ac_wpark x = true) -> wp_ok y.
Proof. intros H E1 E2 Hy. rewrite E1. apply H. now apply E2. Qed.

Lemma wp_ok_off y : ac_wpark y = false -> wp_ok y.
Proof. intros E Hy. congruence. Qed.

(* what a reference callback does to the watcher flag of consumer c *)
Lemma invoke_wp s r n c :
  cpcv (getc (invoke s r n) c) = cpcv (getc s c) /\
  (ac_wpark (getc (invoke s r n) c) = true -> ac_wpark (getc s c) = true \/ exists v, cpcv (getc s c) = CAccCb v).
Proof.
  destruct (invoke_cq s r n c) as [_ [Ep _]]. split; [exact Ep|].
  unfold invoke. destruct (nth_error (refs s) r) as [x|] eqn:E; [|now left].
  assert (G1 : forall c', getc (set_last s r n) c' = getc s c') by (intros c'; apply getc_set_last).
  assert (SC : forall s2 c' y, (forall c0, getc s2 c0 = getc s c0) ->
             (c' = c -> ac_wpark y = true -> ac_wpark (getc s c) = true \/ exists v, cpcv (getc s c) = CAccCb v) ->
             ac_wpark (getc (setc s2 c' y) c) = true -> ac_wpark (getc s c) = true \/ exists v, cpcv (getc s c) = CAccCb v).
  { intros s2 c' y G2 Hy. destruct (Nat.lt_ge_cases c' (length (conss s2))) as [Hl|Hl].
    - rewrite getc_setc by exact Hl. destruct (Nat.eqb_spec c c') as [->|Hne]; [now apply Hy | rewrite G2; now left].
    - rewrite getc_setc_oob by exact Hl. rewrite G2. now left. }
  destruct (rkind x) as [| | |c'|c'|c'] eqn:K.
  - now left.
  - rewrite G1. now left.
  - destruct n; [rewrite G1; now left|]. change (getc (set_asyncs ?a ?b) c) with (getc a c). rewrite G1. now left.
  - apply (SC (set_last s r n)); auto. intros ->. cbn [ac_wpark cb_wait]. now left.
  - rewrite G1. destruct (cb_wwr (getc s c') n (nonce (set_last s r n))) as [y fired] eqn:Ew.
    assert (W : ac_wpark y = ac_wpark (getc s c')).
    { unfold cb_wwr in Ew. destruct (ww_res (getc s c')); [destruct (_ && negb (ww_once (getc s c'))) | destruct n]; inversion Ew; reflexivity. }
    set (s2 := set_refs (set_last s r n) (set_nth (refs (set_last s r n)) r {| rin := rin x; rflag := true; rkind := KWwr c'; rlast := Some n |})).
    assert (G2 : forall c0, getc s2 c0 = getc s c0) by (intros c0; unfold getc, s2; cbn [conss set_refs]; now rewrite conss_set_last).
    destruct fired; [destruct (rflag x)|]; [apply (SC (set_last s r n)) | apply (SC s2) | apply (SC (set_last s r n))]; auto; intros ->; cbn [ac_wpark with_fire]; rewrite W; now left.
  - apply (SC (set_last s r n)); auto. intros ->. unfold cb_access.
    destruct n as [|v e]; [destruct (Bool.eqb false (ac_res (getc s c)) && Nat.eqb 0 (ac_val (getc s c)) && Nat.eqb 0 (ac_err (getc s c)))
                          | destruct (Bool.eqb true (ac_res (getc s c)) && Nat.eqb v (ac_val (getc s c)) && Nat.eqb e (ac_err (getc s c)))];
      try (now left); cbn [ac_wpark]; destruct (cpcv (getc s c)); try (now left); intros _; right; eauto.
Qed.

Lemma invoke_InvW s r n : InvW (conss s) -> InvW (conss (invoke s r n)).
Proof.
  intros H c x' Hx'. destruct (getc_nth_error _ c x' Hx') as [Eg _]. rewrite <- Eg. destruct (invoke_wp s r n c) as [Ep Ew].
  intros Hw. rewrite Ep. destruct (Ew Hw) as [Hold|Hcb]; [exact (InvW_getc s c H Hold) | exact Hcb].
Qed.

Lemma step_InvW s e : InvW (conss s) -> InvW (conss (step repaired s e)).
Proof.
  intros H. destruct e; try (apply (Q_step_container InvW invoke_InvW); [exact I | exact H]); cbn [step].
  - unfold release_section. destruct (nth_error (relacts s) a) as [x|]; [|exact H]. destruct (ra_pc x); [|exact H].
    set (s1 := remove_ref _ (ra_ref x)). assert (H1 : InvW (conss s1)) by (apply (Q_remove_ref InvW invoke_InvW); exact H).
    destruct (ra_cons x) as [c|]; [|exact H1]. destruct (cpcv (getc s1 c)) eqn:Ec; try exact H1.
    cbn [conss set_conss]. apply InvW_set; [exact H1|]. apply wp_ok_off. cbn [ac_wpark with_cpc].
    destruct (ac_wpark (getc s1 c)) eqn:Ew; [|reflexivity]. destruct (InvW_getc s1 c H1 Ew) as [v Ev]. congruence.
  - unfold start_consumer. apply (Q_add_ref InvW invoke_InvW). cbn [conss set_conss].
    intros c x Hx. destruct (nth_error_snoc_cases _ _ _ _ Hx) as [[_ H0]|[_ ->]]; [exact (H c x H0) | apply wp_ok_off; reflexivity].
  - (* a consumer's own step: nothing happens inside the callback; elsewhere no watcher is parked *)
    intros c' x' Hx'. destruct (getc_nth_error _ c' x' Hx') as [Eg _]. rewrite <- Eg.
    destruct (Nat.eq_dec c' c) as [->|Hne]; [|rewrite cons_step_other by exact Hne; now apply InvW_getc].
    pose proof (map_nth_getc ac_wpark s (cons_step s c) c ((cfd_cons_step ac_wpark) ltac:(reflexivity) ltac:(reflexivity) s c)) as Ew.
    intros Hw. rewrite Ew in Hw. destruct (InvW_getc s c H Hw) as [v Ev].
    assert (Idle : cons_step s c = s).
    { unfold cons_step. destruct (nth_error (conss s) c) as [x|] eqn:Ex; [|reflexivity]. rewrite (getc_x s c x Ex) in Ev. rewrite Ev. destruct (ck x); reflexivity. }
    rewrite Idle. eauto.
  - destruct (nth_error (conss s) c) as [x|] eqn:Ex; [|exact H]. rewrite conss_setc. apply InvW_set; [exact H|]. apply (wp_ok_same x); auto. exact (H c x Ex).
  - unfold fire_section. destruct (nth_error (conss s) c) as [x|] eqn:Ex; [|exact H].
    destruct (ww_firepc x) as [[|]|]; try exact H. apply (Q_remove_ref InvW invoke_InvW). rewrite conss_setc. apply InvW_set; [exact H|].
    apply (wp_ok_same x); auto. exact (H c x Ex).
  - (* the callback returns: its watcher, if parked, is a stale one from now on *)
    intros c' x' Hx'. destruct (getc_nth_error _ c' x' Hx') as [Eg Hl']. rewrite <- Eg.
    destruct (Nat.eq_dec c' c) as [->|Hne]; [|rewrite cb_return_other by exact Hne; now apply InvW_getc].
    unfold cb_return. destruct (nth_error (conss s) c) as [x|] eqn:Ex; [|now apply InvW_getc].
    destruct (getc_nth_error s c x Ex) as [Egx Hl].
    assert (Keep : wp_ok (getc s c)) by (now apply InvW_getc).
    destruct (ck x); try exact Keep. destruct (cpcv x) eqn:Ep; try exact Keep.
    assert (AR : forall e', wp_ok (getc (acc_ret s c (cb_done x) e') c)).
    { intros e'. apply wp_ok_off.
      unfold acc_ret. pose proof (conss_release_call_by (setc s c (with_cpc (cb_done x) (CRel e'))) (cref (cb_done x)) (Some c)) as G.
      destruct (release_call_by (setc s c (with_cpc (cb_done x) (CRel e'))) (cref (cb_done x)) (Some c)) as [s1 parked]. cbn [fst] in G.
      destruct parked.
      - unfold getc. rewrite G, conss_setc, nth_set_nth_same by exact Hl. reflexivity.
      - unfold getc. rewrite conss_setc, nth_set_nth_same; [reflexivity|]. rewrite G, conss_setc, length_set_nth. exact Hl. }
    destruct (ccanc x); [apply AR|].
    match goal with |- wp_ok (getc (if ?b then _ else _) _) => destruct b end; [apply AR|].
    rewrite getc_setc, Nat.eqb_refl by exact Hl. apply wp_ok_off. reflexivity.
  - destruct (watch_step_spec s c) as [->|[x [y [Hx [-> Hy]]]]]; [exact H|]. wsplit Hy. rewrite conss_setc. apply InvW_set; [exact H|].
    apply (wp_ok_same x); [exact (H c x Hx) | exact Wcpcv|]. destruct Wwatch as [[_ [_ E]]|[_ [_ [_ [E _]]]]]; congruence.
Qed.

Theorem run_InvW k es : InvW (conss (run repaired (init k) es)).
Proof. unfold run. apply fold_inv; [intros s e; apply step_InvW | intros [|c] x H; discriminate]. Qed.
Print Assumptions run_InvF.
Print Assumptions run_InvK2.
Print Assumptions run_InvW.
