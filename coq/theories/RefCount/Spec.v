(* refcount: codec, eager schedule, observations, and the monitors of C08, C09, C10.

   Config line:  C keepUnref [constValue]      (constValue = 1: the resolver returns the constant value 7 for every generation;
                                                 then only the Access clauses 10.4 - 10.7 are judged)
   Events:   1 c        SetContext (c = 0: nil)
             14 c       the owner of root context c (1..3) cancels it; the RefCount is not told
             13 c res   the callback of Access consumer c returns: 0 nil, 1 its ctx.Err(), 10/11 an error of its own
             2 k        AddRef with callback kind k: 0 nil, 1 logging, 2 logging and calling released() of the value's generation
             3 r        Ref.Release of reference r (flag swap; if it is the first release, a release actor parks before removeRef)
             4 a        removeRef section of release actor a
             5 g        released() of goroutine g, called from outside the mutex (synchronous path)
             6 k g      section of the k-th parked asynchronous released(); g = the goroutine whose released() it is (filled in by the
                        harness from the nonce the hook reports; the model refuses the event if g is not that goroutine)
             7 g enter  resolve goroutine g leaves its first gate (enter: it called the resolver; used when both cases were ready)
             8 g rel e [z]  the resolver call on goroutine g returns value g+1 (7 if constValue), a release function iff rel, error e (0 nil, >= 2);
                        z = 1: the EMPTY value 0 instead - with an error (`return zero, rel, err`) or without (`return zero, rel, nil`:
                        handle 0, a nil pointer with a cleanup); z absent = 0
             9 g        the store section of goroutine g
             10 k       start a consumer: 0 Wait, 1 WaitWithReleased + the six lines of ResolveWithReleased replicated by the harness, 2 Access,
                        3 Resolve (behaves as Wait; the caller gets ref.Release instead of the reference), 4 ResolveWithReleased itself (behaves as 1)
             11 c       cancel consumer c's context
             12 c       the goroutine spawned by consumer c's WaitWithReleased callback: removeRef section, then released()
             15 c       the oldest parked watcher goroutine of Access consumer c takes its step (hook site 5: inside Access, the goroutine
                        that cancels the callback's context when the value changes, parked between its wake-up and its cbCancel()).
                        Against a /repo without that hook the harness reports the step right after the event that woke the watcher
   Observation after every event:
     rets  ng gcode*  target targetErr  nref (last v e)*  nrel (id target stale)*  nasync  nrelact (code ref)*  ncons (code v e held fired firepc)*
     gcode 1 first gate, 2 blocked, 3 inside the resolver, 4 before the store section, 5 done
     last  0 never notified (and always for consumer references), 1 "gone", 2 resolved (v, e)
     nrel  the release-function calls made during this event: which, the target's content at that moment, number of present
           references whose last notification was that value
     relact code 1 parked, 5 done; consumer code 2 blocked, 3 returned (v, e, still holding its reference); fired = released-callback
     invocations; firepc 0 none, 1 its goroutine is parked, 5 done.
     Error codes: 0 nil, 1 context.Canceled ITSELF, 2.. the harness's own errors (resolver: 2, 3; Access callback: 10, 11),
     97 context.DeadlineExceeded, 98 the cause of a context cancelled with a cause, 99 anything else (e.g. a wrapped Canceled).
     The harness gives the n-th consumer of a history a context of flavour n mod 4 (1: it ends like a deadline, 3: it is cancelled
     with a cause, 0 / 2: plain WithCancel); the code under test returns the literal context.Canceled for all of them, so the
     flavour is not part of the event.  Consumer code 7: a Wait / Resolve / ResolveWithReleased call RETURNED A CONTEXT ERROR THAT IS
     NOT context.Canceled (e = 97, 98 or 99): no model state has that code (clause 10.8).
     Access consumers: code 6 inside the callback (v = the value it was called with, held = 1 iff its context is cancelled now),
     2 waiting / inside its final Release, 3 returned (v = the returned error code: 0 nil, 1 Canceled, else an error);
     e = the number of its watcher goroutines that are parked (woken, before cbCancel()), firepc = 1 iff the watcher of the
     running invocation is among them. *)
From Util Require Import Common.Base Common.ListLemmas RefCount.Model.
Open Scope N_scope.

Definition n2n := N.to_nat.
Definition nn := N.of_nat.
Definition nb (x : bool) : N := if x then 1 else 0.
Definition nz (n : N) : bool := negb (N.eqb n 0).

Record hst := { hs : st; hrel : nat; hconst : bool }.

Definition hinit (cfg : list N) : option hst :=
  match cfg with
  | [k] => Some {| hs := init (nz k); hrel := 0; hconst := false |}
  | [k; c] => Some {| hs := init (nz k); hrel := 0; hconst := nz c |}
  | _ => None
  end.

Definition wake_g (s : st) (g : nat) : st :=
  match gpcv (getg s g) with GWait | GWaitC => proceed repaired s g true | _ => s end.

Definition settle (s : st) : st :=
  let s1 := fold_left wake_g (seq 0 (length (gs s))) s in
  fold_left cons_step (seq 0 (length (conss s1))) s1.

Definition gcode (x : gor) : N :=
  match gpcv x with GGate0 => 1 | GWait | GWaitC => 2 | GInRes => 3 | GStore _ _ _ => 4 | GDone => 5 end.
Definition lastcode (x : ref) : list N :=
  match rkind x with
  | KLog | KCallsRel =>
    match rlast x with None => [0; 0; 0] | Some NGone => [1; 0; 0] | Some (NRes v e) => [2; nn v; nn e] end
  | _ => [0; 0; 0]
  end.
Definition relcode (x : relcall) : list N := [nn (rc_id x); nn (rc_target x); nn (rc_stale x)].
Definition parked (x : async) : bool := match as_pc x with AParked => true | ARan => false end.
Definition racode (x : relact) : list N := [match ra_pc x with RGate => 1 | RDone => 5 end; nn (ra_ref x)].
Definition nwatch (x : cons) : N := nn (ac_wstale x + (if ac_wpark x then 1 else 0)).
Definition ccode (x : cons) : list N :=
  (match cpcv x with
   | CRet v e h => [3; nn v; nn e; nb h]
   | CAccCb v => [6; nn v; nwatch x; nb (ac_cbcanc x || ccanc x)]
   | CAccRet code => [3; nn code; nwatch x; 0]
   | _ => [2; 0; nwatch x; 0]
   end) ++ [nn (ww_fired x); if ac_wpark x then 1 else match ww_firepc x with None => 0 | Some RGate => 1 | Some RDone => 5 end].

Definition obs_of (rets : list N) (s : st) (from : nat) : list N :=
  rets ++ [nn (length (gs s))] ++ map gcode (gs s) ++ [nn (target s); nn (terr s)]
       ++ [nn (length (refs s))] ++ concat (map lastcode (refs s))
       ++ [nn (length (rellog s) - from)] ++ concat (map relcode (skipn from (rellog s)))
       ++ [nn (cnt parked (asyncs s))]
       ++ [nn (length (relacts s))] ++ concat (map racode (relacts s))
       ++ [nn (length (conss s))] ++ concat (map ccode (conss s)).

Fixpoint nth_parked (l : list async) (k idx : nat) : option nat :=
  match l with
  | [] => None
  | x :: r => if parked x then (match k with O => Some idx | S k' => nth_parked r k' (S idx) end) else nth_parked r k (S idx)
  end.

(* resolver returns the codec accepts: never context.Canceled (1); the value of the generation or the empty value *)
Definition res_ok (er z : N) : bool := negb (N.eqb er 1) && (N.eqb z 0 || N.eqb z 1).
Definition res_val (const : bool) (g z : N) : nat := if N.eqb z 0 then (if const then 7%nat else S (n2n g)) else 0%nat.
(* consumer kinds: Resolve is Wait, ResolveWithReleased is WaitWithReleased + the harness's replica *)
Definition ckind_norm (k : N) : N := match k with 3 => 0 | 4 => 1 | _ => k end.
Definition ckind_of (k : N) : ckind := match ckind_norm k with 0 => CKWait | 1 => CKWwr | _ => CKAccess end.

Definition hstep (h : hst) (e : list N) : option (hst * list N) :=
  let s := hs h in
  let fin (s' : st) (rets : list N) :=
    let s'' := settle s' in
    Some ({| hs := s''; hrel := length (rellog s''); hconst := hconst h |}, obs_of rets s'' (hrel h)) in
  let ret8 (g hr er z : N) :=
    match nth_error (gs s) (n2n g) with
    | Some x => match gpcv x with
                | GInRes => if res_ok er z then fin (resolver_return s (n2n g) (res_val (hconst h) g z) (nz hr) (n2n er)) [] else None
                | _ => None
                end
    | None => None
    end in
  match e with
  | [1; c] => let '(s', u) := set_context s (n2n c) in fin s' [nb u]
  | [2; k] => if N.leb k 2 then let s' := add_ref repaired s (kind_of (n2n k)) in fin s' [nb (panicked s')] else None
  | [3; r] => if Nat.ltb (n2n r) (length (refs s))
              then match rkind (nth (n2n r) (refs s) ref0) with KAccess _ => None | _ => fin (release_call s (n2n r)) [] end
              else None
  | [4; a] =>
    match nth_error (relacts s) (n2n a) with
    | Some x => match ra_pc x with RGate => fin (release_section s (n2n a)) [] | RDone => None end
    | None => None
    end
  | [5; g] =>
    match nth_error (gs s) (n2n g) with
    | Some x => if gent x then fin (released_section s (gnonce x)) [] else None
    | None => None
    end
  | [6; k; g] =>
    match nth_parked (asyncs s) (n2n k) 0 with
    | Some a => if Nat.ltb (n2n g) (length (gs s)) && Nat.eqb (gnonce (getg s (n2n g))) (as_nonce (nth a (asyncs s) {| as_nonce := 0; as_pc := ARan |}))
                then fin (async_section s a) [] else None
    | None => None
    end
  | [7; g; en] =>
    match nth_error (gs s) (n2n g) with
    | Some x => match gpcv x with GGate0 => fin (proceed repaired s (n2n g) (nz en)) [] | _ => None end
    | None => None
    end
  | [8; g; hr; er] => ret8 g hr er 0
  | [8; g; hr; er; z] => ret8 g hr er z
  | [9; g] =>
    match nth_error (gs s) (n2n g) with
    | Some x => match gpcv x with GStore _ _ _ => fin (store s (n2n g)) [] | _ => None end
    | None => None
    end
  | [10; k] => if N.leb k 4 then fin (start_consumer repaired s (ckind_of k)) [] else None
  | [14; c] => if N.leb 1 c && N.leb c 3 then fin (cancel_root s (n2n c)) [] else None
  | [13; c; res] =>
    match nth_error (conss s) (n2n c) with
    | Some x => match ck x, cpcv x with
                | CKAccess, CAccCb _ => if N.eqb res 0 || N.eqb res 1 || N.eqb res 10 || N.eqb res 11
                                        then fin (cb_return repaired s (n2n c) (n2n res)) [] else None
                | _, _ => None
                end
    | None => None
    end
  | [11; c] =>
    match nth_error (conss s) (n2n c) with
    | Some x => if ccanc x then None else fin (step repaired s (EConsCancel (n2n c))) []
    | None => None
    end
  | [12; c] =>
    match nth_error (conss s) (n2n c) with
    | Some x => match ww_firepc x with Some RGate => fin (fire_section s (n2n c)) [] | _ => None end
    | None => None
    end
  | [15; c] =>
    match nth_error (conss s) (n2n c) with
    | Some x => match ck x with
                | CKAccess => if Nat.ltb 0 (ac_wstale x) || ac_wpark x then fin (watch_step s (n2n c)) [] else None
                | _ => None
                end
    | None => None
    end
  | _ => None
  end.

Definition step_opt (h : option hst) (e : list N) : option (option hst * list N) :=
  match h with
  | Some h => match hstep h e with Some (h', o) => Some (Some h', o) | None => None end
  | None => None
  end.

(* ------------------------------------------------------------------ *)
(* Monitors: events and OBSERVED observations only. *)
Fixpoint take {A} (n : nat) (l : list A) : option (list A * list A) :=
  match n with
  | O => Some ([], l)
  | S n' => match l with x :: r => match take n' r with Some (a, b) => Some (x :: a, b) | None => None end | [] => None end
  end.
Fixpoint take3 (n : nat) (l : list N) : option (list (N * N * N) * list N) :=
  match n with
  | O => Some ([], l)
  | S n' => match l with
            | a :: b :: c :: r => match take3 n' r with Some (xs, r') => Some ((a, b, c) :: xs, r') | None => None end
            | _ => None
            end
  end.
Fixpoint take2 (n : nat) (l : list N) : option (list (N * N) * list N) :=
  match n with
  | O => Some ([], l)
  | S n' => match l with
            | a :: b :: r => match take2 n' r with Some (xs, r') => Some ((a, b) :: xs, r') | None => None end
            | _ => None
            end
  end.
Fixpoint take6 (n : nat) (l : list N) : option (list (N * N * N * N * N * N) * list N) :=
  match n with
  | O => Some ([], l)
  | S n' => match l with
            | a :: b :: c :: d :: e :: f :: r =>
              match take6 n' r with Some (xs, r') => Some ((a, b, c, d, e, f) :: xs, r') | None => None end
            | _ => None
            end
  end.

Record pobs := { po_rets : list N; po_gs : list N; po_target : N; po_terr : N; po_refs : list (N * N * N);
                 po_rels : list (N * N * N); po_async : N; po_relacts : list (N * N); po_cons : list (N * N * N * N * N * N) }.

Definition nrets (e : list N) : nat := match e with 1 :: _ => 1%nat | 2 :: _ => 1%nat | _ => 0%nat end.

Definition parse (e o : list N) : option pobs :=
  match take (nrets e) o with
  | Some (rets, ng :: r1) =>
    match take (n2n ng) r1 with
    | Some (gsl, tg :: te :: nr :: r2) =>
      match take3 (n2n nr) r2 with
      | Some (rfs, nl :: r3) =>
        match take3 (n2n nl) r3 with
        | Some (rls, na :: nra :: r4) =>
          match take2 (n2n nra) r4 with
          | Some (ras, nc :: r5) =>
            match take6 (n2n nc) r5 with
            | Some (cs, []) => Some {| po_rets := rets; po_gs := gsl; po_target := tg; po_terr := te; po_refs := rfs; po_rels := rls;
                                       po_async := na; po_relacts := ras; po_cons := cs |}
            | _ => None
            end
          | _ => None
          end
        | _ => None
        end
      | _ => None
      end
    | _ => None
    end
  | _ => None
  end.

Record mst := {
  m_keep : bool; m_ctx : N;
  m_in : list bool;                 (* per reference: still in the set (reference machine) *)
  m_kind : list N;                  (* per reference: 1 logging / 0 other *)
  m_raref : list nat;               (* per release actor: its reference *)
  m_cref : list nat;                (* per consumer: its reference *)
  m_out : list N;                   (* release functions handed out and not yet called (goroutine ids) *)
  m_called : list N;                (* release functions called *)
  m_cur : option (N * N);           (* generation whose result is stored, with its error *)
  m_ng : nat;                       (* goroutines seen *)
  m_inval : list bool;              (* per consumer: its returned value was invalidated while it held the reference *)
  m_ckind : list N;                 (* per consumer: 0 Wait, 1 ResolveWithReleased *)
  m_cret : list bool;               (* per consumer: already returned *)
  m_const : bool;                   (* constant resolver value: only the Access clauses are judged *)
  m_gs : list N;                    (* goroutine codes of the previous observation *)
  m_ccanc : list bool;              (* per consumer: the caller's context was cancelled *)
  m_acb : list bool;                (* per Access consumer: inside its callback at the previous observation *)
  m_acanc : list bool;              (* ... and its callback context was cancelled then *)
  m_ainv : list bool;               (* ... the value of the running invocation was invalidated since the invocation started *)
  m_adec : list (option (N * bool));(* per Access consumer: it decided to return: expected code, decided by a callback result *)
  m_rootc : list N;                 (* root contexts cancelled by their owner *)
  m_empty : list N;                 (* goroutines whose resolver call returned the empty value (with or without an error) *)
  m_emptyok : list N;               (* ... the empty value with a nil error *)
}.

Definition minit (cfg : list N) : option mst :=
  match cfg with
  | [k] => Some {| m_keep := nz k; m_ctx := 0; m_in := []; m_kind := []; m_raref := []; m_cref := []; m_out := []; m_called := [];
                   m_cur := None; m_ng := 0; m_inval := []; m_ckind := []; m_cret := []; m_const := false; m_gs := [];
                   m_ccanc := []; m_acb := []; m_acanc := []; m_ainv := []; m_adec := []; m_rootc := []; m_empty := []; m_emptyok := [] |}
  | [k; c] => Some {| m_keep := nz k; m_ctx := 0; m_in := []; m_kind := []; m_raref := []; m_cref := []; m_out := []; m_called := [];
                      m_cur := None; m_ng := 0; m_inval := []; m_ckind := []; m_cret := []; m_const := nz c; m_gs := [];
                      m_ccanc := []; m_acb := []; m_acanc := []; m_ainv := []; m_adec := []; m_rootc := []; m_empty := []; m_emptyok := [] |}
  | _ => None
  end.

Definition fails (p c : nat) (ok : bool) : list (nat * nat) := if ok then [] else [(p, c)].
Definition mem (x : N) (l : list N) : bool := existsb (N.eqb x) l.
Fixpoint nodupb (l : list N) : bool := match l with [] => true | x :: r => negb (mem x r) && nodupb r end.
Definition cntb (l : list bool) : nat := length (filter (fun x => x) l).
Fixpoint zip3 {A B C} (a : list A) (b : list B) (c : list C) : list (A * B * C) :=
  match a, b, c with x :: a', y :: b', z :: c' => (x, y, z) :: zip3 a' b' c' | _, _, _ => [] end.

Fixpoint zip5 {A B C D E} (a : list A) (b : list B) (c : list C) (d : list D) (e : list E) : list (A * B * C * D * E) :=
  match a, b, c, d, e with x :: a', y :: b', z :: c', u :: d', v :: e' => (x, y, z, u, v) :: zip5 a' b' c' d' e' | _, _, _, _, _ => [] end.
Definition padb (l : list bool) (n : nat) : list bool := (l ++ repeat false (n - length l))%list.

Definition mon1 (m : mst) (e : list N) (p : pobs) : mst * list (nat * nat) :=
  let vof (g : N) : N := if m_const m then 7 else g + 1 in
  let ng := length (po_gs p) in
  let spawned := Nat.ltb (m_ng m) ng in
  (* ---- reference machine ---- *)
  let ctx' := match e with [1; c] => c | _ => m_ctx m end in
  let rootc' := match e with [14; c] => c :: m_rootc m | _ => m_rootc m end in
  let nref_before := length (m_in m) in
  let in1 := match e with
             | [2; _] | [10; _] => (m_in m ++ [true])%list
             | [4; a] => set_nth (m_in m) (nth (n2n a) (m_raref m) 0%nat) false
             | [12; c] => set_nth (m_in m) (nth (n2n c) (m_cref m) 0%nat) false
             | _ => m_in m
             end in
  let kind' := match e with
               | [2; k] => (m_kind m ++ [if N.eqb k 0 then 0 else 1])%list
               | [10; _] => (m_kind m ++ [0])%list
               | _ => m_kind m
               end in
  let cref' := match e with [10; _] => (m_cref m ++ [nref_before])%list | _ => m_cref m end in
  let ckind' := match e with [10; k] => (m_ckind m ++ [ckind_norm k])%list | _ => m_ckind m end in
  let ncons := length (po_cons p) in
  let cret' := map (fun x => let '(code, _, _, _, _, _) := x in N.eqb code 3) (po_cons p) in
  let raref' := map (fun x => n2n (snd x)) (po_relacts p) in
  let nin := cntb in1 in
  (* ---- release functions ---- *)
  let out1 := match e with [8; g; hr; _] | [8; g; hr; _; _] => if nz hr then (m_out m ++ [g])%list else m_out m | _ => m_out m end in
  let empty' := match e with [8; g; _; _; z] => if nz z then (m_empty m ++ [g])%list else m_empty m | _ => m_empty m end in
  let emptyok' := match e with [8; g; _; er; z] => if nz z && N.eqb er 0 then (m_emptyok m ++ [g])%list else m_emptyok m | _ => m_emptyok m end in
  (* the value of generation g as the observers see it *)
  let vofe (g : N) : N := if mem g empty' then 0 else vof g in
  let newcalls := map (fun x => let '(id, _, _) := x in id) (po_rels p) in
  let called' := (m_called m ++ newcalls)%list in
  let out' := filter (fun g => negb (mem g newcalls)) out1 in
  (* which generation is stored now.  A stored result is recognised in the target containers; the empty value stored without an
     error leaves no trace there: the store section of the newest goroutine stores its result iff there are a context and a
     reference (an older goroutine is superseded, and so is the newest one once the context or the last reference went away).
     The stored result goes away with: a context change, released() of that generation, the removeRef section that drops the last
     reference (unless keep-unreferenced and no error); otherwise it is checked against the target containers *)
  let cur1 := m_cur m in
  let stored_now :=
    match e with
    | [9; g] => if mem g emptyok' then (if Nat.eqb (S (n2n g)) ng && nz ctx' && Nat.ltb 0 nin then Some (g, 0) else None)
                else if N.eqb (po_target p) (vof g) && N.eqb (po_terr p) 0 then Some (g, 0)
                else if nz (po_terr p) && negb (match m_cur m with Some (_, e0) => N.eqb e0 (po_terr p) | None => false end) then Some (g, po_terr p)
                else None
    | _ => None
    end in
  let removed_last (r : nat) : bool := nth r (m_in m) false && Nat.eqb (cntb (m_in m)) 1 in
  let cleared :=
    match m_cur m with
    | None => false
    | Some (c, e0) =>
      match e with
      | [1; _] => match po_rets p with [u] => nz u | _ => false end
      | [5; g] | [6; _; g] => N.eqb c g
      | [4; a] => removed_last (nth (n2n a) (m_raref m) 0%nat) && negb (m_keep m && N.eqb e0 0)
      | [12; c0] => removed_last (nth (n2n c0) (m_cref m) 0%nat) && negb (m_keep m && N.eqb e0 0)
      | _ => false
      end
    end in
  let cur2 := match stored_now with Some x => Some x | None => cur1 end in
  let cur' := if cleared then None
              else match cur2 with
                   | Some (g, e0) => if (if N.eqb e0 0 then N.eqb (po_target p) (vofe g) && N.eqb (po_terr p) 0 else N.eqb (po_terr p) e0) then cur2 else None
                   | None => None
                   end in
  (* ---- C08 ---- *)
  let f8_1 := fails 8 1 (nodupb called') in
  let f8_2 := fails 8 2 (forallb (fun x => let '(id, tg, stale) := x in negb (N.eqb tg (id + 1)) && N.eqb stale 0) (po_rels p)) in
  let dropped_last := Nat.eqb nin 0 in
  let f8_3 := fails 8 3 (forallb (fun id =>
                match e with
                | [1; _] => match po_rets p with [u] => nz u | _ => false end
                | [4; _] | [12; _] => dropped_last
                | [5; g] | [6; _; g] => N.eqb id g      (* released() of generation g invalidates the value of generation g only *)
                | [9; g] => N.eqb id g
                | _ => false
                end) newcalls) in
  let at_store := map (fun kx => nn (fst kx)) (filter (fun kx => N.eqb (snd kx) 4) (combine (seq 0 ng) (po_gs p))) in
  let legit := nz ctx' && (Nat.ltb 0 nin || (m_keep m && match cur' with Some (_, e0) => N.eqb e0 0 | None => false end)) in
  let f8_4 := fails 8 4 (forallb (fun g => mem g at_store || (match cur' with Some (c, _) => N.eqb c g | None => false end && legit)) out') in
  (* ---- C09 ---- *)
  let f9_1 := fails 9 1 (Nat.leb (cnt (N.eqb 3) (po_gs p)) 1) in
  let f9_2 := fails 9 2 (match e with [2; _] => match po_rets p with [x] => N.eqb x 0 | _ => false end | _ => true end) in
  let quiet := forallb (fun c => negb (N.eqb c 1) && negb (N.eqb c 4)) (po_gs p) && N.eqb (po_async p) 0
               && forallb (fun c => negb (N.eqb (fst c) 1)) (po_relacts p)
               && forallb (fun x => let '(_, _, _, _, _, fp) := x in negb (N.eqb fp 1)) (po_cons p) in
  let delivered :=
    match cur' with
    | Some (g, e0) =>
      forallb (fun t => let '(inn, k, (lc, v, er)) := t in
                 negb inn || N.eqb k 0 || (N.eqb lc 2 && N.eqb v (if mem g empty' then 0 else g + 1) && N.eqb er e0))
              (zip3 in1 kind' (po_refs p))
    | None => false
    end in
  let f9_3 := fails 9 3 (negb (quiet && nz ctx' && negb (mem ctx' rootc') && Nat.ltb 0 nin) || existsb (N.eqb 3) (po_gs p) || delivered) in
  let f9_4 := fails 9 4 (match e with
                         | [5; g] => match m_cur m with
                                     | Some (c, _) => negb (N.eqb c g) || (N.eqb (po_target p) 0 && N.eqb (po_terr p) 0
                                                                           && (negb (nz ctx' && Nat.ltb 0 nin) || spawned))
                                     | None => true
                                     end
                         | _ => true
                         end) in
  (* ---- C10 ---- *)
  let holds := map (fun t => let '(inn, (code, v, _, h, _, _)) := t in
                      if inn && N.eqb code 3 && nz h then Some v else None)
                   (combine (map (fun r => nth r in1 false) cref') (po_cons p)) in
  let f10_1 := fails 10 1 (match e with
                           | [4; _] | [12; _] | [9; _] | [2; _] | [3; _] | [7; _; _] | [8; _; _; _] | [8; _; _; _; _] | [10; _] | [11; _] =>
                             forallb (fun id => negb (existsb (fun hv => match hv with Some v => N.eqb v (id + 1) | None => false end) holds)) newcalls
                           | _ => true
                           end) in
  let f10_2 := fails 10 2 (forallb (fun x => let '(_, _, _, _, fired, _) := x in N.leb fired 1) (po_cons p)) in
  let inval1 := (m_inval m ++ repeat false (length (po_cons p) - length (m_inval m)))%list in
  let lost := match m_cur m, cur' with
              | Some (g, _), None => Some g
              | Some (g, _), Some (g', _) => if N.eqb g g' then None else Some g
              | None, _ => None
              end in
  (* released() of the stored generation, called from outside, is an invalidation whatever is observed afterwards *)
  let lost := match lost with
              | Some g => Some g
              | None => match e, m_cur m with
                        | [5; g], Some (c, _) => if N.eqb c g then Some g else None
                        | _, _ => None
                        end
              end in
  let inval' := map (fun t => let '(iv, hv, k) := t in
                       iv || (N.eqb k 1 && match lost, hv with Some g, Some v => N.eqb v (vofe g) | _, _ => false end))
                    (zip3 inval1 holds ckind') in
  let f10_3 := fails 10 3 (negb quiet ||
                 forallb (fun t => let '(iv, (_, _, _, _, fired, _)) := t in negb iv || N.eqb fired 1)
                         (combine inval' (po_cons p))) in
  (* ---- C09, clause 5: released() of the newest, still running generation restarts resolution ---- *)
  let f9_5 := fails 9 5 (match e with
                         | [5; g] => negb (Nat.eqb (S (n2n g)) (m_ng m) && (let c := nth (n2n g) (m_gs m) 0 in N.eqb c 3 || N.eqb c 4)
                                           && nz (m_ctx m) && Nat.ltb 0 (cntb (m_in m)))
                                     || spawned
                         | _ => true
                         end) in
  (* ---- C10, clause 8: a Wait / Resolve / ResolveWithReleased call that fails returns the resolver's error or - its caller's
     context having ended, however - context.Canceled ("a resolver error or a cancelled caller context is returned as such"):
     consumer status 7 = it returned a context error other than context.Canceled itself (context.DeadlineExceeded for a context
     that ended like a deadline, the cause of a context cancelled with a cause, a wrapped error).  Judged in every configuration ---- *)
  let f10_8 := fails 10 8 (forallb (fun x => let '(code, _, _, _, _, _) := x in negb (N.eqb code 7)) (po_cons p)) in
  (* ---- C10: Access ---- *)
  let ccanc' := map (fun ib => snd ib || match e with [11; c] => Nat.eqb (n2n c) (fst ib) | _ => false end)
                    (combine (seq 0 ncons) (padb (m_ccanc m) ncons)) in
  let acb0 := padb (m_acb m) ncons in
  let acanc0 := padb (m_acanc m) ncons in
  let ainv0 := padb (m_ainv m) ncons in
  let ccanc0 := padb (m_ccanc m) ncons in
  let adec0 := (m_adec m ++ repeat None (ncons - length (m_adec m)))%list in
  let cur_err := match cur' with Some (_, e0) => e0 | None => 0 end in
  let rows := combine (seq 0 ncons) (combine (zip5 acb0 acanc0 ainv0 ccanc0 adec0) (combine (combine ckind' cref') (combine ccanc' (po_cons p)))) in
  (* per Access consumer: (in callback now, cancelled now, invalidated, decision, failing clauses) *)
  let judge := fun row =>
    let '(i, ((acb, acanc, ainv, ccb, adec), ((k, r), (ccn, (code, v, _, h, _, fp))))) := row in
    if negb (N.eqb k 2) then (false, false, false, None, [])
    else
      let cbnow := N.eqb code 6 in
      let mine := match e with [13; c; _] => Nat.eqb (n2n c) i | _ => false end in
      let started := cbnow && (negb acb || mine) in
      let inv' := if started then false else ainv || (acb && match lost with Some _ => true | None => false end) in
      let decided := match adec with Some _ => true | None => false end in
      let decnow := negb decided && (existsb (Nat.eqb r) raref' || N.eqb code 3) in
      let fromcb := mine && negb ccb && negb ainv in
      let rc := match e with [13; _; res] => if N.eqb res 1 then nb acanc else res | _ => 0 end in
      let expected := if mine && ccb then 1 else if fromcb then rc else if nz cur_err then cur_err else 1 in
      let adec' := if decnow then Some (expected, fromcb) else adec in
      let decided' := match adec' with Some _ => true | None => false end in
      let c4 := fails 10 4 (negb started || match cur' with Some (g, e0) => N.eqb e0 0 && N.eqb v (vofe g) | None => false end) in
      (* "promptly": once the watcher goroutine of the invocation has run (it is not parked before its cbCancel()) *)
      let c5 := fails 10 5 (negb (cbnow && inv' && negb (N.eqb fp 1)) || nz h) in
      let c6 := fails 10 6 (negb (decnow && mine && negb ccb) || negb ainv || nz cur_err) in
      let c6r := fails 10 6 (match adec' with Some (x, true) => negb (N.eqb code 3) || N.eqb v x | _ => true end) in
      let c6q := fails 10 6 (negb (quiet && negb decided' && negb ccn && match cur' with Some (_, e0) => N.eqb e0 0 | None => false end) || cbnow) in
      let c7 := fails 10 7 (negb (decnow && negb mine) || ccn || nz cur_err) in
      let c7r := fails 10 7 (match adec' with Some (x, false) => negb (N.eqb code 3) || N.eqb v x | _ => true end) in
      let c7q := fails 10 7 (negb (quiet && negb decided' && nz cur_err) || cbnow) in
      (cbnow, cbnow && nz h, inv', adec', (c4 ++ c5 ++ c6 ++ c6r ++ c6q ++ c7 ++ c7r ++ c7q)%list) in
  let judged := map judge rows in
  let facc := concat (map (fun j => let '(_, _, _, _, f) := j in f) judged) in
  let all := (f8_1 ++ f8_2 ++ f8_3 ++ f8_4 ++ f9_1 ++ f9_2 ++ f9_3 ++ f9_4 ++ f9_5 ++ f10_1 ++ f10_2 ++ f10_3)%list in
  ({| m_keep := m_keep m; m_ctx := ctx'; m_in := in1; m_kind := kind'; m_raref := raref'; m_cref := cref'; m_out := out';
      m_called := called'; m_cur := cur'; m_ng := ng; m_inval := inval'; m_ckind := ckind'; m_cret := cret';
      m_const := m_const m; m_gs := po_gs p; m_ccanc := ccanc';
      m_acb := map (fun j => let '(a, _, _, _, _) := j in a) judged;
      m_acanc := map (fun j => let '(_, a, _, _, _) := j in a) judged;
      m_ainv := map (fun j => let '(_, _, a, _, _) := j in a) judged;
      m_adec := map (fun j => let '(_, _, _, a, _) := j in a) judged; m_rootc := rootc'; m_empty := empty'; m_emptyok := emptyok' |},
   ((if m_const m then [] else all) ++ facc ++ f10_8)%list).

Definition mon (m : option mst) (e o : list N) : option mst * list (nat * nat) :=
  match m with
  | None => (None, [])
  | Some m =>
    match parse e o with
    | Some p => let '(m', f) := mon1 m e p in (Some m', f)
    | None => (Some m, [(8, 9); (9, 9); (10, 9)]%nat)
    end
  end.

Definition run_check_refcount (cfg : list N) (evs obss : list (list N)) : list issue :=
  run_check step_opt mon (hinit cfg) (minit cfg) evs obss.
