(* refcount: progress at quiescence, delivery, released() restarts, no panic (C09). *)
From Util Require Import Common.Base Common.ListLemmas RefCount.Model RefCount.Proofs RefCount.ProofsC08.

(* ---- quiescence: no internal step is enabled ---- *)
Definition g_quiet (s : st) (x : gor) : bool :=
  match gpcv x with
  | GGate0 | GStore _ _ _ => false
  | GWait => negb (pred_done s x || gcanc x)
  | GWaitC => negb (pred_done s x)
  | GInRes | GDone => true
  end.

Definition quiescent (s : st) : bool :=
  forallb (g_quiet s) (gs s) &&
  forallb (fun a => match as_pc a with AParked => false | ARan => true end) (asyncs s) &&
  forallb (fun a => match ra_pc a with RGate => false | RDone => true end) (relacts s) &&
  forallb (fun c => match ww_firepc c with Some RGate => false | _ => true end) (conss s).

(* the latest result has been delivered to the target containers and to every reference callback *)
Definition delivered (s : st) : Prop :=
  (verr s = 0 -> target s = value s /\ terr s = 0) /\ (verr s <> 0 -> terr s = verr s) /\
  (forall r x, nth_error (refs s) r = Some x -> rin x = true -> rkind x <> KNil -> rlast x = Some (NRes (value s) (verr s))).

Lemma quiet_chain s :
  InvCh s -> forallb (g_quiet s) (gs s) = true ->
  forall i, i < length (gs s) -> gdone (getg s i) = false -> exists j, j <= i /\ in_resolver (getg s j) = true.
Proof.
  intros [HI _] Hq i. induction i as [i IH] using lt_wf_ind. intros Hi Hnd.
  assert (Hx : nth_error (gs s) i = Some (getg s i)) by (unfold getg; now apply nth_error_nth').
  assert (Hqx : g_quiet s (getg s i) = true).
  { rewrite forallb_forall in Hq. apply Hq. eapply nth_error_In; eauto. }
  destruct (HI i _ Hx) as [Hw _].
  assert (Hpred : pred_done s (getg s i) = false -> exists j, j <= i /\ in_resolver (getg s j) = true).
  { unfold pred_done. rewrite Hw. destruct i as [|p]; cbn [pred_idx]; [discriminate|]. intros Hp.
    destruct (IH p ltac:(lia) ltac:(lia) Hp) as [j [Hj1 Hj2]]. exists j. split; [lia | exact Hj2]. }
  unfold g_quiet in Hqx. unfold gdone in Hnd. destruct (gpcv (getg s i)) eqn:Ep; try discriminate.
  - apply Hpred. apply negb_true_iff in Hqx. apply orb_false_iff in Hqx. apply Hqx.
  - apply Hpred. now apply negb_true_iff in Hqx.
  - exists i. split; [lia|]. unfold in_resolver. now rewrite Ep.
Qed.

Theorem progress s :
  Inv s -> InvCh s -> quiescent s = true -> kctx s <> 0 -> rcanc s (kctx s) = false -> nrefs s > 0 ->
  (exists g, g < length (gs s) /\ in_resolver (getg s g) = true) \/ (resolved s = true /\ delivered s).
Proof.
  intros [[_ [_ [_ [_ [[_ [_ [_ V5]]] [_ [_ R3]]]]]]] [_ [_ [P _]]]] HC Hq Hk Hrc Hn.
  destruct (resolved s) eqn:Er.
  - right. split; [reflexivity|]. destruct (V5 eq_refl) as [T1 T2]. split; [exact T1|]. split; [intros E; apply (T2 E) | exact (R3 eq_refl)].
  - left. destruct (P Hk Hn eq_refl Hrc) as [g [G1 [_ G3]]].
    unfold quiescent in Hq. apply andb_true_iff in Hq. destruct Hq as [Hq _]. apply andb_true_iff in Hq. destruct Hq as [Hq _].
    apply andb_true_iff in Hq. destruct Hq as [Hq _].
    destruct (quiet_chain s HC Hq g G1 G3) as [j [Hj1 Hj2]]. exists j. split; [lia | exact Hj2].
Qed.

(* every reference in the set, also one added later, has been told the stored result *)
Theorem delivered_when_resolved s : Inv s -> resolved s = true -> delivered s.
Proof.
  intros [[_ [_ [_ [_ [[_ [_ [_ V5]]] [_ [_ R3]]]]]]] _] Er.
  destruct (V5 Er) as [T1 T2]. split; [exact T1|]. split; [intros E; apply (T2 E) | exact (R3 Er)].
Qed.

(* ---- released() of the stored generation drops the value and resolves afresh ---- *)
Theorem released_restarts s :
  Inv s ->
  let s' := released_section s (nonce s) in
  resolved s' = false /\ target s' = 0 /\ terr s' = 0 /\ vrel s' = None /\
  (kctx s <> 0 -> nrefs s > 0 ->
   length (gs s') = S (length (gs s)) /\ gnonce (getg s' (length (gs s))) = nonce s' /\ gpcv (getg s' (length (gs s))) = GGate0 /\
   nonce s' = S (nonce s)).
Proof.
  intros H s'. pose proof (released_section_inv s (nonce s) H) as [[_ [_ [_ [_ [[_ [V2 _]] _]]]]] _]. fold s' in V2.
  assert (Er : resolved s' = false).
  { unfold s', released_section. rewrite Nat.eqb_refl. unfold start_resolve. pose proof (shutdown_resolved s) as R. set (s1 := shutdown s) in *.
    destruct (Nat.eqb (kctx s1) 0 || Nat.eqb (nrefs s1) 0); exact R. }
  destruct (V2 Er) as [X0 [_ [_ [X3 X4]]]]. split; [exact Er|]. split; [exact X3|]. split; [exact X4|]. split; [exact X0|].
  intros Hk Hn. unfold s', released_section. rewrite Nat.eqb_refl. unfold start_resolve.
  destruct (shutdown_spec s) as [C1 [_ [C3 [_ [[GL _] _]]]]]. pose proof (shutdown_nrefs s) as NR. set (s1 := shutdown s) in *.
  destruct (Nat.eqb_spec (kctx s1) 0) as [E|E]; [congruence|]. destruct (Nat.eqb_spec (nrefs s1) 0) as [E2|E2]; [lia|]. cbn [orb].
  set (x := {| gcanc := rcanc s1 (kctx s1); gwait := waitch s1; gnonce := nonce s1; gpcv := GGate0; gent := false; grel := false; groot := kctx s1 |}).
  change (gs (set_rcancel (set_waitch (set_gs s1 (gs s1 ++ [x])) (Some (length (gs s1)))) (Some (length (gs s1))))) with (gs (set_gs s1 (gs s1 ++ [x]))).
  unfold getg. cbn [gs nonce set_rcancel set_waitch set_gs]. rewrite app_length, <- GL, app_nth2, Nat.sub_diag by lia. cbn. repeat split; try lia; auto.
Qed.

Theorem released_of_stored_generation_fires s :
  Inv s -> resolved s = true -> step repaired s (EReleased (vgen s)) = released_section s (nonce s).
Proof.
  intros [[_ [_ [_ [_ [[V1 _] _]]]]] _] Er. destruct (V1 Er) as [_ [A2 [_ A4]]]. cbn [step].
  assert (Hx : nth_error (gs s) (vgen s) = Some (getg s (vgen s))) by (unfold getg; now apply nth_error_nth').
  rewrite Hx, A4. reflexivity.
Qed.

(* ---- no panic ---- *)
Lemma shutdown_panicked s : panicked (shutdown s) = panicked s.
Proof. apply (shutdown_spec s). Qed.

Lemma start_resolve_panicked s : panicked (start_resolve s) = panicked s.
Proof.
  unfold start_resolve. pose proof (shutdown_panicked s) as H. set (s1 := shutdown s) in *.
  destruct (Nat.eqb (kctx s1) 0 || Nat.eqb (nrefs s1) 0); exact H.
Qed.

Lemma invoke_panicked s r n : panicked (invoke s r n) = panicked s.
Proof. apply (rest_fields s _ (rest_invoke s r n)). Qed.

Lemma add_ref_panicked s kd : panicked (add_ref repaired s kd) = panicked s.
Proof.
  unfold add_ref. set (s1 := set_refs s _).
  destruct (Nat.eqb (nrefs s1) 1 && negb (resolved s1)); [now rewrite start_resolve_panicked|].
  destruct (resolved s1); [|reflexivity]. destruct kd; cbn [fx_nilcb repaired]; try reflexivity; now rewrite invoke_panicked.
Qed.

Lemma remove_ref_panicked s r : panicked (remove_ref s r) = panicked s.
Proof.
  unfold remove_ref. destruct (nth_error (refs s) r) as [x|]; [|reflexivity]. destruct (rin x); [|reflexivity].
  set (s1 := set_refs s _). destruct (Nat.eqb (nrefs s1) 0 && _); [now rewrite shutdown_panicked | reflexivity].
Qed.

Lemma release_call_by_panicked s r oc : panicked (fst (release_call_by s r oc)) = panicked s.
Proof. unfold release_call_by. destruct (nth_error (refs s) r) as [x|]; [|reflexivity]. destruct (rflag x); reflexivity. Qed.

Lemma cons_fail_panicked s c x e : panicked (cons_fail s c x e) = panicked s.
Proof.
  unfold cons_fail. pose proof (release_call_by_panicked (setc s c (with_cpc x (CRel e))) (cref x) (Some c)) as G.
  destruct (release_call_by (setc s c (with_cpc x (CRel e))) (cref x) (Some c)) as [s1 parked]. cbn [fst] in G.
  destruct parked; exact G.
Qed.

Lemma acc_ret_panicked s c x e : panicked (acc_ret s c x e) = panicked s.
Proof.
  unfold acc_ret. pose proof (release_call_by_panicked (setc s c (with_cpc x (CRel e))) (cref x) (Some c)) as G.
  destruct (release_call_by (setc s c (with_cpc x (CRel e))) (cref x) (Some c)) as [s1 parked]. cbn [fst] in G.
  destruct parked; exact G.
Qed.

Lemma acc_s1_panicked s c x : panicked (acc_s1 s c x) = panicked s.
Proof.
  unfold acc_s1. destruct (negb (Nat.eqb (ac_err x) 0)); [apply acc_ret_panicked|].
  destruct (ac_res x); [reflexivity|]. destruct (ccanc x); [apply acc_ret_panicked | reflexivity].
Qed.

Lemma cb_return_panicked fx s c res : panicked (cb_return fx s c res) = panicked s.
Proof.
  unfold cb_return. destruct (nth_error (conss s) c) as [x|]; [|reflexivity].
  destruct (ck x); try reflexivity. destruct (cpcv x); try reflexivity.
  destruct (ccanc x); [apply acc_ret_panicked|].
  match goal with |- _ (if ?b then _ else _) = _ => destruct b end; [apply acc_ret_panicked | reflexivity].
Qed.

Lemma cons_step_panicked s c : panicked (cons_step s c) = panicked s.
Proof.
  unfold cons_step. destruct (nth_error (conss s) c) as [x|]; [|reflexivity].
  destruct (ck x), (cpcv x); try reflexivity; try apply acc_s1_panicked.
  3:{ destruct (negb (Nat.eqb (ac_nonce x) (ac_snap x))); [apply acc_s1_panicked|]. destruct (ccanc x); [apply acc_ret_panicked | reflexivity]. }
  - destruct (cw_res x) as [[v e]|]; [destruct (Nat.eqb e 0); [reflexivity | apply cons_fail_panicked] | destruct (ccanc x); [apply cons_fail_panicked | reflexivity]].
  - destruct (ww_prom x) as [[v e]|]; [destruct (Nat.eqb e 0); [reflexivity | apply cons_fail_panicked] | destruct (ccanc x); [apply cons_fail_panicked | reflexivity]].
Qed.

Lemma proceed_panicked s g en : panicked (proceed repaired s g en) = panicked s.
Proof.
  unfold proceed. destruct (nth_error (gs s) g) as [x|]; [|reflexivity].
  destruct (gpcv x); try reflexivity.
  - destruct (gwait x); [|reflexivity]. destruct (pred_done s x && gcanc x); [destruct en; reflexivity|].
    destruct (pred_done s x); [reflexivity|]. destruct (gcanc x); reflexivity.
  - destruct (pred_done s x || gcanc x); [|reflexivity].
    destruct (gwait x); [|reflexivity]. destruct (pred_done s x && gcanc x); [destruct en; reflexivity|].
    destruct (pred_done s x); [reflexivity|]. destruct (gcanc x); reflexivity.
  - destruct (pred_done s x); reflexivity.
Qed.

Lemma step_panicked s e : panicked (step repaired s e) = panicked s.
Proof.
  destruct e; cbn [step].
  - unfold set_context. destruct (Nat.eqb (kctx s) c); [reflexivity|]. cbn [fst]. now rewrite start_resolve_panicked.
  - apply add_ref_panicked.
  - destruct (rkind (nth r (refs s) ref0)); try reflexivity; apply release_call_by_panicked.
  - unfold release_section. destruct (nth_error (relacts s) a) as [x|]; [|reflexivity]. destruct (ra_pc x); [|reflexivity].
    set (s1 := remove_ref _ (ra_ref x)).
    assert (E : panicked s1 = panicked s) by (unfold s1; now rewrite remove_ref_panicked).
    destruct (ra_cons x) as [c|]; [|exact E]. destruct (cpcv (getc s1 c)); exact E.
  - destruct (nth_error (gs s) g) as [x|]; [|reflexivity]. unfold released_section.
    destruct (Nat.eqb (nonce s) (gnonce x)); [now rewrite start_resolve_panicked | reflexivity].
  - unfold async_section. destruct (nth_error (asyncs s) a) as [x|]; [|reflexivity]. destruct (as_pc x); [|reflexivity].
    unfold released_section. set (sa := set_asyncs s _). destruct (Nat.eqb (nonce sa) (as_nonce x)); [now rewrite start_resolve_panicked | reflexivity].
  - apply proceed_panicked.
  - unfold resolver_return. destruct (nth_error (gs s) g) as [x|]; [|reflexivity]. destruct (gpcv x); reflexivity.
  - unfold store. destruct (nth_error (gs s) g) as [x|]; [|reflexivity]. destruct (gpcv x); try reflexivity.
    set (s0 := setg s g (with_gpc x GDone)). destruct (negb (Nat.eqb (nonce s0) (gnonce x))); [destruct hasrel; reflexivity|].
    match goal with |- panicked (call_cbs ?a ?n) = _ => destruct (rest_fields a _ (rest_call_cbs a n)) as [_ [_ [_ [_ [_ [_ [_ [_ [_ [_ [_ [_ [_ [_ [_ [Q _]]]]]]]]]]]]]]]]; rewrite Q end.
    destruct (Nat.eqb e 0); reflexivity.
  - unfold start_consumer. now rewrite add_ref_panicked.
  - apply cons_step_panicked.
  - destruct (nth_error (conss s) c); reflexivity.
  - unfold fire_section. destruct (nth_error (conss s) c) as [x|]; [|reflexivity]. destruct (ww_firepc x) as [[|]|]; try reflexivity.
    now rewrite remove_ref_panicked.
  - apply cb_return_panicked.
  - destruct (Nat.eqb c 0); [reflexivity | apply (cancel_root_frame s c)].
  - destruct (watch_step_spec s c) as [->|[x [y [_ [-> _]]]]]; reflexivity.
Qed.

Theorem never_panics k es : panicked (run repaired (init k) es) = false.
Proof. unfold run. apply fold_inv; [intros s e H; now rewrite step_panicked | reflexivity]. Qed.

(* the pinned code (before the D9 repair): AddRef(nil) on a resolved container calls the nil callback *)
Definition pinned_d9 : fixes := {| fx_wait := true; fx_nilcb := false; fx_accnonce := true |}.
Definition d9_witness : list ev := [ESetCtx 1; EAddRef 1; EProceed 0 true; EResReturn 0 1 true 0; EStore 0; EAddRef 0].
Lemma d9_refuted : panicked (run pinned_d9 (init false) d9_witness) = true.
Proof. vm_compute. reflexivity. Qed.
