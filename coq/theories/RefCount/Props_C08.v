(* C08 - refcount: every release function returned by the resolver is called exactly once, not while the value is
   referenced and valid, no later than the last reference / the context / the validity goes away; at that moment the
   target container no longer holds the value and every reference callback has been told it is gone.
   Statements only.  All theorems are about the gate-level model RefCount.Model (REPAIRED code) and quantify over ALL
   event lists; [wf_ev]: a resolver call on goroutine g returns the generation-unique value g+1 - or the empty value 0, with
   an error (`return zero, rel, err`) or without one (`return zero, rel, nil`: handle 0, a nil pointer with a cleanup)
   ([val_ok]) - and never context.Canceled (the codec produces only such events: codec_only_wf_returns below).
   For the empty value "the target container does not hold that value" is vacuous (the target never holds the empty value as
   a value); what is proved (and monitored) for it: no reference in the set still has the result as its last notification.
   The log [rellog] records every call of a release function: which one ([rc_id] = the goroutine that returned it),
   the value it belongs to, the target container's content at that moment, and how many references in the set had
   last been told that this value is current. *)
From Util Require Import Common.Base Common.ListLemmas RefCount.Model RefCount.Spec RefCount.Proofs RefCount.ProofsC08 RefCount.ProofsC08b
  RefCount.ProofsCodec.
From Util Require Import RefCount.Spec RefCount.ProofsMon RefCount.ProofsMon2 RefCount.ProofsMonThm RefCount.ProofsMonThm2.
Open Scope nat_scope.

(* at most once *)
Theorem c08_release_at_most_once : forall ku es, Forall wf_ev es ->
  NoDup (map rc_id (rellog (run repaired (init ku) es))).
Proof. exact release_at_most_once. Qed.
Print Assumptions c08_release_at_most_once.

(* at the moment a release function runs: it is the release function of the result of goroutine g (value g+1, or the
   empty value that came with an error), the target container does not hold value g+1 - hence not the released value
   unless that is the empty one, which no container ever "holds" -, no reference in the set still believes the result
   current; it was really returned by goroutine g, which has ended.
   (With `rc_target c <> rc_val c` for every entry, as stated before empty error values were admitted, the theorem is false:
   [ESetCtx 1; EAddRef 1; EProceed 0 true; EResReturn 0 0 true 2; EStore 0; ESetCtx 0] logs
   {| rc_id := 0; rc_val := 0; rc_target := 0; rc_stale := 0 |}: example c08_example_error_empty_released below.) *)
Theorem c08_at_release_target_clear_and_refs_told : forall ku es, Forall wf_ev es ->
  let s := run repaired (init ku) es in
  forall c, In c (rellog s) ->
    (rc_val c = S (rc_id c) \/ rc_val c = 0) /\ rc_target c <> S (rc_id c) /\ (rc_val c <> 0 -> rc_target c <> rc_val c) /\ rc_stale c = 0 /\
    rc_id c < length (gs s) /\ gdone (getg s (rc_id c)) = true /\ grel (getg s (rc_id c)) = true.
Proof. exact at_release_target_clear_and_refs_told. Qed.
Print Assumptions c08_at_release_target_clear_and_refs_told.

(* exactly once, safety half: a returned release function ([grel], ghost) is uncalled iff it belongs to the stored value
   or to a result waiting at its store gate *)
Theorem c08_stored_iff_unreleased : forall ku es, Forall wf_ev es ->
  let s := run repaired (init ku) es in
  forall g, g < length (gs s) -> grel (getg s g) = true ->
    (~ In g (map rc_id (rellog s)) <-> (vrel s = Some g \/ exists v e, gpcv (getg s g) = GStore v true e)).
Proof. exact stored_iff_unreleased. Qed.
Print Assumptions c08_stored_iff_unreleased.

(* no leak ("no later than ..."): an uncalled release function belongs to a result whose store section is still to run
   (an enabled internal step), or to the stored value, and then the container has a context and a reference, or
   keep-unreferenced is set and the value resolved without error *)
Theorem c08_no_leak : forall ku es, Forall wf_ev es ->
  let s := run repaired (init ku) es in
  forall g, g < length (gs s) -> grel (getg s g) = true -> ~ In g (map rc_id (rellog s)) ->
    (exists v e, gpcv (getg s g) = GStore v true e) \/
    (vrel s = Some g /\ resolved s = true /\ (value s = S g \/ value s = 0) /\ kctx s <> 0 /\
     (nrefs s > 0 \/ (keep s = true /\ verr s = 0))).
Proof. exact no_leak. Qed.
Print Assumptions c08_no_leak.

(* which steps call a release function ("not while a reference that was given that value is still held and the value
   has not been invalidated"): per step, from every reachable state, the log grows by at most one call, and only
   - in SetContext with a different context, a released() section of the current generation (synchronous or
     asynchronous): the stored value's release function, or
   - in a removeRef section (explicit Release, or the goroutine of WaitWithReleased) after which no reference is left
     and not (keep-unreferenced and resolved without error): the stored value's release function, or
   - in the store section of a superseded goroutine: its own result's release function (never delivered, see below).
   [log_step] and [invalidating] are defined in ProofsC08b.v and unfold to exactly this. *)
Theorem c08_release_only_when_invalidated_or_unreferenced : forall ku es e, Forall wf_ev es ->
  let s := run repaired (init ku) es in
  let s' := step repaired s e in
  rellog s' = rellog s \/
  exists c, rellog s' = rellog s ++ [c] /\
    ((vrel s = Some (rc_id c) /\ rc_val c = value s /\
      match e with
      | ESetCtx ctx => kctx s <> ctx
      | EReleased g => exists x, nth_error (gs s) g = Some x /\ gnonce x = nonce s
      | EAsync a => exists x, nth_error (asyncs s) a = Some x /\ as_pc x = AParked /\ as_nonce x = nonce s
      | ERelSect _ | EFire _ => nrefs s' = 0 /\ nrefs s = 1 /\ ~ (keep s = true /\ resolved s = true /\ verr s = 0)
      | _ => False
      end) \/
     (exists g x v er, e = EStore g /\ rc_id c = g /\ rc_val c = v /\ nth_error (gs s) g = Some x /\
                       gpcv x = GStore v true er /\ gnonce x <> nonce s)).
Proof. intros ku es e Hwf. exact (step_log _ e (run_inv ku es Hwf)). Qed.
Print Assumptions c08_release_only_when_invalidated_or_unreferenced.

(* a result waiting at its store gate has not been handed to anybody: nothing is stored at all at that moment (every other
   resolve goroutine has finished and the newest generation is this one or a later one), the target container is empty, no
   reference in the set has a result as its last notification, and no reference was ever told this generation's value g+1.
   (As stated before empty error values were admitted - v = g+1, target <> v, value <> v, no rlast = NRes v _ - it is false
   for v = 0: after [ESetCtx 1; EAddRef 1; EProceed 0 true; EResReturn 0 0 false 2] the target holds 0 = v.) *)
Theorem c08_pending_value_not_in_circulation : forall ku es, Forall wf_ev es ->
  let s := run repaired (init ku) es in
  forall g v hr e, g < length (gs s) -> gpcv (getg s g) = GStore v hr e ->
    (v = S g \/ v = 0) /\ resolved s = false /\ target s = 0 /\
    (forall r x er, nth_error (refs s) r = Some x -> rlast x <> Some (NRes (S g) er)) /\
    (forall r x v' e', nth_error (refs s) r = Some x -> rin x = true -> rlast x <> Some (NRes v' e')).
Proof. exact pending_value_not_in_circulation. Qed.
Print Assumptions c08_pending_value_not_in_circulation.

(* the order inside clearResolvedState: clear the target containers and tell every reference callback, cancel the
   resolve context, then call the release function (whose log entry is taken in that final state) *)
Theorem c08_release_order : forall s,
  clear_resolved s = release_phase (value s) (verr s) (cancel_phase (clear_phase s)).
Proof. exact clear_resolved_order. Qed.
Theorem c08_release_after_cancel : forall s g, rcancel s = Some g -> g < length (gs s) -> gcanc (getg (cancel_phase s) g) = true.
Proof. exact cancel_phase_cancels. Qed.
Print Assumptions c08_release_order.

(* the codec of the correspondence produces only well-formed resolver returns (except in the constant-value configuration,
   which exists for the Access clauses of C10 only); the fifth field z = 1 is the empty value, with or without an error *)
Theorem codec_only_wf_returns : forall h g hr er h' o,
  hconst h = false -> hstep h [8%N; g; hr; er] = Some (h', o) -> exists e, wf_ev e /\ hs h' = settle (step repaired (hs h) e).
Proof. exact codec_resreturn_wf. Qed.
Theorem codec_only_wf_returns5 : forall h g hr er z h' o,
  hconst h = false -> hstep h [8%N; g; hr; er; z] = Some (h', o) -> exists e, wf_ev e /\ hs h' = settle (step repaired (hs h) e).
Proof. exact codec_resreturn5_wf. Qed.
Print Assumptions codec_only_wf_returns.
Print Assumptions codec_only_wf_returns5.

(* ---- non-vacuity ---- *)
Definition ex_last_release : list ev :=
  [ESetCtx 1; EAddRef 1; EProceed 0 true; EResReturn 0 1 true 0; EStore 0; ERelease 0; ERelSect 0].
Example c08_example_last_reference_released :
  Forall wf_ev ex_last_release /\
  let s := run repaired (init false) ex_last_release in
  rellog s = [{| rc_id := 0; rc_val := 1; rc_target := 0; rc_stale := 0 |}] /\ vrel s = None /\ target s = 0.
Proof. split; [repeat constructor; discriminate | vm_compute; repeat split; reflexivity]. Qed.

(* an error that came with the empty value and a release function: the invalidation (ClearContext) tells the reference
   "gone" and then calls the release function; the target container was and stays empty *)
Definition ex_error_empty : list ev :=
  [ESetCtx 1; EAddRef 1; EProceed 0 true; EResReturn 0 0 true 2; EStore 0].
Example c08_example_error_empty_released :
  Forall wf_ev ex_error_empty /\
  let s := run repaired (init false) ex_error_empty in
  resolved s = true /\ value s = 0 /\ verr s = 2 /\ target s = 0 /\ terr s = 2 /\ map rlast (refs s) = [Some (NRes 0 2)] /\ vrel s = Some 0 /\
  let s' := step repaired s (ESetCtx 0) in
  rellog s' = [{| rc_id := 0; rc_val := 0; rc_target := 0; rc_stale := 0 |}] /\ map rlast (refs s') = [Some NGone] /\ terr s' = 0.
Proof.
  split; [|vm_compute; repeat split; reflexivity].
  unfold ex_error_empty.
  repeat (apply Forall_cons; [first [exact I | split; [right; reflexivity | discriminate]]|]). apply Forall_nil.
Qed.

(* keep-unreferenced: the value survives the last Release; ClearContext releases it *)
Example c08_example_keep_unreferenced :
  let es := [ESetCtx 1; EAddRef 1; EProceed 0 true; EResReturn 0 1 true 0; EStore 0; ERelease 0; ERelSect 0] in
  let s := run repaired (init true) es in
  rellog s = [] /\ vrel s = Some 0 /\ target s = 1 /\ nrefs s = 0 /\
  map rc_id (rellog (step repaired s (ESetCtx 0))) = [0].
Proof. vm_compute. repeat split; reflexivity. Qed.

(* a superseded goroutine's result is released by its own store section and never delivered *)
Example c08_example_superseded :
  let es := [ESetCtx 1; EAddRef 1; EProceed 0 true; ESetCtx 2; EResReturn 0 1 true 0] in
  let s := run repaired (init false) es in
  gpcv (getg s 0) = GStore 1 true 0 /\ rellog s = [] /\
  rellog (step repaired s (EStore 0)) = [{| rc_id := 0; rc_val := 1; rc_target := 0; rc_stale := 0 |}] /\
  target (step repaired s (EStore 0)) = 0.
Proof. vm_compute. repeat split; reflexivity. Qed.

(* the resolver SUCCEEDS with the empty value and a release function (handle 0): the reference is told (true, 0, nil); the
   invalidation (ClearContext) tells it "gone" first and then calls the release function: nobody still believes in the value *)
Definition ex_empty_ok : list ev :=
  [ESetCtx 1; EAddRef 1; EProceed 0 true; EResReturn 0 0 true 0; EStore 0].
Example c08_example_empty_value_released :
  Forall wf_ev ex_empty_ok /\
  let s := run repaired (init false) ex_empty_ok in
  resolved s = true /\ value s = 0 /\ verr s = 0 /\ target s = 0 /\ terr s = 0 /\ map rlast (refs s) = [Some (NRes 0 0)] /\ vrel s = Some 0 /\
  let s' := step repaired s (ESetCtx 0) in
  rellog s' = [{| rc_id := 0; rc_val := 0; rc_target := 0; rc_stale := 0 |}] /\ map rlast (refs s') = [Some NGone] /\ resolved s' = false.
Proof.
  split; [|vm_compute; repeat split; reflexivity]. unfold ex_empty_ok.
  repeat (apply Forall_cons; [first [exact I | split; [right; reflexivity | discriminate]]|]). apply Forall_nil.
Qed.

(* released(): the old value is released, a new goroutine resolves afresh *)
Example c08_example_released :
  let es := [ESetCtx 1; EAddRef 1; EProceed 0 true; EResReturn 0 1 true 0; EStore 0; EReleased 0] in
  let s := run repaired (init false) es in
  map rc_id (rellog s) = [0] /\ length (gs s) = 2 /\ resolved s = false /\ nrefs s = 1.
Proof. vm_compute. repeat split; reflexivity. Qed.

(* ---- the monitors that are evaluated on the implementation's traces, tied to this model ----
   THE FULL STATEMENT.  For EVERY configuration the codec accepts and EVERY list of harness events: on the observations the model
   itself produces (eager schedule of Spec.hstep; the run stops at the first event the model does not accept) the monitors
   [Spec.mon] - ALL clauses of C08, C09 and C10, nothing filtered - report nothing; in particular the clauses 8.1 (every release function at most once), 8.2 (target / references at the moment of the call), 8.3 (allowed causes), 8.4 (no leak)
   (and the model's observations always parse).  So these monitors cannot raise an alarm on an implementation that behaves like
   the model, and the model satisfies the property in exactly the form the checks evaluate it.  (In the constant-value
   configuration [k; 1] Spec.mon judges only the Access clauses of C10.) *)
Theorem c08_model_satisfies_monitors : forall cfg evs,
  monitor mon 0 (minit cfg) [] evs (run_obs step_opt (hinit cfg) evs) = [].
Proof. exact model_satisfies_monitors. Qed.
Print Assumptions c08_model_satisfies_monitors.

(* hence the extracted checker [run_check_refcount] reports nothing at all on any history that the model accepts completely *)
Theorem c08_model_run_check_clean : forall cfg evs,
  length (run_obs step_opt (hinit cfg) evs) = length evs ->
  run_check_refcount cfg evs (run_obs step_opt (hinit cfg) evs) = [].
Proof. exact model_run_check_clean. Qed.
Print Assumptions c08_model_run_check_clean.

(* the clause-wise corollary (kept: the partial statement the full one supersedes) *)
Theorem c08_model_satisfies_monitors_clauses : forall cfg evs,
  monitor (mon_only proved) 0 (minit cfg) [] evs (run_obs step_opt (hinit cfg) evs) = [].
Proof. exact model_satisfies_monitors_clauses. Qed.
Print Assumptions c08_model_satisfies_monitors_clauses.
