(* refcount: the monitors tied to the model, part 16: the Access books "inside the callback" / "invalidated since the
   invocation started" (the clauses 10.4 - 10.7 themselves, for every configuration: ProofsMon22.v). *)
From Util Require Import Common.Base Common.ListLemmas RefCount.Model RefCount.Spec RefCount.Proofs RefCount.ProofsC08 RefCount.ProofsC08b
  RefCount.ProofsC09 RefCount.ProofsC10 RefCount.ProofsC10a RefCount.ProofsC10b RefCount.ProofsCodec RefCount.ProofsMon RefCount.ProofsMon2 RefCount.ProofsMon3
  RefCount.ProofsMon4 RefCount.ProofsMon5 RefCount.ProofsMon6 RefCount.ProofsMon7 RefCount.ProofsMonG RefCount.ProofsMon8 RefCount.ProofsMon9 RefCount.ProofsMon10
  RefCount.ProofsMon11 RefCount.ProofsMon12 RefCount.ProofsMon13 RefCount.ProofsMon14 RefCount.ProofsMon15 RefCount.ProofsMon19.
Open Scope nat_scope.

Lemma HR_mirror h i : HR h -> i < length (conss (hs h)) -> ck (getc (hs h) i) = CKAccess -> attached_pc (cpcv (getc (hs h) i)) = true ->
  mirror_ok (hs h) (getc (hs h) i).
Proof. intros [[k [es [-> _]]] _] Hi Hk Hp. exact (access_mirror k es i _ (nth_error_getc _ i Hi) Hk Hp). Qed.

Lemma HR_cur_val h i v : HR h -> i < length (conss (hs h)) -> ck (getc (hs h) i) = CKAccess -> cpcv (getc (hs h) i) = CAccCb v ->
  ac_cbcanc (getc (hs h) i) = false -> ac_wpark (getc (hs h) i) = false -> resolved (hs h) = true /\ value (hs h) = v /\ verr (hs h) = 0.
Proof.
  intros [[k [es [-> _]]] _] Hi Hk Hp Hc Hw. destruct (access_called_with_current_value k es i _ v (nth_error_getc _ i Hi) Hk Hp Hc Hw) as [A [B [C _]]]. auto.
Qed.

Lemma HR_W h : HR h -> InvW (conss (hs h)).
Proof. intros [[k [es [-> _]]] _]. apply run_InvW. Qed.

Lemma HR_acc_ok h i : HR h -> acc_ok (getc (hs h) i).
Proof. intros H. apply InvK_getc. now apply HR_K. Qed.

Lemma ck_step s e : (forall k, e <> EStartCons k) -> map ck (conss (step repaired s e)) = map ck (conss s).
Proof.
  intros H. pose proof (f_equal v_ck (step_vw s e)) as V. cbn [v_ck vw] in V. rewrite V.
  destruct e as [c0|k|r|a|g|a|g en|g v hr er|g|k|c0|c0|c0|c0 res|c0|c0]; try reflexivity.
  - destruct (nth_error (relacts s) a) as [x|]; [destruct (ra_pc x)|]; reflexivity.
  - exfalso. exact (H k eq_refl).
  - destruct (nth_error (conss s) c0) as [x|]; [destruct (ww_firepc x) as [[|]|]|]; reflexivity.
Qed.

(* no section puts a consumer into its Access callback *)
Lemma sect_into_cb s e i :
  (forall c, e <> EConsStep c) -> i < length (conss (step repaired s e)) -> ck (getc (step repaired s e) i) = CKAccess ->
  is_cb (cpcv (getc (step repaired s e) i)) = true ->
  i < length (conss s) /\ ck (getc s i) = CKAccess /\ is_cb (cpcv (getc s i)) = true /\ forall res, e <> ECbReturn i res.
Proof.
  intros Hne Hi Hk Hp.
  assert (Old : i < length (conss s) -> map ck (conss (step repaired s e)) = map ck (conss s) \/ (exists k, map ck (conss (step repaired s e)) = map ck (conss s) ++ [k]) ->
          i < length (conss s) /\ ck (getc s i) = CKAccess /\ is_cb (cpcv (getc s i)) = true /\ forall res, e <> ECbReturn i res).
  { intros Hl HV. assert (Ek : ck (getc (step repaired s e) i) = ck (getc s i)).
    { unfold getc. change CKWait with (ck cons0). rewrite <- !(map_nth ck). destruct HV as [->|[k ->]]; [reflexivity|].
      rewrite app_nth1 by (now rewrite map_length). reflexivity. }
    rewrite Ek in Hk. destruct (sect_pc s e i Hl Hk Hne) as [_ S2]. destruct (S2 Hp) as [A B]. auto. }
  assert (Cases : (forall k, e <> EStartCons k) \/ exists k, e = EStartCons k) by (destruct e; try (left; intros; discriminate); right; eauto).
  destruct Cases as [Hns|[k ->]].
  - pose proof (ck_step s e Hns) as V. apply Old; [|now left]. rewrite <- (map_length ck (conss s)), <- V, map_length. exact Hi.
  - (* a new consumer *)
    pose proof (f_equal v_ck (step_vw s (EStartCons k))) as V. cbn [v_ck vw_newcons vw] in V.
    destruct (Nat.lt_ge_cases i (length (conss s))) as [Hl|Hl]; [apply Old; [exact Hl | right; eauto]|].
    exfalso. assert (Ei : i = length (conss s)).
    { rewrite <- (map_length ck (conss (step repaired s (EStartCons k)))), V, app_length, map_length in Hi. cbn in Hi. lia. }
    subst i. cbn [step] in Hp. unfold start_consumer in Hp. set (s0 := set_conss s _) in Hp.
    assert (K0 : Qpc (length (conss s)) CBlocked (conss s0)).
    { unfold Qpc, s0. cbn [conss set_conss]. rewrite app_nth2 by lia. rewrite Nat.sub_diag. reflexivity. }
    match type of Hp with context [add_ref repaired s0 ?kk] => pose proof (Q_add_ref _ (invoke_Qpc (length (conss s)) CBlocked) s0 kk K0) as H1 end.
    unfold Qpc in H1. change (nth ?j (conss ?a) cons0) with (getc a j) in H1. rewrite H1 in Hp. discriminate.
Qed.

Record Racc (m : mst) (s : st) : Prop := {
  ra_acb : forall i, nth i (m_acb m) false = match ck (getc s i) with CKAccess => is_cb (cpcv (getc s i)) | _ => false end;
  ra_ainv : forall i, nth i (m_ainv m) false = true -> ck (getc s i) = CKAccess -> is_cb (cpcv (getc s i)) = true ->
                      ac_nonce (getc s i) <> ac_snap (getc s i);
}.

Lemma dec_not_cons_step h e e0 rets : dec h e e0 rets -> forall c, e0 <> EConsStep c.
Proof. intros Hd c. destruct Hd; discriminate. Qed.

Lemma dec_mine h e e0 rets i : dec h e e0 rets ->
  (match e with [13; c; _] => Nat.eqb (n2n c) i | _ => false end)%N = true <-> exists res, e0 = ECbReturn i res.
Proof.
  intros Hd. destruct Hd; try (split; [intros E; cbn in E; discriminate E | intros [rr E]; discriminate E]).
  split; [intros E; apply Nat.eqb_eq in E; subst i; eauto | intros [rr E]; inversion E; apply Nat.eqb_refl].
Qed.

Section Acc.
  Variables (m : mst) (h : hst) (e : list N) (e0 : ev) (rets : list N).
  Hypothesis HRh : HR h.
  Hypothesis HP : Rproj m h.
  Hypothesis Hd : dec h e e0 rets.
  Hypothesis HA : Racc m (hs h).
  Local Notation s := (hs h).
  Local Notation s1 := (step repaired (hs h) e0).
  Local Notation s' := (settle (step repaired (hs h) e0)).
  Local Notation p := (pobs_of rets (settle (step repaired (hs h) e0)) (hrel h)).

  Lemma len_s1 : length (conss s') = length (conss s1).
  Proof. rewrite <- (map_length ck (conss s')), <- (map_length ck (conss s1)). pose proof (f_equal v_ck (settle_vw s1)) as V. cbn [v_ck vw] in V. now rewrite V. Qed.
  Lemma ck_s1 i : ck (getc s' i) = ck (getc s1 i).
  Proof. apply (map_nth_getc ck s1 s' i). exact (f_equal v_ck (settle_vw s1)). Qed.

  (* a callback that this event started: fresh context, nothing notified since Access looked *)
  Lemma started_fresh i :
    i < length (conss s') -> ck (getc s' i) = CKAccess -> is_cb (cpcv (getc s' i)) = true ->
    (nth i (m_acb m) false = false \/ exists res, e0 = ECbReturn i res) ->
    ac_cbcanc (getc s' i) = false /\ ac_nonce (getc s' i) = ac_snap (getc s' i) /\ ac_wpark (getc s' i) = false.
  Proof.
    intros Hi Hk Hp Hs. rewrite len_s1 in Hi. rewrite ck_s1 in Hk.
    destruct (is_cb (cpcv (getc s1 i))) eqn:E1.
    2:{ destruct (settle_fresh_cb s1 i Hi Hk E1 Hp) as [A B]. split; [exact A|]. split; [exact B|].
        apply (settle_fresh_cb_wpark s1 i Hi E1). apply InvW_getc. exact (HR_W _ (HR_mid h e e0 rets HRh Hd)). }
    exfalso.
    destruct (sect_into_cb s e0 i (dec_not_cons_step h e e0 rets Hd) Hi Hk E1) as [Hl [Hk0 [Hp0 Hn]]].
    destruct Hs as [Hs|[res Hs]]; [|exact (Hn res Hs)]. rewrite (ra_acb m s HA i), Hk0, Hp0 in Hs. discriminate.
  Qed.

  (* a callback that was already running and has not returned in this event *)
  Lemma running_cb i :
    i < length (conss s') -> ck (getc s' i) = CKAccess -> is_cb (cpcv (getc s' i)) = true ->
    nth i (m_acb m) false = true -> (forall res, e0 <> ECbReturn i res) ->
    i < length (conss s) /\ ck (getc s i) = CKAccess /\ is_cb (cpcv (getc s i)) = true /\ cpcv (getc s' i) = cpcv (getc s i) /\
    ac_snap (getc s' i) = ac_snap (getc s i) /\
    ((acont (getc s' i) = acont (getc s i) /\ ac_nonce (getc s' i) = ac_nonce (getc s i)) \/ ac_nonce (getc s i) < ac_nonce (getc s' i)).
  Proof.
    intros Hi Hk Hp Hb Hn. pose proof (ra_acb m s HA i) as Eb. rewrite Hb in Eb.
    destruct (ck (getc s i)) eqn:Hk0; try discriminate Eb. symmetry in Eb.
    assert (Hl : i < length (conss s)).
    { destruct (Nat.lt_ge_cases i (length (conss s))) as [H|H]; [exact H|]. unfold getc in Hk0. rewrite nth_overflow in Hk0 by exact H. discriminate. }
    destruct (sect_pc s e0 i Hl Hk0 (dec_not_cons_step h e e0 rets Hd)) as [S1 _]. specialize (S1 Eb Hn).
    assert (Hi1 : i < length (conss s1)) by (now rewrite <- len_s1).
    assert (Hk1 : ck (getc s1 i) = CKAccess) by (now rewrite <- ck_s1).
    assert (Hp1 : is_cb (cpcv (getc s1 i)) = true) by (now rewrite S1).
    rewrite (settle_in_cb s1 i Hi1 Hk1 Hp1).
    pose proof (sect_QA i (ac_snap (getc s i)) (ac_nonce (getc s i)) (acont (getc s i)) s e0 Hl (dec_not_cons_step h e e0 rets Hd)) as Q.
    unfold QA in Q. change (nth i (conss ?a) cons0) with (getc a i) in Q. destruct Q as [Q1 Q2]; [split; [reflexivity | left; split; reflexivity]|].
    repeat split; auto.
  Qed.
End Acc.

(* ------------------------------------------------------------------ *)
(* the judge, piece by piece *)
Lemma fails_in0 pp c ok pc : In pc (fails pp c ok) -> pc = (pp, c).
Proof. unfold fails. destruct ok; [intros [] | intros [<-|[]]; reflexivity]. Qed.

Section JudgePieces.
  Variables (m : mst) (e : list N) (p : pobs).
  Definition j_mine (i : nat) : bool := (match e with [13; c; _] => Nat.eqb (n2n c) i | _ => false end)%N.
  Definition j_started (i : nat) (acb : bool) (code : N) : bool := N.eqb code 6 && (negb acb || j_mine i).
  Definition j_inv (i : nat) (acb ainv : bool) (code : N) : bool :=
    if j_started i acb code then false else ainv || (acb && match u_lost m e p with Some _ => true | None => false end).
  Definition j_c4 (i : nat) (acb : bool) (code v : N) : list (nat * nat) :=
    fails 10 4 (negb (j_started i acb code) || match u_cur m e p with Some (g, e0) => N.eqb e0 0 && N.eqb v (u_vofe m e g) | None => false end).
  Definition j_c5 (i : nat) (acb ainv : bool) (code hh fp : N) : list (nat * nat) :=
    fails 10 5 (negb (N.eqb code 6 && j_inv i acb ainv code && negb (N.eqb fp 1)) || nz hh).

  Lemma judge_shape i acb acanc ainv ccb adec k r ccn code v e1 hh f1 f2 :
    exists adec' rest,
      (u_judge m e p (i, ((acb, acanc, ainv, ccb, adec), ((k, r), (ccn, (code, v, e1, hh, f1, f2))))) =
       if negb (N.eqb k 2) then (false, false, false, None, [])
       else (N.eqb code 6, N.eqb code 6 && nz hh, j_inv i acb ainv code, adec', (j_c4 i acb code v ++ j_c5 i acb ainv code hh f2 ++ rest)%list)) /\
      forall pc, In pc rest -> pc = (10, 6) \/ pc = (10, 7).
  Proof.
    unfold u_judge. destruct (negb (N.eqb k 2)); [exists None, []; split; [reflexivity | intros pc []]|].
    eexists _, _. split; [reflexivity|]. intros pc H.
    repeat (apply in_app_or in H; destruct H as [H|H]); apply fails_in0 in H; subst pc; auto.
  Qed.
End JudgePieces.
