(* refcount: the monitors tied to the model, part 16: the Access books "inside the callback" / "invalidated since the
   invocation started", and the clauses 10.4 (the callback is invoked with the current value) and 10.5 (an invalidated
   invocation's context is cancelled). *)
From Util Require Import Common.Base Common.ListLemmas RefCount.Model RefCount.Spec RefCount.Proofs RefCount.ProofsC08 RefCount.ProofsC08b
  RefCount.ProofsC09 RefCount.ProofsC10 RefCount.ProofsC10a RefCount.ProofsC10b RefCount.ProofsCodec RefCount.ProofsMon RefCount.ProofsMon2 RefCount.ProofsMon3
  RefCount.ProofsMon4 RefCount.ProofsMon5 RefCount.ProofsMon6 RefCount.ProofsMon7 RefCount.ProofsMonG RefCount.ProofsMon8 RefCount.ProofsMon9 RefCount.ProofsMon10
  RefCount.ProofsMon11 RefCount.ProofsMon12 RefCount.ProofsMon13 RefCount.ProofsMon14 RefCount.ProofsMon15.
Open Scope nat_scope.

Lemma HR_mirror h i : HR h -> i < length (conss (hs h)) -> ck (getc (hs h) i) = CKAccess -> attached_pc (cpcv (getc (hs h) i)) = true ->
  mirror_ok (hs h) (getc (hs h) i).
Proof. intros [[k [es [-> _]]] _] Hi Hk Hp. exact (access_mirror k es i _ (nth_error_getc _ i Hi) Hk Hp). Qed.

Lemma HR_cur_val h i v : HR h -> i < length (conss (hs h)) -> ck (getc (hs h) i) = CKAccess -> cpcv (getc (hs h) i) = CAccCb v ->
  ac_cbcanc (getc (hs h) i) = false -> resolved (hs h) = true /\ value (hs h) = v /\ verr (hs h) = 0.
Proof.
  intros [[k [es [-> _]]] _] Hi Hk Hp Hc. destruct (access_called_with_current_value k es i _ v (nth_error_getc _ i Hi) Hk Hp Hc) as [A [B [C _]]]. auto.
Qed.

Lemma HR_acc_ok h i : HR h -> acc_ok (getc (hs h) i).
Proof. intros H. apply InvK_getc. now apply HR_K. Qed.

Lemma ck_step s e : (forall k, e <> EStartCons k) -> map ck (conss (step repaired s e)) = map ck (conss s).
Proof.
  intros H. pose proof (f_equal v_ck (step_vw s e)) as V. cbn [v_ck vw] in V. rewrite V.
  destruct e as [c0|k|r|a|g|a|g en|g v hr er|g|k|c0|c0|c0|c0 res|c0]; try reflexivity.
  - destruct (nth_error (relacts s) a) as [x|]; [destruct (ra_pc x)|]; reflexivity.
  - exfalso. exact (H k eq_refl).
  - destruct (nth_error (conss s) c0) as [x|]; [destruct (ww_firepc x) as [[|]|]|]; reflexivity.
Qed.

(* no section puts a consumer into its Access callback *)
Lemma sect_into_cb s e i :
  (forall c, e <> EConsStep c) -> i < length (conss (step repaired s e)) -> ck (getc (step repaired s e) i) = CKAccess ->
  is_cb (cpcv (getc (step repaired s e) i)) = true ->
  i < length (conss s) /\ ck (getc s i) = CKAccess /\ is_cb (cpcv (getc s i)) = true /\ forall res, e <> ECbReturn i res.
Proof.
  intros Hne Hi Hk Hp.
  assert (Old : i < length (conss s) -> map ck (conss (step repaired s e)) = map ck (conss s) \/ (exists k, map ck (conss (step repaired s e)) = map ck (conss s) ++ [k]) ->
          i < length (conss s) /\ ck (getc s i) = CKAccess /\ is_cb (cpcv (getc s i)) = true /\ forall res, e <> ECbReturn i res).
  { intros Hl HV. assert (Ek : ck (getc (step repaired s e) i) = ck (getc s i)).
    { unfold getc. change CKWait with (ck cons0). rewrite <- !(map_nth ck). destruct HV as [->|[k ->]]; [reflexivity|].
      rewrite app_nth1 by (now rewrite map_length). reflexivity. }
    rewrite Ek in Hk. destruct (sect_pc s e i Hl Hk Hne) as [_ S2]. destruct (S2 Hp) as [A B]. auto. }
  assert (Cases : (forall k, e <> EStartCons k) \/ exists k, e = EStartCons k) by (destruct e; try (left; intros; discriminate); right; eauto).
  destruct Cases as [Hns|[k ->]].
  - pose proof (ck_step s e Hns) as V. apply Old; [|now left]. rewrite <- (map_length ck (conss s)), <- V, map_length. exact Hi.
  - (* a new consumer *)
    pose proof (f_equal v_ck (step_vw s (EStartCons k))) as V. cbn [v_ck vw_newcons vw] in V.
    destruct (Nat.lt_ge_cases i (length (conss s))) as [Hl|Hl]; [apply Old; [exact Hl | right; eauto]|].
    exfalso. assert (Ei : i = length (conss s)).
    { rewrite <- (map_length ck (conss (step repaired s (EStartCons k)))), V, app_length, map_length in Hi. cbn in Hi. lia. }
    subst i. cbn [step] in Hp. unfold start_consumer in Hp. set (s0 := set_conss s _) in Hp.
    assert (K0 : Qpc (length (conss s)) CBlocked (conss s0)).
    { unfold Qpc, s0. cbn [conss set_conss]. rewrite app_nth2 by lia. rewrite Nat.sub_diag. reflexivity. }
    match type of Hp with context [add_ref repaired s0 ?kk] => pose proof (Q_add_ref _ (invoke_Qpc (length (conss s)) CBlocked) s0 kk K0) as H1 end.
    unfold Qpc in H1. change (nth ?j (conss ?a) cons0) with (getc a j) in H1. rewrite H1 in Hp. discriminate.
Qed.

Record Racc (m : mst) (s : st) : Prop := {
  ra_acb : forall i, nth i (m_acb m) false = match ck (getc s i) with CKAccess => is_cb (cpcv (getc s i)) | _ => false end;
  ra_ainv : forall i, nth i (m_ainv m) false = true -> ck (getc s i) = CKAccess -> is_cb (cpcv (getc s i)) = true ->
                      ac_nonce (getc s i) <> ac_snap (getc s i);
}.

Lemma dec_not_cons_step h e e0 rets : dec h e e0 rets -> forall c, e0 <> EConsStep c.
Proof. intros Hd c. destruct Hd; discriminate. Qed.

Lemma dec_mine h e e0 rets i : dec h e e0 rets ->
  (match e with [13; c; _] => Nat.eqb (n2n c) i | _ => false end)%N = true <-> exists res, e0 = ECbReturn i res.
Proof.
  intros Hd. destruct Hd; try (split; [intros E; cbn in E; discriminate E | intros [rr E]; discriminate E]).
  split; [intros E; apply Nat.eqb_eq in E; subst i; eauto | intros [rr E]; inversion E; apply Nat.eqb_refl].
Qed.

Section Acc.
  Variables (m : mst) (h : hst) (e : list N) (e0 : ev) (rets : list N).
  Hypothesis HRh : HR h.
  Hypothesis HP : Rproj m h.
  Hypothesis Hd : dec h e e0 rets.
  Hypothesis HA : Racc m (hs h).
  Local Notation s := (hs h).
  Local Notation s1 := (step repaired (hs h) e0).
  Local Notation s' := (settle (step repaired (hs h) e0)).
  Local Notation p := (pobs_of rets (settle (step repaired (hs h) e0)) (hrel h)).

  Lemma len_s1 : length (conss s') = length (conss s1).
  Proof. rewrite <- (map_length ck (conss s')), <- (map_length ck (conss s1)). pose proof (f_equal v_ck (settle_vw s1)) as V. cbn [v_ck vw] in V. now rewrite V. Qed.
  Lemma ck_s1 i : ck (getc s' i) = ck (getc s1 i).
  Proof. apply (map_nth_getc ck s1 s' i). exact (f_equal v_ck (settle_vw s1)). Qed.

  (* a callback that this event started: fresh context, nothing notified since Access looked *)
  Lemma started_fresh i :
    i < length (conss s') -> ck (getc s' i) = CKAccess -> is_cb (cpcv (getc s' i)) = true ->
    (nth i (m_acb m) false = false \/ exists res, e0 = ECbReturn i res) ->
    ac_cbcanc (getc s' i) = false /\ ac_nonce (getc s' i) = ac_snap (getc s' i).
  Proof.
    intros Hi Hk Hp Hs. rewrite len_s1 in Hi. rewrite ck_s1 in Hk.
    destruct (is_cb (cpcv (getc s1 i))) eqn:E1; [exfalso | now apply settle_fresh_cb].
    destruct (sect_into_cb s e0 i (dec_not_cons_step h e e0 rets Hd) Hi Hk E1) as [Hl [Hk0 [Hp0 Hn]]].
    destruct Hs as [Hs|[res Hs]]; [|exact (Hn res Hs)]. rewrite (ra_acb m s HA i), Hk0, Hp0 in Hs. discriminate.
  Qed.

  (* a callback that was already running and has not returned in this event *)
  Lemma running_cb i :
    i < length (conss s') -> ck (getc s' i) = CKAccess -> is_cb (cpcv (getc s' i)) = true ->
    nth i (m_acb m) false = true -> (forall res, e0 <> ECbReturn i res) ->
    i < length (conss s) /\ ck (getc s i) = CKAccess /\ is_cb (cpcv (getc s i)) = true /\ cpcv (getc s' i) = cpcv (getc s i) /\
    ac_snap (getc s' i) = ac_snap (getc s i) /\
    ((acont (getc s' i) = acont (getc s i) /\ ac_nonce (getc s' i) = ac_nonce (getc s i)) \/ ac_nonce (getc s i) < ac_nonce (getc s' i)).
  Proof.
    intros Hi Hk Hp Hb Hn. pose proof (ra_acb m s HA i) as Eb. rewrite Hb in Eb.
    destruct (ck (getc s i)) eqn:Hk0; try discriminate Eb. symmetry in Eb.
    assert (Hl : i < length (conss s)).
    { destruct (Nat.lt_ge_cases i (length (conss s))) as [H|H]; [exact H|]. unfold getc in Hk0. rewrite nth_overflow in Hk0 by exact H. discriminate. }
    destruct (sect_pc s e0 i Hl Hk0 (dec_not_cons_step h e e0 rets Hd)) as [S1 _]. specialize (S1 Eb Hn).
    assert (Hi1 : i < length (conss s1)) by (now rewrite <- len_s1).
    assert (Hk1 : ck (getc s1 i) = CKAccess) by (now rewrite <- ck_s1).
    assert (Hp1 : is_cb (cpcv (getc s1 i)) = true) by (now rewrite S1).
    rewrite (settle_in_cb s1 i Hi1 Hk1 Hp1).
    pose proof (sect_QA i (ac_snap (getc s i)) (ac_nonce (getc s i)) (acont (getc s i)) s e0 Hl (dec_not_cons_step h e e0 rets Hd)) as Q.
    unfold QA in Q. change (nth i (conss ?a) cons0) with (getc a i) in Q. destruct Q as [Q1 Q2]; [split; [reflexivity | left; split; reflexivity]|].
    repeat split; auto.
  Qed.
End Acc.

(* ------------------------------------------------------------------ *)
(* the judge, piece by piece *)
Lemma fails_in0 pp c ok pc : In pc (fails pp c ok) -> pc = (pp, c).
Proof. unfold fails. destruct ok; [intros [] | intros [<-|[]]; reflexivity]. Qed.

Section JudgePieces.
  Variables (m : mst) (e : list N) (p : pobs).
  Definition j_mine (i : nat) : bool := (match e with [13; c; _] => Nat.eqb (n2n c) i | _ => false end)%N.
  Definition j_started (i : nat) (acb : bool) (code : N) : bool := N.eqb code 6 && (negb acb || j_mine i).
  Definition j_inv (i : nat) (acb ainv : bool) (code : N) : bool :=
    if j_started i acb code then false else ainv || (acb && match u_lost m e p with Some _ => true | None => false end).
  Definition j_c4 (i : nat) (acb : bool) (code v : N) : list (nat * nat) :=
    fails 10 4 (negb (j_started i acb code) || match u_cur m e p with Some (g, e0) => N.eqb e0 0 && N.eqb v (u_vof m g) | None => false end).
  Definition j_c5 (i : nat) (acb ainv : bool) (code hh : N) : list (nat * nat) :=
    fails 10 5 (negb (N.eqb code 6 && j_inv i acb ainv code) || nz hh).

  Lemma judge_shape i acb acanc ainv ccb adec k r ccn code v e1 hh f1 f2 :
    exists adec' rest,
      (u_judge m e p (i, ((acb, acanc, ainv, ccb, adec), ((k, r), (ccn, (code, v, e1, hh, f1, f2))))) =
       if negb (N.eqb k 2) then (false, false, false, None, [])
       else (N.eqb code 6, N.eqb code 6 && nz hh, j_inv i acb ainv code, adec', (j_c4 i acb code v ++ j_c5 i acb ainv code hh ++ rest)%list)) /\
      forall pc, In pc rest -> pc = (10, 6) \/ pc = (10, 7).
  Proof.
    unfold u_judge. destruct (negb (N.eqb k 2)); [exists None, []; split; [reflexivity | intros pc []]|].
    eexists _, _. split; [reflexivity|]. intros pc H.
    repeat (apply in_app_or in H; destruct H as [H|H]); apply fails_in0 in H; subst pc; auto.
  Qed.
End JudgePieces.

Section AccClauses.
  Variables (m : mst) (h : hst) (e : list N) (e0 : ev) (rets : list N).
  Hypothesis HRh : HR h.
  Hypothesis HP : Rproj m h.
  Hypothesis Hd : dec h e e0 rets.
  Hypothesis Hc : hconst h = false.
  Hypothesis Hcur : m_cur m = cur_of (hs h).
  Hypothesis HA : Racc m (hs h).
  Local Notation s := (hs h).
  Local Notation s1 := (step repaired (hs h) e0).
  Local Notation s' := (settle (step repaired (hs h) e0)).
  Local Notation p := (pobs_of rets (settle (step repaired (hs h) e0)) (hrel h)).
  Local Notation h' := {| hs := settle (step repaired (hs h) e0); hrel := length (rellog (settle (step repaired (hs h) e0))); hconst := hconst h |}.

  Lemma lost_resolved g : u_lost m e p = Some g -> resolved s = true.
  Proof.
    unfold u_lost, u_lost0. rewrite Hcur. unfold cur_of at 1 2. destruct (resolved s); [reflexivity|]. destruct Hd; discriminate.
  Qed.

  Lemma acc_row i : i < length (conss s') -> ck (getc s' i) = CKAccess ->
    forall code v e1 hh f1 f2, ccode6 (getc s' i) = (code, v, e1, hh, f1, f2) ->
    N.eqb code 6 = is_cb (cpcv (getc s' i)) /\
    j_c4 m e p i (nth i (m_acb m) false) code v = [] /\
    j_c5 m e p i (nth i (m_acb m) false) (nth i (m_ainv m) false) code hh = [] /\
    (j_inv m e p i (nth i (m_acb m) false) (nth i (m_ainv m) false) code = true -> is_cb (cpcv (getc s' i)) = true ->
     ac_nonce (getc s' i) <> ac_snap (getc s' i)).
  Proof.
    intros Hi Hk code v e1 hh f1 f2 Ec. unfold ccode6 in Ec.
    pose proof (HRh' h e e0 rets HRh Hd) as HR'.
    assert (NotCb : is_cb (cpcv (getc s' i)) = false -> N.eqb code 6 = false ->
              N.eqb code 6 = is_cb (cpcv (getc s' i)) /\ j_c4 m e p i (nth i (m_acb m) false) code v = [] /\
              j_c5 m e p i (nth i (m_acb m) false) (nth i (m_ainv m) false) code hh = [] /\
              (j_inv m e p i (nth i (m_acb m) false) (nth i (m_ainv m) false) code = true -> is_cb (cpcv (getc s' i)) = true ->
               ac_nonce (getc s' i) <> ac_snap (getc s' i))).
    { intros E1 E2. unfold j_c4, j_c5, j_started. rewrite E1, E2. cbn [andb negb orb fails]. repeat split; auto. intros _ H. discriminate H. }
    destruct (cpcv (getc s' i)) as [| |v1 e2 h1|v0| |code0] eqn:Ep; inversion Ec; subst; try (apply NotCb; reflexivity).
    (* inside the callback *)
    clear NotCb. split; [reflexivity|]. unfold j_c4, j_c5, j_inv, j_started. cbn [N.eqb Pos.eqb andb is_cb].
    pose proof (dec_mine h e e0 rets i Hd) as Mine. fold (j_mine e i) in Mine.
    destruct (negb (nth i (m_acb m) false) || j_mine e i) eqn:St.
    - (* a fresh invocation *)
      assert (Hs : nth i (m_acb m) false = false \/ exists res, e0 = ECbReturn i res).
      { apply orb_true_iff in St. destruct St as [St|St]; [left; now apply negb_true_iff | right; now apply Mine]. }
      destruct (started_fresh m h e e0 rets Hd HA i Hi Hk ltac:(now rewrite Ep) Hs) as [Fc Fn].
      destruct (HR_cur_val h' i v0 HR' Hi Hk Ep Fc) as [Er [Ev Ee]]. cbn [hs] in Er, Ev, Ee.
      rewrite (upd_cur m h e e0 rets HRh HP Hd Hc Hcur). unfold cur_of. rewrite Er, Ee. unfold u_vof. rewrite (rp_const m h HP), Hc.
      pose proof (HR_inv h' HR' Hc) as [[_ [_ [_ [_ [[V1 _] _]]]]] _]. cbn [hs] in V1. destruct (V1 Er) as [[Hv|[_ Hv]] _]; [|congruence].
      rewrite <- Ev, Hv, nn_S, !N.eqb_refl. cbn [negb orb andb fails]. repeat split; auto. intros H; discriminate H.
    - (* the invocation was running before this event and has not returned *)
      apply orb_false_iff in St. destruct St as [Sa Sm]. apply negb_false_iff in Sa.
      assert (Hn : forall res, e0 <> ECbReturn i res).
      { intros res E. assert (T : j_mine e i = true) by (apply Mine; eauto). congruence. }
      destruct (running_cb m h e e0 rets Hd HA i Hi Hk ltac:(now rewrite Ep) Sa Hn) as [Hl [Hk0 [Hp0 [_ [Esn Enon]]]]].
      cbn [negb orb fails]. split; [reflexivity|].
      assert (Moved : (nth i (m_ainv m) false || (nth i (m_acb m) false && match u_lost m e p with Some _ => true | None => false end)) = true ->
                      ac_nonce (getc s' i) <> ac_snap (getc s' i)).
      { intros Hinv. pose proof (HR_acc_ok h i HRh) as [K0 _]. apply orb_true_iff in Hinv. destruct Hinv as [Hinv|Hinv].
        - pose proof (ra_ainv m s HA i Hinv Hk0 Hp0) as Hne. destruct Enon as [[_ E]|E]; lia.
        - apply andb_true_iff in Hinv. destruct Hinv as [_ Hl0]. destruct (u_lost m e p) as [g|] eqn:El; [|discriminate].
          pose proof (lost_resolved g El) as Er0. pose proof (lost_unresolved m h e e0 rets HRh HP Hd Hc Hcur g El) as Er1.
          assert (At0 : attached_pc (cpcv (getc s i)) = true) by (destruct (cpcv (getc s i)); try discriminate Hp0; reflexivity).
          destruct (HR_mirror h i HRh Hl Hk0 At0) as [M0 _]. destruct (HR_mirror h' i HR' Hi Hk ltac:(cbn [hs]; now rewrite Ep)) as [M1 _]. cbn [hs] in M1.
          destruct Enon as [[Ea _]|E]; [|lia]. unfold acont in Ea. inversion Ea. congruence. }
      split.
      + destruct (nth i (m_ainv m) false || _) eqn:Hinv; [|reflexivity]. specialize (Moved eq_refl).
        pose proof (HR_acc_ok h' i HR') as [_ K1]. cbn [hs] in K1. rewrite Ep in K1. destruct K1 as [K1 _].
        destruct (ac_cbcanc (getc s' i)) eqn:Ecb; [reflexivity | exfalso; exact (Moved (K1 eq_refl))].
      + intros Hinv _. exact (Moved Hinv).
  Qed.

  (* no Access row fails clause 10.4 or 10.5 *)
  Lemma clauses_10_4_5 pc : In pc (u_facc m e p) -> pc <> (10, 4) /\ pc <> (10, 5).
  Proof.
    unfold u_facc, u_judged. intros H. apply in_concat in H. destruct H as [l [Hl Hin]]. apply in_map_iff in Hl. destruct Hl as [j [<- Hj]].
    apply in_map_iff in Hj. destruct Hj as [row [<- Hrow]]. destruct (rows_in m h e e0 rets HP Hd row Hrow) as [i [Hi ->]].
    unfold row_of in Hin. destruct (ccode6 (getc s' i)) as [[[[[code v] e1] hh] f1] f2] eqn:Ec.
    destruct (judge_shape m e p i (nth i (m_acb m) false) (nth i (m_acanc m) false) (nth i (m_ainv m) false) (nth i (m_ccanc m) false)
                (nth i (m_adec m) None) (ckcode (ck (getc s' i))) (cref (getc s' i)) (ccanc (getc s' i)) code v e1 hh f1 f2) as [adec' [rest [Ej Hrest]]].
    rewrite Ej in Hin. destruct (ck (getc s' i)) eqn:Hk; cbn [ckcode N.eqb Pos.eqb negb] in Hin; try (destruct Hin).
    destruct (acc_row i Hi Hk code v e1 hh f1 f2 Ec) as [_ [C4 [C5 _]]]. rewrite C4, C5 in Hin. cbn [app] in Hin.
    destruct (Hrest pc Hin) as [->| ->]; split; discriminate.
  Qed.

  Lemma upd_acc : Racc (u_mst m e p) s'.
  Proof.
    constructor; cbn [m_acb m_ainv u_mst].
    - intros i. destruct (Nat.lt_ge_cases i (length (conss s'))) as [Hi|Hi].
      + rewrite (nth_error_nth_d _ _ false _ (nth_error_map_some _ _ _ _ (judged_nth m h e e0 rets HP Hd i Hi))). unfold row_of.
        destruct (ccode6 (getc s' i)) as [[[[[code v] e1] hh] f1] f2] eqn:Ec.
        destruct (judge_shape m e p i (nth i (m_acb m) false) (nth i (m_acanc m) false) (nth i (m_ainv m) false) (nth i (m_ccanc m) false)
                    (nth i (m_adec m) None) (ckcode (ck (getc s' i))) (cref (getc s' i)) (ccanc (getc s' i)) code v e1 hh f1 f2) as [adec' [rest [Ej _]]].
        rewrite Ej. destruct (ck (getc s' i)) eqn:Hk; cbn [ckcode N.eqb Pos.eqb negb]; try reflexivity.
        apply (acc_row i Hi Hk code v e1 hh f1 f2 Ec).
      + rewrite nth_overflow by (rewrite map_length, (judged_len m h e e0 rets HP Hd); exact Hi). unfold getc. now rewrite nth_overflow.
    - intros i Hinv Hk Hp.
      assert (Hi : i < length (conss s')).
      { destruct (Nat.lt_ge_cases i (length (conss s'))) as [H|H]; [exact H|]. unfold getc in Hk. rewrite nth_overflow in Hk by exact H. discriminate. }
      rewrite (nth_error_nth_d _ _ false _ (nth_error_map_some _ _ _ _ (judged_nth m h e e0 rets HP Hd i Hi))) in Hinv. unfold row_of in Hinv.
      destruct (ccode6 (getc s' i)) as [[[[[code v] e1] hh] f1] f2] eqn:Ec.
      destruct (judge_shape m e p i (nth i (m_acb m) false) (nth i (m_acanc m) false) (nth i (m_ainv m) false) (nth i (m_ccanc m) false)
                  (nth i (m_adec m) None) (ckcode (ck (getc s' i))) (cref (getc s' i)) (ccanc (getc s' i)) code v e1 hh f1 f2) as [adec' [rest [Ej _]]].
      rewrite Ej, Hk in Hinv. cbn [ckcode N.eqb Pos.eqb negb] in Hinv.
      destruct (acc_row i Hi Hk code v e1 hh f1 f2 Ec) as [_ [_ [_ R4]]]. exact (R4 Hinv Hp).
  Qed.
End AccClauses.
